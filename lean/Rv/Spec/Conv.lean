/-
Specification side of C16 for the *scalar conversions*: what AsBool, AsInt64, AsUint64,
AsFloat64, ToString/AsBytes, ToInt64, ToBool, ToFloat64 and the element conversions of
AsStrSlice / AsIntSlice / AsFloatSlice / AsBoolSlice must return for a reply, written from
the property statement and the documented conversion rules of message.go — by the KIND of
the reply and its content, not by following the code's control flow:

  null                -> the Nil error               error reply -> RedisError(text minus "ERR ")
  integer  -> bool    : n ≠ 0                        boolean -> bool : the boolean
  string   -> bool    : text = "OK"                  string -> int  : the decimal value of the text
  integer  -> uint64  : n mod 2^64                   double/string -> float : the text handed to strconv

This file deliberately does not use any accessor of Rv/Model/Accessors*.lean (only the
shared vocabulary: `Bytes`, `F`, `FP`, the error-class texts). `Rv.C16.model_conv_eq_spec`
proves that the model of the code agrees with it; the harness's `!conv` lines compare the
REAL code with it. Hand-written; trusted. Core Lean only.
-/
import Rv.Model.Accessors
namespace Rv.Conv
open Rv
open Rv.Acc (Bytes F FP eParse eNil eRedis eFloat)

/-! ### kinds of replies (by RESP type byte) -/
def isStrK (m : Msg) : Prop := m.typ = 36 ∨ m.typ = 43          -- `$` `+`
def isIntK (m : Msg) : Prop := m.typ = 58                        -- `:`
def isDblK (m : Msg) : Prop := m.typ = 44                        -- `,`
def isBoolK (m : Msg) : Prop := m.typ = 35                       -- `#`
def isNullK (m : Msg) : Prop := m.typ = 95                       -- `_`
def isErrK (m : Msg) : Prop := m.typ = 45 ∨ m.typ = 33          -- `-` `!`
def isAggK (m : Msg) : Prop := m.typ = 42 ∨ m.typ = 37 ∨ m.typ = 126 ∨ m.typ = 62 ∨ m.typ = 124  -- `* % ~ > |`
instance (m : Msg) : Decidable (isStrK m) := by unfold isStrK; exact inferInstance
instance (m : Msg) : Decidable (isIntK m) := by unfold isIntK; exact inferInstance
instance (m : Msg) : Decidable (isDblK m) := by unfold isDblK; exact inferInstance
instance (m : Msg) : Decidable (isBoolK m) := by unfold isBoolK; exact inferInstance
instance (m : Msg) : Decidable (isNullK m) := by unfold isNullK; exact inferInstance
instance (m : Msg) : Decidable (isErrK m) := by unfold isErrK; exact inferInstance
instance (m : Msg) : Decidable (isAggK m) := by unfold isAggK; exact inferInstance

/-- replies in the decoder's range: only aggregates have children; integers, booleans and
    nulls carry no text; the length field of a text reply is the length of its text -/
structure InRange (m : Msg) : Prop where
  kids : ¬ isAggK m → m.arr = []
  intNoText : isIntK m ∨ isBoolK m ∨ isNullK m → m.str = []
  nullZero : isNullK m → m.int = 0
  textLen : ¬ isIntK m → ¬ isBoolK m → ¬ isAggK m → m.str = [] → m.int = 0

/-- the numeric-conversion error class (strconv syntax / range; the property does not say which) -/
def eNum : String := "num"

/-- "ERR " is not part of the error text -/
def stripErr (s : Bytes) : Bytes :=
  match s with
  | 69 :: 82 :: 82 :: 32 :: r => r
  | _ => s

/-- what every conversion answers to a null or an error reply -/
def replyError (m : Msg) : Option String :=
  if isNullK m then some eNil
  else if isErrK m then some (eRedis (stripErr m.str))
  else none

/-! ### decimal texts -/
def isDigit (c : UInt8) : Prop := 48 ≤ c ∧ c ≤ 57
instance (c : UInt8) : Decidable (isDigit c) := by unfold isDigit; exact inferInstance

/-- value of a digit string appended to the value `n` read so far; `none` on a non-digit -/
def decFold : Bytes → Nat → Option Nat
  | [], n => some n
  | c :: cs, n => if isDigit c then decFold cs (n * 10 + (c.toNat - 48)) else none

/-- a non-empty string of decimal digits denotes its value -/
def decNat (s : Bytes) : Option Nat := if s = [] then none else decFold s 0

/-- a decimal uint64 -/
def decUint64 (s : Bytes) : Option Nat :=
  match decNat s with
  | some v => if v < 18446744073709551616 then some v else none
  | none => none

/-- apply a sign to a magnitude, within int64 -/
def signed (neg : Bool) : Option Nat → Option Int
  | some v =>
    if neg then (if v ≤ 9223372036854775808 then some (-(v : Int)) else none)
    else (if v < 9223372036854775808 then some (v : Int) else none)
  | none => none

/-- an optionally signed decimal int64 -/
def decInt64 (s : Bytes) : Option Int :=
  match s with
  | 43 :: r => signed false (decNat r)
  | 45 :: r => signed true (decNat r)
  | _ => signed false (decNat s)

def numOf {α} : Option α → Res α
  | some v => .ok v
  | none => .err eNum

/-- `util.ToFloat64`: strconv.ParseFloat, plus "-nan" -/
def floatOf (fp : FP) (s : Bytes) : Res F :=
  if fp.ok s = true then .ok (.str s) else if s = [45, 110, 97, 110] then .ok .nan else .err eFloat

/-! ### the conversions -/

/-- the text of a reply for the string-like conversions: strings, doubles, verbatim strings and
    big numbers carry their text, a boolean carries none; integers and aggregates are not text -/
def specToString (m : Msg) : Res Bytes :=
  match replyError m with
  | some e => .err e
  | none => if isIntK m ∨ isAggK m then .err eParse else .ok m.str

def specAsBool (m : Msg) : Res Bool :=
  match replyError m with
  | some e => .err e
  | none =>
    if isStrK m then .ok (decide (m.str = [79, 75]))       -- "OK"
    else if isIntK m then .ok (decide (m.int ≠ 0))          -- integer: non-zero is true
    else if isBoolK m then .ok (decide (m.int = 1))         -- boolean: #t
    else .err eParse

def specToBool (m : Msg) : Res Bool :=
  if isBoolK m then .ok (decide (m.int = 1))
  else match replyError m with
    | some e => .err e
    | none => .err eParse

def specToInt64 (m : Msg) : Res Int :=
  if isIntK m then .ok m.int
  else match replyError m with
    | some e => .err e
    | none => .err eParse

def specToFloat64 (fp : FP) (m : Msg) : Res F :=
  if isDblK m then floatOf fp m.str
  else match replyError m with
    | some e => .err e
    | none => .err eParse

def specAsInt64 (m : Msg) : Res Int :=
  if isIntK m then .ok m.int
  else match specToString m with
    | .ok s => numOf (decInt64 s)
    | .err e => .err e
    | r => .err "unreachable"

def specAsUint64 (m : Msg) : Res Nat :=
  if isIntK m then .ok (m.int % 18446744073709551616).toNat
  else match specToString m with
    | .ok s => numOf (decUint64 s)
    | .err e => .err e
    | r => .err "unreachable"

def specAsFloat64 (fp : FP) (m : Msg) : Res F :=
  match specToString m with
  | .ok s => floatOf fp s
  | .err e => .err e
  | r => .err "unreachable"

/-! ### slices: an array or set of scalars, element by element, order kept -/
def sliceOf {α} (elem : Msg → Res α) (m : Msg) : Res (List α) :=
  if m.typ = 42 ∨ m.typ = 126 then
    m.arr.foldr (fun v acc =>
      match elem v, acc with
      | .ok x, .ok xs => .ok (x :: xs)
      | .ok _, r => r
      | .err e, _ => .err e
      | _, _ => .err "unreachable") (.ok [])
  else match replyError m with
    | some e => .err e
    | none => .err eParse

/-- element text: whatever text the element carries -/
def elemStr (v : Msg) : Res Bytes := .ok v.str

/-- element as integer: a text is read as a decimal int64, an integer is itself, a boolean is
    0/1, anything without text is 0 -/
def elemInt (v : Msg) : Res Int :=
  if v.str ≠ [] then numOf (decInt64 v.str)
  else if isIntK v ∨ isBoolK v then .ok v.int
  else .ok 0

def elemFloat (fp : FP) (v : Msg) : Res F :=
  if v.str ≠ [] then floatOf fp v.str
  else if isIntK v ∨ isBoolK v then .ok (.int v.int)
  else .ok (.int 0)

/-- element as boolean: the scalar rule, anything else (null, error, double, …) is false -/
def elemBool (v : Msg) : Res Bool :=
  match specAsBool v with
  | .ok b => .ok b
  | _ => .ok false

def specAsStrSlice (m : Msg) : Res (List Bytes) := sliceOf elemStr m
def specAsIntSlice (m : Msg) : Res (List Int) := sliceOf elemInt m
def specAsFloatSlice (fp : FP) (m : Msg) : Res (List F) := sliceOf (elemFloat fp) m
def specAsBoolSlice (m : Msg) : Res (List Bool) := sliceOf elemBool m

end Rv.Conv
