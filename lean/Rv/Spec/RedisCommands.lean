/-
ORACLE for C32 — hand-written, TRUSTED transcription of the Redis command reference
(redis.io/commands: the `readonly` / `blocking` / `pubsub` command flags of COMMAND INFO,
and the module references of RedisJSON, RedisBloom, RedisTimeSeries, RediSearch,
RedisGraph, RedisAI). It is deliberately written *without* looking at
hack/cmds/gen.go's lists: it contains every command I know to be a side-effect-free read,
whether or not the builders mark it read-only (e.g. SUBSTR, HTTL, TS.MGET, VSIM, FT.INFO
are here although the builders do not mark them).

"Side-effect free" means: no change of the keyspace, of a key's value or expiry, of server
configuration, or of another client's state; repeating the command or sending it to a
replica is harmless. Commands that only touch access-time/cache bookkeeping keep the
`readonly` flag in Redis itself (TOUCH, OBJECT FREQ; PFCOUNT may refresh the cached
cardinality inside the HLL encoding but never its logical value) and are listed.

A command is named by its tokens joined with one space ("OBJECT ENCODING"). Because string
processing is very slow in the Lean kernel, every name is written `nm! "NAME"`, which the
parser replaces by the number `Rv.Bld.code "NAME"` (the name's bytes in base 256); the
regenerated tables carry the same number for every root constructor (`Cmd.nm`).

The rows for the array commands (AR*) are NOT hand-written: hack/cmds/commands_array.json
carries Redis' own `command_flags`, so they are regenerated (Rv.Gen.Classify.jsonFlags)
and consulted by `isRead`. Core Lean only.
-/
import Rv.Gen.Classify
import Rv.Model.BuilderRec
namespace Rv.Spec.RedisCommands
open Rv.Bld (code)

/-- side-effect-free reads (hand-written part) -/
def handReads : List Nat := [
  -- strings / bitmaps
  nm! "GET", nm! "GETRANGE", nm! "SUBSTR", nm! "STRLEN", nm! "MGET", nm! "LCS", nm! "GETBIT", nm! "BITCOUNT", nm! "BITPOS",
  nm! "BITFIELD_RO", nm! "DIGEST",
  -- generic / keyspace
  nm! "EXISTS", nm! "TTL", nm! "PTTL", nm! "EXPIRETIME", nm! "PEXPIRETIME", nm! "TYPE", nm! "KEYS", nm! "SCAN", nm! "RANDOMKEY",
  nm! "DBSIZE", nm! "DUMP", nm! "TOUCH", nm! "SORT_RO",
  nm! "OBJECT ENCODING", nm! "OBJECT FREQ", nm! "OBJECT IDLETIME", nm! "OBJECT REFCOUNT", nm! "OBJECT HELP",
  nm! "MEMORY USAGE", nm! "MEMORY DOCTOR", nm! "MEMORY STATS", nm! "MEMORY MALLOC-STATS", nm! "MEMORY HELP",
  -- hashes
  nm! "HGET", nm! "HMGET", nm! "HGETALL", nm! "HKEYS", nm! "HVALS", nm! "HLEN", nm! "HEXISTS", nm! "HSTRLEN", nm! "HRANDFIELD",
  nm! "HSCAN", nm! "HTTL", nm! "HPTTL", nm! "HEXPIRETIME", nm! "HPEXPIRETIME",
  -- lists
  nm! "LINDEX", nm! "LLEN", nm! "LRANGE", nm! "LPOS",
  -- sets
  nm! "SCARD", nm! "SISMEMBER", nm! "SMISMEMBER", nm! "SMEMBERS", nm! "SRANDMEMBER", nm! "SSCAN", nm! "SDIFF", nm! "SINTER",
  nm! "SINTERCARD", nm! "SUNION",
  -- sorted sets
  nm! "ZCARD", nm! "ZCOUNT", nm! "ZLEXCOUNT", nm! "ZSCORE", nm! "ZMSCORE", nm! "ZRANK", nm! "ZREVRANK", nm! "ZRANGE",
  nm! "ZRANGEBYLEX", nm! "ZRANGEBYSCORE", nm! "ZREVRANGE", nm! "ZREVRANGEBYLEX", nm! "ZREVRANGEBYSCORE",
  nm! "ZRANDMEMBER", nm! "ZSCAN", nm! "ZDIFF", nm! "ZINTER", nm! "ZINTERCARD", nm! "ZUNION",
  -- geo
  nm! "GEODIST", nm! "GEOHASH", nm! "GEOPOS", nm! "GEORADIUS_RO", nm! "GEORADIUSBYMEMBER_RO", nm! "GEOSEARCH",
  -- hyperloglog
  nm! "PFCOUNT",
  -- streams
  nm! "XLEN", nm! "XRANGE", nm! "XREVRANGE", nm! "XREAD", nm! "XPENDING",
  nm! "XINFO CONSUMERS", nm! "XINFO GROUPS", nm! "XINFO STREAM", nm! "XINFO HELP",
  -- read-only scripting variants (the server rejects writes inside them)
  nm! "EVAL_RO", nm! "EVALSHA_RO", nm! "FCALL_RO",
  -- introspection
  nm! "LOLWUT", nm! "SLOWLOG GET", nm! "SLOWLOG LEN", nm! "SLOWLOG HELP",
  nm! "PUBSUB CHANNELS", nm! "PUBSUB NUMPAT", nm! "PUBSUB NUMSUB", nm! "PUBSUB HELP",
  nm! "PUBSUB SHARDCHANNELS", nm! "PUBSUB SHARDNUMSUB",
  -- vector sets
  nm! "VCARD", nm! "VDIM", nm! "VEMB", nm! "VGETATTR", nm! "VINFO", nm! "VISMEMBER", nm! "VLINKS", nm! "VRANDMEMBER", nm! "VSIM",
  -- RedisJSON
  nm! "JSON.GET", nm! "JSON.MGET", nm! "JSON.TYPE", nm! "JSON.STRLEN", nm! "JSON.ARRLEN", nm! "JSON.ARRINDEX",
  nm! "JSON.OBJKEYS", nm! "JSON.OBJLEN", nm! "JSON.RESP", nm! "JSON.DEBUG MEMORY", nm! "JSON.DEBUG HELP",
  -- RedisBloom
  nm! "BF.EXISTS", nm! "BF.MEXISTS", nm! "BF.INFO", nm! "BF.CARD", nm! "BF.SCANDUMP",
  nm! "CF.EXISTS", nm! "CF.MEXISTS", nm! "CF.COUNT", nm! "CF.INFO", nm! "CF.SCANDUMP",
  nm! "CMS.QUERY", nm! "CMS.INFO",
  nm! "TOPK.QUERY", nm! "TOPK.COUNT", nm! "TOPK.LIST", nm! "TOPK.INFO",
  nm! "TDIGEST.BYRANK", nm! "TDIGEST.BYREVRANK", nm! "TDIGEST.CDF", nm! "TDIGEST.INFO", nm! "TDIGEST.MAX",
  nm! "TDIGEST.MIN", nm! "TDIGEST.QUANTILE", nm! "TDIGEST.RANK", nm! "TDIGEST.REVRANK", nm! "TDIGEST.TRIMMED_MEAN",
  -- RedisTimeSeries
  nm! "TS.GET", nm! "TS.MGET", nm! "TS.RANGE", nm! "TS.REVRANGE", nm! "TS.MRANGE", nm! "TS.MREVRANGE", nm! "TS.INFO",
  nm! "TS.QUERYINDEX",
  -- RediSearch (FT.AGGREGATE … WITHCURSOR allocates a server-side cursor, no data change)
  nm! "FT.SEARCH", nm! "FT.AGGREGATE", nm! "FT.EXPLAIN", nm! "FT.EXPLAINCLI", nm! "FT.INFO", nm! "FT._LIST",
  nm! "FT.TAGVALS", nm! "FT.SPELLCHECK", nm! "FT.SUGGET", nm! "FT.SUGLEN", nm! "FT.SYNDUMP", nm! "FT.DICTDUMP",
  -- RedisGraph
  nm! "GRAPH.RO_QUERY", nm! "GRAPH.EXPLAIN", nm! "GRAPH.SLOWLOG", nm! "GRAPH.LIST", nm! "GRAPH.CONFIG GET",
  -- RedisAI: only the three getters read; AI.MODELEXECUTE / AI.SCRIPTEXECUTE store their
  -- OUTPUTS tensors under the given keys (RedisAI registers them "write deny-oom")
  nm! "AI.TENSORGET", nm! "AI.MODELGET", nm! "AI.SCRIPTGET"
]

/-- Redis' own flags (has READONLY, has WRITE) for a command, when the repository's JSON
    description carries them -/
def jsonFlagsOf (cmd : Nat) : Option (Bool × Bool) :=
  (Rv.Gen.Classify.jsonFlags.find? (·.2.1 == cmd)).map (·.2.2)

/-- the oracle's read set -/
def isRead (cmd : Nat) : Bool :=
  match jsonFlagsOf cmd with
  | some (ro, wr) => ro && !wr
  | none => handReads.contains cmd

/-- commands that always block the connection until an external event or timeout
    (Redis command flag `blocking`, plus WAIT/WAITAOF which block for replica/AOF acks).
    Not listed (outside the statement, see DESIGN.md C32): commands that merely take long
    or park the client on server-side work of their own (MIGRATE, CLIENT PAUSE,
    RG.PYEXECUTE / RG.GETRESULTSBLOCKING, FT.* on worker threads). -/
def alwaysBlocking : List Nat := [
  nm! "BLPOP", nm! "BRPOP", nm! "BRPOPLPUSH", nm! "BLMOVE", nm! "BLMPOP", nm! "BZPOPMIN",
  nm! "BZPOPMAX", nm! "BZMPOP", nm! "WAIT", nm! "WAITAOF"
]

/-- commands that block exactly when called with this option token -/
def blockingWithOption : List (Nat × String) := [(nm! "XREAD", "BLOCK"), (nm! "XREADGROUP", "BLOCK")]

/-- Pub/Sub subscription commands: no reply of their own, the connection turns into push mode -/
def subscribeFamily : List Nat := [nm! "SUBSCRIBE", nm! "PSUBSCRIBE", nm! "SSUBSCRIBE"]
def unsubscribeFamily : List Nat := [nm! "UNSUBSCRIBE", nm! "PUNSUBSCRIBE", nm! "SUNSUBSCRIBE"]

end Rv.Spec.RedisCommands
