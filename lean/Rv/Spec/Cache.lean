/-
Specification of a client-side cache store (what C06/C07/C09/C10 demand of any
`CacheStore`), independent of how lru.go or the adapter are built. Core Lean only.

The specification is a map (key, cmd) ↦ (value, expiry) plus the set of
(key, cmd) for which the store told a caller to send a request that has not been
answered yet (`out`, with the caller's expiry). It is driven by the *observable*
events of a history: the arguments of each call and, for `Flight`/`Flights`, whether
the store answered "send". A store is correct if every hit it returns is
`lookup` of this map (it may miss more often, never hit wrongly).
-/
namespace Rv.Spec.Cache

abbrev Bytes := List UInt8
abbrev KC := Bytes × Bytes

structure Spec where
  vals   : KC → Option (Nat × Int)   -- committed reply and its expiry (ms)
  out    : KC → Option Int           -- request in flight: the requester's expiry (ms)
  closed : Bool

def empty : Spec := { vals := fun _ => none, out := fun _ => none, closed := false }

/-- the expiry the property demands: the earlier of the client expiry and the server
    expiry, where server expiry 0 means "none given" (PTTL -1 or -2, or static TTL) -/
def expiry (client server : Int) : Int :=
  if server = 0 then client else if client < server then client else server

/-- a reply may be served at `nowMs` iff it is committed and `nowMs` is before its expiry -/
def lookup (sp : Spec) (kc : KC) (nowMs : Int) : Option (Nat × Int) :=
  match sp.vals kc with
  | some (v, exp) => if nowMs < exp then some (v, exp) else none
  | none => none

/-- the store told the caller of `Flight kc` to send the request; `cexp` is the caller's expiry -/
def sent (sp : Spec) (kc : KC) (cexp : Int) : Spec :=
  if sp.closed then sp else { sp with out := fun x => if x = kc then some cexp else sp.out x }

/-- the reply for `kc` arrives (server expiry `sexp`, 0 = none): committed iff a request is in flight -/
def update (sp : Spec) (kc : KC) (v : Nat) (sexp : Int) : Spec :=
  if sp.closed then sp else
  match sp.out kc with
  | some cexp => { sp with vals := fun x => if x = kc then some (v, expiry cexp sexp) else sp.vals x,
                           out := fun x => if x = kc then none else sp.out x }
  | none => sp

/-- what `Update` must return -/
def updatePxat (sp : Spec) (kc : KC) (sexp : Int) : Int :=
  if sp.closed then 0 else
  match sp.out kc with
  | some cexp => expiry cexp sexp
  | none => 0

/-- the request for `kc` failed: nothing is committed -/
def cancel (sp : Spec) (kc : KC) : Spec :=
  if sp.closed then sp else { sp with out := fun x => if x = kc then none else sp.out x }

/-- invalidation of `keys`: every committed reply under these keys is forgotten (requests in flight stay) -/
def delete (sp : Spec) (keys : List Bytes) : Spec :=
  { sp with vals := fun x => if x.1 ∈ keys then none else sp.vals x }

/-- flush: every committed reply is forgotten -/
def flush (sp : Spec) : Spec := { sp with vals := fun _ => none }

/-- connection lost: nothing is served any more, nothing is in flight -/
def close (_ : Spec) : Spec := { vals := fun _ => none, out := fun _ => none, closed := true }

/-! ### C10: what eviction must do

From the front (least recently used) of the recency list, drop completed entries
while the accounted size exceeds the bound; never drop a pending entry; stop as
soon as the size fits. Entries are (id, pending, size). -/
def evict (max : Int) : Int → List (Nat × Bool × Int) → Int × List Nat
  | size, [] => (size, [])
  | size, (id, pend, sz) :: rest =>
    if size ≤ max then (size, id :: rest.map (·.1))
    else if pend then let r := evict max size rest; (r.1, id :: r.2)
    else evict max (size - sz) rest

end Rv.Spec.Cache
