/-
Specification of a client-side cache store (what C06/C07/C09/C10 demand of any
`CacheStore`), independent of how lru.go or the adapter are built. Core Lean only.

The specification is a map (key, cmd) ↦ (value, expiry) plus the set of
(key, cmd) for which the store told a caller to send a request that has not been
answered yet (`out`, with the caller's expiry). It is driven by the *observable*
events of a history: the arguments of each call and, for `Flight`/`Flights`, whether
the store answered "send". A store is correct if every hit it returns is
`lookup` of this map (it may miss more often, never hit wrongly).
-/
namespace Rv.Spec.Cache

abbrev Bytes := List UInt8
abbrev KC := Bytes × Bytes

structure Spec where
  vals   : KC → Option (Nat × Int)   -- committed reply and its expiry (ms)
  out    : KC → Option Int           -- request in flight: the requester's expiry (ms)
  closed : Bool

def empty : Spec := { vals := fun _ => none, out := fun _ => none, closed := false }

/-- the expiry the property demands: the earlier of the client expiry and the server
    expiry, where server expiry 0 means "none given" (PTTL -1 or -2, or static TTL) -/
def expiry (client server : Int) : Int :=
  if server = 0 then client else if client < server then client else server

/-- a reply may be served at `nowMs` iff it is committed and `nowMs` is before its expiry -/
def lookup (sp : Spec) (kc : KC) (nowMs : Int) : Option (Nat × Int) :=
  match sp.vals kc with
  | some (v, exp) => if nowMs < exp then some (v, exp) else none
  | none => none

/-- the store told the caller of `Flight kc` to send the request; `cexp` is the caller's expiry -/
def sent (sp : Spec) (kc : KC) (cexp : Int) : Spec :=
  if sp.closed then sp else { sp with out := fun x => if x = kc then some cexp else sp.out x }

/-- the reply for `kc` arrives (server expiry `sexp`, 0 = none): committed iff a request is in flight -/
def update (sp : Spec) (kc : KC) (v : Nat) (sexp : Int) : Spec :=
  if sp.closed then sp else
  match sp.out kc with
  | some cexp => { sp with vals := fun x => if x = kc then some (v, expiry cexp sexp) else sp.vals x,
                           out := fun x => if x = kc then none else sp.out x }
  | none => sp

/-- what `Update` must return -/
def updatePxat (sp : Spec) (kc : KC) (sexp : Int) : Int :=
  if sp.closed then 0 else
  match sp.out kc with
  | some cexp => expiry cexp sexp
  | none => 0

/-- the request for `kc` failed: nothing is committed -/
def cancel (sp : Spec) (kc : KC) : Spec :=
  if sp.closed then sp else { sp with out := fun x => if x = kc then none else sp.out x }

/-- invalidation of `keys`: every committed reply under these keys is forgotten (requests in flight stay) -/
def delete (sp : Spec) (keys : List Bytes) : Spec :=
  { sp with vals := fun x => if x.1 ∈ keys then none else sp.vals x }

/-- flush: every committed reply is forgotten -/
def flush (sp : Spec) : Spec := { sp with vals := fun _ => none }

/-- connection lost: nothing is served any more, nothing is in flight -/
def close (_ : Spec) : Spec := { vals := fun _ => none, out := fun _ => none, closed := true }

/-! ### C10: what eviction must do

From the front (least recently used) of the recency list, drop completed entries
while the accounted size exceeds the bound; never drop a pending entry; stop as
soon as the size fits. Entries are (id, pending, size). -/
def evict (max : Int) : Int → List (Nat × Bool × Int) → Int × List Nat
  | size, [] => (size, [])
  | size, (id, pend, sz) :: rest =>
    if size ≤ max then (size, id :: rest.map (·.1))
    else if pend then let r := evict max size rest; (r.1, id :: r.2)
    else evict max (size - sz) rest

/-! ### C07 at the level of one DoCache / DoMultiCache / MGET call (milliseconds)

`start` = the clock when the call began (client TTL runs from here), `arrival` = the clock when the reply of
the caching transaction arrived (server PTTL runs from here). -/

/-- the expiry the property demands of the reply of one cached read -/
def expiryMs (start ttl arrival pttl : Int) : Int :=
  if pttl < 0 then start + ttl else min (start + ttl) (arrival + pttl)

/-- the call was observed between `tb` and `ta` (so `tb ≤ start ≤ arrival ≤ ta`): is the reported expiry possible? -/
def expiryWindowOk (ttl pttl tb ta pxat : Int) : Bool :=
  decide (expiryMs tb ttl tb pttl ≤ pxat) && decide (pxat ≤ expiryMs ta ttl ta pttl)

/-- a second read between `t2b` and `t2a` of an entry with expiry `pxat` (nothing else touches the key):
    a hit needs the expiry to be still ahead and reports that same expiry; a miss needs it to have passed -/
def rehitOk (pxat t2b t2a : Int) (hit : Bool) (pxat2 : Int) : Bool :=
  if hit then decide (t2b < pxat) && decide (pxat2 = pxat) else decide (pxat ≤ t2a)

/-- CachePTTL / CacheTTL read between `tb` and `ta` of a reply with expiry `pxat ≠ 0` -/
def accessorsOk (pxat tb ta pttlObs ttlObs : Int) : Bool :=
  let lo := max 0 (pxat - ta)
  let hi := max 0 (pxat - tb)
  decide (lo ≤ pttlObs) && decide (pttlObs ≤ hi) && decide ((lo + 999) / 1000 ≤ ttlObs) && decide (ttlObs ≤ (hi + 999) / 1000)

/-! ### C09 at the level of one batch with a repeated command

`n` results were expected for the repeated command (its occurrences in the batch plus outside callers that joined
the flight); `returned` of them came back before the watchdog, `nok` with the value, `nerr` with an error. -/
def dupFlightOk (failed : Bool) (n returned nok nerr gets : Nat) (laterReturned laterHit laterOk : Bool) (laterGets : Nat) : Bool :=
  returned == n && gets ≤ 1 && laterReturned && laterOk &&
  (if failed then nok == 0 && nerr == n && !laterHit && laterGets == 1
   else nerr == 0 && nok == n && laterHit && laterGets == 0)

/-- the same with separate observation windows: the call started in `[sb, sa]`, ITS OWN reply arrived in `[ab, aa]` -/
def expiryWindow2Ok (ttl pttl sb sa ab aa pxat : Int) : Bool :=
  decide (expiryMs sb ttl ab pttl ≤ pxat) && decide (pxat ≤ expiryMs sa ttl aa pttl)

/-! ### Close releases every waiter (C04 / C09) -/

/-- `pending` = ids of the entries that were pending before `Close(err)`, `released` = ids whose waiters were woken
    with `err` by it: the two sets must coincide, whatever the order of the recency list -/
def closeOk (pending released : List Nat) : Bool :=
  pending.all (released.contains ·) && released.all (pending.contains ·)

/-- e2e: `n` callers were blocked on cached reads of a connection that was then lost; all must return, with an error -/
def closeHangOk (n returned nerr : Nat) : Bool := returned == n && nerr == n

/-! ### every hit is the server's reply for exactly that command (C06, batches mixing static-TTL and plain commands) -/
def hitValueOk (valueIsServers : Bool) : Bool := valueIsServers

/-! ### a failing call cancels only the flights it owns (C09, overlapping MGETs) -/

/-- A's fetch of key a1 is in flight, W joined it, B (MGET a1 a2) joined a1 and fails on its own fetch of a2:
    W and A get A's reply, a1 is cached afterwards (the next read is a hit) and a1 was requested once -/
def mgetOwnOk (wReturned wOk aOk laterHit laterOk : Bool) (fetchesA1 : Nat) : Bool :=
  wReturned && wOk && aOk && laterHit && laterOk && fetchesA1 == 1

/-! ### a caller that gives up (its context ends) must not leave a dead flight behind (C09) -/

/-- the owner of a fetch returned with its context error (`ownerErr`); every caller that had joined the flight
    returned (`joinedReturned`); a later read of the command returned in time with the right value -/
def ctxDeadOk (ownerErr joinedReturned laterReturned laterOk : Bool) : Bool :=
  ownerErr && joinedReturned && laterReturned && laterOk

/-! ### identity of the per-key entries of MGET / JSON.MGET (C08)

The entry of key `k` of `JSON.MGET … p` is the entry of `JSON.GET k p` and of no other path: the derived command
of `JSON.MGET … p` equals the derived command of `JSON.GET k q` exactly when `p = q`. -/
def jsonIdentOk (p q : List UInt8) (equal : Bool) : Bool := equal == decide (p = q)

end Rv.Spec.Cache
