/-
Specification side of C46: what a Scanner iteration must show, written without the loop:
the pages a complete iteration consumes, their concatenation, and truncation at the
consumer's stop point. Core Lean only.
-/
import Rv.Model.Scanner
namespace Rv.Spec.Scanner
open Rv.Scanner

/-- the pages of a complete iteration — up to and including the first page whose cursor is 0,
    or up to the first failing request (end of script = error "eof") — and that error -/
def consumed : List Resp → List (Nat × List String) × Option String
  | [] => ([], some "eof")
  | .err e :: _ => ([], some e)
  | .page c vs :: rest =>
    if c = 0 then ([(c, vs)], none)
    else ((c, vs) :: (consumed rest).1, (consumed rest).2)

/-- number of leading pages needed to deliver item number `k` (0-based) -/
def needed {β : Type} (pg : List String → List β) : List (Nat × List String) → Nat → Nat
  | [], _ => 0
  | p :: ps, k => if k < (pg p.2).length then 1 else 1 + needed pg ps (k - (pg p.2).length)

/-- every element of every page in order, starting at cursor `cur` and following the returned
    cursors until cursor 0; stop as soon as the consumer stops (item `k` is the last one
    delivered and no further page is requested) or a page fails (error exposed) -/
def specFrom {β : Type} (pg : List String → List β) (script : List Resp) (cur : Nat) (stop : Option Nat) : Out β :=
  let pages := (consumed script).1
  let all := pages.flatMap fun p => pg p.2
  let curs := cur :: (pages.map (·.1)).filter (· ≠ 0)
  match stop with
  | none => ⟨all, curs, (consumed script).2⟩
  | some k =>
    if k < all.length then ⟨all.take (k + 1), curs.take (needed pg pages k), none⟩
    else ⟨all, curs, (consumed script).2⟩

/-- consecutive pairs of one page; a trailing unpaired element is dropped -/
def pairsSpec (vs : List String) : List (String × String) :=
  (List.range (vs.length / 2)).map fun i => (vs[2 * i]?.getD "", vs[2 * i + 1]?.getD "")

def specIter (script : List Resp) (stop : Option Nat) : Out String := specFrom id script 0 stop
def specIter2 (script : List Resp) (stop : Option Nat) : Out (String × String) := specFrom pairsSpec script 0 stop

end Rv.Spec.Scanner
