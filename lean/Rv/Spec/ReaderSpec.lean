/-
Specification for C01 (hand-written, trusted): the Redis answer discipline on one
connection and the obviously-correct reply matching it induces. Core Lean only.

A connection sees a sequence of events (`Rv.Reader.Ev`): `w b` = batch `b` reached the
wire, `m i` = frame `i` arrived. Written commands are kept in a FIFO `pend` (wire order =
queue order is C02's theorem `ring_refines_fifo` / `flow_refines_fifo`). The server answers
every written command by one *block* of frames, blocks in the order the commands were
written, a block's significant frame never before the `w` event of its batch:

  regular command  (noReply = false)           : noise* , one `reply` (any isPong/isQueued)
  subscribe family (noReply, ¬isUnsub, nargs=n): noise* , `push sub` , then n-2 more `push sub`
                                                 with only `push data` between them
                                                 (or, refused by the server: noise* , one `reply`, not QUEUED)
  unsubscribe fam. (noReply, isUnsub)          : noise* , `reply` isPong (the PONG of the PING the writer appends)
                                                 (or, refused by the server: noise* , a non-PONG `reply`,
                                                  not QUEUED, then noise* , the PONG)
  noise = `push data` (message/pmessage/smessage/invalidate/unknown) or
          `push unsub` ((s)unsubscribe notifications: solicited ones of an UNSUBSCRIBE and
          unsolicited ones, e.g. on slot migration); noise may arrive at any time except
          that `push unsub` cannot fall inside the confirmations of one SUBSCRIBE.

The *significant* frame of a block is its first non-noise frame; it is the one the command
must receive (for a successful SUBSCRIBE the client hands out an empty message: `none`).
`onMsg` is the discipline as an acceptor: `none` = the stream violates the discipline.
-/
import Rv.Model.Reader
namespace Rv.Spec.Reader
open Rv.Reader

inductive Kind where
  | regular | sub | unsub
  deriving DecidableEq, Repr

def kind (c : Cmd) : Kind :=
  if c.noReply then (if c.isUnsub then .unsub else .sub) else .regular

/-- cmds: `unsubTag` contains `noRetTag`, i.e. IsUnsub() implies NoReply() -/
def wfCmd (c : Cmd) : Bool := !c.isUnsub || c.noReply

/-- queued batches are non-empty (`ones` has length 1, DoMulti returns early on an empty batch) -/
def wfBatch (b : Batch) : Bool := !b.isEmpty && b.all wfCmd

/-- a batch as pending commands, the last one flagged (`done`: completes the batch) -/
def mark : Batch → List (Cmd × Bool)
  | [] => []
  | [c] => [(c, true)]
  | c :: c' :: cs => (c, false) :: mark (c' :: cs)

structure SpecSt where
  pend : List (Cmd × Bool) := []   -- written commands whose block has not arrived, oldest first
  more : Nat := 0                  -- confirmations still to come in the current SUBSCRIBE block
  eat : Bool := false              -- the PONG of a refused UNSUBSCRIBE is still to come
  deriving Repr, DecidableEq

def specWrite (t : SpecSt) (b : Batch) : SpecSt := { t with pend := t.pend ++ mark b }

/-- hand the significant frame to the oldest pending command -/
def pop (c : Cmd) (d : Bool) (r : List (Cmd × Bool)) (mid : Option Nat) (more : Nat) (eat : Bool) :
    Option (SpecSt × Out) :=
  some ({ pend := r, more := more, eat := eat }, .deliver c.id mid d)

/-- a `reply` frame -/
def onReply (t : SpecSt) (mid : Nat) (isPong isQueued : Bool) : Option (SpecSt × Out) :=
  if t.more ≠ 0 then none                       -- inside the confirmations of a SUBSCRIBE
  else if t.eat then
    (if isPong && !isQueued then some ({ t with eat := false }, .skipped) else none)
  else match t.pend with
    | [] => none                                -- a reply nobody asked for
    | (c, d) :: r =>
      match kind c with
      | .regular => pop c d r (some mid) 0 false
      | .sub => if isQueued then none else pop c d r (some mid) 0 false
      | .unsub => if isQueued then none else pop c d r (some mid) 0 (!isPong)

/-- a `push sub` frame (subscribe / psubscribe / ssubscribe confirmation) -/
def onSub (t : SpecSt) : Option (SpecSt × Out) :=
  if t.more ≠ 0 then some ({ t with more := t.more - 1 }, .skipped)
  else if t.eat then none
  else match t.pend with
    | [] => none
    | (c, d) :: r => if kind c = .sub then pop c d r none (c.nargs - 2) false else none

/-- the discipline as an acceptor + the matching it induces -/
def onMsg (t : SpecSt) : In → Option (SpecSt × Out)
  | .push _ .data => some (t, .skipped)
  | .push _ .unsub => if t.more ≠ 0 then none else some (t, .skipped)
  | .push _ .sub => onSub t
  | .reply mid p q => onReply t mid p q

/-- `es` follows the answer discipline from state `t` -/
def disc : SpecSt → List Ev → Bool
  | _, [] => true
  | t, .w b :: es => wfBatch b && disc (specWrite t b) es
  | t, .m i :: es =>
    match onMsg t i with
    | some (t', _) => disc t' es
    | none => false

/-- the deliveries the property demands: one output per frame, in order -/
def specRun : SpecSt → List Ev → List Out
  | _, [] => []
  | t, .w b :: es => specRun (specWrite t b) es
  | t, .m i :: es =>
    match onMsg t i with
    | some (t', o) => o :: specRun t' es
    | none => []          -- not disciplined: the specification demands nothing

/-- state after `es` -/
def specEnd : SpecSt → List Ev → SpecSt
  | t, [] => t
  | t, .w b :: es => specEnd (specWrite t b) es
  | t, .m i :: es =>
    match onMsg t i with
    | some (t', _) => specEnd t' es
    | none => t

/-- The answer discipline: the event list is accepted from the initial state. -/
def Disciplined (es : List Ev) : Prop := disc {} es = true

instance (es : List Ev) : Decidable (Disciplined es) := by unfold Disciplined; infer_instance

/-! ### views of a history -/

/-- all commands written, in wire order, last of each batch flagged -/
def written : List Ev → List (Cmd × Bool)
  | [] => []
  | .w b :: es => mark b ++ written es
  | .m _ :: es => written es

def frames : List Ev → List In
  | [] => []
  | .w _ :: es => frames es
  | .m i :: es => i :: frames es

/-- (command id, done) of the deliveries, in order -/
def delivered : List Out → List (Nat × Bool)
  | [] => []
  | .deliver c _ d :: os => (c, d) :: delivered os
  | _ :: os => delivered os

def key (p : Cmd × Bool) : Nat × Bool := (p.1.id, p.2)

/-- what a command may be handed when frame `i` is the significant frame of its block -/
def payload : In → Option Nat
  | .reply mid _ _ => some mid
  | .push _ _ => none

/-- frame `i` can be the significant frame of the block that answers command `c` -/
def answers (c : Cmd) : In → Bool
  | .reply _ _ q =>
    match kind c with
    | .regular => true
    | .sub => !q
    | .unsub => !q
  | .push _ .sub => kind c == .sub
  | .push _ _ => false

/-- output `o` produced on frame `i` hands out `i` itself (never a stored or foreign frame) -/
def okPayload (i : In) (o : Out) : Bool :=
  match o with
  | .deliver _ mid _ => mid == payload i
  | .skipped => true
  | .panic _ => false

/-- the deliveries of a history, each paired with the frame on which it was made -/
def deliveries : List In → List Out → List (In × Out)
  | i :: is, .deliver c mid d :: os => (i, .deliver c mid d) :: deliveries is os
  | _ :: is, _ :: os => deliveries is os
  | _, _ => []

/-- commands (in written order) against deliveries (in arrival order): the k-th command is
    handed exactly one frame, the k-th significant one, which answers it, with its own `done` flag -/
inductive Matched : List (Cmd × Bool) → List (In × Out) → Prop
  | nil : Matched [] []
  | cons {c d i l l'} : answers c i = true → Matched l l' →
      Matched ((c, d) :: l) ((i, .deliver c.id (payload i) d) :: l')

/-! ### the discipline as a grammar of blocks (frames only; used to cross-check `onMsg`) -/

def isNoise : In → Bool
  | .push _ .data => true
  | .push _ .unsub => true
  | _ => false

def isData : In → Bool
  | .push _ .data => true
  | _ => false

/-- `n` further confirmations with only data pushes between them -/
inductive Confs : Nat → List In → Prop
  | done : Confs 0 []
  | data {n i l} : isData i = true → Confs n l → Confs n (i :: l)
  | conf {n mid l} : Confs n l → Confs (n + 1) (.push mid .sub :: l)

/-- the block that answers command `c` (after leading noise) -/
inductive Block (c : Cmd) : List In → Prop
  | regular {mid p q} : kind c = .regular → Block c [.reply mid p q]
  | sub {mid l} : kind c = .sub → Confs (c.nargs - 2) l → Block c (.push mid .sub :: l)
  | subRefused {mid p} : kind c = .sub → Block c [.reply mid p false]
  | unsub {mid} : kind c = .unsub → Block c [.reply mid true false]
  | unsubRefused {mid mid' ns} : kind c = .unsub → ns.all isNoise = true →
      Block c (.reply mid false false :: ns ++ [.reply mid' true false])

/-- the frames answering the commands `cs` in order, noise anywhere between blocks -/
inductive Blocks : List Cmd → List In → Prop
  | nil : Blocks [] []
  | noise {cs i l} : isNoise i = true → Blocks cs l → Blocks cs (i :: l)
  | block {c cs bl l} : Block c bl → Blocks cs l → Blocks (c :: cs) (bl ++ l)

end Rv.Spec.Reader
