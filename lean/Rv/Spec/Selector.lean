/-
Specification side of C22: which nodes are "equally ranked candidates", and a
judge that decides from the documented priorities alone (no counter, no loop)
whether an observed sequence of selector results is acceptable. Core Lean only.
-/
namespace Rv.Spec.Selector

variable {α : Type} [DecidableEq α]

/-- ascending list of the indices `j` with `i ≤ j < limit` and `xs[j - i] = az` -/
def matchIdx (az : α) : List α → Nat → Nat → List Nat
  | [], _, _ => []
  | x :: xs, i, limit =>
    if i < limit then
      if x = az then i :: matchIdx az xs (i + 1) limit else matchIdx az xs (i + 1) limit
    else []

/-- nodes of `nodes[startIdx:]` in the client's AZ among the first 255 nodes, ascending -/
def sameAZ (nodes : List α) (az : α) (startIdx : Nat) : List Nat :=
  matchIdx az (nodes.drop startIdx) startIdx (min nodes.length 255)

/-- the candidates the selectors rotate over: the first 8 of them (size of `matches [8]uint8`) -/
def cands (nodes : List α) (az : α) (startIdx : Nat) : List Nat := (sameAZ nodes az startIdx).take 8

inductive Kind | az | azp | pref
  deriving DecidableEq, Repr

/-- position of `x` in `xs` -/
def indexOf? (x : Nat) : List Nat → Option Nat
  | [] => none
  | y :: ys => if x = y then some 0 else (indexOf? x ys).map (· + 1)

/-- Documented priorities as a judge. `prev` is the result of the immediately preceding call of the
    same selector on the same node list (if any); rotation is demanded relative to it. -/
def judge (k : Kind) (az : α) (nodes : List α) (prev : Option Int) (r : Int) : String :=
  let n := nodes.length
  if ¬ (r = -1 ∨ (0 ≤ r ∧ r < n)) then "bad:invalid-index" else
  let ms := match k with
    | .pref => []
    | _ => cands nodes az 1
  if ms ≠ [] then
    -- a same-AZ replica exists among the first 255 nodes: one of them must be chosen, in rotation
    if ¬ (1 ≤ r ∧ nodes[r.toNat]? = some az) then "bad:same-az-replica-not-chosen" else
    match prev with
    | some p =>
      match indexOf? p.toNat ms with
      | some i => if some r.toNat = ms[(i + 1) % ms.length]? then "ok" else "bad:no-rotation"
      | none => "bad:no-rotation"
    | none => if r.toNat ∈ ms then "ok" else "bad:not-a-candidate"
  else if k = .azp ∧ nodes[0]? = some az then
    if r = 0 then "ok" else "bad:same-az-primary-not-chosen"
  else if n > 1 then
    if ¬ (1 ≤ r) then "bad:replica-not-chosen" else
    match prev with
    | some p => if r = (p - 1 + 1) % ((n : Int) - 1) + 1 then "ok" else "bad:no-rotation"
    | none => "ok"
  else if r = -1 then "ok" else "bad:expected-minus1"

end Rv.Spec.Selector
