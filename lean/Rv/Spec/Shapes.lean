/-
Specification side of C16: reply *shapers*. For each kind of structured data the
typed helpers of message.go are meant to return, `shape` builds the reply a
Redis server (or RediSearch) sends for it under RESP2 and under RESP3, and
`expect` is the value the accessor must return for it. Hand-written from the
Redis command reference; trusted. Core Lean only.

Float-valued fields are carried as the decimal text the server sends (RESP2: a
blob string, RESP3: a `,` double); the expected float is "that text handed to
strconv" (`F.str`).
-/
import Rv.Model.AccessorsShape
import Rv.Spec.Wire
namespace Rv.Shapes
open Rv Rv.Acc

inductive Proto where
  | r2
  | r3
  deriving Repr, DecidableEq

def blob (s : Bytes) : Msg := Msg.leafStr tBlob s
def dbl (s : Bytes) : Msg := Msg.leafStr tFloat s
def int (i : Int) : Msg := Msg.leafInt tInt i
def arr (xs : List Msg) : Msg := Msg.agg tArray xs
def mp (xs : List Msg) : Msg := Msg.agg tMap xs
def sAttributes : Bytes := [97, 116, 116, 114, 105, 98, 117, 116, 101, 115]  -- "attributes"
def sWarning : Bytes := [119, 97, 114, 110, 105, 110, 103]  -- "warning"
def sFormat : Bytes := [102, 111, 114, 109, 97, 116]  -- "format"
def sSTRING : Bytes := [83, 84, 82, 73, 78, 71]  -- "STRING"
def sValues : Bytes := [118, 97, 108, 117, 101, 115]  -- "values"

/-- a number the server sends as text in RESP2 and as a double in RESP3 -/
def num : Proto → Bytes → Msg
  | .r2, s => blob s
  | .r3, s => dbl s

/-- flat `[k1, v1, k2, v2, …]` of blob strings -/
def flatKV (kvs : List (Bytes × Bytes)) : List Msg := kvs.flatMap fun kv => [blob kv.1, blob kv.2]

/-- a field/value collection: flat array in RESP2, `%` map in RESP3 -/
def kvReply : Proto → List (Bytes × Bytes) → Msg
  | .r2, kvs => arr (flatKV kvs)
  | .r3, kvs => mp (flatKV kvs)

/-! ### sorted-set scores -/
abbrev Scores := List (Bytes × Bytes)   -- (member, score text)

/-- ZRANGE … WITHSCORES, ZPOPMIN n …: flat in RESP2, nested pairs in RESP3 -/
def zscores : Proto → Scores → Msg
  | .r2, d => arr (d.flatMap fun ms => [blob ms.1, blob ms.2])
  | .r3, d => arr (d.map fun ms => arr [blob ms.1, dbl ms.2])

def zscoresExpect (d : Scores) : List ZScore := d.map fun ms => ⟨ms.1, .str ms.2⟩

/-- one pair (ZPOPMIN without count, ZRANDMEMBER … WITHSCORES 1) -/
def zscore (p : Proto) (ms : Bytes × Bytes) : Msg := arr [blob ms.1, num p ms.2]

/-! ### streams -/
abbrev Entry := Bytes × List (Bytes × Bytes)   -- (id, field/value pairs in order)

def entry (e : Entry) : Msg := arr [blob e.1, arr (flatKV e.2)]
/-- XRANGE / XREVRANGE (same in both protocols) -/
def xrange (es : List Entry) : Msg := arr (es.map entry)
def xrangeExpect (es : List Entry) : List XEntry := es.map fun e => ⟨e.1, some e.2⟩
def xrangeSlicesExpect (es : List Entry) : List XSlice := es.map fun e => ⟨e.1, e.2⟩

/-- XREAD / XREADGROUP: array of [key, entries] in RESP2, map in RESP3 -/
def xread : Proto → List (Bytes × List Entry) → Msg
  | .r2, d => arr (d.map fun ke => arr [blob ke.1, xrange ke.2])
  | .r3, d => mp (d.flatMap fun ke => [blob ke.1, xrange ke.2])
def xreadExpect (d : List (Bytes × List Entry)) : Log (List XEntry) := d.map fun ke => (ke.1, xrangeExpect ke.2)
def xreadSlicesExpect (d : List (Bytes × List Entry)) : Log (List XSlice) := d.map fun ke => (ke.1, xrangeSlicesExpect ke.2)

/-! ### SCAN, LMPOP, ZMPOP -/
/-- SCAN family: cursor as a decimal string, then the elements -/
def scan (cursor : Nat) (elems : List Bytes) : Msg := arr [blob (Spec.digits cursor), arr (elems.map blob)]
def lmpop (key : Bytes) (elems : List Bytes) : Msg := arr [blob key, arr (elems.map blob)]
/-- ZMPOP: member/score pairs are nested in both protocols -/
def zmpop (p : Proto) (key : Bytes) (d : Scores) : Msg := arr [blob key, arr (d.map fun ms => arr [blob ms.1, num p ms.2])]

/-! ### FT.SEARCH -/
structure SDoc where
  key : Bytes
  score : Bytes
  attrs : List (Bytes × Bytes)
  deriving Repr

/-- RESP2: `[total, key, (score)?, (attrs)?, …]` (WITHSCORES ⇒ `ws`, content returned ⇒ `wa`) -/
def ftDoc2 (ws wa : Bool) (d : SDoc) : List Msg :=
  [blob d.key] ++ (if ws then [blob d.score] else []) ++ (if wa then [arr (flatKV d.attrs)] else [])

/-- RESP3: one result record -/
def ftDoc3 (ws wa : Bool) (d : SDoc) : Msg :=
  mp ([blob sId, blob d.key] ++ (if wa then [blob sExtra, mp (flatKV d.attrs)] else []) ++
      (if ws then [blob sScore, dbl d.score] else []) ++ [blob sValues, arr []])

def ftSearch : Proto → Bool → Bool → Int → List SDoc → Msg
  | .r2, ws, wa, total, ds => arr (int total :: ds.flatMap (ftDoc2 ws wa))
  | .r3, ws, wa, total, ds =>
    mp [blob sAttributes, arr [], blob sWarning, arr [], blob sTotal, int total,
        blob sFormat, blob sSTRING, blob sResults, arr (ds.map (ftDoc3 ws wa))]

def ftDocExpect (ws wa : Bool) (d : SDoc) : FtDoc :=
  ⟨if wa then some d.attrs else none, d.key, if ws then .str d.score else .int 0⟩

def ftSearchExpect (ws wa : Bool) (total : Int) (ds : List SDoc) : Int × List FtDoc :=
  (total, ds.map (ftDocExpect ws wa))

/-- The exact precondition under which AsFtSearch's RESP2 detection (it looks at elements
    1–3 of the reply) recognises the reply shape:
    * WITHSCORES: the first key must not parse as a float, the first score must be a
      non-empty float text, and (without content) the second key must be non-empty;
    * content without scores: nothing;
    * NOCONTENT without scores: the second and third keys are non-empty, and it is not the
      case that the first key is not a float while the second one is. -/
def ftFaithful2 (fp : FP) (ws wa : Bool) (ds : List SDoc) : Prop :=
  match ws, wa with
  | true, true =>
    match ds with
    | [] => True
    | d :: _ => fp.ok d.key = false ∧ d.score ≠ [] ∧ fp.ok d.score = true
  | true, false =>
    match ds with
    | [] => True
    | [d] => fp.ok d.key = false ∧ d.score ≠ [] ∧ fp.ok d.score = true
    | d :: d2 :: _ => fp.ok d.key = false ∧ d.score ≠ [] ∧ fp.ok d.score = true ∧ d2.key ≠ []
  | false, true => True
  | false, false =>
    match ds with
    | [] => True
    | [_] => True
    | [d, d2] => d2.key ≠ [] ∧ ¬ (fp.ok d.key = false ∧ fp.ok d2.key = true)
    | d :: d2 :: d3 :: _ => d2.key ≠ [] ∧ ¬ (fp.ok d.key = false ∧ fp.ok d2.key = true) ∧ d3.key ≠ []

instance (fp : FP) (ws wa : Bool) (ds : List SDoc) : Decidable (ftFaithful2 fp ws wa ds) := by
  unfold ftFaithful2
  split
  · split <;> exact inferInstance
  · split <;> exact inferInstance
  · exact inferInstance
  · split <;> exact inferInstance

/-! ### FT.AGGREGATE -/
abbrev Row := List (Bytes × Bytes)

def ftAgg : Proto → Int → List Row → Msg
  | .r2, total, rows => arr (int total :: rows.map fun r => arr (flatKV r))
  | .r3, total, rows =>
    mp [blob sAttributes, arr [], blob sWarning, arr [], blob sTotal, int total,
        blob sFormat, blob sSTRING,
        blob sResults, arr (rows.map fun r => mp [blob sExtra, mp (flatKV r), blob sValues, arr []])]

def ftAggExpect (total : Int) (rows : List Row) : Int × List (Option (Log Bytes)) := (total, rows.map some)

/-- FT.AGGREGATE … WITHCURSOR / FT.CURSOR READ: `[reply, cursor]` -/
def ftAggCursor (p : Proto) (cursor total : Int) (rows : List Row) : Msg := arr [ftAgg p total rows, int cursor]

/-! ### GEOSEARCH -/
structure Loc where
  name : Bytes
  dist : Bytes
  hash : Int
  lon : Bytes
  lat : Bytes
  deriving Repr

/-- one location with the WITHDIST / WITHHASH / WITHCOORD subset `(wd, wh, wc)`;
    with no option the server sends the bare member name -/
def geoLoc (p : Proto) (wd wh wc : Bool) (l : Loc) : Msg :=
  if wd || wh || wc then
    arr ([blob l.name] ++ (if wd then [num p l.dist] else []) ++ (if wh then [int l.hash] else []) ++
         (if wc then [arr [num p l.lon, num p l.lat]] else []))
  else blob l.name

def geosearch (p : Proto) (wd wh wc : Bool) (ls : List Loc) : Msg := arr (ls.map (geoLoc p wd wh wc))

def geoExpect (wd wh wc : Bool) (l : Loc) : GeoLoc :=
  ⟨l.name, if wc then .str l.lon else .int 0, if wc then .str l.lat else .int 0,
   if wd then .str l.dist else .int 0, if wh then l.hash else 0⟩

/-! ### plain conversions -/
/-- an integer sent as text (RESP2 bulk string) or as a RESP3 number -/
def intReply : Proto → Int → Msg
  | .r2, i => blob (Spec.decI i)
  | .r3, i => int i

def strSlice (xs : List Bytes) : Msg := arr (xs.map blob)
def intSlice (p : Proto) (xs : List Int) : Msg := arr (xs.map (intReply p))

/-- HGETALL-like map with integer values -/
def intMap : Proto → List (Bytes × Int) → Msg
  | .r2, kvs => arr (kvs.flatMap fun kv => [blob kv.1, blob (Spec.decI kv.2)])
  | .r3, kvs => mp (kvs.flatMap fun kv => [blob kv.1, int kv.2])

/-! ### redirect addresses -/
/-- the address a MOVED / ASK / REDIRECT error carries, normalised for `net.Dial`:
    an un-bracketed IPv6 `host:port` (no '.', more than one ':') gets brackets around
    the host, everything else is kept as it is -/
def normAddr (a : Bytes) : Bytes :=
  if a.contains 46 = true ∨ a = [] ∨ a.head? = some 91 then a
  else
    match lastIndexByte 58 a with
    | none => a
    | some i =>
      let host := a.take i
      let port := a.drop (i + 1)
      if host.contains 58 = true then [91] ++ host ++ [93, 58] ++ port else host ++ [58] ++ port

/-- the documented forms: `MOVED <slot> <addr>`, `ASK <slot> <addr>` (k = 2), `REDIRECT <addr>` (k = 1) -/
def redirectText (word : Bytes) (slot : Option Bytes) (addr : Bytes) : Bytes :=
  match slot with
  | some sl => word ++ [32] ++ sl ++ [32] ++ addr
  | none => word ++ [32] ++ addr

end Rv.Shapes
