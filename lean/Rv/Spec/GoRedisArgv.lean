/-
C42 — reference argv of go-redis v9 (HAND TRANSCRIPTION, from the go-redis v9.7 sources as
remembered; go-redis is not available offline — this file is trusted base and says so) and the
model of the argv the rueidiscompat adapter builds for the same methods (`A.*`, transcribed from
rueidiscompat/adapter.go and tied to the real adapter by the `argv` correspondence suite).

Tokens are structured, not strings, so that `normalize` (keyword letter case, numeric spelling)
is a total structural map: a keyword carries its canonical name and the letter case it is sent in,
a number its value and spelling.  User data (`str`) is never touched.
Core Lean only.
-/
namespace Rv.GoRedisArgv

inductive NumStyle | plain | plus | dotZero
  deriving DecidableEq, Repr

inductive Tok
  | kw (name : String) (upper : Bool)     -- command name / option keyword, sent upper- or lower-case
  | num (n : Int) (st : NumStyle)         -- integer, spelled "5", "+5" or "5.0"
  | str (s : String)                      -- user data, verbatim
  deriving DecidableEq, Repr

def normTok : Tok → Tok
  | .kw n _ => .kw n true
  | .num n _ => .num n .plain
  | .str s => .str s

/-- keyword case and numeric spelling are irrelevant, nothing else is -/
def normalize (ts : List Tok) : List Tok := ts.map normTok

/-- what a call puts on the wire -/
inductive Out
  | argv (ts : List Tok)
  | nothing       -- the call sends no command (it panics or returns an error Cmd)
  deriving DecidableEq, Repr

def Out.norm : Out → Out
  | .argv ts => .argv (normalize ts)
  | .nothing => .nothing

abbrev U (n : String) : Tok := .kw n true    -- keyword as the adapter's builder spells it
abbrev L (n : String) : Tok := .kw n false   -- keyword as go-redis spells it
abbrev N (n : Int) : Tok := .num n .plain
abbrev S (s : String) : Tok := .str s

/-! ### Duration helpers (go-redis `usePrecise`, `formatMs`, `formatSec`; durations in ns) -/

def sec : Int := 1000000000
def ms : Int := 1000000
/-- go-redis / adapter KeepTTL = -1 -/
def keepTTL : Int := -1

def usePrecise (d : Int) : Bool := d < sec || d.tmod sec != 0
def formatMs (d : Int) : Int := if 0 < d && d < ms then 1 else d.tdiv ms
def formatSec (d : Int) : Int := if 0 < d && d < sec then 1 else d.tdiv sec

/-- the `px <ms>` / `ex <s>` choice shared by SET, GETEX -/
def ttlToks (kw : String → Tok) (d : Int) : List Tok :=
  if usePrecise d then [kw "PX", N (formatMs d)] else [kw "EX", N (formatSec d)]

/-! ### Simple methods: command name followed by the arguments in order -/

inductive Slot | s | i | l
  deriving DecidableEq, Repr

inductive Val
  | s (x : String)
  | i (x : Int)
  | l (xs : List String)
  | il (xs : List Int)
  | b (x : Bool)
  | none
  deriving DecidableEq, Repr

def flat : List Val → List Tok
  | [] => []
  | .s x :: t => S x :: flat t
  | .i x :: t => N x :: flat t
  | .l xs :: t => xs.map S ++ flat t
  | .il xs :: t => xs.map N ++ flat t
  | _ :: t => flat t

/-- (adapter method, redis command name, parameter slots).  For every row both libraries send
    the name followed by the arguments in parameter order. -/
def simpleTable : List (String × String × List Slot) := [
  ("Get", "GET", [.s]), ("GetDel", "GETDEL", [.s]), ("StrLen", "STRLEN", [.s]),
  ("Incr", "INCR", [.s]), ("Decr", "DECR", [.s]), ("IncrBy", "INCRBY", [.s, .i]), ("DecrBy", "DECRBY", [.s, .i]),
  ("Append", "APPEND", [.s, .s]), ("GetRange", "GETRANGE", [.s, .i, .i]), ("SetRange", "SETRANGE", [.s, .i, .s]),
  ("GetSet", "GETSET", [.s, .s]), ("MGet", "MGET", [.l]), ("Del", "DEL", [.l]), ("Exists", "EXISTS", [.l]),
  ("Unlink", "UNLINK", [.l]), ("Touch", "TOUCH", [.l]), ("TTL", "TTL", [.s]), ("PTTL", "PTTL", [.s]),
  ("Persist", "PERSIST", [.s]), ("Type", "TYPE", [.s]), ("Rename", "RENAME", [.s, .s]), ("RenameNX", "RENAMENX", [.s, .s]),
  ("LLen", "LLEN", [.s]), ("LIndex", "LINDEX", [.s, .i]), ("LRange", "LRANGE", [.s, .i, .i]), ("LTrim", "LTRIM", [.s, .i, .i]),
  ("LRem", "LREM", [.s, .i, .s]), ("SCard", "SCARD", [.s]), ("SMembers", "SMEMBERS", [.s]), ("SIsMember", "SISMEMBER", [.s, .s]),
  ("HGet", "HGET", [.s, .s]), ("HDel", "HDEL", [.s, .l]), ("HExists", "HEXISTS", [.s, .s]), ("HLen", "HLEN", [.s]),
  ("HGetAll", "HGETALL", [.s]), ("HKeys", "HKEYS", [.s]), ("HVals", "HVALS", [.s]), ("ZCard", "ZCARD", [.s]),
  ("GetBit", "GETBIT", [.s, .i]), ("SetBit", "SETBIT", [.s, .i, .i]), ("Echo", "ECHO", [.s])
]

def slotOK : Slot → Val → Bool
  | .s, .s _ => true
  | .i, .i _ => true
  | .l, .l _ => true
  | _, _ => false

def shapeOK : List Slot → List Val → Bool
  | [], [] => true
  | sl :: ss, v :: vs => slotOK sl v && shapeOK ss vs
  | _, _ => false

namespace G
/-- go-redis: lower-case command name, then the arguments -/
def simple (name : String) (vs : List Val) : Out := .argv (L name :: flat vs)

/-- `Set(key, value, expiration)` -/
def set (k v : String) (e : Int) : Out :=
  .argv ([L "SET", S k, S v] ++
    (if 0 < e then ttlToks L e else if e == keepTTL then [L "KEEPTTL"] else []))

/-- `SetNX`: `setnx k v` | `set k v keepttl nx` | `set k v px|ex n nx` -/
def setNX (k v : String) (e : Int) : Out :=
  if e == 0 then .argv [L "SETNX", S k, S v]
  else if e == keepTTL then .argv [L "SET", S k, S v, L "KEEPTTL", L "NX"]
  else .argv ([L "SET", S k, S v] ++ ttlToks L e ++ [L "NX"])

/-- `SetXX`: `set k v [px|ex n | keepttl] xx` -/
def setXX (k v : String) (e : Int) : Out :=
  .argv ([L "SET", S k, S v] ++
    (if 0 < e then ttlToks L e else if e == keepTTL then [L "KEEPTTL"] else []) ++ [L "XX"])

/-- `SetArgs`: keepttl, exat, px|ex, mode (as given), get — in this order -/
def setArgs (k v mode : String) (ttl : Int) (hasExat : Bool) (exat : Int) (get keep : Bool) : Out :=
  .argv ([L "SET", S k, S v] ++ (if keep then [L "KEEPTTL"] else []) ++
    (if hasExat then [L "EXAT", N exat] else []) ++ (if 0 < ttl then ttlToks L ttl else []) ++
    (if mode != "" then [Tok.kw mode.toUpper (mode == mode.toUpper)] else []) ++ (if get then [L "GET"] else []))

/-- `GetEx`: "An expiration of zero removes the TTL associated with the key (i.e. GETEX key persist)" -/
def getEx (k : String) (e : Int) : Out :=
  .argv ([L "GETEX", S k] ++ (if 0 < e then ttlToks L e else if e == 0 then [L "PERSIST"] else []))

/-- `Expire` / `ExpireNX|XX|GT|LT`: `expire key <sec> [MODE]` (mode upper-case in go-redis) -/
def expire (k : String) (d : Int) (mode : String) : Out :=
  .argv ([L "EXPIRE", S k, N (formatSec d)] ++ (if mode != "" then [U mode] else []))
def pExpire (k : String) (d : Int) : Out := .argv [L "PEXPIRE", S k, N (formatMs d)]
def expireAt (k : String) (unix : Int) : Out := .argv [L "EXPIREAT", S k, N unix]
def pExpireAt (k : String) (unix nanos : Int) : Out := .argv [L "PEXPIREAT", S k, N ((unix * sec + nanos).tdiv ms)]

/-- `BitCount(key, *BitCount)`; an unknown unit is rejected with "redis: invalid bitcount index" -/
def bitCount (k : String) (bc : Option (Int × Int × String)) : Out :=
  match bc with
  | none => .argv [L "BITCOUNT", S k]
  | some (st, en, unit) =>
    if unit == "" then .argv [L "BITCOUNT", S k, N st, N en]
    else if unit == "BYTE" || unit == "BIT" then .argv [L "BITCOUNT", S k, N st, N en, U unit]
    else .nothing

/-- `BitPos(key, bit, pos...)`: more than two positions panic -/
def bitPos (k : String) (bit : Int) (pos : List Int) : Out :=
  if pos.length ≤ 2 then .argv ([L "BITPOS", S k, N bit] ++ pos.map N) else .nothing

/-- `BitPosSpan`: the span text is forwarded as given -/
def bitPosSpan (k : String) (bit st en : Int) (span : String) : Out :=
  .argv [L "BITPOS", S k, N bit, N st, N en, Tok.kw span.toUpper (span == span.toUpper)]

def scanTail (mat : String) (count : Int) : List Tok :=
  (if mat != "" then [L "MATCH", S mat] else []) ++ (if 0 < count then [L "COUNT", N count] else [])

def scan (cursor : Int) (mat : String) (count : Int) : Out := .argv ([L "SCAN", N cursor] ++ scanTail mat count)
def scanType (cursor : Int) (mat : String) (count : Int) (ty : String) : Out :=
  .argv ([L "SCAN", N cursor] ++ scanTail mat count ++ (if ty != "" then [L "TYPE", S ty] else []))
def keyScan (name k : String) (cursor : Int) (mat : String) (count : Int) : Out :=
  .argv ([L name, S k, N cursor] ++ scanTail mat count)

/-- `LInsert(key, op, pivot, value)`: op forwarded as given -/
def lInsert (k op pivot v : String) : Out :=
  .argv [L "LINSERT", S k, Tok.kw op.toUpper (op == op.toUpper), S pivot, S v]
def lInsertBefore (k pivot v : String) : Out := .argv [L "LINSERT", S k, L "BEFORE", S pivot, S v]
def lInsertAfter (k pivot v : String) : Out := .argv [L "LINSERT", S k, L "AFTER", S pivot, S v]

def copy (src dst : String) (db : Int) (replace : Bool) : Out :=
  .argv ([L "COPY", S src, S dst, U "DB", N db] ++ (if replace then [U "REPLACE"] else []))
end G

/-! ### The adapter (rueidiscompat/adapter.go), as it is -/
namespace A
def simple (name : String) (vs : List Val) : Out := .argv (U name :: flat vs)

def set (k v : String) (e : Int) : Out :=
  .argv ([U "SET", S k, S v] ++
    (if 0 < e then ttlToks U e else if e == keepTTL then [U "KEEPTTL"] else []))

/-- the builder puts NX before the expiry -/
def setNX (k v : String) (e : Int) : Out :=
  if e == 0 then .argv [U "SETNX", S k, S v]
  else if e == keepTTL then .argv [U "SET", S k, S v, U "NX", U "KEEPTTL"]
  else .argv ([U "SET", S k, S v, U "NX"] ++ ttlToks U e)

def setXX (k v : String) (e : Int) : Out :=
  .argv ([U "SET", S k, S v, U "XX"] ++
    (if 0 < e then ttlToks U e else if e == keepTTL then [U "KEEPTTL"] else []))

/-- SetArgs uses Arbitrary("SET") in go-redis' order; an unknown mode panics -/
def setArgs (k v mode : String) (ttl : Int) (hasExat : Bool) (exat : Int) (get keep : Bool) : Out :=
  if mode.toUpper == "XX" || mode.toUpper == "NX" || mode == "" then
    .argv ([U "SET", S k, S v] ++ (if keep then [U "KEEPTTL"] else []) ++
      (if hasExat then [U "EXAT", N exat] else []) ++ (if 0 < ttl then ttlToks U ttl else []) ++
      (if mode != "" then [U mode.toUpper] else []) ++ (if get then [U "GET"] else []))
  else .nothing

/-- a zero expiration sends PERSIST (after the `fix:` commit), a negative one nothing extra -/
def getEx (k : String) (e : Int) : Out :=
  .argv ([U "GETEX", S k] ++ (if 0 < e then ttlToks U e else if e == 0 then [U "PERSIST"] else []))

/-- the adapter before the `fix:` commit: no PERSIST for a zero expiration -/
def getExOld (k : String) (e : Int) : Out :=
  .argv ([U "GETEX", S k] ++ (if 0 < e then ttlToks U e else []))

def expire (k : String) (d : Int) (mode : String) : Out :=
  .argv ([U "EXPIRE", S k, N (formatSec d)] ++ (if mode != "" then [U mode] else []))
def pExpire (k : String) (d : Int) : Out := .argv [U "PEXPIRE", S k, N (formatMs d)]
def expireAt (k : String) (unix : Int) : Out := .argv [U "EXPIREAT", S k, N unix]
def pExpireAt (k : String) (unix nanos : Int) : Out := .argv [U "PEXPIREAT", S k, N ((unix * sec + nanos).tdiv ms)]

/-- after the `fix:` commit an unknown unit sends nothing -/
def bitCount (k : String) (bc : Option (Int × Int × String)) : Out :=
  match bc with
  | none => .argv [U "BITCOUNT", S k]
  | some (st, en, unit) =>
    if unit == "" then .argv [U "BITCOUNT", S k, N st, N en]
    else if unit == "BYTE" || unit == "BIT" then .argv [U "BITCOUNT", S k, N st, N en, U unit]
    else .nothing

def bitPos (k : String) (bit : Int) (pos : List Int) : Out :=
  if pos.length ≤ 2 then .argv ([U "BITPOS", S k, N bit] ++ pos.map N) else .nothing

/-- anything but "bit" (any letter case) means BYTE -/
def bitPosSpan (k : String) (bit st en : Int) (span : String) : Out :=
  .argv [U "BITPOS", S k, N bit, N st, N en, U (if span.toLower == "bit" then "BIT" else "BYTE")]

def scanTail (mat : String) (count : Int) : List Tok :=
  (if mat != "" then [U "MATCH", S mat] else []) ++ (if 0 < count then [U "COUNT", N count] else [])

def scan (cursor : Int) (mat : String) (count : Int) : Out := .argv ([U "SCAN", N cursor] ++ scanTail mat count)
/-- TYPE only for a non-empty keyType (after the `fix:` commit) -/
def scanType (cursor : Int) (mat : String) (count : Int) (ty : String) : Out :=
  .argv ([U "SCAN", N cursor] ++ scanTail mat count ++ (if ty != "" then [U "TYPE", S ty] else []))

/-- the adapter before the `fix:` commit: TYPE appended even when keyType is empty -/
def scanTypeOld (cursor : Int) (mat : String) (count : Int) (ty : String) : Out :=
  .argv ([U "SCAN", N cursor] ++ scanTail mat count ++ [U "TYPE", S ty])
def keyScan (name k : String) (cursor : Int) (mat : String) (count : Int) : Out :=
  .argv ([U name, S k, N cursor] ++ scanTail mat count)

def lInsert (k op pivot v : String) : Out :=
  if op.toUpper == "BEFORE" then .argv [U "LINSERT", S k, U "BEFORE", S pivot, S v]
  else if op.toUpper == "AFTER" then .argv [U "LINSERT", S k, U "AFTER", S pivot, S v]
  else .nothing
def lInsertBefore (k pivot v : String) : Out := .argv [U "LINSERT", S k, U "BEFORE", S pivot, S v]
def lInsertAfter (k pivot v : String) : Out := .argv [U "LINSERT", S k, U "AFTER", S pivot, S v]

def copy (src dst : String) (db : Int) (replace : Bool) : Out :=
  .argv ([U "COPY", S src, S dst, U "DB", N db] ++ (if replace then [U "REPLACE"] else []))
end A

/-! ### Dispatch by method name (used by the correspondence driver) -/

/-- (adapter argv, go-redis argv) of a call; `none` = method not transcribed or arguments outside
    the modelled shape -/
def both (m : String) (vs : List Val) : Option (Out × Out) :=
  match simpleTable.find? (·.1 == m) with
  | some (_, name, slots) => if shapeOK slots vs then some (A.simple name vs, G.simple name vs) else none
  | none =>
    match m, vs with
    | "Set", [.s k, .s v, .i e] => some (A.set k v e, G.set k v e)
    | "SetNX", [.s k, .s v, .i e] => some (A.setNX k v e, G.setNX k v e)
    | "SetXX", [.s k, .s v, .i e] => some (A.setXX k v e, G.setXX k v e)
    | "SetArgs", [.s k, .s v, .s mode, .i ttl, .b he, .i ex, .b g, .b kp] =>
      some (A.setArgs k v mode ttl he ex g kp, G.setArgs k v mode ttl he ex g kp)
    | "GetEx", [.s k, .i e] => some (A.getEx k e, G.getEx k e)
    | "Expire", [.s k, .i d] => some (A.expire k d "", G.expire k d "")
    | "ExpireNX", [.s k, .i d] => some (A.expire k d "NX", G.expire k d "NX")
    | "ExpireXX", [.s k, .i d] => some (A.expire k d "XX", G.expire k d "XX")
    | "ExpireGT", [.s k, .i d] => some (A.expire k d "GT", G.expire k d "GT")
    | "ExpireLT", [.s k, .i d] => some (A.expire k d "LT", G.expire k d "LT")
    | "PExpire", [.s k, .i d] => some (A.pExpire k d, G.pExpire k d)
    | "ExpireAt", [.s k, .i u] => some (A.expireAt k u, G.expireAt k u)
    | "PExpireAt", [.s k, .i u, .i n] => some (A.pExpireAt k u n, G.pExpireAt k u n)
    | "BitCount", [.s k, .none] => some (A.bitCount k none, G.bitCount k none)
    | "BitCount", [.s k, .i st, .i en, .s u] => some (A.bitCount k (some (st, en, u)), G.bitCount k (some (st, en, u)))
    | "BitPos", [.s k, .i b, .il pos] => some (A.bitPos k b pos, G.bitPos k b pos)
    | "BitPosSpan", [.s k, .i b, .i st, .i en, .s sp] => some (A.bitPosSpan k b st en sp, G.bitPosSpan k b st en sp)
    | "Scan", [.i c, .s mt, .i n] => some (A.scan c mt n, G.scan c mt n)
    | "ScanType", [.i c, .s mt, .i n, .s ty] => some (A.scanType c mt n ty, G.scanType c mt n ty)
    | "SScan", [.s k, .i c, .s mt, .i n] => some (A.keyScan "SSCAN" k c mt n, G.keyScan "SSCAN" k c mt n)
    | "HScan", [.s k, .i c, .s mt, .i n] => some (A.keyScan "HSCAN" k c mt n, G.keyScan "HSCAN" k c mt n)
    | "ZScan", [.s k, .i c, .s mt, .i n] => some (A.keyScan "ZSCAN" k c mt n, G.keyScan "ZSCAN" k c mt n)
    | "LInsert", [.s k, .s op, .s p, .s v] => some (A.lInsert k op p v, G.lInsert k op p v)
    | "LInsertBefore", [.s k, .s p, .s v] => some (A.lInsertBefore k p v, G.lInsertBefore k p v)
    | "LInsertAfter", [.s k, .s p, .s v] => some (A.lInsertAfter k p v, G.lInsertAfter k p v)
    | "Copy", [.s a, .s b, .i db, .b r] => some (A.copy a b db r, G.copy a b db r)
    | _, _ => none

/-- methods transcribed (for the coverage count) -/
def covered : List String :=
  simpleTable.map (·.1) ++ ["Set", "SetNX", "SetXX", "SetArgs", "GetEx", "Expire", "ExpireNX", "ExpireXX", "ExpireGT",
    "ExpireLT", "PExpire", "ExpireAt", "PExpireAt", "BitCount", "BitPos", "BitPosSpan", "Scan", "ScanType", "SScan",
    "HScan", "ZScan", "LInsert", "LInsertBefore", "LInsertAfter", "Copy"]

end Rv.GoRedisArgv
