/-
C42 — reference argv of go-redis v9 (HAND TRANSCRIPTION, from the go-redis v9.7 sources as
remembered; go-redis is not available offline — this file is trusted base and says so) and the
model of the argv the rueidiscompat adapter builds for the same methods (`A.*`, transcribed from
rueidiscompat/adapter.go and tied to the real adapter by the `argv` correspondence suite).

Tokens are structured, not strings, so that `normalize` (keyword letter case, numeric spelling)
is a total structural map: a keyword carries its canonical name and the letter case it is sent in,
a number its value and spelling.  User data (`str`) is never touched.
Core Lean only.
-/
namespace Rv.GoRedisArgv

inductive NumStyle | plain | plus | dotZero
  deriving DecidableEq, Repr

inductive Tok
  | kw (name : String) (upper : Bool)     -- command name / option keyword, sent upper- or lower-case
  | num (n : Int) (st : NumStyle)         -- integer, spelled "5", "+5" or "5.0"
  | str (s : String)                      -- user data, verbatim
  | fl (bits : Nat) (spelling canon : String)  -- IEEE double with bit pattern `bits`, sent as `spelling`;
                                               -- `canon` is its strconv 'f' -1 64 spelling (oracle string)
  deriving DecidableEq, Repr

def normTok : Tok → Tok
  | .kw n _ => .kw n true
  | .num n _ => .num n .plain
  | .str s => .str s
  | .fl b _ c => .fl b c c

/-- keyword case and numeric spelling are irrelevant, nothing else is -/
def normalize (ts : List Tok) : List Tok := ts.map normTok

/-- what a call puts on the wire -/
inductive Out
  | argv (ts : List Tok)
  | nothing       -- the call sends no command (it panics or returns an error Cmd)
  deriving DecidableEq, Repr

def Out.norm : Out → Out
  | .argv ts => .argv (normalize ts)
  | .nothing => .nothing

abbrev U (n : String) : Tok := .kw n true    -- keyword as the adapter's builder spells it
abbrev L (n : String) : Tok := .kw n false   -- keyword as go-redis spells it
abbrev N (n : Int) : Tok := .num n .plain
abbrev S (s : String) : Tok := .str s

/-! ### Duration helpers (go-redis `usePrecise`, `formatMs`, `formatSec`; durations in ns) -/

def sec : Int := 1000000000
def ms : Int := 1000000
/-- go-redis / adapter KeepTTL = -1 -/
def keepTTL : Int := -1

def usePrecise (d : Int) : Bool := d < sec || d.tmod sec != 0
def formatMs (d : Int) : Int := if 0 < d && d < ms then 1 else d.tdiv ms
def formatSec (d : Int) : Int := if 0 < d && d < sec then 1 else d.tdiv sec

/-- the `px <ms>` / `ex <s>` choice shared by SET, GETEX -/
def ttlToks (kw : String → Tok) (d : Int) : List Tok :=
  if usePrecise d then [kw "PX", N (formatMs d)] else [kw "EX", N (formatSec d)]

/-! ### Simple methods: command name followed by the arguments in order -/

inductive Slot | s | i | l
  deriving DecidableEq, Repr

inductive Val
  | s (x : String)
  | i (x : Int)
  | l (xs : List String)
  | il (xs : List Int)
  | b (x : Bool)
  | none
  deriving DecidableEq, Repr

def flat : List Val → List Tok
  | [] => []
  | .s x :: t => S x :: flat t
  | .i x :: t => N x :: flat t
  | .l xs :: t => xs.map S ++ flat t
  | .il xs :: t => xs.map N ++ flat t
  | _ :: t => flat t

/-- (adapter method, redis command name, parameter slots).  For every row both libraries send
    the name followed by the arguments in parameter order. -/
def simpleTable : List (String × String × List Slot) := [
  ("Get", "GET", [.s]), ("GetDel", "GETDEL", [.s]), ("StrLen", "STRLEN", [.s]),
  ("Incr", "INCR", [.s]), ("Decr", "DECR", [.s]), ("IncrBy", "INCRBY", [.s, .i]), ("DecrBy", "DECRBY", [.s, .i]),
  ("Append", "APPEND", [.s, .s]), ("GetRange", "GETRANGE", [.s, .i, .i]), ("SetRange", "SETRANGE", [.s, .i, .s]),
  ("GetSet", "GETSET", [.s, .s]), ("MGet", "MGET", [.l]), ("Del", "DEL", [.l]), ("Exists", "EXISTS", [.l]),
  ("Unlink", "UNLINK", [.l]), ("Touch", "TOUCH", [.l]), ("TTL", "TTL", [.s]), ("PTTL", "PTTL", [.s]),
  ("Persist", "PERSIST", [.s]), ("Type", "TYPE", [.s]), ("Rename", "RENAME", [.s, .s]), ("RenameNX", "RENAMENX", [.s, .s]),
  ("LLen", "LLEN", [.s]), ("LIndex", "LINDEX", [.s, .i]), ("LRange", "LRANGE", [.s, .i, .i]), ("LTrim", "LTRIM", [.s, .i, .i]),
  ("LRem", "LREM", [.s, .i, .s]), ("SCard", "SCARD", [.s]), ("SMembers", "SMEMBERS", [.s]), ("SIsMember", "SISMEMBER", [.s, .s]),
  ("HGet", "HGET", [.s, .s]), ("HDel", "HDEL", [.s, .l]), ("HExists", "HEXISTS", [.s, .s]), ("HLen", "HLEN", [.s]),
  ("HGetAll", "HGETALL", [.s]), ("HKeys", "HKEYS", [.s]), ("HVals", "HVALS", [.s]), ("ZCard", "ZCARD", [.s]),
  ("GetBit", "GETBIT", [.s, .i]), ("SetBit", "SETBIT", [.s, .i, .i]), ("Echo", "ECHO", [.s])
]

def slotOK : Slot → Val → Bool
  | .s, .s _ => true
  | .i, .i _ => true
  | .l, .l _ => true
  | _, _ => false

def shapeOK : List Slot → List Val → Bool
  | [], [] => true
  | sl :: ss, v :: vs => slotOK sl v && shapeOK ss vs
  | _, _ => false

namespace G
/-- go-redis: lower-case command name, then the arguments -/
def simple (name : String) (vs : List Val) : Out := .argv (L name :: flat vs)

/-- `Set(key, value, expiration)` -/
def set (k v : String) (e : Int) : Out :=
  .argv ([L "SET", S k, S v] ++
    (if 0 < e then ttlToks L e else if e == keepTTL then [L "KEEPTTL"] else []))

/-- `SetNX`: `setnx k v` | `set k v keepttl nx` | `set k v px|ex n nx` -/
def setNX (k v : String) (e : Int) : Out :=
  if e == 0 then .argv [L "SETNX", S k, S v]
  else if e == keepTTL then .argv [L "SET", S k, S v, L "KEEPTTL", L "NX"]
  else .argv ([L "SET", S k, S v] ++ ttlToks L e ++ [L "NX"])

/-- `SetXX`: `set k v [px|ex n | keepttl] xx` -/
def setXX (k v : String) (e : Int) : Out :=
  .argv ([L "SET", S k, S v] ++
    (if 0 < e then ttlToks L e else if e == keepTTL then [L "KEEPTTL"] else []) ++ [L "XX"])

/-- `SetArgs`: keepttl, exat, px|ex, mode (as given), get — in this order -/
def setArgs (k v mode : String) (ttl : Int) (hasExat : Bool) (exat : Int) (get keep : Bool) : Out :=
  .argv ([L "SET", S k, S v] ++ (if keep then [L "KEEPTTL"] else []) ++
    (if hasExat then [L "EXAT", N exat] else []) ++ (if 0 < ttl then ttlToks L ttl else []) ++
    (if mode != "" then [Tok.kw mode.toUpper (mode == mode.toUpper)] else []) ++ (if get then [L "GET"] else []))

/-- `GetEx`: "An expiration of zero removes the TTL associated with the key (i.e. GETEX key persist)" -/
def getEx (k : String) (e : Int) : Out :=
  .argv ([L "GETEX", S k] ++ (if 0 < e then ttlToks L e else if e == 0 then [L "PERSIST"] else []))

/-- `Expire` / `ExpireNX|XX|GT|LT`: `expire key <sec> [MODE]` (mode upper-case in go-redis) -/
def expire (k : String) (d : Int) (mode : String) : Out :=
  .argv ([L "EXPIRE", S k, N (formatSec d)] ++ (if mode != "" then [U mode] else []))
def pExpire (k : String) (d : Int) : Out := .argv [L "PEXPIRE", S k, N (formatMs d)]
def expireAt (k : String) (unix : Int) : Out := .argv [L "EXPIREAT", S k, N unix]
def pExpireAt (k : String) (unix nanos : Int) : Out := .argv [L "PEXPIREAT", S k, N ((unix * sec + nanos).tdiv ms)]

/-- `BitCount(key, *BitCount)`; an unknown unit is rejected with "redis: invalid bitcount index" -/
def bitCount (k : String) (bc : Option (Int × Int × String)) : Out :=
  match bc with
  | none => .argv [L "BITCOUNT", S k]
  | some (st, en, unit) =>
    if unit == "" then .argv [L "BITCOUNT", S k, N st, N en]
    else if unit == "BYTE" || unit == "BIT" then .argv [L "BITCOUNT", S k, N st, N en, U unit]
    else .nothing

/-- `BitPos(key, bit, pos...)`: more than two positions panic -/
def bitPos (k : String) (bit : Int) (pos : List Int) : Out :=
  if pos.length ≤ 2 then .argv ([L "BITPOS", S k, N bit] ++ pos.map N) else .nothing

/-- `BitPosSpan`: the span text is forwarded as given -/
def bitPosSpan (k : String) (bit st en : Int) (span : String) : Out :=
  .argv [L "BITPOS", S k, N bit, N st, N en, Tok.kw span.toUpper (span == span.toUpper)]

def scanTail (mat : String) (count : Int) : List Tok :=
  (if mat != "" then [L "MATCH", S mat] else []) ++ (if 0 < count then [L "COUNT", N count] else [])

def scan (cursor : Int) (mat : String) (count : Int) : Out := .argv ([L "SCAN", N cursor] ++ scanTail mat count)
def scanType (cursor : Int) (mat : String) (count : Int) (ty : String) : Out :=
  .argv ([L "SCAN", N cursor] ++ scanTail mat count ++ (if ty != "" then [L "TYPE", S ty] else []))
def keyScan (name k : String) (cursor : Int) (mat : String) (count : Int) : Out :=
  .argv ([L name, S k, N cursor] ++ scanTail mat count)

/-- `LInsert(key, op, pivot, value)`: op forwarded as given -/
def lInsert (k op pivot v : String) : Out :=
  .argv [L "LINSERT", S k, Tok.kw op.toUpper (op == op.toUpper), S pivot, S v]
def lInsertBefore (k pivot v : String) : Out := .argv [L "LINSERT", S k, L "BEFORE", S pivot, S v]
def lInsertAfter (k pivot v : String) : Out := .argv [L "LINSERT", S k, L "AFTER", S pivot, S v]

def copy (src dst : String) (db : Int) (replace : Bool) : Out :=
  .argv ([L "COPY", S src, S dst, U "DB", N db] ++ (if replace then [U "REPLACE"] else []))
end G

/-! ### The adapter (rueidiscompat/adapter.go), as it is -/
namespace A
def simple (name : String) (vs : List Val) : Out := .argv (U name :: flat vs)

def set (k v : String) (e : Int) : Out :=
  .argv ([U "SET", S k, S v] ++
    (if 0 < e then ttlToks U e else if e == keepTTL then [U "KEEPTTL"] else []))

/-- the builder puts NX before the expiry -/
def setNX (k v : String) (e : Int) : Out :=
  if e == 0 then .argv [U "SETNX", S k, S v]
  else if e == keepTTL then .argv [U "SET", S k, S v, U "NX", U "KEEPTTL"]
  else .argv ([U "SET", S k, S v, U "NX"] ++ ttlToks U e)

def setXX (k v : String) (e : Int) : Out :=
  .argv ([U "SET", S k, S v, U "XX"] ++
    (if 0 < e then ttlToks U e else if e == keepTTL then [U "KEEPTTL"] else []))

/-- SetArgs uses Arbitrary("SET") in go-redis' order; an unknown mode panics -/
def setArgs (k v mode : String) (ttl : Int) (hasExat : Bool) (exat : Int) (get keep : Bool) : Out :=
  if mode.toUpper == "XX" || mode.toUpper == "NX" || mode == "" then
    .argv ([U "SET", S k, S v] ++ (if keep then [U "KEEPTTL"] else []) ++
      (if hasExat then [U "EXAT", N exat] else []) ++ (if 0 < ttl then ttlToks U ttl else []) ++
      (if mode != "" then [U mode.toUpper] else []) ++ (if get then [U "GET"] else []))
  else .nothing

/-- a zero expiration sends PERSIST (after the `fix:` commit), a negative one nothing extra -/
def getEx (k : String) (e : Int) : Out :=
  .argv ([U "GETEX", S k] ++ (if 0 < e then ttlToks U e else if e == 0 then [U "PERSIST"] else []))

/-- the adapter before the `fix:` commit: no PERSIST for a zero expiration -/
def getExOld (k : String) (e : Int) : Out :=
  .argv ([U "GETEX", S k] ++ (if 0 < e then ttlToks U e else []))

def expire (k : String) (d : Int) (mode : String) : Out :=
  .argv ([U "EXPIRE", S k, N (formatSec d)] ++ (if mode != "" then [U mode] else []))
def pExpire (k : String) (d : Int) : Out := .argv [U "PEXPIRE", S k, N (formatMs d)]
def expireAt (k : String) (unix : Int) : Out := .argv [U "EXPIREAT", S k, N unix]
def pExpireAt (k : String) (unix nanos : Int) : Out := .argv [U "PEXPIREAT", S k, N ((unix * sec + nanos).tdiv ms)]

/-- after the `fix:` commit an unknown unit sends nothing -/
def bitCount (k : String) (bc : Option (Int × Int × String)) : Out :=
  match bc with
  | none => .argv [U "BITCOUNT", S k]
  | some (st, en, unit) =>
    if unit == "" then .argv [U "BITCOUNT", S k, N st, N en]
    else if unit == "BYTE" || unit == "BIT" then .argv [U "BITCOUNT", S k, N st, N en, U unit]
    else .nothing

def bitPos (k : String) (bit : Int) (pos : List Int) : Out :=
  if pos.length ≤ 2 then .argv ([U "BITPOS", S k, N bit] ++ pos.map N) else .nothing

/-- anything but "bit" (any letter case) means BYTE -/
def bitPosSpan (k : String) (bit st en : Int) (span : String) : Out :=
  .argv [U "BITPOS", S k, N bit, N st, N en, U (if span.toLower == "bit" then "BIT" else "BYTE")]

def scanTail (mat : String) (count : Int) : List Tok :=
  (if mat != "" then [U "MATCH", S mat] else []) ++ (if 0 < count then [U "COUNT", N count] else [])

def scan (cursor : Int) (mat : String) (count : Int) : Out := .argv ([U "SCAN", N cursor] ++ scanTail mat count)
/-- TYPE only for a non-empty keyType (after the `fix:` commit) -/
def scanType (cursor : Int) (mat : String) (count : Int) (ty : String) : Out :=
  .argv ([U "SCAN", N cursor] ++ scanTail mat count ++ (if ty != "" then [U "TYPE", S ty] else []))

/-- the adapter before the `fix:` commit: TYPE appended even when keyType is empty -/
def scanTypeOld (cursor : Int) (mat : String) (count : Int) (ty : String) : Out :=
  .argv ([U "SCAN", N cursor] ++ scanTail mat count ++ [U "TYPE", S ty])
def keyScan (name k : String) (cursor : Int) (mat : String) (count : Int) : Out :=
  .argv ([U name, S k, N cursor] ++ scanTail mat count)

def lInsert (k op pivot v : String) : Out :=
  if op.toUpper == "BEFORE" then .argv [U "LINSERT", S k, U "BEFORE", S pivot, S v]
  else if op.toUpper == "AFTER" then .argv [U "LINSERT", S k, U "AFTER", S pivot, S v]
  else .nothing
def lInsertBefore (k pivot v : String) : Out := .argv [U "LINSERT", S k, U "BEFORE", S pivot, S v]
def lInsertAfter (k pivot v : String) : Out := .argv [U "LINSERT", S k, U "AFTER", S pivot, S v]

def copy (src dst : String) (db : Int) (replace : Bool) : Out :=
  .argv ([U "COPY", S src, S dst, U "DB", N db] ++ (if replace then [U "REPLACE"] else []))
end A

/-! ### Option-struct methods, second batch: a small piece language

For methods where the adapter builds its argv token by token in the same order as go-redis, ONE
transcription (`P.*`, a list of pieces) serves both libraries: the adapter sends it with upper-case
keywords (`build true`), go-redis with lower-case keywords (`build false`).  Where the two libraries
differ (ZRANGE with REV+BYSCORE/BYLEX, the explicit `=` of XADD/XTRIM, sub-millisecond BLOCK) there are
two transcriptions. -/

inductive Piece
  | kw (n : String)       -- keyword spelled by the library
  | num (n : Int)
  | str (s : String)      -- user data
  | given (s : String)    -- keyword text supplied by the caller (unit, order, aggregate), sent as given
  deriving DecidableEq, Repr

def Piece.tok (up : Bool) : Piece → Tok
  | .kw n => .kw n up
  | .num n => N n
  | .str s => S s
  | .given s => .kw s.toUpper (s == s.toUpper)

def build (up : Bool) (ps : List Piece) : List Tok := ps.map (Piece.tok up)

namespace P
open Piece

def opt (c : Bool) (ps : List Piece) : List Piece := if c then ps else []
def strs (xs : List String) : List Piece := xs.map str
def nums (xs : List Int) : List Piece := xs.map num

/-- score/member pairs; a missing partner is dropped (the harness always sends equal lengths) -/
def pairs : List Int → List String → List Piece
  | s :: ss, m :: ms => num s :: str m :: pairs ss ms
  | _, _ => []

/-- go-redis `zAddArgs` = adapter `zAddArgs`: NX excludes XX/GT/LT; XX combines with GT or LT; GT wins over LT -/
def zAdd (key : String) (incr nx xx lt gt ch : Bool) (scores : List Int) (members : List String) : List Piece :=
  [kw "ZADD", str key] ++
  (if nx then [kw "NX"] else opt xx [kw "XX"] ++ (if gt then [kw "GT"] else opt lt [kw "LT"])) ++
  opt ch [kw "CH"] ++ opt incr [kw "INCR"] ++ pairs scores members

def limit (off cnt : Int) : List Piece := opt (off != 0 || cnt != 0) [kw "LIMIT", num off, num cnt]

/-- ZRANGE / ZRANGESTORE options after the key(s) and the range -/
def zRangeOpts (byScore byLex rev : Bool) (off cnt : Int) : List Piece :=
  (if byScore then [kw "BYSCORE"] else opt byLex [kw "BYLEX"]) ++ opt rev [kw "REV"] ++ limit off cnt

/-- the adapter: start and stop exactly as given -/
def zRangeA (cmd : String) (keys : List String) (start stop : String) (byScore byLex rev : Bool) (off cnt : Int)
    (withScores : Bool) : List Piece :=
  [kw cmd] ++ strs keys ++ [str start, str stop] ++ zRangeOpts byScore byLex rev off cnt ++ opt withScores [kw "WITHSCORES"]

/-- go-redis `ZRangeArgs.appendArgs`: "For Rev+ByScore/ByLex, we need to adjust the position of
    <Start> and <Stop>" — it swaps them -/
def zRangeG (cmd : String) (keys : List String) (start stop : String) (byScore byLex rev : Bool) (off cnt : Int)
    (withScores : Bool) : List Piece :=
  [kw cmd] ++ strs keys ++ (if rev && (byScore || byLex) then [str stop, str start] else [str start, str stop]) ++
  zRangeOpts byScore byLex rev off cnt ++ opt withScores [kw "WITHSCORES"]

/-- ZRANGEBYSCORE / ZRANGEBYLEX (min max) and ZREVRANGEBY* (max min): [WITHSCORES] [LIMIT off cnt] -/
def zRangeBy (cmd key a b : String) (withScores : Bool) (off cnt : Int) : List Piece :=
  [kw cmd, str key, str a, str b] ++ opt withScores [kw "WITHSCORES"] ++ limit off cnt

/-- ZINTERSTORE/ZUNIONSTORE dest | ZINTER/ZUNION: numkeys keys [WEIGHTS w…] [AGGREGATE a] [WITHSCORES] -/
def zStore (cmd : String) (dest : List String) (keys : List String) (weights : List Int) (agg : String)
    (withScores : Bool) : List Piece :=
  [kw cmd] ++ strs dest ++ [num keys.length] ++ strs keys ++
  opt (!weights.isEmpty) (kw "WEIGHTS" :: nums weights) ++ opt (agg != "") [kw "AGGREGATE", given agg] ++
  opt withScores [kw "WITHSCORES"]

/-- XADD; `explicitEq` = the adapter writes the exact-trim operator `=`, go-redis leaves it out -/
def xAdd (explicitEq : Bool) (stream : String) (noMk : Bool) (maxLen : Int) (minID : String) (approx : Bool)
    (lim : Int) (id : String) (values : List String) : List Piece :=
  [kw "XADD", str stream] ++ opt noMk [kw "NOMKSTREAM"] ++
  (if 0 < maxLen then [kw "MAXLEN"] ++ (if approx then [kw "~"] else opt explicitEq [kw "="]) ++ [num maxLen]
   else if minID != "" then [kw "MINID"] ++ (if approx then [kw "~"] else opt explicitEq [kw "="]) ++ [str minID]
   else []) ++
  opt (0 < lim) [kw "LIMIT", num lim] ++ [if id != "" then str id else kw "*"] ++ strs values

/-- XTRIM key MAXLEN|MINID [~|=] threshold [LIMIT n] -/
def xTrim (explicitEq : Bool) (key strategy : String) (approx : Bool) (threshold : Piece) (lim : Int) : List Piece :=
  [kw "XTRIM", str key, kw strategy] ++ (if approx then [kw "~"] else opt explicitEq [kw "="]) ++ [threshold] ++
  opt (0 < lim) [kw "LIMIT", num lim]

/-- XREAD [COUNT n] [BLOCK ms] STREAMS …; `blockMs` is the library's conversion of the duration -/
def xRead (streams : List String) (count block blockMs : Int) : List Piece :=
  [kw "XREAD"] ++ opt (0 < count) [kw "COUNT", num count] ++ opt (0 ≤ block) [kw "BLOCK", num blockMs] ++
  [kw "STREAMS"] ++ strs streams

def xReadGroup (group consumer : String) (streams : List String) (count block blockMs : Int) (noAck : Bool) : List Piece :=
  [kw "XREADGROUP", kw "GROUP", str group, str consumer] ++ opt (0 < count) [kw "COUNT", num count] ++
  opt (0 ≤ block) [kw "BLOCK", num blockMs] ++ opt noAck [kw "NOACK"] ++ [kw "STREAMS"] ++ strs streams

def xPendingExt (stream group start stop consumer : String) (idle idleMs count : Int) : List Piece :=
  [kw "XPENDING", str stream, str group] ++ opt (idle != 0) [kw "IDLE", num idleMs] ++
  [str start, str stop, num count] ++ opt (consumer != "") [str consumer]

def xAutoClaim (stream group start consumer : String) (minIdle count : Int) (justID : Bool) : List Piece :=
  [kw "XAUTOCLAIM", str stream, str group, str consumer, num (formatMs minIdle), str start] ++
  opt (0 < count) [kw "COUNT", num count] ++ opt justID [kw "JUSTID"]

/-- SORT / SORT_RO key [BY p] [LIMIT o c] [GET p]… [order] [ALPHA] [STORE dst] -/
def sort (cmd key by_ : String) (order : List Piece) (gets : List String) (off cnt : Int) (alpha : Bool) (store : List String) : List Piece :=
  [kw cmd, str key] ++ opt (by_ != "") [kw "BY", str by_] ++ limit off cnt ++
  (gets.map fun g => [kw "GET", str g]).flatten ++ order ++ opt alpha [kw "ALPHA"] ++
  (store.map fun d => [kw "STORE", str d]).flatten

/-- GEOSEARCH / GEOSEARCHSTORE query part -/
def geoQuery (member rUnit bUnit sortOrd : String) (lon lat radius bw bh count : Int) (any : Bool) : List Piece :=
  (if member != "" then [kw "FROMMEMBER", str member] else [kw "FROMLONLAT", num lon, num lat]) ++
  (if 0 < radius then [kw "BYRADIUS", num radius, if rUnit == "" then kw "KM" else given rUnit]
   else [kw "BYBOX", num bw, num bh, if bUnit == "" then kw "KM" else given bUnit]) ++
  opt (sortOrd != "") [given sortOrd] ++ (if 0 < count then [kw "COUNT", num count] ++ opt any [kw "ANY"] else [])
end P

/-- the adapter upper-cases the order it accepts; go-redis forwards the caller's text -/
def sortOrderA (order : String) : List Piece := P.opt (order != "") [.kw order.toUpper]
def sortOrderG (order : String) : List Piece := P.opt (order != "") [.given order]

/-- the adapter refuses a SORT order other than "", ASC, DESC (any letter case) -/
def sortOrderOK (order : String) : Bool := order == "" || order.toUpper == "ASC" || order.toUpper == "DESC"

/-- go-redis' XREAD/XREADGROUP/XPENDING conversion: plain truncating division (no round-up of sub-ms) -/
def plainMs (d : Int) : Int := d.tdiv ms

/-- second batch: (adapter argv, go-redis argv) -/
def both2 (m : String) (vs : List Val) : Option (Out × Out) :=
  let same (ps : List Piece) : Option (Out × Out) := some (.argv (build true ps), .argv (build false ps))
  let two (a g : List Piece) : Option (Out × Out) := some (.argv (build true a), .argv (build false g))
  match m, vs with
  | "ZAdd", [.s k, .il sc, .l ms] => same (P.zAdd k false false false false false false sc ms)
  | "ZAddNX", [.s k, .il sc, .l ms] => same (P.zAdd k false true false false false false sc ms)
  | "ZAddXX", [.s k, .il sc, .l ms] => same (P.zAdd k false false true false false false sc ms)
  | "ZAddLT", [.s k, .il sc, .l ms] => same (P.zAdd k false false false true false false sc ms)
  | "ZAddGT", [.s k, .il sc, .l ms] => same (P.zAdd k false false false false true false sc ms)
  | "ZAddArgs", [.s k, .b nx, .b xx, .b lt, .b gt, .b ch, .il sc, .l ms] => same (P.zAdd k false nx xx lt gt ch sc ms)
  | "ZAddArgsIncr", [.s k, .b nx, .b xx, .b lt, .b gt, .b ch, .il sc, .l ms] => same (P.zAdd k true nx xx lt gt ch sc ms)
  | "ZRangeArgs", [.s k, .s a, .s b, .b bs, .b bl, .b rv, .i o, .i c] =>
    two (P.zRangeA "ZRANGE" [k] a b bs bl rv o c false) (P.zRangeG "ZRANGE" [k] a b bs bl rv o c false)
  | "ZRangeArgsWithScores", [.s k, .s a, .s b, .b bs, .b bl, .b rv, .i o, .i c] =>
    two (P.zRangeA "ZRANGE" [k] a b bs bl rv o c true) (P.zRangeG "ZRANGE" [k] a b bs bl rv o c true)
  | "ZRangeStore", [.s d, .s k, .s a, .s b, .b bs, .b bl, .b rv, .i o, .i c] =>
    two (P.zRangeA "ZRANGESTORE" [d, k] a b bs bl rv o c false) (P.zRangeG "ZRANGESTORE" [d, k] a b bs bl rv o c false)
  | "ZRangeByScore", [.s k, .s mn, .s mx, .i o, .i c] => same (P.zRangeBy "ZRANGEBYSCORE" k mn mx false o c)
  | "ZRangeByLex", [.s k, .s mn, .s mx, .i o, .i c] => same (P.zRangeBy "ZRANGEBYLEX" k mn mx false o c)
  | "ZRangeByScoreWithScores", [.s k, .s mn, .s mx, .i o, .i c] => same (P.zRangeBy "ZRANGEBYSCORE" k mn mx true o c)
  | "ZRevRangeByScore", [.s k, .s mn, .s mx, .i o, .i c] => same (P.zRangeBy "ZREVRANGEBYSCORE" k mx mn false o c)
  | "ZRevRangeByLex", [.s k, .s mn, .s mx, .i o, .i c] => same (P.zRangeBy "ZREVRANGEBYLEX" k mx mn false o c)
  | "ZRevRangeByScoreWithScores", [.s k, .s mn, .s mx, .i o, .i c] => same (P.zRangeBy "ZREVRANGEBYSCORE" k mx mn true o c)
  | "ZInterStore", [.s d, .l ks, .il ws, .s ag] => same (P.zStore "ZINTERSTORE" [d] ks ws ag false)
  | "ZUnionStore", [.s d, .l ks, .il ws, .s ag] => same (P.zStore "ZUNIONSTORE" [d] ks ws ag false)
  | "ZInter", [.l ks, .il ws, .s ag] => same (P.zStore "ZINTER" [] ks ws ag false)
  | "ZUnion", [.l ks, .il ws, .s ag] => same (P.zStore "ZUNION" [] ks ws ag false)
  | "ZInterWithScores", [.l ks, .il ws, .s ag] => same (P.zStore "ZINTER" [] ks ws ag true)
  | "ZUnionWithScores", [.l ks, .il ws, .s ag] => same (P.zStore "ZUNION" [] ks ws ag true)
  | "XAdd", [.s st, .b nm, .i ml, .s mi, .b ap, .i li, .s id, .l vals] =>
    two (P.xAdd true st nm ml mi ap li id vals) (P.xAdd false st nm ml mi ap li id vals)
  | "XTrimMaxLen", [.s k, .i n] => two (P.xTrim true k "MAXLEN" false (.num n) 0) (P.xTrim false k "MAXLEN" false (.num n) 0)
  | "XTrimMaxLenApprox", [.s k, .i n, .i li] => two (P.xTrim true k "MAXLEN" true (.num n) li) (P.xTrim false k "MAXLEN" true (.num n) li)
  | "XTrimMinID", [.s k, .s id] => two (P.xTrim true k "MINID" false (.str id) 0) (P.xTrim false k "MINID" false (.str id) 0)
  | "XTrimMinIDApprox", [.s k, .s id, .i li] => two (P.xTrim true k "MINID" true (.str id) li) (P.xTrim false k "MINID" true (.str id) li)
  | "XRead", [.l ss, .i c, .i b] => two (P.xRead ss c b (formatMs b)) (P.xRead ss c b (plainMs b))
  | "XReadGroup", [.s g, .s cn, .l ss, .i c, .i b, .b na] =>
    two (P.xReadGroup g cn ss c b (formatMs b) na) (P.xReadGroup g cn ss c b (plainMs b) na)
  | "XPendingExt", [.s st, .s g, .s a, .s e, .s cn, .i idle, .i c] =>
    two (P.xPendingExt st g a e cn idle (formatMs idle) c) (P.xPendingExt st g a e cn idle (plainMs idle) c)
  | "XAutoClaim", [.s st, .s g, .s a, .s cn, .i mi, .i c] => same (P.xAutoClaim st g a cn mi c false)
  | "XAutoClaimJustID", [.s st, .s g, .s a, .s cn, .i mi, .i c] => same (P.xAutoClaim st g a cn mi c true)
  | "Sort", [.s k, .s by_, .s ord, .l gets, .i o, .i c, .b al] =>
    let g := P.sort "SORT" k by_ (sortOrderG ord) gets o c al []
    if sortOrderOK ord then two (P.sort "SORT" k by_ (sortOrderA ord) gets o c al []) g
    else some (.nothing, .argv (build false g))
  | "SortRO", [.s k, .s by_, .s ord, .l gets, .i o, .i c, .b al] =>
    let g := P.sort "SORT_RO" k by_ (sortOrderG ord) gets o c al []
    if sortOrderOK ord then two (P.sort "SORT_RO" k by_ (sortOrderA ord) gets o c al []) g
    else some (.nothing, .argv (build false g))
  | "SortStore", [.s k, .s d, .s by_, .s ord, .l gets, .i o, .i c, .b al] =>
    let g := P.sort "SORT" k by_ (sortOrderG ord) gets o c al [d]
    if sortOrderOK ord then two (P.sort "SORT" k by_ (sortOrderA ord) gets o c al [d]) g
    else some (.nothing, .argv (build false g))
  | "GeoSearch", [.s k, .s mb, .s ru, .s bu, .s so, .i lon, .i lat, .i r, .i bw, .i bh, .i c, .b any] =>
    same ([.kw "GEOSEARCH", .str k] ++ P.geoQuery mb ru bu so lon lat r bw bh c any)
  | "GeoSearchLocation", [.s k, .s mb, .s ru, .s bu, .s so, .i lon, .i lat, .i r, .i bw, .i bh, .i c, .b any, .b wc, .b wd, .b wh] =>
    same ([.kw "GEOSEARCH", .str k] ++ P.geoQuery mb ru bu so lon lat r bw bh c any ++
      P.opt wc [.kw "WITHCOORD"] ++ P.opt wd [.kw "WITHDIST"] ++ P.opt wh [.kw "WITHHASH"])
  | "GeoSearchStore", [.s src, .s dst, .s mb, .s ru, .s bu, .s so, .i lon, .i lat, .i r, .i bw, .i bh, .i c, .b any, .b sd] =>
    same ([.kw "GEOSEARCHSTORE", .str dst, .str src] ++ P.geoQuery mb ru bu so lon lat r bw bh c any ++ P.opt sd [.kw "STOREDIST"])
  | _, _ => none

def covered2 : List String := ["ZAdd", "ZAddNX", "ZAddXX", "ZAddLT", "ZAddGT", "ZAddArgs", "ZAddArgsIncr",
  "ZRangeArgs", "ZRangeArgsWithScores", "ZRangeStore", "ZRangeByScore", "ZRangeByLex", "ZRangeByScoreWithScores",
  "ZRevRangeByScore", "ZRevRangeByLex", "ZRevRangeByScoreWithScores", "ZInterStore", "ZUnionStore", "ZInter", "ZUnion",
  "ZInterWithScores", "ZUnionWithScores", "XAdd", "XTrimMaxLen", "XTrimMaxLenApprox", "XTrimMinID", "XTrimMinIDApprox",
  "XRead", "XReadGroup", "XPendingExt", "XAutoClaim", "XAutoClaimJustID", "Sort", "SortRO", "SortStore",
  "GeoSearch", "GeoSearchLocation", "GeoSearchStore"]

/-! ### Value encoding of `any` arguments

go-redis `internal/proto/writer.go` `(*Writer).WriteArg` (hand transcription, cases IN ORDER):
  nil → ""; string; []byte; int, int8 … int64, uint … uint64 → decimal; float32 → float(float64(v));
  float64 → strconv.AppendFloat(f, 'f', -1, 64); bool → 1/0; time.Time → RFC3339Nano text;
  time.Duration → int64 nanoseconds; encoding.BinaryMarshaler → MarshalBinary bytes (error if it fails);
  net.IP → the raw bytes; anything else → error "redis: can't marshal %T".
The adapter's `str` (adapter.go): nil → ""; string; []byte; bool → 1/0; time.Time → RFC3339Nano;
  time.Duration → nanoseconds; BinaryMarshaler → bytes if MarshalBinary succeeds; everything else
  (and a failing marshaler) → fmt.Sprint(arg).
Strings produced by Go's strconv / time / fmt are ORACLE strings carried on the op line (trusted:
computed by the Go standard library in the harness). -/

inductive AnyVal
  | nil
  | str (s : String)
  | bytes (s : String)
  | int (n : Int)                              -- every signed/unsigned integer kind
  | f64 (bits : Nat) (f g : String)            -- 'f' -1 64 spelling, fmt %v spelling
  | f32 (bits : Nat) (fexp g32 : String)       -- 'f' -1 64 of float64(v), fmt %v of the float32
  | bool (b : Bool)
  | time (rfc bin : String)                    -- RFC3339Nano text, MarshalBinary bytes
  | dur (ns : Int)
  | marshaler (bin sprint : String) (ok : Bool) -- user type implementing BinaryMarshaler (ok: no error)
  | ip (raw text : String)                     -- net.IP: raw bytes, String() text
  | stringer (text : String)                   -- any other type; text = fmt.Sprint
  deriving DecidableEq, Repr

namespace A
/-- `str(arg)` of adapter.go, as it is -/
def str : AnyVal → Tok
  | .nil => S ""
  | .str s => S s
  | .bytes s => S s
  | .int n => N n
  | .f64 b f g => .fl b g f
  | .f32 _ _ g32 => S g32            -- fmt.Sprint(float32): shortest float32 spelling
  | .bool b => N (if b then 1 else 0)
  | .time rfc _ => S rfc
  | .dur ns => N ns
  | .marshaler bin sp ok => if ok then S bin else S sp
  | .ip _ text => S text             -- fmt.Sprint uses IP.String()
  | .stringer text => S text
end A

namespace G
/-- go-redis `WriteArg`; `none` = "redis: can't marshal" / marshal error (nothing is sent) -/
def appendArg : AnyVal → Option Tok
  | .nil => some (S "")
  | .str s => some (S s)
  | .bytes s => some (S s)
  | .int n => some (N n)
  | .f64 b f _ => some (.fl b f f)
  | .f32 _ fexp _ => some (S fexp)   -- float64(v) spelled with 'f' -1 64
  | .bool b => some (N (if b then 1 else 0))
  | .time rfc _ => some (S rfc)
  | .dur ns => some (N ns)
  | .marshaler bin _ ok => if ok then some (S bin) else none
  | .ip raw _ => some (S raw)
  | .stringer _ => none
end G

/-- the values on which both libraries are expected to agree -/
def AnyVal.common : AnyVal → Bool
  | .f32 .. => false
  | .ip .. => false
  | .stringer .. => false
  | .marshaler _ _ ok => ok
  | _ => true

/-- methods taking an `any` value: the argv before the value, how many times the value occurs, the argv after -/
def anyTemplate (m : String) : Option (List Piece × Nat × List Piece) :=
  let k := Piece.str "u_k"
  match m with
  | "Set" => some ([.kw "SET", k], 1, [])
  | "SetNX" => some ([.kw "SETNX", k], 1, [])
  | "SetXX" => some ([.kw "SET", k], 1, [.kw "XX"])
  | "SetEX" => some ([.kw "SETEX", k, .num 10], 1, [])
  | "GetSet" => some ([.kw "GETSET", k], 1, [])
  | "Echo" => some ([.kw "ECHO"], 1, [])
  | "HSet" => some ([.kw "HSET", k, .str "u_f"], 1, [])
  | "HMSet" => some ([.kw "HMSET", k, .str "u_f"], 1, [])
  | "HSetNX" => some ([.kw "HSETNX", k, .str "u_f"], 1, [])
  | "MSet" => some ([.kw "MSET", k], 1, [])
  | "MSetNX" => some ([.kw "MSETNX", k], 1, [])
  | "RPush" => some ([.kw "RPUSH", k, .str "u_a"], 1, [])
  | "LPush" => some ([.kw "LPUSH", k, .str "u_a"], 1, [])
  | "RPushX" => some ([.kw "RPUSHX", k, .str "u_a"], 1, [])
  | "LPushX" => some ([.kw "LPUSHX", k, .str "u_a"], 1, [])
  | "SAdd" => some ([.kw "SADD", k, .str "u_a"], 1, [])
  | "SRem" => some ([.kw "SREM", k, .str "u_a"], 1, [])
  | "SIsMember" => some ([.kw "SISMEMBER", k], 1, [])
  | "PFAdd" => some ([.kw "PFADD", k, .str "u_a"], 1, [])
  | "LInsert" => some ([.kw "LINSERT", k, .kw "BEFORE"], 2, [])
  | "LRem" => some ([.kw "LREM", k, .num 1], 1, [])
  | "LSet" => some ([.kw "LSET", k, .num 0], 1, [])
  | "Publish" => some ([.kw "PUBLISH", .str "u_ch"], 1, [])
  | "XAdd" => some ([.kw "XADD", k, .kw "*", .str "u_f"], 1, [])
  | "Eval" => some ([.kw "EVAL", .str "u_script", .num 1, k, .str "u_a"], 1, [])
  | _ => none

def anyMethods : List String := ["Set", "SetNX", "SetXX", "SetEX", "GetSet", "Echo", "HSet", "HMSet", "HSetNX", "MSet",
  "MSetNX", "RPush", "LPush", "RPushX", "LPushX", "SAdd", "SRem", "SIsMember", "PFAdd", "LInsert", "LRem", "LSet",
  "Publish", "XAdd", "Eval"]

/-- (adapter argv, go-redis argv) of method `m` called with the `any` value `v` -/
def bothAny (m : String) (v : AnyVal) : Option (Out × Out) :=
  match anyTemplate m with
  | none => none
  | some (pre, n, post) =>
    let a := Out.argv (build true pre ++ List.replicate n (A.str v) ++ build true post)
    match G.appendArg v with
    | none => some (a, .nothing)
    | some g => some (a, .argv (build false pre ++ List.replicate n g ++ build false post))

/-! ### Dispatch by method name (used by the correspondence driver) -/

/-- (adapter argv, go-redis argv) of a call; `none` = method not transcribed or arguments outside
    the modelled shape -/
def both (m : String) (vs : List Val) : Option (Out × Out) :=
  match simpleTable.find? (·.1 == m) with
  | some (_, name, slots) => if shapeOK slots vs then some (A.simple name vs, G.simple name vs) else none
  | none =>
    match m, vs with
    | "Set", [.s k, .s v, .i e] => some (A.set k v e, G.set k v e)
    | "SetNX", [.s k, .s v, .i e] => some (A.setNX k v e, G.setNX k v e)
    | "SetXX", [.s k, .s v, .i e] => some (A.setXX k v e, G.setXX k v e)
    | "SetArgs", [.s k, .s v, .s mode, .i ttl, .b he, .i ex, .b g, .b kp] =>
      some (A.setArgs k v mode ttl he ex g kp, G.setArgs k v mode ttl he ex g kp)
    | "GetEx", [.s k, .i e] => some (A.getEx k e, G.getEx k e)
    | "Expire", [.s k, .i d] => some (A.expire k d "", G.expire k d "")
    | "ExpireNX", [.s k, .i d] => some (A.expire k d "NX", G.expire k d "NX")
    | "ExpireXX", [.s k, .i d] => some (A.expire k d "XX", G.expire k d "XX")
    | "ExpireGT", [.s k, .i d] => some (A.expire k d "GT", G.expire k d "GT")
    | "ExpireLT", [.s k, .i d] => some (A.expire k d "LT", G.expire k d "LT")
    | "PExpire", [.s k, .i d] => some (A.pExpire k d, G.pExpire k d)
    | "ExpireAt", [.s k, .i u] => some (A.expireAt k u, G.expireAt k u)
    | "PExpireAt", [.s k, .i u, .i n] => some (A.pExpireAt k u n, G.pExpireAt k u n)
    | "BitCount", [.s k, .none] => some (A.bitCount k none, G.bitCount k none)
    | "BitCount", [.s k, .i st, .i en, .s u] => some (A.bitCount k (some (st, en, u)), G.bitCount k (some (st, en, u)))
    | "BitPos", [.s k, .i b, .il pos] => some (A.bitPos k b pos, G.bitPos k b pos)
    | "BitPosSpan", [.s k, .i b, .i st, .i en, .s sp] => some (A.bitPosSpan k b st en sp, G.bitPosSpan k b st en sp)
    | "Scan", [.i c, .s mt, .i n] => some (A.scan c mt n, G.scan c mt n)
    | "ScanType", [.i c, .s mt, .i n, .s ty] => some (A.scanType c mt n ty, G.scanType c mt n ty)
    | "SScan", [.s k, .i c, .s mt, .i n] => some (A.keyScan "SSCAN" k c mt n, G.keyScan "SSCAN" k c mt n)
    | "HScan", [.s k, .i c, .s mt, .i n] => some (A.keyScan "HSCAN" k c mt n, G.keyScan "HSCAN" k c mt n)
    | "ZScan", [.s k, .i c, .s mt, .i n] => some (A.keyScan "ZSCAN" k c mt n, G.keyScan "ZSCAN" k c mt n)
    | "LInsert", [.s k, .s op, .s p, .s v] => some (A.lInsert k op p v, G.lInsert k op p v)
    | "LInsertBefore", [.s k, .s p, .s v] => some (A.lInsertBefore k p v, G.lInsertBefore k p v)
    | "LInsertAfter", [.s k, .s p, .s v] => some (A.lInsertAfter k p v, G.lInsertAfter k p v)
    | "Copy", [.s a, .s b, .i db, .b r] => some (A.copy a b db r, G.copy a b db r)
    | _, _ => both2 m vs

/-- methods transcribed (for the coverage count) -/
def covered : List String :=
  simpleTable.map (·.1) ++ ["Set", "SetNX", "SetXX", "SetArgs", "GetEx", "Expire", "ExpireNX", "ExpireXX", "ExpireGT",
    "ExpireLT", "PExpire", "ExpireAt", "PExpireAt", "BitCount", "BitPos", "BitPosSpan", "Scan", "ScanType", "SScan",
    "HScan", "ZScan", "LInsert", "LInsertBefore", "LInsertAfter", "Copy"] ++ covered2

end Rv.GoRedisArgv
