/-
Specification for C18 (hand-written, trusted): bit-serial CRC16/XMODEM and the
Redis Cluster hash-tag rule. Core Lean only.
-/
namespace Rv.Spec.Slot
local notation "W" => BitVec 16

/-! ### Specification: bit-serial CRC16/XMODEM (poly 0x1021, init 0, no reflection) -/

def poly : W := 0x1021#16
def round (x : W) : W := if x.msb then (x <<< 1) ^^^ poly else x <<< 1
def rounds : Nat → W → W
  | 0, x => x
  | n + 1, x => rounds n (round x)
/-- feed one byte: xor into the high byte, then 8 shift/xor rounds -/
def specStep (crc : W) (b : UInt8) : W := rounds 8 (crc ^^^ (BitVec.ofNat 16 b.toNat <<< 8))
def crcSpec (bs : List UInt8) : W := bs.foldl specStep 0

/-- Redis hash tag rule: the text between the first `{` and the next `}` when
    that text is non-empty, otherwise the whole key. -/
def hashtag (k : List UInt8) : List UInt8 :=
  match k.dropWhile (fun x => x != 123) with
  | [] => k
  | _ :: rest =>
    let tag := rest.takeWhile (fun x => x != 125)
    if tag.length = rest.length ∨ tag = [] then k else tag

def slotSpec (k : List UInt8) : Nat := (crcSpec (hashtag k)).toNat % 16384

end Rv.Spec.Slot
