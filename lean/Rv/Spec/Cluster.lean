/-
Specification side of C19/C20 (what the properties demand, independent of how
/repo/cluster.go computes it). Core Lean only.

Part 1: slot ownership read directly off a structured topology description.
Part 2: decidable predicates over observed traces of a cluster run (which node received
which command batch, which reply each command got) — the same predicates are proved of
the model's traces in `Rv.Props.C19/C20` and evaluated on the real client's traces on
the `!` lines of the `cluster` suite.
-/
import Rv.Model.Topology
import Rv.Model.Hex
namespace Rv.Spec.Cluster
open Rv.Topology

/-! ## Part 1: ownership from a description -/

structure NodeD where
  host : Bytes
  port : Int
  tlsPort : Int
  master : Bool
  /-- 0 online, 1 fail, 2 loading -/
  health : Nat
  deriving Repr

structure ShardD where
  ranges : List (Int × Int)
  nodes : List NodeD
  deriving Repr

structure View where
  /-- server major version: CLUSTER SLOTS (no health, no tls port) below 8, CLUSTER SHARDS from 8 -/
  ver : Nat
  tls : Bool
  /-- address the reply was received from (stands in for nodes that do not know their own address) -/
  defaultAddr : Bytes

/-- the address under which a node is reachable; `none` when it announces `?` -/
def nodeAddr (v : View) (n : NodeD) : Option Bytes :=
  if n.host = [63] then none
  else
    let port := if v.ver ≥ 8 ∧ v.tls ∧ n.tlsPort > 0 then n.tlsPort else n.port
    some (joinHostPort (if n.host = [] then splitHost v.defaultAddr else n.host) (fmtInt port))

/-- CLUSTER SLOTS carries no health information; CLUSTER SHARDS lists it and only `online` nodes count -/
def visible (v : View) (n : NodeD) : Bool := v.ver < 8 || n.health = 0

def usable (v : View) (n : NodeD) : Option Bytes := if visible v n then nodeAddr v n else none

def covers (d : ShardD) (slot : Int) : Bool := d.ranges.any fun r => r.1 ≤ slot && slot ≤ r.2

/-- Owner of a slot and the read replicas of its shard: the shard listing the slot, provided its
    primary is healthy and reachable. (Descriptions on oracle lines have pairwise disjoint ranges,
    one primary per shard and pairwise distinct addresses.) -/
def ownerOf (v : View) (ds : List ShardD) (slot : Int) : Option (Bytes × List Bytes) :=
  match ds.find? (covers · slot) with
  | none => none
  | some d =>
    match d.nodes.find? (·.master) with
    | none => none
    | some m =>
      match usable v m with
      | none => none
      | some a => some (a, (d.nodes.filter (! ·.master)).filterMap (usable v))


/-! line-protocol helpers (description tokens written by harness/cluster `descTokens`) -/
namespace Wire

def takeNodes : Nat → List String → Option (List NodeD × List String)
  | 0, ws => some ([], ws)
  | k + 1, h :: p :: tp :: m :: hl :: ws =>
    match Rv.Hex.decode h, p.toInt?, tp.toInt?, takeNodes k ws with
    | some h, some p, some tp, some (ns, ws') =>
      some ({ host := h, port := p, tlsPort := tp, master := m == "m",
              health := if hl == "o" then 0 else if hl == "f" then 1 else 2 } :: ns, ws')
    | _, _, _, _ => none
  | _, _ => none

def takeRanges : Nat → List String → Option (List (Int × Int) × List String)
  | 0, ws => some ([], ws)
  | k + 1, a :: c :: ws =>
    match a.toInt?, c.toInt?, takeRanges k ws with
    | some a, some c, some (rs, ws') => some ((a, c) :: rs, ws')
    | _, _, _ => none
  | _, _ => none

def takeShards : Nat → List String → Option (List ShardD × List String)
  | 0, ws => some ([], ws)
  | k + 1, nr :: ws =>
    match nr.toNat? with
    | none => none
    | some nr =>
      match takeRanges nr ws with
      | some (rs, nn :: ws') =>
        match nn.toNat? with
        | none => none
        | some nn =>
          match takeNodes nn ws' with
          | some (ns, ws'') =>
            match takeShards k ws'' with
            | some (ds, rest) => some ({ ranges := rs, nodes := ns } :: ds, rest)
            | none => none
          | none => none
      | _ => none
  | _, _ => none

def parseDesc : List String → Option (List ShardD × List String)
  | k :: ws => match k.toNat? with
    | some k => takeShards k ws
    | none => none
  | [] => none

end Wire
end Rv.Spec.Cluster
