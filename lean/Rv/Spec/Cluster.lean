/-
Specification side of C19/C20 (what the properties demand, independent of how
/repo/cluster.go computes it). Core Lean only.

Part 1: slot ownership read directly off a structured topology description.
Part 2: decidable predicates over observed traces of a cluster run (which node received
which command batch, which reply each command got) — the same predicates are proved of
the model's traces in `Rv.Props.C19/C20` and evaluated on the real client's traces on
the `!` lines of the `cluster` suite.
-/
import Rv.Model.Topology
import Rv.Model.Hex
namespace Rv.Spec.Cluster
open Rv.Topology

/-! ## Part 1: ownership from a description -/

structure NodeD where
  host : Bytes
  port : Int
  tlsPort : Int
  master : Bool
  /-- 0 online, 1 fail, 2 loading -/
  health : Nat
  deriving Repr

structure ShardD where
  ranges : List (Int × Int)
  nodes : List NodeD
  deriving Repr

structure View where
  /-- server major version: CLUSTER SLOTS (no health, no tls port) below 8, CLUSTER SHARDS from 8 -/
  ver : Nat
  tls : Bool
  /-- address the reply was received from (stands in for nodes that do not know their own address) -/
  defaultAddr : Bytes

/-- the address under which a node is reachable; `none` when it announces `?` -/
def nodeAddr (v : View) (n : NodeD) : Option Bytes :=
  if n.host = [63] then none
  else
    let port := if v.ver ≥ 8 ∧ v.tls ∧ n.tlsPort > 0 then n.tlsPort else n.port
    some (joinHostPort (if n.host = [] then splitHost v.defaultAddr else n.host) (fmtInt port))

/-- CLUSTER SLOTS carries no health information; CLUSTER SHARDS lists it and only `online` nodes count -/
def visible (v : View) (n : NodeD) : Bool := v.ver < 8 || n.health = 0

def usable (v : View) (n : NodeD) : Option Bytes := if visible v n then nodeAddr v n else none

def covers (d : ShardD) (slot : Int) : Bool := d.ranges.any fun r => r.1 ≤ slot && slot ≤ r.2

/-- Owner of a slot and the read replicas of its shard: the shard listing the slot, provided its
    primary is healthy and reachable. (Descriptions on oracle lines have pairwise disjoint ranges,
    one primary per shard and pairwise distinct addresses.) -/
def ownerOf (v : View) (ds : List ShardD) (slot : Int) : Option (Bytes × List Bytes) :=
  match ds.find? (covers · slot) with
  | none => none
  | some d =>
    match d.nodes.find? (·.master) with
    | none => none
    | some m =>
      match usable v m with
      | none => none
      | some a => some (a, (d.nodes.filter (! ·.master)).filterMap (usable v))


/-! ## Part 2: what an observed run must look like

A run is judged from what the nodes saw: the calls each node received (in arrival order, commands
identified by their position in the caller's batch, `A` = ASKING, `O:…` = wrapper commands of the
cache path) and the replies the nodes handed out, in global order. -/
namespace Trace

structure TCmd where
  id : Nat
  slot : Nat
  isMulti : Bool
  isExec : Bool
  deriving Repr

structure TCall where
  addr : Bytes
  kind : String
  items : List String
  deriving Repr

structure TEv where
  id : Nat
  addr : Bytes
  reply : String
  deriving Repr

def lastEv (evs : List TEv) (i : Nat) : Option TEv := (evs.filter (·.id = i)).getLast?

/-- results are positional: slot `i` holds the last reply a node produced for command `i`; a command that
    never reached a node carries an error made by the client (`x:…`) -/
def positional (n : Nat) (results : List String) (evs : List TEv) : Bool :=
  results.length == n && (List.range n).all fun i =>
    match lastEv evs i, results[i]? with
    | some e, some r => r == e.reply
    | none, some r => r.startsWith "x:"
    | _, none => false

def idOf (item : String) : Option Nat := item.toNat?

/-- MULTI…EXEC blocks of the batch: `(mi, ei)` with MULTI at `mi`, EXEC at `ei`, no marker in between -/
def blocks (cmds : List TCmd) : List (Nat × Nat) :=
  let rec go (cs : List TCmd) (openAt : Option Nat) (acc : List (Nat × Nat)) : List (Nat × Nat) :=
    match cs with
    | [] => acc.reverse
    | c :: rest =>
      if c.isMulti then go rest (some c.id) acc
      else if c.isExec then
        match openAt with
        | some m => go rest none ((m, c.id) :: acc)
        | none => go rest none acc
      else go rest openAt acc
  go cmds none []

def okReply : String := "s:4f4b"

/-- the ids of a call, wrappers and ASKING dropped -/
def callIds (c : TCall) : List Nat := c.items.filterMap idOf

def isInfix (xs ys : List Nat) : Bool :=
  (List.range (ys.length + 1)).any fun k => (ys.drop k).take xs.length == xs

/-- a block whose MULTI was accepted travels whole: a call holding any of its commands holds all of them,
    contiguous and in order -/
def blocksWhole (cmds : List TCmd) (calls : List TCall) (evs : List TEv) : Bool :=
  (blocks cmds).all fun (m, e) =>
    let accepted := (evs.filter (·.id = m)).all (·.reply == okReply)
    !accepted || calls.all fun c =>
      let ids := callIds c
      let blockIds := (List.range (e + 1 - m)).map (· + m)
      !(ids.any fun i => m ≤ i && i ≤ e) || isInfix blockIds ids

/-- ASKING discipline inside one call: `A` exactly once in front of every unit (a MULTI…EXEC run or a single
    command), never inside a unit, never twice in a row. Wrapper items are transparent. -/
def askingGrammar (cmds : List TCmd) (items : List String) : Bool :=
  let isM (i : Nat) : Bool := (cmds.find? (·.id = i)).any (·.isMulti)
  let isE (i : Nat) : Bool := (cmds.find? (·.id = i)).any (·.isExec)
  -- state: 0 = expecting A, 1 = A seen (expecting the unit's first command), 2 = inside a transaction
  let rec go (xs : List String) (st : Nat) : Bool :=
    match xs with
    | [] => st != 1
    | x :: rest =>
      if x.startsWith "O:" then go rest st
      else if x == "A" then (st == 0) && go rest 1
      else match idOf x with
        | none => false
        | some i =>
          if st == 0 then false
          else if st == 1 then go rest (if isM i then 2 else 0)
          else go rest (if isE i then 0 else 2)
  go items 0

def askingOk (cmds : List TCmd) (calls : List TCall) : Bool :=
  calls.all fun c => !(c.items.contains "A") || askingGrammar cmds c.items

def hexOfText (s : String) : String := Rv.Hex.encode s.toUTF8.toList

/-- redirect target named by a reply text `e:<hex of "MOVED 1 addr">` / `ASK` -/
def redirectOf (kind : String) (reply : String) : Option String :=
  let pre := "e:" ++ hexOfText (kind ++ " 1 ")
  if reply.startsWith pre then some (reply.drop pre.length).toString else none

def inBlock (cmds : List TCmd) (i : Nat) : Bool := (blocks cmds).any fun (m, e) => m ≤ i && i ≤ e

/-- consecutive events of one command -/
def evPairs (evs : List TEv) (i : Nat) : List (TEv × TEv) :=
  let es := evs.filter (·.id = i)
  es.zip (es.drop 1)

/-- a followed MOVED/ASK leads to the named node; after ASK the command arrives there behind an `A` -/
def redirectsFollowed (cmds : List TCmd) (calls : List TCall) (evs : List TEv) : Bool :=
  cmds.all fun c =>
    inBlock cmds c.id ||
    (evPairs evs c.id).all fun (e, e') =>
      (match redirectOf "MOVED" e.reply with
       | some t => Rv.Hex.encode e'.addr == t
       | none => true) &&
      (match redirectOf "ASK" e.reply with
       | some t => Rv.Hex.encode e'.addr == t &&
           calls.any fun cl => Rv.Hex.encode cl.addr == t &&
             -- the command arrives in a call behind an `A` (that it is the `A` of its own unit is `askingOk`)
             ((cl.items.takeWhile (· != toString c.id)).contains "A" && cl.items.contains (toString c.id))
       | none => true)

def isRedirectReply (r : String) : Bool := (redirectOf "MOVED" r).isSome || (redirectOf "ASK" r).isSome

/-- single command, `MaxMovedRedirections = k > 0`: at most `k` redirects are followed, and a redirect reply
    is handed to the caller only after exactly `k` were followed -/
def boundOk (k : Nat) (cmds : List TCmd) (evs : List TEv) : Bool :=
  k == 0 || cmds.length != 1 ||
    (let followed := ((evPairs evs 0).filter fun (e, _) => isRedirectReply e.reply).length
     followed ≤ k &&
       (match lastEv evs 0 with
        | some e => !isRedirectReply e.reply || followed == k
        | none => true))

def isRetryClassReply (r : String) : Bool :=
  r.startsWith "x:" || r.startsWith ("e:" ++ hexOfText "TRYAGAIN") || r.startsWith ("e:" ++ hexOfText "LOADING") ||
    r.startsWith ("e:" ++ hexOfText "CLUSTERDOWN")

/-- Is a MOVED/ASK answer for command `i` one the client has to act on? Always for MULTI/EXEC themselves and for
    commands outside a transaction; for a command queued behind a MULTI only when that MULTI…EXEC block is
    well formed and the MULTI was accepted (then the whole block is sent again). -/
def mustFollow (cmds : List TCmd) (evs : List TEv) (i : Nat) : Bool :=
  match cmds.find? (·.id = i) with
  | none => false
  | some c =>
    if c.isMulti || c.isExec then true
    else
      -- nearest marker below `i`
      match ((cmds.filter fun d => d.id < i && (d.isMulti || d.isExec)).getLast?) with
      | none => true
      | some lo =>
        if !lo.isMulti then true
        else
          match (cmds.find? fun d => d.id > i && (d.isMulti || d.isExec)) with
          | some hi => hi.isExec && (evs.filter (·.id = lo.id)).all (·.reply == okReply)
          | none => false

/-- No redirect is dropped: as long as the redirect budget allows (`k = 0`: always; otherwise while fewer than
    `k` redirect-class answers have been followed in the whole call) the last answer a command got is not a
    MOVED/ASK it had to act on — the command was sent on to the named node instead of handing the redirect
    error to the caller. -/
def noDroppedRedirect (k : Nat) (cmds : List TCmd) (evs : List TEv) : Bool :=
  let followed := (cmds.map fun c =>
    ((evPairs evs c.id).filter fun (e, _) => isRedirectReply e.reply || isRetryClassReply e.reply).length).foldl (· + ·) 0
  (k != 0 && followed ≥ k) ||
    cmds.all fun c =>
      match lastEv evs c.id with
      | some e => !(isRedirectReply e.reply && mustFollow cmds evs c.id)
      | none => true

/-- What the previous command on a slot teaches the client about that slot. `prev` is the one redirect that
    command met (`none`, `ask`, `mv`), answered by `prevFirst` (the node it was sent to first) and naming
    `target`; `fresh` says the client had no connection to `target` before. `nowFirst` is the node the next
    command on the same slot is sent to first (no refresh in between).
    ASK is one-shot: the slot still belongs to `prevFirst`, the next command starts there.
    MOVED to a node new to the client moves the slot: the next command starts at `target`; for a node the client
    already knew either start is accepted (the table is corrected by the background refresh). -/
def stickyVerdict (prev : String) (fresh : Bool) (prevFirst target nowFirst : String) : String :=
  if prev == "ask" then (if nowFirst == prevFirst then "ok" else "bad:ask-rewrote-slot-table")
  else if prev == "mv" then
    (if fresh then (if nowFirst == target then "ok" else "bad:moved-not-learned")
     else if nowFirst == target || nowFirst == prevFirst then "ok" else "bad:moved-elsewhere")
  else (if nowFirst == prevFirst then "ok" else "bad:route-changed")

/-- what a connection must find when it finally consumes a batch whose caller gave up while it was queued:
    exactly the caller's commands — a command is never modified or recycled before it is completely written -/
def consumeSpec : String := "intact"

/-- verdict on one observed run -/
def judge (k : Nat) (cmds : List TCmd) (results : List String) (calls : List TCall) (evs : List TEv) : String :=
  if !positional cmds.length results evs then "bad:positional"
  else if !blocksWhole cmds calls evs then "bad:block-split"
  else if !askingOk cmds calls then "bad:asking"
  else if !redirectsFollowed cmds calls evs then "bad:redirect-not-followed"
  else if !noDroppedRedirect k cmds evs then "bad:redirect-dropped"
  else if !boundOk k cmds evs then "bad:redirect-bound"
  else "ok"

end Trace

/-! line-protocol helpers (description tokens written by harness/cluster `descTokens`) -/
namespace Wire

def takeNodes : Nat → List String → Option (List NodeD × List String)
  | 0, ws => some ([], ws)
  | k + 1, h :: p :: tp :: m :: hl :: ws =>
    match Rv.Hex.decode h, p.toInt?, tp.toInt?, takeNodes k ws with
    | some h, some p, some tp, some (ns, ws') =>
      some ({ host := h, port := p, tlsPort := tp, master := m == "m",
              health := if hl == "o" then 0 else if hl == "f" then 1 else 2 } :: ns, ws')
    | _, _, _, _ => none
  | _, _ => none

def takeRanges : Nat → List String → Option (List (Int × Int) × List String)
  | 0, ws => some ([], ws)
  | k + 1, a :: c :: ws =>
    match a.toInt?, c.toInt?, takeRanges k ws with
    | some a, some c, some (rs, ws') => some ((a, c) :: rs, ws')
    | _, _, _ => none
  | _, _ => none

def takeShards : Nat → List String → Option (List ShardD × List String)
  | 0, ws => some ([], ws)
  | k + 1, nr :: ws =>
    match nr.toNat? with
    | none => none
    | some nr =>
      match takeRanges nr ws with
      | some (rs, nn :: ws') =>
        match nn.toNat? with
        | none => none
        | some nn =>
          match takeNodes nn ws' with
          | some (ns, ws'') =>
            match takeShards k ws'' with
            | some (ds, rest) => some ({ ranges := rs, nodes := ns } :: ds, rest)
            | none => none
          | none => none
      | _ => none
  | _, _ => none

def parseDesc : List String → Option (List ShardD × List String)
  | k :: ws => match k.toNat? with
    | some k => takeShards k ws
    | none => none
  | [] => none


open Trace in
def parseTCmd (w : String) : Option TCmd :=
  match w.splitOn "/" with
  | [i, s, f] =>
    match i.toNat?, s.toNat? with
    | some i, some s => some { id := i, slot := s, isMulti := f.contains 'M', isExec := f.contains 'E' }
    | _, _ => none
  | _ => none

open Trace in
/-- `addrhex=kind:a,b;kind:c` -/
def parseNodeLog (w : String) : Option (List TCall) :=
  match w.splitOn "=" with
  | [a, calls] =>
    match Rv.Hex.decode a with
    | none => none
    | some a =>
      (calls.splitOn ";").mapM fun c =>
        match c.splitOn ":" with
        | k :: rest => some { addr := a, kind := k, items := (":".intercalate rest).splitOn "," }
        | _ => none
  | _ => none

open Trace in
/-- `id@addrhex=reply` -/
def parseEv (w : String) : Option TEv :=
  match w.splitOn "@" with
  | [i, rest] =>
    match rest.splitOn "=" with
    | [a, r] =>
      match i.toNat?, Rv.Hex.decode a with
      | some i, some a => some { id := i, addr := a, reply := r }
      | _, _ => none
    | _ => none
  | _ => none

def splitOnSemi (ws : List String) : List (List String) :=
  let rec go (ws : List String) (cur : List String) (acc : List (List String)) : List (List String) :=
    match ws with
    | [] => (cur.reverse :: acc).reverse
    | w :: rest => if w == ";" then go rest [] (cur.reverse :: acc) else go rest (w :: cur) acc
  go ws [] []

/-- `!trace maxredir=K <cmd>… ; <result>… ; <node logs> ; <events>` -/
def judgeLine (ws : List String) : String :=
  match splitOnSemi ws with
  | [hd, results, logs, evs] =>
    match hd with
    | k :: cmds =>
      let kk := ((k.splitOn "=").getLast?.bind String.toNat?).getD 0
      let logs := logs.filter (· ≠ "-")
      let evs := evs.filter (· ≠ "-")
      match cmds.mapM parseTCmd, logs.mapM parseNodeLog, evs.mapM parseEv with
      | some cmds, some calls, some evs =>
        let results := if results == ["none"] then [] else results
        Trace.judge kk cmds results calls.flatten evs
      | _, _, _ => "bad-op"
    | [] => "bad-op"
  | _ => "bad-op"

end Wire
end Rv.Spec.Cluster
