/-
Specification for C02 (hand-written, trusted): the pipeline queue as an abstract FIFO of
(command, owner) pairs. Core Lean only.

  enq c o : caller o puts command c at the tail of the queue
  deq c   : the writer takes the head of the queue (c goes to the wire) and c joins the
            tail of the in-flight list
  fin c o : the reader completes the head of the in-flight list: the reply of c is
            delivered to o, which must be the caller that enqueued c
-/
namespace Rv.Spec.Fifo

structure Q where
  pending : List (Nat × Nat)   -- enqueued, not yet handed to the writer
  written : List (Nat × Nat)   -- handed to the writer, reply not yet delivered
deriving DecidableEq, Repr

inductive Ev
  | enq (cmd owner : Nat)
  | deq (cmd : Nat)
  | fin (cmd owner : Nat)
deriving DecidableEq, Repr

def empty : Q := { pending := [], written := [] }

def step (q : Q) : Ev → Option Q
  | .enq c o => some { q with pending := q.pending ++ [(c, o)] }
  | .deq c =>
    match q.pending with
    | (c', o) :: rest => if c' = c then some { pending := rest, written := q.written ++ [(c', o)] } else none
    | [] => none
  | .fin c o =>
    match q.written with
    | (c', o') :: rest => if c' = c ∧ o' = o then some { q with written := rest } else none
    | [] => none

def run : Q → List Ev → Option Q
  | q, [] => some q
  | q, e :: es => match step q e with
    | some q' => run q' es
    | none => none

/-- the writer's view of a history -/
def deqs : List Ev → List Nat
  | [] => []
  | .deq c :: es => c :: deqs es
  | _ :: es => deqs es

/-- the callers' view of a history -/
def fins : List Ev → List (Nat × Nat)
  | [] => []
  | .fin c o :: es => (c, o) :: fins es
  | _ :: es => fins es

def enqs : List Ev → List (Nat × Nat)
  | [] => []
  | .enq c o :: es => (c, o) :: enqs es
  | _ :: es => enqs es

theorem run_append (q : Q) (es fs : List Ev) :
    run q (es ++ fs) = (run q es).bind (fun q' => run q' fs) := by
  induction es generalizing q with
  | nil => simp [run]
  | cons e es ih =>
    simp only [List.cons_append, run]
    cases step q e with
    | none => simp
    | some q' => simp [ih]

theorem deqs_append (es fs : List Ev) : deqs (es ++ fs) = deqs es ++ deqs fs := by
  induction es with
  | nil => rfl
  | cons e es ih => cases e <;> simp [deqs, ih]

theorem fins_append (es fs : List Ev) : fins (es ++ fs) = fins es ++ fins fs := by
  induction es with
  | nil => rfl
  | cons e es ih => cases e <;> simp [fins, ih]

theorem enqs_append (es fs : List Ev) : enqs (es ++ fs) = enqs es ++ enqs fs := by
  induction es with
  | nil => rfl
  | cons e es ih => cases e <;> simp [enqs, ih]

/-! ### Judging a sequential (quiescent) use of the queue

Between two calls of a single-threaded client every PutOne has completed, so the abstract queue
is fully determined: a poll of the writer (NextWriteCmd / WaitForWrite) must return the head of
`pending` whenever there is one, and the reader's NextResultCh — which pipe.go calls exactly
when the reply of the oldest in-flight command has arrived — must find the head of `written`. -/

def seqPut (q : Q) (c : Nat) : Q × String :=
  ({ q with pending := q.pending ++ [(c, c)] }, "ok")

def seqNext (q : Q) (r : Option Nat) : Q × String :=
  match r with
  | none => if q.pending.isEmpty then (q, "ok") else (q, "reject:queued-command-not-handed-to-writer")
  | some c => match step q (.deq c) with
    | some q' => (q', "ok")
    | none => (q, "reject:not-fifo")

def seqRes (q : Q) (r : Option Nat) : Q × String :=
  match r with
  | none => if q.written.isEmpty then (q, "ok") else (q, "reject:reply-slot-of-in-flight-command-not-found")
  | some c => match step q (.fin c c) with
    | some q' => (q', "ok")
    | none => (q, "reject:completion-out-of-order")

/-! ### Checker for observed (black-box) histories

The correspondence harness runs the real queue with P caller goroutines, one writer and one
reader goroutine and records a log that is linearised by a global atomic sequence number
(taken *before* a call starts and *after* a call returned):
  call c o  — caller o is about to call PutOne/PutMulti with command c
  ret c o   — that call returned
  deq c     — the writer goroutine received c from NextWriteCmd/WaitForWrite
  res c     — the reader goroutine received c from NextResultCh (it then sends reply c on the
              channel it got and calls FinishResult)
  fin c o r — caller o received reply r on the channel PutOne gave it for its command c
  end       — all goroutines joined
`Obs` judges such a log by the FIFO specification: the writer's sequence is duplicate free
and only contains commands whose call has started; the reader meets exactly the writer's
sequence, in order (`step … (.fin c o)` on the in-flight list); every caller receives the
reply of its own command, once; nothing is left over at the end. The enqueue is linearised
immediately before the dequeue because a black box does not show the order of enqueues;
`deq` additionally reports `ok-overtake` when the command overtakes one whose PutOne had
already returned before this command's PutOne was called (strict real-time FIFO). -/

structure Obs where
  called : List (Nat × Nat)    -- (cmd, owner) whose PutOne has started
  before : List (Nat × List Nat) -- cmd ↦ commands whose PutOne had returned (not yet dequeued) when cmd was called
  retd : List Nat              -- PutOne returned, not yet dequeued
  q : Q
  deqd : List Nat              -- everything the writer has seen
  resd : List Nat              -- everything the reader has seen
  finished : List Nat
deriving Repr

def Obs.empty : Obs :=
  { called := [], before := [], retd := [], q := Fifo.empty, deqd := [], resd := [], finished := [] }

def Obs.call (s : Obs) (c o : Nat) : Obs × String :=
  if s.called.any (fun p => p.1 == c) then (s, "reject:duplicate-call")
  else ({ s with called := (c, o) :: s.called, before := (c, s.retd) :: s.before }, "ok")

def Obs.ret (s : Obs) (c o : Nat) : Obs × String :=
  if !s.called.contains (c, o) then (s, "reject:return-without-call")
  else if s.deqd.contains c then (s, "ok")
  else ({ s with retd := c :: s.retd }, "ok")

def Obs.deq (s : Obs) (c : Nat) : Obs × String :=
  if s.deqd.contains c then (s, "reject:handed-to-writer-twice")
  else match s.called.find? (fun p => p.1 == c) with
    | none => (s, "reject:writer-got-unknown-command")
    | some (_, o) =>
      match (step s.q (.enq c o)).bind (fun q => step q (.deq c)) with
      | some q' =>
        let must := ((s.before.find? (fun p => p.1 == c)).map (·.2)).getD []
        let late := must.filter (fun e => !s.deqd.contains e)
        ({ s with q := q', deqd := c :: s.deqd, retd := s.retd.filter (· != c) },
         if late.isEmpty then "ok" else "ok-overtake")
      | none => (s, "reject:not-fifo")

def Obs.res (s : Obs) (c : Nat) : Obs × String :=
  match s.q.written with
  | [] => (s, "reject:result-slot-before-write")
  | (c', _) :: rest =>
    if c' = c then ({ s with q := { s.q with written := rest }, resd := c :: s.resd }, "ok")
    else (s, "reject:completion-out-of-order")

def Obs.fin (s : Obs) (c o r : Nat) : Obs × String :=
  if r ≠ c then (s, "reject:wrong-reply")
  else if !s.called.contains (c, o) then (s, "reject:wrong-caller")
  else if s.finished.contains c then (s, "reject:completed-twice")
  else if !s.resd.contains c then (s, "reject:completed-before-result-slot")
  else ({ s with finished := c :: s.finished }, "ok")

def Obs.fini (s : Obs) : Obs × String :=
  if s.finished.length = s.called.length ∧ s.q.written.isEmpty ∧ s.deqd.length = s.called.length
  then (s, "ok") else (s, "reject:lost-command")

end Rv.Spec.Fifo
