/-
Model of /repo/resp.go `streamTo` (the streaming read behind DoStream /
DoMultiStream), transcribed branch by branch on top of the C12 reader model
(`Rv.Resp.readI`, `Rv.Resp.decode` = `readNextMessage`).

Input: the list of all bytes that will ever arrive (then EOF), as in Rv/Model/Resp.lean.
Writer: `Wr` — `budget = none` never fails, `budget = some k` accepts `k` more bytes and
then returns an error. `over` is an *environment* parameter: how many bytes beyond the
accepted ones `io.Copy` had already taken out of the bufio.Reader when the writer failed
(it hands the writer whole read chunks; the chunking is bufio's / the network's).
Result: `Out` = (n written, error class, clean flag, rest of the input, writer).
Core Lean only.
-/
import Rv.Model.Resp
import Rv.Spec.Wire
namespace Rv.StreamTo
open Rv Rv.Resp

/-- error classes of `streamTo`'s `err` result -/
inductive Err where
  | none                        -- nil
  | nilMsg                      -- rueidis.Nil
  | redis (text : List UInt8)   -- (*RedisError)(&m), text = m.string()
  | unsupported (t : UInt8)     -- fmt.Errorf("unsupported redis %q response …", typeNames[typ])
  | rd (e : String)             -- reader errors (classes of Rv.Resp: io, nocrlf, numbyte:…, neglen, unknowntype:…, chunked)
  | writer                      -- the error returned by the io.Writer
  | panic
  | oom
  deriving DecidableEq, Repr

structure Wr where
  budget : Option Nat
  over : Nat
  out : List UInt8
  deriving DecidableEq, Repr

structure Out where
  n : Nat
  err : Err
  clean : Bool
  rest : List UInt8
  w : Wr
  deriving DecidableEq, Repr

/-- one `w.Write(p)` call: (n, failed, writer) -/
def Wr.write (w : Wr) (p : List UInt8) : Nat × Bool × Wr :=
  match w.budget with
  | none => (p.length, false, { w with out := w.out ++ p })
  | some k =>
    if p.length ≤ k then (p.length, false, { w with budget := some (k - p.length), out := w.out ++ p })
    else (k, true, { w with budget := some 0, out := w.out ++ p.take k })

/-- `n, err := w.Write([]byte(s)); return int64(n), err, true` -/
def writeOut (w : Wr) (p : List UInt8) (r : List UInt8) : Out :=
  let x := w.write p
  ⟨x.1, if x.2.1 then .writer else .none, true, r, x.2.2⟩

structure CopyRes where
  written : Nat
  failed : Bool
  w : Wr
  rest : List UInt8      -- the input after the bytes io.Copy took out of the reader
  left : Int             -- `lr.N` after the copy: what the LimitedReader still had to deliver
  deriving DecidableEq, Repr

/-- `lr.N = lim; n, err = io.Copy(w, lr)`: a LimitedReader with N <= 0 is at EOF; the
    underlying EOF ends the copy with a nil error; a writer failure ends it with the
    writer's error after `written` accepted bytes, the reader having lost `written + over`
    (at most the available payload). `left` is `lr.N` afterwards (limit minus bytes read). -/
def copyN (w : Wr) (lim : Int) (bs : List UInt8) : CopyRes :=
  if lim ≤ 0 then ⟨0, false, w, bs, lim⟩ else
  let avail := min lim.toNat bs.length
  match w.budget with
  | none => ⟨avail, false, { w with out := w.out ++ bs.take avail }, bs.drop avail, lim - avail⟩
  | some k =>
    if avail ≤ k then ⟨avail, false, { w with budget := some (k - avail), out := w.out ++ bs.take avail }, bs.drop avail, lim - avail⟩
    else ⟨k, true, { w with budget := some 0, out := w.out ++ bs.take k }, bs.drop (min avail (k + w.over)), lim - (min avail (k + w.over) : Nat)⟩

/-- `if _, err2 := i.Discard(int(full)); err2 == nil { clean = true } else if err == nil { err = err2 }`
    (the repaired code, a376be4: `full` is what is left of the payload plus the CRLF) -/
def finishBlob (full : Int) (c : CopyRes) : Out :=
  if full < 0 then ⟨c.written, if c.failed then .writer else .rd "io", false, c.rest, c.w⟩   -- bufio.ErrNegativeCount
  else if full.toNat ≤ c.rest.length then ⟨c.written, if c.failed then .writer else .none, true, c.rest.drop full.toNat, c.w⟩
  else ⟨c.written, if c.failed then .writer else .rd "io", false, [], c.w⟩               -- EOF inside Discard

/-- `full = lr.N + 2` (int64) -/
def fullAfter (c : CopyRes) : Int := wrap64 (c.left + 2)

/-- the `$` / `=` / `;` branch after a successful `readI` -/
def blobCase (t : UInt8) (len : Int) (r : List UInt8) (w : Wr) : Out :=
  if len = -1 then ⟨0, .nilMsg, true, r, w⟩
  else if len ≠ 0 then finishBlob (fullAfter (copyN w len r)) (copyN w len r)
  else if t = 59 then ⟨0, .none, true, r, w⟩
  else finishBlob 2 ⟨0, false, w, r, 0⟩

/-- `strconv.FormatInt(v, 10)` -/
def fmtInt (v : Int) : List UInt8 := Rv.Spec.decI v

/-- the `switch m.typ` of the default branch; `none` is `goto next` (a push was skipped);
    `t0` is the type byte read at this round (indexes `typeNames`) -/
def msgCase (t0 : UInt8) (m : Msg) (r : List UInt8) (w : Wr) : Option Out :=
  if m.typ = 43 ∨ m.typ = 44 ∨ m.typ = 40 then some (writeOut w m.str r)
  else if m.typ = 95 then some ⟨0, .nilMsg, true, r, w⟩
  else if m.typ = 45 ∨ m.typ = 33 then some ⟨0, .redis m.str, true, r, w⟩
  else if m.typ = 58 ∨ m.typ = 35 then some (writeOut w (fmtInt m.int) r)
  else if m.typ = 62 then none
  else some ⟨0, .unsupported t0, true, r, w⟩

def isBlobLike (t : UInt8) : Bool := t == 36 || t == 61 || t == 59

/-- result of the default branch: `UnreadByte`, `readNextMessage`, `switch m.typ` -/
def defaultCase (B : Nat) (t : UInt8) (bs : List UInt8) (w : Wr) : Option Out :=
  match decode B (t :: bs) with
  | .err e => some ⟨0, .rd e, false, [], w⟩
  | .panic => some ⟨0, .panic, false, [], w⟩
  | .oom => some ⟨0, .oom, false, [], w⟩
  | .ok (m, r) => msgCase t m r w

/-- where a skipped push leaves the reader -/
def afterPush (B : Nat) (t : UInt8) (bs : List UInt8) : List UInt8 :=
  match decode B (t :: bs) with
  | .ok (_, r) => r
  | _ => []

mutual
/-- `streamTo`; fuel bounds the recursion (`goto next` and the chunk recursion each
    consume at least one byte) -/
def streamTo (B : Nat) : Nat → Wr → List UInt8 → Out
  | 0, w, _ => ⟨0, .rd "fuel", false, [], w⟩
  | _ + 1, w, [] => ⟨0, .rd "io", false, [], w⟩
  | f + 1, w, t :: bs =>
    if isBlobLike t then
      match readI B bs with
      | .fail e => ⟨0, .rd e, false, [], w⟩
      | .chunked r => chunkLoop B f 0 w r
      | .num len r => blobCase t len r w
    else
      match defaultCase B t bs w with
      | some o => o
      | none => streamTo B f w (afterPush B t bs)

/-- `nn, err, clean = streamTo(i, w); for n += nn; nn != 0 && clean && err == nil; n += nn { nn, err, clean = streamTo(i, w) }; if err != nil { clean = false }` -/
def chunkLoop (B : Nat) : Nat → Nat → Wr → List UInt8 → Out
  | 0, acc, w, _ => ⟨acc, .rd "fuel", false, [], w⟩
  | f + 1, acc, w, bs =>
    let o := streamTo B f w bs
    if o.n ≠ 0 ∧ o.clean = true ∧ o.err = .none then chunkLoop B f (acc + o.n) o.w o.rest
    else { o with n := acc + o.n, clean := o.clean && decide (o.err = .none) }
end

/-- one top-level `streamTo(i, w)` call on the stream `bs` -/
def run (B : Nat) (w : Wr) (bs : List UInt8) : Out :=
  streamTo B (2 * bs.length + 4) w bs

/-- `typeNames` (resp.go init) -/
def typeName (t : UInt8) : String :=
  if t = 36 then "blob_string" else if t = 43 then "simple_string" else if t = 45 then "simple_error"
  else if t = 58 then "int64" else if t = 95 then "null" else if t = 44 then "float64"
  else if t = 35 then "boolean" else if t = 33 then "blob_error" else if t = 61 then "verbatim_string"
  else if t = 40 then "big_number" else if t = 42 then "array" else if t = 37 then "map"
  else if t = 126 then "set" else if t = 124 then "attribute" else if t = 62 then "push"
  else if t = 46 then "null" else ""

def Err.show : Err → String
  | .none => "ok"
  | .nilMsg => "err:nil"
  | .redis s => "err:redis:" ++ Hex.encode s
  | .unsupported t => "err:unsupported:" ++ typeName t
  | .rd e => "err:" ++ e
  | .writer => "err:writer"
  | .panic => "panic"
  | .oom => "oom"

/-! ### Specification side (answers the `!` oracle lines)

What the property demands of one streamed reply, stated with the *normal* reader
(`Rv.Resp.decode`, proved correct against the wire syntax under C12): pushes are skipped;
a string-like reply delivers `m.str`, an integer/boolean its decimal rendering; null and
error replies are reported as errors; in every case exactly the reply's frame is consumed. -/
def payloadOf (m : Msg) : List UInt8 :=
  if m.typ = 58 ∨ m.typ = 35 then Rv.Spec.decI m.int else m.str

def specReply (B : Nat) : Nat → Nat → List UInt8 → String
  | 0, _, _ => "other"
  | f + 1, total, bs =>
    match decode B bs with
    | .ok (m, r) =>
      if m.typ = 62 then specReply B f total r
      else if m.typ = 95 then "nil " ++ toString (total - r.length)
      else if m.typ = 45 ∨ m.typ = 33 then "redis " ++ Hex.encode m.str ++ " " ++ toString (total - r.length)
      else if m.typ = 36 ∨ m.typ = 61 ∨ m.typ = 43 ∨ m.typ = 44 ∨ m.typ = 40 ∨ m.typ = 58 ∨ m.typ = 35 then
        "ok " ++ Hex.encode (payloadOf m) ++ " " ++ toString (total - r.length)
      else "other"
    | _ => "other"

end Rv.StreamTo
