/-!
Model of how invalidation pushes reach the callbacks (C27): pipe.go `_backgroundRead` (which
frames go to `handlePush`), `handlePush`'s `invalidate` branch, `_background`'s final `nil`
after the connection is lost, and the hook slot (`SetPubSubHooks` / `SetOnInvalidations`).

Also defines the view `handlePush` has of a push frame (`PV`), shared with Rv.Model.Subs.
Core Lean only.
-/
namespace Rv.Push

/-- one element of a push frame, with exactly the accessors `handlePush` uses -/
inductive PV | str (s : String) | int (n : Int) | null | arr (xs : List String)
  deriving DecidableEq, Repr

/-- `m.string()` : "" unless the element is a string -/
def PV.string : PV → String
  | .str s => s
  | _ => ""
/-- `m.IsNil()` -/
def PV.isNil : PV → Bool
  | .null => true
  | _ => false
/-- `m.values()` : the nil slice (`none`) unless the element is an aggregate -/
def PV.values : PV → Option (List String)
  | .arr xs => some xs
  | _ => none
/-- `m.intlen` : the integer, or the length of the string / aggregate -/
def PV.intlen : PV → Int
  | .int n => n
  | .str s => s.utf8ByteSize
  | .arr xs => xs.length
  | .null => 0

/-- argument of an invalidation callback; `none` is the nil slice (flush / connection lost) -/
abbrev InvArg := Option (List String)

/-- `handlePush`, `case "invalidate"`: the callback argument, if the branch is taken
    (`len(values) >= 2` and `values[0].string() == "invalidate"`) -/
def invArg : List PV → Option InvArg
  | k :: v :: _ => if k.string == "invalidate" then some (if v.isNil then none else v.values) else none
  | _ => none

end Rv.Push

namespace Rv.Inval
open Rv.Push

/-- what arrives on the wire: a push frame, or a reply. A reply may carry push-typed elements
    inside an array (Redis 6 sends invalidations in the middle of MULTI/MGET replies). -/
inductive Frame | push (vs : List PV) | reply (nested : List (List PV))
  deriving Repr

/-- why the pipe ended: the server/network dropped the connection (read error), the client closed
    it, a write failed, or ClientOption.ConnLifetime retired it (`lftmTimer` → `pipe.expired`, exit
    error errConnExpired). `_background`'s clean-up does not look at the reason. -/
inductive Exit | serverKill | clientClose | writeError | lifetime
  deriving DecidableEq, Repr

inductive Ev
  | frame (f : Frame)
  | setHook (inv : Bool)   -- SetPubSubHooks with non-zero hooks; inv: onInvalidations set (SetOnInvalidations)
  | clearHook              -- SetPubSubHooks(PubSubHooks{}) (also what mux.Store does)
  | disconnect (why : Exit) -- _backgroundRead/_backgroundWrite returned: _background cleans up
  deriving Repr

structure Cfg where
  ver6 : Bool      -- p.version == 6: the nested-push workaround is active
  optCb : Bool     -- ClientOption.OnInvalidations configured (p.onInvalidations != nil)

inductive Call | opt (a : InvArg) | hook (a : InvArg)
  deriving DecidableEq, Repr

structure St where
  hookInv : Bool := false   -- pshks.hooks.onInvalidations != nil
  alive : Bool := true

/-- the callbacks `handlePush` makes for one push frame -/
def pushCalls (cfg : Cfg) (st : St) (vs : List PV) : List Call :=
  match invArg vs with
  | none => []
  | some a => (if cfg.optCb then [.opt a] else []) ++ (if st.hookInv then [.hook a] else [])

/-- top-level invalidation pushes a frame carries, as the reader sees them -/
def frameInvs (cfg : Cfg) : Frame → List (List PV)
  | .push vs => [vs]
  | .reply nested => if cfg.ver6 then nested else []

def step (cfg : Cfg) (st : St) : Ev → St × List Call
  | .frame f => if st.alive then (st, (frameInvs cfg f).flatMap (pushCalls cfg st)) else (st, [])
  | .setHook inv => if st.alive then ({ st with hookInv := inv }, []) else (st, [])   -- dead pipe: hooks are swapped out again at once
  | .clearHook => ({ st with hookInv := false }, [])
  | .disconnect _ =>
    if st.alive then
      ({ hookInv := false, alive := false },
        (if cfg.optCb then [.opt none] else []) ++ (if st.hookInv then [.hook none] else []))
    else (st, [])

def run (cfg : Cfg) : St → List Ev → List Call
  | _, [] => []
  | st, e :: es => (step cfg st e).2 ++ run cfg (step cfg st e).1 es

def optLog (cs : List Call) : List InvArg := cs.filterMap fun | .opt a => some a | _ => none
def hookLog (cs : List Call) : List InvArg := cs.filterMap fun | .hook a => some a | _ => none

/-- specification side: the server's push log = the invalidation pushes it wrote, in wire order -/
def pushLog (cfg : Cfg) (evs : List Ev) : List InvArg :=
  evs.flatMap fun
    | .frame f => (frameInvs cfg f).filterMap invArg
    | _ => []

end Rv.Inval
