import Rv.Gen.InitPlan
/-!
Model of connection setup: pipe.go `_newPipe` (C47).

* The command lists are NOT transcribed by hand: `buildT` interprets the guarded steps that
  the `initplan` extractor regenerates from the source (`Rv.Gen.InitPlan.resp3/resp2`).
* Hand-modelled (pinned by `Rv.Gen.InitPlan.residualSha`): credential resolution
  (`AuthCredentialsFn` overrides Username/Password), the meaning of the guard conditions on
  the option record (`evalAtom`), the two reply-evaluation loops (`step3`, `step2`), the
  protocol decision and what is on the wire (`connect`).
* `DoMulti` pipelines the whole list, so every command of an attempt is written before any
  reply is looked at; user commands can only be issued on the pipe `_newPipe` returns.
-/
namespace Rv.InitPlan
open Rv.Gen.InitPlan

/-- ClientSetInfo: nil (library defaults) | exactly two strings | any other non-nil slice (disabled). -/
inductive SetInfo | dflt | pair (a b : String) | off
  deriving DecidableEq, Repr

structure Opt where
  username : String := ""
  password : String := ""
  /-- AuthCredentialsFn: `none` = not configured, `some none` = returns an error,
      `some (some (u, p))` = returns these credentials -/
  credFn : Option (Option (String × String)) := none
  clientName : String := ""
  selectDB : Int := 0
  replicaOnly : Bool := false
  sentinelMasterSet : String := ""
  noTouch : Bool := false
  noEvict : Bool := false
  redirect : Bool := false
  azInfo : Bool := false          -- EnableReplicaAZInfo && AZFromInfo
  disableCache : Bool := false
  alwaysResp2 : Bool := false
  tracking : Option (List String) := none
  setInfo : SetInfo := .dflt
  deriving Repr

/-- `username, password := option.Username, option.Password`, overridden by AuthCredentialsFn. -/
def creds (o : Opt) : Option (String × String) :=
  match o.credFn with
  | none => some (o.username, o.password)
  | some r => r

/-- meaning of the whitelisted `if` conditions (u, p are the resolved credentials) -/
def evalAtom (o : Opt) (u p : String) : Atom → Bool
  | .passOnly => p != "" && u == ""
  | .hasUser => u != ""
  | .hasName => o.clientName != ""
  | .azInfo => o.azInfo
  | .cache => !o.disableCache
  | .trackNil => o.tracking.isNone
  | .selDB => o.selectDB != 0
  | .readonly => o.replicaOnly && o.sentinelMasterSet == ""
  | .noTouch => o.noTouch
  | .noEvict => o.noEvict
  | .redirect => o.redirect
  | .setInfo2 => match o.setInfo with | .pair _ _ => true | _ => false
  | .setInfoNil => match o.setInfo with | .dflt => true | _ => false

/-- Go `strconv.Itoa` -/
def itoa (i : Int) : String := toString i

def substTok (o : Opt) (u p : String) : Tok → List String
  | .lit k => [k.str]
  | .password => [p]
  | .username => [u]
  | .clientName => [o.clientName]
  | .selectDB => [itoa o.selectDB]
  | .libName => [libName]
  | .libVer => [libVer]
  | .setInfo0 => match o.setInfo with | .pair a _ => [a] | _ => []   -- Go would panic; unreachable (guard setInfo2)
  | .setInfo1 => match o.setInfo with | .pair _ b => [b] | _ => []
  | .trackingOpts => o.tracking.getD []

/-- state of the plan-building statements, at token level -/
structure BuiltT where
  hello : List Tok := []
  init : List (List Tok) := []
  helloIndex : Nat := 0
  setInfoFlag : Bool := true
  deriving DecidableEq, Repr

def guardHolds (ev : Atom → Bool) (g : List (Atom × Bool)) : Bool := g.all fun (a, b) => ev a == b

def applyAct (b : BuiltT) : Act → BuiltT
  | .reset => { b with init := [] }
  | .helloNew ws => { b with hello := ws }
  | .helloAdd ws => { b with hello := b.hello ++ ws }
  | .pushHello => { b with init := b.init ++ [b.hello] }
  | .push ws => { b with init := b.init ++ [ws] }
  | .helloIndex => { b with helloIndex := b.init.length }
  | .setInfoFlag f => { b with setInfoFlag := f }

/-- run the extracted steps under a valuation of the guard atoms -/
def buildT (steps : List Step) (ev : Atom → Bool) : BuiltT :=
  steps.foldl (fun b s => if guardHolds ev s.guard then applyAct b s.act else b) {}

abbrev Cmd := List String

def substCmd (o : Opt) (u p : String) (c : List Tok) : Cmd := c.flatMap (substTok o u p)

def plan3T (ev : Atom → Bool) : BuiltT := buildT resp3 ev
def plan2T (ev : Atom → Bool) : BuiltT := buildT resp2 ev
def plan3 (o : Opt) (u p : String) : List Cmd := (plan3T (evalAtom o u p)).init.map (substCmd o u p)
def plan2 (o : Opt) (u p : String) : List Cmd := (plan2T (evalAtom o u p)).init.map (substCmd o u p)

/-- number of replies whose errors are looked at: `count -= 2` when the SETINFO pair was added -/
def checked (b : BuiltT) : Nat := if b.setInfoFlag then b.init.length - 2 else b.init.length

/-- reply classes: a map/even array carrying `proto`, a string, a Redis error (does its text
    match `unknown command .?(HELLO|hello).?`), a non-Redis error (transport, timeout) -/
inductive Reply | map (proto : Nat) | str | rerr (noHello : Bool) | ioerr
  deriving DecidableEq, Repr

inductive Fail | cred | err | noCache
  deriving DecidableEq, Repr

/-- error seen by the RESP3 loop at index i: none | Redis error (noHello?) | other error -/
inductive E | none | redis (nh : Bool) | other
  deriving DecidableEq

def err3 (az : Bool) (i : Nat) : Reply → E
  | .rerr nh => .redis nh
  | .ioerr => .other
  | .map _ => if i == 1 && az then .other else .none          -- ToString on a map: parse error
  | .str => if i == 0 then .other else .none                   -- AsMap on a string: parse error

/-- what the loops ask about `init[i][0]`: is it "READONLY", is it "CLIENT". Every command of
    the extracted plans starts with a literal word (`C47.heads_are_literals`). -/
inductive Head | readonly | client | other
  deriving DecidableEq, Repr

def headOf : List Tok → Head
  | .lit .k_READONLY :: _ => .readonly
  | .lit .k_CLIENT :: _ => .client
  | _ => .other

/-- one iteration of the RESP3 loop; `head` is `init[i][0]`. Result: continue with r2, or fail. -/
def step3 (az : Bool) (i : Nat) (head : Head) (r2 : Bool) (rep : Reply) : Except Fail Bool :=
  match err3 az i rep with
  | .none => .ok r2
  | e =>
    if head == .readonly then .ok r2 else
    match e with
    | .redis nh =>
      if !r2 && nh then .ok true
      else if head == .client then .error .noCache
      else if r2 then .ok r2
      else .error .err
    | _ => .error .err

def loop3 (az : Bool) (heads : List Head) (rs : Nat → Reply) : Nat → Bool → Except Fail Bool :=
  go heads
where
  go : List Head → Nat → Bool → Except Fail Bool
  | [], _, r2 => .ok r2
  | h :: hs, i, r2 =>
    match step3 az i h r2 (rs i) with
    | .ok r2' => go hs (i + 1) r2'
    | .error f => .error f

/-- one iteration of the RESP2 loop -/
def step2 (head : Head) (rep : Reply) : Except Fail Unit :=
  if head == .readonly then .ok () else
  match rep with
  | .rerr nh => if nh then .ok () else .error .err
  | .ioerr => .error .err
  | _ => .ok ()

def loop2 (heads : List Head) (rs : Nat → Reply) : Nat → Except Fail Unit :=
  go heads
where
  go : List Head → Nat → Except Fail Unit
  | [], _ => .ok ()
  | h :: hs, i =>
    match step2 h (rs i) with
    | .ok _ => go hs (i + 1)
    | .error f => .error f

inductive Res | failed (f : Fail) | serving (resp3 : Bool)
  deriving DecidableEq, Repr

structure Outcome where
  sent : List Cmd
  res : Res
  deriving DecidableEq, Repr

/-- `p.info["proto"].intlen` after the RESP3 attempt -/
def protoOf : Reply → Nat
  | .map n => n
  | _ => 0

/-- the RESP2 sequence (`else` block), given what was already sent -/
def fallback (o : Opt) (u p : String) (sent : List Cmd) (rs2 : Nat → Reply) : Outcome :=
  if !o.disableCache then ⟨sent, .failed .noCache⟩ else
  let b := plan2T (evalAtom o u p)
  let cmds := plan2 o u p
  match loop2 ((b.init.take (checked b)).map headOf) rs2 0 with
  | .ok _ => ⟨sent ++ cmds, .serving false⟩
  | .error f => ⟨sent ++ cmds, .failed f⟩

/-- `_newPipe`: what is written on the connection and whether a pipe is returned.
    `rs3 i` / `rs2 i` is the reply to the i-th command of the RESP3 attempt / RESP2 sequence. -/
def connect (o : Opt) (r2ps : Bool) (rs3 rs2 : Nat → Reply) : Outcome :=
  match creds o with
  | none => ⟨[], .failed .cred⟩
  | some (u, p) =>
    if o.alwaysResp2 || r2ps then fallback o u p [] rs2 else
    let b := plan3T (evalAtom o u p)
    let cmds := plan3 o u p
    match loop3 o.azInfo ((b.init.take (checked b)).map headOf) rs3 0 false with
    | .error f => ⟨cmds, .failed f⟩
    | .ok r2 =>
      if r2 || protoOf (rs3 0) < 3 then fallback o u p cmds rs2
      else ⟨cmds, .serving true⟩

/-- sentinel.go newSentinelOpt, on the modelled fields -/
def sentinelOpt (o : Opt) (su sp sn : String) : Opt :=
  { o with username := su, password := sp, clientName := sn, selectDB := 0 }

end Rv.InitPlan
