import Rv.Gen.InitPlan
/-!
Model of connection setup: pipe.go `_newPipe` (C47).

* The command lists are NOT transcribed by hand: `buildT` interprets the guarded steps that
  the `initplan` extractor regenerates from the source (`Rv.Gen.InitPlan.resp3/resp2`).
* Hand-modelled (pinned by `Rv.Gen.InitPlan.residualSha`): credential resolution
  (`AuthCredentialsFn` overrides Username/Password), the meaning of the guard conditions on
  the option record (`evalAtom`), the two reply-evaluation loops (`step3`, `step2`), the
  protocol decision and what is on the wire (`connect`).
* `DoMulti` pipelines the whole list, so every command of an attempt is written before any
  reply is looked at; user commands can only be issued on the pipe `_newPipe` returns.
-/
namespace Rv.InitPlan
open Rv.Gen.InitPlan

/-- ClientSetInfo: nil (library defaults) | exactly two strings | any other non-nil slice (disabled). -/
inductive SetInfo | dflt | pair (a b : String) | off
  deriving DecidableEq, Repr

structure Opt where
  username : String := ""
  password : String := ""
  /-- AuthCredentialsFn: `none` = not configured, `some none` = returns an error,
      `some (some (u, p))` = returns these credentials -/
  credFn : Option (Option (String × String)) := none
  clientName : String := ""
  selectDB : Int := 0
  replicaOnly : Bool := false
  sentinelMasterSet : String := ""
  noTouch : Bool := false
  noEvict : Bool := false
  redirect : Bool := false
  azInfo : Bool := false          -- EnableReplicaAZInfo && AZFromInfo
  disableCache : Bool := false
  alwaysResp2 : Bool := false
  tracking : Option (List String) := none
  setInfo : SetInfo := .dflt
  deriving Repr

/-- `username, password := option.Username, option.Password`, overridden by AuthCredentialsFn. -/
def creds (o : Opt) : Option (String × String) :=
  match o.credFn with
  | none => some (o.username, o.password)
  | some r => r

/-- meaning of the whitelisted `if` conditions (u, p are the resolved credentials) -/
def evalAtom (o : Opt) (u p : String) : Atom → Bool
  | .passOnly => p != "" && u == ""
  | .hasUser => u != ""
  | .passNonEmpty => p != ""      -- only used if the source nests the two tests
  | .userEmpty => u == ""
  | .hasName => o.clientName != ""
  | .azInfo => o.azInfo
  | .cache => !o.disableCache
  | .trackNil => o.tracking.isNone
  | .selDB => o.selectDB != 0
  | .readonly => o.replicaOnly && o.sentinelMasterSet == ""
  | .noTouch => o.noTouch
  | .noEvict => o.noEvict
  | .redirect => o.redirect
  | .setInfo2 => match o.setInfo with | .pair _ _ => true | _ => false
  | .setInfoNil => match o.setInfo with | .dflt => true | _ => false

/-- Go `strconv.Itoa` -/
def itoa (i : Int) : String := toString i

def substTok (o : Opt) (u p : String) : Tok → List String
  | .lit k => [k.str]
  | .password => [p]
  | .username => [u]
  | .clientName => [o.clientName]
  | .selectDB => [itoa o.selectDB]
  | .libName => [libName]
  | .libVer => [libVer]
  | .setInfo0 => match o.setInfo with | .pair a _ => [a] | _ => []   -- Go would panic; unreachable (guard setInfo2)
  | .setInfo1 => match o.setInfo with | .pair _ b => [b] | _ => []
  | .trackingOpts => o.tracking.getD []

/-- state of the plan-building statements, at token level -/
structure BuiltT where
  hello : List Tok := []
  init : List (List Tok) := []
  helloIndex : Nat := 0
  setInfoFlag : Bool := true
  deriving DecidableEq, Repr

def guardHolds (ev : Atom → Bool) (g : List (Atom × Bool)) : Bool := g.all fun (a, b) => ev a == b

def applyAct (b : BuiltT) : Act → BuiltT
  | .reset => { b with init := [] }
  | .helloNew ws => { b with hello := ws }
  | .helloAdd ws => { b with hello := b.hello ++ ws }
  | .pushHello => { b with init := b.init ++ [b.hello] }
  | .push ws => { b with init := b.init ++ [ws] }
  | .helloIndex => { b with helloIndex := b.init.length }
  | .setInfoFlag f => { b with setInfoFlag := f }

/-- run the extracted steps under a valuation of the guard atoms -/
def buildT (steps : List Step) (ev : Atom → Bool) : BuiltT :=
  steps.foldl (fun b s => if guardHolds ev s.guard then applyAct b s.act else b) {}

abbrev Cmd := List String

def substCmd (o : Opt) (u p : String) (c : List Tok) : Cmd := c.flatMap (substTok o u p)

def plan3T (ev : Atom → Bool) : BuiltT := buildT resp3 ev
def plan2T (ev : Atom → Bool) : BuiltT := buildT resp2 ev
def plan3 (o : Opt) (u p : String) : List Cmd := (plan3T (evalAtom o u p)).init.map (substCmd o u p)
def plan2 (o : Opt) (u p : String) : List Cmd := (plan2T (evalAtom o u p)).init.map (substCmd o u p)

/-- number of replies whose errors are looked at: `count -= 2` when the SETINFO pair was added -/
def checked (b : BuiltT) : Nat := if b.setInfoFlag then b.init.length - 2 else b.init.length

/-- reply classes: a map/even array carrying `proto`, a string (`strAZ`: one that contains an
    `availability_zone:` line), a Redis error (does its text match
    `unknown command .?(HELLO|hello).?`), a non-Redis error (transport, timeout) -/
inductive Reply | map (proto : Nat) | str | strAZ | rerr (noHello : Bool) | ioerr
  deriving DecidableEq, Repr

/-- `panic`: a Go run-time panic inside `_newPipe` (the repaired code has none, `C47.setup_never_panics`;
    before fix 30ce25f: `p.info["availability_zone"] = …` on a nil map) -/
inductive Fail | cred | err | noCache | panic
  deriving DecidableEq, Repr

/-- the finitely many reply kinds the loops distinguish -/
inductive RK | map | str | strAZ | noHello | rerr | ioerr
  deriving DecidableEq, Repr

def Reply.kind : Reply → RK
  | .map _ => .map
  | .str => .str
  | .strAZ => .strAZ
  | .rerr true => .noHello
  | .rerr false => .rerr
  | .ioerr => .ioerr

/-- error seen by the RESP3 loop: none | Redis error (noHello?) | other error -/
inductive E | none | redis (nh : Bool) | other
  deriving DecidableEq

/-- i0: i == 0 (`r.AsMap()`), i1: i == 1 (`r.ToString()` when az), else `r.Error()` -/
def err3K (az i0 i1 : Bool) : RK → E
  | .noHello => .redis true
  | .rerr => .redis false
  | .ioerr => .other
  | .map => if !i0 && i1 && az then .other else .none          -- ToString on a map: parse error
  | _ => if i0 then .other else .none                           -- AsMap on a string: parse error

def err3 (az : Bool) (i : Nat) (rep : Reply) : E := err3K az (i == 0) (i == 1) rep.kind

/-- what the loops ask about `init[i][0]`: is it "READONLY", is it "CLIENT". Every command of
    the extracted plans starts with a literal word (`C47.heads_are_literals`). -/
inductive Head | readonly | client | other
  deriving DecidableEq, Repr

def headOf : List Tok → Head
  | .lit .k_READONLY :: _ => .readonly
  | .lit .k_CLIENT :: _ => .client
  | _ => .other

/-- loop state: `r2` and whether `p.info` is still a nil map -/
structure St3 where
  r2 : Bool
  infoNil : Bool
  deriving DecidableEq, Repr

/-- one iteration of the RESP3 loop; `head` is `init[i][0]`. Result: continue, or fail. -/
def step3K (az i0 i1 : Bool) (head : Head) (s : St3) (k : RK) : Except Fail St3 :=
  -- `p.info, err = r.AsMap()` at i = 0 (nil unless the reply is a map)
  let infoNil := if i0 then k != .map else s.infoNil
  -- at i = 1 when the INFO text has the line: `if p.info == nil { p.info = make(…) }` (the fix:
  -- commit 30ce25f; before it this was a nil-map panic), then `p.info["availability_zone"] = …`
  let infoNil := if !i0 && i1 && az && k == .strAZ then false else infoNil
  match err3K az i0 i1 k with
  | .none => .ok ⟨s.r2, infoNil⟩
  | e =>
    if head == .readonly then .ok ⟨s.r2, infoNil⟩ else
    match e with
    | .redis nh =>
      if !s.r2 && nh then .ok ⟨true, infoNil⟩
      else if head == .client then .error .noCache
      else if s.r2 then .ok ⟨s.r2, infoNil⟩
      else .error .err
    | _ => .error .err

def step3 (az : Bool) (i : Nat) (head : Head) (s : St3) (rep : Reply) : Except Fail St3 :=
  step3K az (i == 0) (i == 1) head s rep.kind

def loop3 (az : Bool) (heads : List Head) (rs : Nat → Reply) : Nat → St3 → Except Fail St3 :=
  go heads
where
  go : List Head → Nat → St3 → Except Fail St3
  | [], _, s => .ok s
  | h :: hs, i, s =>
    match step3 az i h s (rs i) with
    | .ok s' => go hs (i + 1) s'
    | .error f => .error f

/-- one iteration of the RESP2 loop; the state is "p.info is nil"; ih: i == helloIndex,
    ih1: i == helloIndex + 1 -/
def step2K (az ih ih1 : Bool) (head : Head) (infoNil : Bool) (k : RK) : Except Fail Bool :=
  if head == .readonly then .ok infoNil else
  match k with
  | .noHello => .ok infoNil
  | .rerr => .error .err
  | .ioerr => .error .err
  | _ =>
    if ih then .ok (k != .map)                        -- `p.info, err = r.AsMap()`
    else if az && ih1 then (if k == .strAZ then .ok false else .ok infoNil)   -- map created when nil (fix: 30ce25f)
    else .ok infoNil

def step2 (az : Bool) (helloIdx i : Nat) (head : Head) (infoNil : Bool) (rep : Reply) : Except Fail Bool :=
  step2K az (i == helloIdx) (i == helloIdx + 1) head infoNil rep.kind

def loop2 (az : Bool) (helloIdx : Nat) (heads : List Head) (rs : Nat → Reply) : Nat → Bool → Except Fail Bool :=
  go heads
where
  go : List Head → Nat → Bool → Except Fail Bool
  | [], _, s => .ok s
  | h :: hs, i, s =>
    match step2 az helloIdx i h s (rs i) with
    | .ok s' => go hs (i + 1) s'
    | .error f => .error f

inductive Res | failed (f : Fail) | serving (resp3 : Bool)
  deriving DecidableEq, Repr

structure Outcome where
  sent : List Cmd
  res : Res
  deriving DecidableEq, Repr

/-- `p.info["proto"].intlen` after the RESP3 attempt -/
def protoOf : Reply → Nat
  | .map n => n
  | _ => 0

/-- the RESP2 sequence (`else` block), given what was already sent and whether p.info is nil -/
def fallback (o : Opt) (u p : String) (sent : List Cmd) (infoNil : Bool) (rs2 : Nat → Reply) : Outcome :=
  if !o.disableCache then ⟨sent, .failed .noCache⟩ else
  let b := plan2T (evalAtom o u p)
  let cmds := plan2 o u p
  match loop2 o.azInfo b.helloIndex ((b.init.take (checked b)).map headOf) rs2 0 infoNil with
  | .ok _ => ⟨sent ++ cmds, .serving false⟩
  | .error f => ⟨sent ++ cmds, .failed f⟩

/-- `_newPipe`: what is written on the connection and whether a pipe is returned.
    `rs3 i` / `rs2 i` is the reply to the i-th command of the RESP3 attempt / RESP2 sequence. -/
def connect (o : Opt) (r2ps : Bool) (rs3 rs2 : Nat → Reply) : Outcome :=
  match creds o with
  | none => ⟨[], .failed .cred⟩
  | some (u, p) =>
    if o.alwaysResp2 || r2ps then fallback o u p [] true rs2 else
    let b := plan3T (evalAtom o u p)
    let cmds := plan3 o u p
    match loop3 o.azInfo ((b.init.take (checked b)).map headOf) rs3 0 ⟨false, true⟩ with
    | .error f => ⟨cmds, .failed f⟩
    | .ok s =>
      if s.r2 || protoOf (rs3 0) < 3 then fallback o u p cmds s.infoNil rs2
      else ⟨cmds, .serving true⟩

/-- sentinel.go newSentinelOpt, on the modelled fields -/
def sentinelOpt (o : Opt) (su sp sn : String) : Opt :=
  { o with username := su, password := sp, clientName := sn, selectDB := 0 }

/-! ### specification: what the settings demand, in order (hand-written) -/

def lits (ks : List Kw) : List Tok := ks.map .lit

/-- credentials in HELLO 3: `AUTH default <password>` when only a password is configured,
    `AUTH <username> <password>` when a user name is configured, nothing otherwise -/
def authArgs (ev : Atom → Bool) : List Tok :=
  if ev .passOnly then lits [.k_AUTH, .k_default] ++ [.password]
  else if ev .hasUser then lits [.k_AUTH] ++ [.username, .password] else []

def hello3Spec (ev : Atom → Bool) : List Tok :=
  lits [.k_HELLO, .k_3] ++ authArgs ev ++ (if ev .hasName then [.lit .k_SETNAME, .clientName] else [])

def opt (c : Bool) (cmd : List Tok) : List (List Tok) := if c then [cmd] else []

def setInfoSpec (ev : Atom → Bool) : List (List Tok) :=
  if ev .setInfo2 then [lits [.k_CLIENT, .k_SETINFO, .k_LIB_NAME] ++ [.setInfo0], lits [.k_CLIENT, .k_SETINFO, .k_LIB_VER] ++ [.setInfo1]]
  else if ev .setInfoNil then [lits [.k_CLIENT, .k_SETINFO, .k_LIB_NAME] ++ [.libName], lits [.k_CLIENT, .k_SETINFO, .k_LIB_VER] ++ [.libVer]]
  else []

/-- settings shared by both protocols, in the order the property lists them -/
def commonSpec (ev : Atom → Bool) : List (List Tok) :=
  opt (ev .selDB) [.lit .k_SELECT, .selectDB] ++ opt (ev .readonly) [.lit .k_READONLY] ++
  opt (ev .noTouch) (lits [.k_CLIENT, .k_NO_TOUCH, .k_ON]) ++ opt (ev .noEvict) (lits [.k_CLIENT, .k_NO_EVICT, .k_ON]) ++
  setInfoSpec ev

def trackingSpec (ev : Atom → Bool) : List (List Tok) :=
  opt (ev .cache) (if ev .trackNil then lits [.k_CLIENT, .k_TRACKING, .k_ON, .k_OPTIN] else lits [.k_CLIENT, .k_TRACKING, .k_ON] ++ [.trackingOpts])

/-- RESP3: credentials (and name) ride on HELLO, which is first; then tracking, then the rest -/
def required3 (ev : Atom → Bool) : List (List Tok) := [hello3Spec ev] ++ trackingSpec ev ++ commonSpec ev

def auth2Spec (ev : Atom → Bool) : List (List Tok) :=
  if ev .passOnly then [[.lit .k_AUTH, .password]] else if ev .hasUser then [[.lit .k_AUTH, .username, .password]] else []

/-- RESP2: AUTH first, then HELLO 2, the name, then the rest -/
def required2 (ev : Atom → Bool) : List (List Tok) :=
  auth2Spec ev ++ [lits [.k_HELLO, .k_2]] ++ opt (ev .hasName) (lits [.k_CLIENT, .k_SETNAME] ++ [.clientName]) ++ commonSpec ev

/-! ### oracle: the property judged on an observed connection log -/

def Reply.isErr : Reply → Bool
  | .rerr _ | .ioerr => true
  | _ => false

/-- errors the property tolerates: READONLY, CLIENT SETINFO, and `HELLO 2` being unknown -/
def tolerated (c : Cmd) (r : Reply) : Bool :=
  c.head? == some "READONLY" || c.take 2 == ["CLIENT", "SETINFO"] || (c == ["HELLO", "2"] && r == .rerr true)

/-- start of the RESP2 sequence in a connection log: the last `HELLO 2`, or the AUTH right before it -/
def startOf2 (log : List Cmd) : Nat :=
  match (log.zipIdx.filter fun (c, _) => c == ["HELLO", "2"]).getLast? with
  | none => 0
  | some (_, k) => if k > 0 && (log.getD (k - 1) []).head? == some "AUTH" then k - 1 else k

/-- a connection that served a user command must have (1) the demanded setup commands, in order, in
    its final attempt before the user command, (2) credentials (or HELLO) first, (3) no failed
    non-tolerated step in that attempt -/
def sessOracle (o : Opt) (u p : String) (served : Bool) (proto : Nat) (log : List Cmd) (rep : List Reply) : String :=
  if !served then "ok" else
  let ev := evalAtom o u p
  let req := (if proto == 3 then required3 ev else required2 ev).map (substCmd o u p)
  let start := if proto == 3 then 0 else startOf2 log
  let att := log.drop start
  if !(req.isSublist att) then "VIOLATION:missing-setup"
  else if att.head? != req.head? then "VIOLATION:credentials-not-first"
  else if (att.zip (rep.drop start)).any (fun (c, r) => r.isErr && !tolerated c r) then "VIOLATION:served-after-failed-step"
  else "ok"

end Rv.InitPlan
