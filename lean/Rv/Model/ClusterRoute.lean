/-
Model of routing and single-command redirect handling in /repo/cluster.go:
`_refresh` (connection map + slot tables), `_pick`/`pick`, `redirectOrNew`,
`shouldRefreshRetry` (error classification) and the `do`/`doCache` automaton, run against
a scripted cluster (`World`). Core Lean only.

Not modelled (assumptions, see props/C19.json): the delayed background refresh started by
`lazyRefresh` (the harness detects and re-runs an episode in which it fired), connection
lifetimes (`hasLftm`, `errConnExpired`), context cancellation, AZ lookups.
-/
import Rv.Model.Topology
namespace Rv.ClusterRoute
open Rv Rv.Topology

/-! ## replies and their classification (`shouldRefreshRetry`) -/

inductive Reply where
  | val (s : Bytes)    -- a string message
  | rerr (s : Bytes)   -- a redis error message (raw text)
  | nilr               -- redis nil
  | xerr (s : Bytes)   -- a non-redis error (transport error or an error made by the client)
  | cerr (s : Bytes)   -- the caller's context error, seen with a context that is done (the call was abandoned)
  deriving Repr, DecidableEq, Inhabited

inductive Mode where
  | none
  | move (addr : Bytes)
  | ask (addr : Bytes)
  | retry
  deriving Repr, DecidableEq

/-- `strings.Split(s, " ")` -/
def splitSp : Bytes → List Bytes
  | [] => [[]]
  | c :: rest =>
    if c = 32 then [] :: splitSp rest
    else match splitSp rest with
      | [] => [[c]]
      | w :: ws => (c :: w) :: ws

/-- `fixIPv6HostPort` -/
def fixIPv6 (a : Bytes) : Bytes :=
  if !a.contains 46 && a ≠ [] && a.head? ≠ some 91 then
    match lastIndexOf 58 a with
    | some i => joinHostPort (a.take i) (a.drop (i + 1))
    | none => a
  else a

def pMOVED := b "MOVED"
def pASK := b "ASK"
def pTRYAGAIN := b "TRYAGAIN"
def pLOADING := b "LOADING"
def pCLUSTERDOWN := b "CLUSTERDOWN"
def pERR := b "ERR "

/-- text of `RedisMessage.Error()`: `strings.TrimPrefix(text, "ERR ")` -/
def errText (t : Bytes) : Bytes := if pERR.isPrefixOf t then t.drop 4 else t

def third : List Bytes → Option Bytes
  | _ :: _ :: a :: _ => some a
  | _ => none

/-- `shouldRefreshRetry(resp.Error(), ctx)` with a live context and a client that is not closed -/
def classify : Reply → Mode
  | .val _ => .none
  | .nilr => .none
  | .xerr _ => .retry
  | .cerr _ => .none   -- `ctx.Err() != nil`: not retried, no refresh
  | .rerr t =>
    let s := errText t
    match (if pMOVED.isPrefixOf s then third (splitSp s) else none) with
    | some a => .move (fixIPv6 a)
    | none =>
      match (if pASK.isPrefixOf s then third (splitSp s) else none) with
      | some a => .ask (fixIPv6 a)
      | none =>
        if pCLUSTERDOWN.isPrefixOf s || pTRYAGAIN.isPrefixOf s || pLOADING.isPrefixOf s then .retry else .none

/-! ## commands, the scripted cluster, the observable trace -/

structure Cmd where
  id : Nat
  /-- key slot, `16384` = `InitSlot` (no key) -/
  slot : Nat
  /-- `IsRetryable()` (read-only commands are) -/
  retryable : Bool := false
  /-- `IsReadOnly()`: the `SendToReplicas` fixture of the harness -/
  readonly : Bool := false
  /-- `isMulti` / `isExec` -/
  isMulti : Bool := false
  isExec : Bool := false
  deriving Repr, DecidableEq, Inhabited

def initSlot : Nat := 16384

/-- what a node is asked to run in one call -/
inductive Item where
  | cmd (id : Nat)
  | asking
  | other (tag : String)   -- OPT-IN, wrapper MULTI/PTTL/EXEC of the cache path
  deriving Repr, DecidableEq

inductive CallKind where | do_ | multi | cache | multiCache
  deriving Repr, DecidableEq

structure ConnId where
  addr : Bytes
  serial : Nat
  deriving Repr, DecidableEq

/-- one call received by a node: over which connection (address + identity), which API, which commands -/
structure Call where
  conn : ConnId
  kind : CallKind
  items : List Item
  deriving Repr, DecidableEq

def Call.addr (c : Call) : Bytes := c.conn.addr

structure World where
  /-- pending injections `(node, command id, reply)`: the first match is consumed when the node runs the command -/
  script : List (Bytes × Nat × Reply)
  /-- every call received by a node, oldest first -/
  log : List Call := []
  /-- every reply handed out: `(command id, node, reply)`, oldest first -/
  replies : List (Nat × Bytes × Reply) := []
  /-- ghost: per-connection batches (`retry` objects) that were handed back to the pool, i.e. whose command
      slice was cleared: `(connection, ids of its commands)` -/
  recycled : List (ConnId × List Nat) := []
  deriving Repr

def tagOf (id : Nat) (addr : Bytes) : Bytes := b ("r" ++ toString id ++ "@") ++ addr

def takeScript (addr : Bytes) (id : Nat) : List (Bytes × Nat × Reply) → Option (Reply × List (Bytes × Nat × Reply))
  | [] => none
  | e :: rest =>
    if e.1 = addr ∧ e.2.1 = id then some (e.2.2, rest)
    else (takeScript addr id rest).map fun p => (p.1, e :: p.2)

def kOK := b "OK"

/-- the node's answer to one command (and the consumption of the injection) -/
def answer (w : World) (addr : Bytes) (c : Cmd) : Reply × World :=
  match takeScript addr c.id w.script with
  | some (r, s') => (r, { w with script := s', replies := w.replies ++ [(c.id, addr, r)] })
  | none =>
    let r := if c.isMulti then Reply.val kOK else Reply.val (tagOf c.id addr)
    (r, { w with replies := w.replies ++ [(c.id, addr, r)] })

def answerAll (w : World) (addr : Bytes) : List Cmd → List Reply × World
  | [] => ([], w)
  | c :: cs =>
    let (r, w1) := answer w addr c
    let (rs, w2) := answerAll w1 addr cs
    (r :: rs, w2)

def logCall (w : World) (c : Call) : World := { w with log := w.log ++ [c] }

/-! ## client state -/

abbrev Conn := ConnId

inductive RMode where
  | plain
  | replicaOnly
  | sendRS   -- SendToReplicas + ReplicaSelector fixture
  | sendRN   -- SendToReplicas + ReadNodeSelector fixture
  deriving Repr, DecidableEq

structure Opt where
  ver : Nat := 7
  tls : Bool := false
  mode : RMode := .plain
  maxRedir : Nat := 0
  retry : Bool := true
  /-- fixture `RetryDelayFn`: delay 0 while `attempts ≤ budget`, negative afterwards -/
  budget : Nat := 0
  initAddrs : List Bytes := []
  deriving Repr

structure Client where
  conns : List (Bytes × Conn × Bool) := []
  wslots : Nat → Option Conn := fun _ => none
  rslots : Option (Nat → List Conn) := none
  next : Nat := 0
  /-- ghost: slots at which `wslots` may change value (used only to print the table quickly) -/
  marks : List Nat := []

def cget (a : Bytes) (m : List (Bytes × Conn × Bool)) : Option (Conn × Bool) := (m.find? (·.1 = a)).map (·.2)
def cset (a : Bytes) (v : Conn × Bool) (m : List (Bytes × Conn × Bool)) : List (Bytes × Conn × Bool) :=
  if m.any (·.1 = a) then m.map fun e => if e.1 = a then (a, v) else e else m ++ [(a, v)]

/-- selector fixture of the harness: `int(slot) % (n+2) - 1`, i.e. −1 … n (both ends out of range) -/
def selFixture (slot n : Nat) : Int := (slot % (n + 2) : Nat) - 1

/-- `for i := lo; i <= hi && i >= 0 && i < 16384; i++` visits `i` -/
def visits (lo hi : Int) (i : Nat) : Bool := decide (0 ≤ lo) && decide (lo ≤ i) && decide ((i : Int) ≤ hi) && decide (i < 16384)

def setRange {α : Type} (lo hi : Int) (v : Nat → α) (f : Nat → α) : Nat → α :=
  fun i => if visits lo hi i then v i else f i

/-- all addresses that get a connection: per group the master key, then `nodes[1:]`; then InitAddress -/
def topoAddrs (gs : Groups) : List Bytes := gs.flatMap fun kg => kg.1 :: kg.2.nodes.drop 1

/-- new connection map of `_refresh`: existing connections are kept, the others are created -/
def refreshConns (o : Opt) (c : Client) (gs : Groups) : List (Bytes × Conn × Bool) × Nat :=
  let step (acc : List (Bytes × Conn × Bool) × Nat) (a : Bytes) (hidden : Bool) :=
    if acc.1.any (·.1 = a) then acc
    else match cget a c.conns with
      | some (cc, _) => (acc.1 ++ [(a, cc, hidden)], acc.2)
      | none => (acc.1 ++ [(a, { addr := a, serial := acc.2 }, hidden)], acc.2 + 1)
  let acc := (topoAddrs gs).foldl (fun acc a => step acc a false) ([], c.next)
  o.initAddrs.foldl (fun acc a => step acc a true) acc

def connOf (m : List (Bytes × Conn × Bool)) (a : Bytes) : Option Conn := (cget a m).map (·.1)

/-- the `switch` of `_refresh` for one group (`ro` chooses the replica in ReplicaOnly mode) -/
def applyGroup (o : Opt) (m : List (Bytes × Conn × Bool)) (ro : Nat → Nat → Nat)
    (t : (Nat → Option Conn) × Option (Nat → List Conn)) (g : Group) :
    Res ((Nat → Option Conn) × Option (Nat → List Conn)) :=
  match g.nodes with
  | [] => .panic   -- `g.nodes[0]`
  | n0 :: reps =>
    let cn (a : Bytes) : Option Conn := connOf m a
    match o.mode with
    | .replicaOnly =>
      if reps ≠ [] then
        .ok (g.slots.foldl (fun w r => setRange r.1 r.2 (fun i => (reps[ro i reps.length % reps.length]?).bind cn) w) t.1, t.2)
      else .ok (g.slots.foldl (fun w r => setRange r.1 r.2 (fun _ => cn n0) w) t.1, t.2)
    | .plain => .ok (g.slots.foldl (fun w r => setRange r.1 r.2 (fun _ => cn n0) w) t.1, t.2)
    | .sendRS =>
      let r0 : Nat → List Conn := t.2.getD (fun _ => [])
      let pickR (i : Nat) : List Conn :=
        if reps ≠ [] then
          let k := selFixture i reps.length
          if 0 ≤ k ∧ k < reps.length then ((reps[k.toNat]?).bind cn).toList else (cn n0).toList
        else (cn n0).toList
      .ok (g.slots.foldl (fun w r => setRange r.1 r.2 (fun _ => cn n0) w) t.1,
           some (g.slots.foldl (fun rs r => setRange r.1 r.2 pickR rs) r0))
    | .sendRN =>
      let r0 : Nat → List Conn := t.2.getD (fun _ => [])
      let all : List Conn := if reps ≠ [] then (n0 :: reps).filterMap cn else (cn n0).toList
      .ok (g.slots.foldl (fun w r => setRange r.1 r.2 (fun _ => cn n0) w) t.1,
           some (g.slots.foldl (fun rs r => setRange r.1 r.2 (fun _ => all) rs) r0))

/-- slot tables of `_refresh`, groups visited in the given order (Go: map iteration order) -/
def buildTables (o : Opt) (m : List (Bytes × Conn × Bool)) (ro : Nat → Nat → Nat) (gs : List Group) :
    Res ((Nat → Option Conn) × Option (Nat → List Conn)) :=
  foldRes (applyGroup o m ro) (fun _ => none, none) gs

inductive Out (α : Type) where
  | ok (a : α)
  | fail (e : Reply)   -- an error handed back to the caller
  | panic
  deriving Repr

def rangeMarks (gs : Groups) : List Nat :=
  gs.flatMap fun kg => kg.2.slots.flatMap fun r => if r.1 < 0 then [] else [r.1.toNat, r.2.toNat + 1]

/-- `_refresh` when every node answers the topology request with `topo` -/
def refresh (o : Opt) (topo : Msg) (ro : Nat → Nat → Nat) (c : Client) : Out Client :=
  if topo.typ = 95 then .fail .nilr
  else if isErrT topo.typ then .fail (.rerr topo.str)
  else
    match parseTopology o.ver topo [] o.tls with
    | .ok gs =>
      let (m, nx) := refreshConns o c gs
      match buildTables o m ro (gs.map (·.2)) with
      | .ok (w, r) => .ok { conns := m, wslots := w, rslots := r, next := nx, marks := rangeMarks gs }
      | _ => .panic
    | _ => .panic

/-- `_pick(slot, toReplica)` for a keyed command -/
def pickSlot (o : Opt) (c : Client) (slot : Nat) (toReplica : Bool) : Option Conn :=
  match toReplica, c.rslots with
  | true, some rs =>
    let nodes := rs slot
    if nodes = [] then none
    else if o.mode = .sendRN then
      let k := selFixture slot nodes.length
      if 0 ≤ k ∧ k < nodes.length then nodes[k.toNat]? else nodes[0]?
    else nodes[0]?
  | _, _ => c.wslots slot

/-- `c.toReplica(cmd)` with the harness fixture `SendToReplicas = cmd.IsReadOnly()` -/
def toReplica (o : Opt) (cmd : Cmd) : Bool :=
  (o.mode = .sendRS || o.mode = .sendRN) && cmd.readonly

/-- `_pick`: a command without a key goes to `hint`, some connection of the map (Go: first key of a map iteration) -/
def pick1 (o : Opt) (c : Client) (cmd : Cmd) (hint : Bytes) : Option Conn :=
  if cmd.slot = initSlot then connOf c.conns hint else pickSlot o c cmd.slot (toReplica o cmd)

def errNoSlot : Reply := .xerr (b "the slot has no redis node")

inductive PickRes where
  | conn (cc : Conn) (c : Client)
  | fail (e : Reply) (c : Client)
  | panic

/-- `pick`: `_pick`, on nil one `refresh` and `_pick` again -/
def pick (o : Opt) (topo : Msg) (ro : Nat → Nat → Nat) (c : Client) (cmd : Cmd) (hint : Bytes) : PickRes :=
  match pick1 o c cmd hint with
  | some cc => .conn cc c
  | none =>
    match refresh o topo ro c with
    | .ok c' =>
      match pick1 o c' cmd hint with
      | some cc => .conn cc c'
      | none => .fail errNoSlot c'
    | .fail e => .fail e c
    | .panic => .panic

/-- `redirectOrNew(addr, prev, slot, mode)`; `isMove` = `mode == RedirectMove` -/
def redirectOrNew (c : Client) (addr : Bytes) (prev : Conn) (slot : Nat) (isMove : Bool) : Conn × Client :=
  let fresh : Conn := { addr := addr, serial := c.next }
  let patched : Client :=
    { c with conns := cset addr (fresh, false) c.conns, next := c.next + 1, marks := c.marks ++ [slot, slot + 1],
             wslots := if isMove ∧ slot ≠ initSlot then fun i => if i = slot then some fresh else c.wslots i else c.wslots }
  match cget addr c.conns with
  | some (cc, _) => if prev ≠ cc then (cc, c) else (fresh, patched)
  | none => (fresh, patched)

/-! ## `do` / `doCache` -/

structure St where
  c : Client
  w : World

/-- one `cc.Do(ctx, cmd)` / `cc.DoCache(ctx, cmd, ttl)` -/
def sendOne (cache : Bool) (s : St) (cc : Conn) (cmd : Cmd) : Reply × St :=
  let w1 := logCall s.w { conn := cc, kind := if cache then .cache else .do_, items := [.cmd cmd.id] }
  let (r, w2) := answer w1 cc.addr cmd
  (r, { s with w := w2 })

/-- `ncc.DoMulti(ctx, cmds.AskingCmd, cmd)`, result index 1 -/
def sendAsking (s : St) (cc : Conn) (cmd : Cmd) : Reply × St :=
  let w1 := logCall s.w { conn := cc, kind := .multi, items := [.asking, .cmd cmd.id] }
  let (r, w2) := answer w1 cc.addr cmd
  (r, { s with w := w2 })

/-- reply of the ASK target on the cache path (`askingMultiCache` with one command): the node receives
    `[OPT-IN, ASKING, MULTI, PTTL, cmd, EXEC]` and the command's reply is extracted from EXEC -/
def cacheAskItems (id : Nat) : List Item :=
  [.other "optin", .asking, .other "multi", .other "pttl", .cmd id, .other "exec"]

def sendAskingCache (s : St) (cc : Conn) (cmd : Cmd) : Reply × St :=
  let w1 := logCall s.w { conn := cc, kind := .multi, items := cacheAskItems cmd.id }
  let (r, w2) := answer w1 cc.addr cmd
  (r, { s with w := w2 })

/-- the `process:` loop of `do`/`doCache`; `cc` is the connection picked at `retry:` (it is *not*
    replaced when a redirect is followed). Returns `none` for the outer reply when the caller must
    go back to `retry:`. Fuel bounds the number of redirects followed. -/
def processLoop (o : Opt) (cache : Bool) (cmd : Cmd) (cc : Conn) :
    Nat → St → Reply → Nat → (Reply × Bool × St × Nat)
  | 0, s, resp, redirects => (resp, false, s, redirects)
  | fuel + 1, s, resp, redirects =>
    match classify resp with
    | .move addr =>
      if o.maxRedir > 0 ∧ redirects + 1 > o.maxRedir then (resp, false, s, redirects + 1)
      else
        let (ncc, c') := redirectOrNew s.c addr cc cmd.slot true
        let (r, s') := sendOne cache { s with c := c' } ncc cmd
        processLoop o cache cmd cc fuel s' r (redirects + 1)
    | .ask addr =>
      if o.maxRedir > 0 ∧ redirects + 1 > o.maxRedir then (resp, false, s, redirects + 1)
      else
        let (ncc, c') := redirectOrNew s.c addr cc cmd.slot false
        let (r, s') := if cache then sendAskingCache { s with c := c' } ncc cmd else sendAsking { s with c := c' } ncc cmd
        processLoop o cache cmd cc fuel s' r (redirects + 1)
    | .retry => (resp, true, s, redirects)
    | .none => (resp, false, s, redirects)

/-- `WaitOrSkipRetry` with the fixture delay function -/
def shouldRetry (o : Opt) (attempts : Nat) : Bool := attempts ≤ o.budget

/-- `do` (cache = false) / `doCache` (cache = true). `hint` resolves `_pick(InitSlot)`. -/
def doCmd (o : Opt) (topo : Msg) (ro : Nat → Nat → Nat) (cache : Bool) (cmd : Cmd) (hint : Bytes) :
    Nat → St → Nat → Nat → Out (Reply × St)
  | 0, _, _, _ => .panic
  | fuel + 1, s, attempts, redirects =>
    match pick o topo ro s.c cmd hint with
    | .fail e c' => .ok (e, { s with c := c' })
    | .panic => .panic
    | .conn cc c' =>
      let (r0, s1) := sendOne cache { s with c := c' } cc cmd
      let (resp, again, s2, redirects') := processLoop o cache cmd cc (s1.w.script.length + 2) s1 r0 redirects
      if again ∧ o.retry ∧ (cache ∨ cmd.retryable) ∧ shouldRetry o attempts then
        doCmd o topo ro cache cmd hint fuel s2 (attempts + 1) redirects'
      else .ok (resp, s2)

end Rv.ClusterRoute

/-! ## single-flight `call` of /repo/singleflight.go

Interleaving model at the granularity of the mutex-protected sections: `enter` is the locked
prefix of `Do` (a caller either becomes the leader, which will run `fn`, or a waiter on the
leader's channel), `delayEnter` the locked prefix of `DelayDo`, `finish` the locked suffix of
`do` followed by `close(ch)` (all waiters of that flight return). -/
namespace Rv.ClusterRoute.SF

structure S where
  /-- `c.ch != nil`: a flight is in progress -/
  inflight : Bool := false
  /-- `c.cn` -/
  cn : Nat := 0
  /-- callers blocked on the current flight's channel -/
  waiting : List Nat := []
  /-- how many times `fn` was started / completed -/
  started : Nat := 0
  finished : Nat := 0
  /-- callers that have returned, with the flight (number of its `fn` run) whose completion released them -/
  returned : List (Nat × Nat) := []
  deriving Repr

inductive Ev where
  | enter (caller : Nat)        -- `Do`
  | delayEnter                  -- `DelayDo`
  | finish (leader : Option Nat) -- `fn` returned; `leader` is the `Do` caller that ran it (none for DelayDo's goroutine)
  deriving Repr

/-- `Do` up to the point where it either waits or starts `fn`; answers whether the caller is the leader -/
def enter (s : S) (caller : Nat) : S × Bool :=
  if s.inflight then ({ s with cn := s.cn + 1, waiting := s.waiting ++ [caller] }, false)
  else ({ s with cn := s.cn + 1, inflight := true, started := s.started + 1 }, true)

/-- `DelayDo`: nothing when a flight is in progress -/
def delayEnter (s : S) : S × Bool :=
  if s.inflight then (s, false)
  else ({ s with cn := s.cn + 1, inflight := true, started := s.started + 1 }, true)

/-- end of `do`: only enabled while a flight is in progress -/
def finish (s : S) (leader : Option Nat) : S :=
  if s.inflight then
    { s with inflight := false, cn := 0, finished := s.finished + 1, waiting := [],
             returned := s.returned ++ (s.waiting ++ leader.toList).map fun c => (c, s.started) }
  else s

def step (s : S) : Ev → S
  | .enter c => (enter s c).1
  | .delayEnter => (delayEnter s).1
  | .finish l => finish s l

def run (s : S) (es : List Ev) : S := es.foldl step s

end Rv.ClusterRoute.SF
