/-
Model of the reply-matching automaton of /repo/pipe.go `_backgroundRead`
(+ the classification done by `handlePush`): which written command receives
which incoming message. Commands and messages are abstracted to the attributes
the loop looks at. `queue` is the FIFO of written batches in queue order
(ring/flow-buffer order, see C02); the head batch is "current" once
`NextResultCh` has handed it to the reader (`started`). Core Lean only.
-/
namespace Rv.Reader

/-- what `_backgroundRead` looks at in a command -/
structure Cmd where
  id : Nat            -- identity of the command (caller, batch, position) – opaque
  noReply : Bool      -- cmds.NoReply(): SUBSCRIBE/UNSUBSCRIBE families
  isUnsub : Bool      -- cmds.IsUnsub()
  nargs : Nat         -- len(cmd.Commands())
  deriving Repr, DecidableEq

abbrev Batch := List Cmd

/-- classification of a push frame by `handlePush` -/
inductive PushK where
  | data        -- message / pmessage / smessage / invalidate / unknown / too short: (false, false)
  | sub         -- subscribe / psubscribe / ssubscribe confirmation: (true, false)
  | unsub       -- unsubscribe / punsubscribe / sunsubscribe notification: (true, true)
  deriving Repr, DecidableEq

/-- what `_backgroundRead` looks at in an incoming message -/
inductive In where
  | reply (mid : Nat) (isPong : Bool) (isQueued : Bool)   -- non-push; isPong = isUnsubReply(msg)
  | push (mid : Nat) (k : PushK)
  deriving Repr, DecidableEq

/-- observable effect of one loop iteration -/
inductive Out where
  | skipped                                  -- `continue` without touching a command
  | deliver (cmd : Nat) (mid : Option Nat) (done : Bool)   -- resps[ff] = msg (none = overridden to empty); done = batch completed (ch <- resp)
  | panic (why : String)                     -- panic(protocolbug) / panic(multiexecsub)
  deriving Repr, DecidableEq

structure St where
  queue : List Batch := []     -- written batches not yet completed, oldest first
  started : Bool := false      -- reader holds the head batch (NextResultCh returned it)
  ff : Nat := 0                -- fulfilled count within the head batch
  skip : Nat := 0
  skipUnsubReply : Bool := false
  deriving Repr

/-- the writer handed a batch to the wire (queue order) -/
def write (s : St) (b : Batch) : St := { s with queue := s.queue ++ [b] }

private def finish (s : St) (c : Cmd) (mid : Option Nat) (len : Nat) : St × Out :=
  if s.ff + 1 = len then
    ({ s with queue := s.queue.tail, started := false, ff := 0 }, .deliver c.id mid true)
  else ({ s with ff := s.ff + 1 }, .deliver c.id mid false)

/-- steps 3–5 of an iteration once the message passed the push filter;
    `rp`/`us` are handlePush's results (false,false for a non-push) -/
def match1 (s : St) (m : In) (rp us : Bool) : St × Out :=
  let isPong := match m with | .reply _ p _ => p | _ => false
  let isQueued := match m with | .reply _ _ q => q | _ => false
  let mid := match m with | .reply i _ _ => i | .push i _ => i
  -- `if ff == len(multi)`: fetch the next batch
  let needNext := !s.started
  match needNext, s.queue with
  | true, [] =>
    -- ch == nil
    if us then (s, .skipped)
    else if s.skipUnsubReply && isPong then ({ s with skipUnsubReply := false }, .skipped)
    else (s, .panic "protocolbug")
  | _, [] => (s, .panic "unreachable")
  | _, b :: _ =>
    let s := { s with started := true }
    match b[s.ff]? with
    | none => (s, .panic "unreachable")     -- batches are non-empty and ff < len is an invariant
    | some c =>
      if rp then
        if us then (s, .skipped)
        else if !c.noReply then (s, .panic "protocolbug")
        else finish { s with skip := c.nargs - 2 } c none b.length
      else if c.noReply && isQueued then (s, .panic "multiexecsub")
      else if c.isUnsub && !isPong then finish { s with skipUnsubReply := true } c (some mid) b.length
      else if s.skipUnsubReply then
        if !isPong then (s, .panic "protocolbug") else ({ s with skipUnsubReply := false }, .skipped)
      else finish s c (some mid) b.length

/-- one iteration of the `for` loop of `_backgroundRead` on message `m` -/
def step (s : St) (m : In) : St × Out :=
  match m with
  | .push _ .data => (s, .skipped)          -- !prply → continue
  | .push _ k =>
    if s.skip > 0 then ({ s with skip := s.skip - 1 }, .skipped)
    else match1 s m true (k == .unsub)
  | .reply .. => match1 s m false false

/-- events seen by the connection in order: a batch reaches the wire / a message arrives -/
inductive Ev where
  | w (b : Batch)
  | m (i : In)
  deriving Repr

def run : St → List Ev → List Out
  | _, [] => []
  | s, .w b :: es => run (write s b) es
  | s, .m i :: es => let (s', o) := step s i; o :: run s' es

end Rv.Reader
