/-
Model of the command writer in /repo/resp.go: `writeN`, `writeB`, `writeCmd`
(and `flushCmd`, which is `writeCmd` followed by `Flush`). The bufio.Writer is
modelled as the byte stream it hands to the connection (write errors of the
underlying connection are out of scope: every `WriteByte/WriteString` appends).

`writeN` computes the leading power of ten in floating point,
    d := int(math.Pow10(int(math.Log10(float64(n)))))
Floats are not modelled: the leading power is the abstract function `lead`.
`exactLead` is the value the float expression is supposed to have; the theorems
of C14 are stated under the hypothesis `lead n = exactLead n` and the harness
checks that hypothesis on the real code. Core Lean only.
-/
import Rv.Model.Hex
namespace Rv.WriteCmd

/-- the loop `for d := d0; d > 0; d /= 10 { WriteByte(byte('0' + n/d)); n = n % d }` -/
def loop (d n : Nat) : List UInt8 :=
  if _h : d > 0 then UInt8.ofNat (48 + n / d) :: loop (d / 10) (n % d) else []
termination_by d
decreasing_by omega

/-- number of decimal digits of `n` (1 for 0) -/
def numDigits (n : Nat) : Nat :=
  if _h : n < 10 then 1 else numDigits (n / 10) + 1
termination_by n
decreasing_by omega

/-- what `int(math.Pow10(int(math.Log10(float64(n)))))` is meant to be -/
def exactLead (n : Nat) : Nat := 10 ^ (numDigits n - 1)

/-- `writeN(o, id, n)` for `n ≥ 0` -/
def writeN (lead : Nat → Nat) (id : UInt8) (n : Nat) : List UInt8 :=
  id :: (if n < 10 then [UInt8.ofNat (48 + n)] else loop (lead n) n) ++ [13, 10]

/-- `writeB(o, id, str)` -/
def writeB (lead : Nat → Nat) (id : UInt8) (s : List UInt8) : List UInt8 :=
  writeN lead id s.length ++ s ++ [13, 10]

/-- the `for _, m := range cmd { writeB(o, '$', m) }` loop -/
def writeArgs (lead : Nat → Nat) : List (List UInt8) → List UInt8
  | [] => []
  | a :: as => writeB lead 36 a ++ writeArgs lead as

/-- `writeCmd(o, cmd)` -/
def writeCmd (lead : Nat → Nat) (cmd : List (List UInt8)) : List UInt8 :=
  writeN lead 42 cmd.length ++ writeArgs lead cmd

/-! ### the caller's slice

`cmd` is the `[]string` of the `Completed` command, shared with the caller: the same slice is
written again on a retry, a MOVED/ASK redirect or when a pinned command is reused. The
functions below also return the slice as it is after the call; `writeCmd` never assigns to
`cmd[i]` (the in-code TODO about releasing arguments eagerly is not implemented). -/

/-- the argument loop, returning the bytes written and the slice elements afterwards -/
def writeArgsSt (lead : Nat → Nat) : List (List UInt8) → List UInt8 × List (List UInt8)
  | [] => ([], [])
  | a :: as =>
    let r := writeArgsSt lead as
    (writeB lead 36 a ++ r.1, a :: r.2)       -- `cmd[i]` is left as it is

/-- `writeCmd(o, cmd)`: bytes written and `cmd` afterwards -/
def writeCmdSt (lead : Nat → Nat) (cmd : List (List UInt8)) : List UInt8 × List (List UInt8) :=
  let r := writeArgsSt lead cmd
  (writeN lead 42 cmd.length ++ r.1, r.2)

/-- the same slice written twice (retry / redirect / reuse): all bytes, and the slice afterwards -/
def writeTwice (lead : Nat → Nat) (cmd : List (List UInt8)) : List UInt8 × List (List UInt8) :=
  let r1 := writeCmdSt lead cmd
  let r2 := writeCmdSt lead r1.2
  (r1.1 ++ r2.1, r2.2)

end Rv.WriteCmd
