/-
Model of /repo/rueidisaside/aside.go (core Lean only): one cache key, its lock placeholder,
the client liveness keys, the three Lua scripts and the `Get` loop as an automaton that takes
one server round trip per step. Several Gets of several clients interleave arbitrarily with
`Del`, key expiry, client death (its liveness key expires), liveness refresh and context
cancellation.

* `acquire` / `setkey` / `delkey` — hand transcriptions of the script texts pinned in
  Rv/Props/C39.lean (`acquireLock`, `setkey`, `delkey`; the non-Lua path `SET key id NX GET PX`
  has the same effect and reply as `acquireLock`). TTLs are abstracted: a key with a TTL may
  disappear at any moment (`expire`, `death` events).
* A string read from the key is a placeholder iff it starts with `rueidisid:`; the model keeps
  the two apart by type (`Val.ph id` — id = the name of a client liveness key — vs
  `Val.value s`). A user value that starts with the prefix is a `Val.ph` of a client that does
  not exist.
* Client-side caching: `DoCache GET` is modelled as a read of the current server value
  (invalidations are delivered before the next step, as the harness' fake does); the wake-up
  channels of `register` are the flags `wKey` / `wId` of a Get: cleared when the Get registers
  (`start`: register(key) comes BEFORE the read of the key; `checkHolder`: register(id) and the
  read of the liveness key are one step), set by every later write of the key / of the holder's
  liveness key.
-/
namespace Rv.Aside

inductive Val where
  | value (s : String)
  | ph (id : Nat)
  deriving Repr, DecidableEq

inductive Res where
  | ok (v : Val)       -- (val, nil)
  | err                -- loader error / context error / server error
  deriving Repr, DecidableEq

inductive PC where
  | start                       -- retry: wait := c.register(key)
  | read                        -- DoCache GET key (after the registration)
  | locking                     -- miss: keepalive, then acquire the placeholder
  | loading                     -- placeholder is mine: the loader runs
  | storing (v : Val)           -- loader returned v: setkey
  | releasing                   -- loader failed: delkey
  | checkHolder (id : Nat)      -- saw placeholder id: register(id); DoCache GET id
  | freeing (id : Nat)          -- holder gone: delkey key id, retry
  | waiting (id : Nat)          -- select { <-ph, <-wait, <-ctx.Done() }
  | done (r : Res)
  deriving Repr, DecidableEq

structure G where
  id : Nat                      -- the client's liveness key (PlaceholderPrefix + random)
  pc : PC := .start
  wKey : Bool := false
  wId : Bool := false
  cancelled : Bool := false     -- the caller's context is done: every command on it fails
  deriving Repr, DecidableEq

structure Srv where
  key : Option Val := none
  alive : List Nat := []        -- liveness keys that exist
  started : List Nat := []      -- clients that already have an id (`c.id != ""`): keepalive does nothing for them
  seen : List Val := []         -- ghost: every value ever stored in the key or produced by a loader
  loads : Nat := 0              -- ghost: loader invocations
  deriving Repr, DecidableEq

/-! ### scripts -/

/-- acquireLock: `if SET key id NX PX ttl then return nil else return GET key end` -/
def acquire (id : Nat) (k : Option Val) : Option Val × Option Val :=
  match k with
  | none => (some (.ph id), none)
  | some v => (some v, some v)

/-- setkey: `if GET key == id then SET key val PX ttl (OK) else 0` — true = stored -/
def setkey (id : Nat) (v : Val) (k : Option Val) : Option Val × Bool :=
  if k = some (.ph id) then (some v, true) else (k, false)

/-- delkey: `if GET key == id then DEL key else 0` -/
def delkey (id : Nat) (k : Option Val) : Option Val × Bool :=
  if k = some (.ph id) then (none, true) else (k, false)

def keepalive (s : Srv) (id : Nat) : Srv :=
  if id ∈ s.started then s
  else { s with started := id :: s.started, alive := if id ∈ s.alive then s.alive else id :: s.alive }

/-! ### one step of one Get (one server round trip, or the loader finishing) -/

/-- `load` is what the loader returns when this step is the end of a loader run (`none` = error) -/
def gstepLive (s : Srv) (g : G) (load : Option Val) : Srv × G :=
  match g.pc with
  | .start => (s, { g with pc := .read, wKey := false })
  | .read =>
    match s.key with
    | none => (s, { g with pc := .locking })
    | some (.value x) => (s, { g with pc := .done (.ok (.value x)) })
    | some (.ph i) => (s, { g with pc := .checkHolder i })
  | .locking =>
    -- keepalive: SET id "" PX clientTTL only if the client has no id yet; a client whose liveness
    -- key expired does not notice (only the refresh goroutine re-creates it); then the lock attempt
    let s1 := keepalive s g.id
    match acquire g.id s1.key with
    | (k', none) => ({ s1 with key := k', loads := s1.loads + 1 }, { g with pc := .loading })
    | (_, some (.value x)) => (s1, { g with pc := .done (.ok (.value x)) })
    | (_, some (.ph i)) => (s1, { g with pc := .checkHolder i })
  | .loading =>
    match load with
    | some v => ({ s with seen := v :: s.seen }, { g with pc := .storing v })
    | none => (s, { g with pc := .releasing })
  | .storing v =>
    let r := setkey g.id v s.key
    -- `val` is the loader's value whether or not it was stored; then the prefix check
    let pc' := match v with
      | .value x => PC.done (.ok (.value x))
      | .ph i => PC.checkHolder i
    ({ s with key := r.1 }, { g with pc := pc' })
  | .releasing => ({ s with key := (delkey g.id s.key).1 }, { g with pc := .done .err })
  | .checkHolder i =>
    if i ∈ s.alive then (s, { g with pc := .waiting i, wId := false })
    else (s, { g with pc := .freeing i, wId := false })
  | .freeing i => ({ s with key := (delkey i s.key).1 }, { g with pc := .start })
  | .waiting _ => if g.wKey || g.wId then (s, { g with pc := .start }) else (s, g)
  | .done _ => (s, g)

/-- the same step when the caller's context is already done: commands on it fail with the
context error (Get returns it); the two `delkey` calls use context.Background() and still run;
keepalive uses the client's own context -/
def gstepCancelled (s : Srv) (g : G) (load : Option Val) : Srv × G :=
  match g.pc with
  | .start => (s, { g with pc := .read, wKey := false })
  | .read => (s, { g with pc := .done .err })
  | .locking =>
    (keepalive s g.id, { g with pc := .done .err })
  | .loading =>
    match load with
    | some v => ({ s with seen := v :: s.seen }, { g with pc := .storing v })
    | none => (s, { g with pc := .releasing })
  | .storing _ => ({ s with key := (delkey g.id s.key).1 }, { g with pc := .done .err })
  | .releasing => ({ s with key := (delkey g.id s.key).1 }, { g with pc := .done .err })
  | .checkHolder _ => (s, { g with pc := .done .err })
  | .freeing i => ({ s with key := (delkey i s.key).1 }, { g with pc := .start })
  | .waiting _ => (s, { g with pc := .done .err })
  | .done _ => (s, g)

def gstep (s : Srv) (g : G) (load : Option Val) : Srv × G :=
  if g.cancelled then gstepCancelled s g load else gstepLive s g load

def cancelG (g : G) : G := { g with cancelled := true }

/-! ### the system -/

structure Sys where
  srv : Srv := {}
  gs : List G := []
  deriving Repr, DecidableEq

/-- a write of the key wakes every Get that registered for it; a write of liveness key `i`
wakes the Gets parked on holder `i` -/
def wakeKey (gs : List G) : List G := gs.map fun g => { g with wKey := true }
def wakeId (i : Nat) (gs : List G) : List G :=
  gs.map fun g => match g.pc with
    | .waiting j => if i = j then { g with wId := true } else g
    | _ => g

inductive Ev where
  | newGet (id : Nat)
  | step (i : Nat) (load : Option Val)
  | cancel (i : Nat)
  | del                          -- Del(key) by anybody
  | expire                       -- the key's TTL ran out
  | put (v : Val)                -- another program stores a value
  | death (id : Nat)             -- liveness key of `id` expired / client closed / connection lost
  | refresh (id : Nat)           -- the refresh goroutine re-creates the liveness key
  deriving Repr, DecidableEq

def setAt (gs : List G) (i : Nat) (g : G) : List G := gs.set i g

def next (s : Sys) : Ev → Sys
  | .newGet id => { s with gs := s.gs ++ [{ id := id }] }
  | .step i load =>
    match s.gs[i]? with
    | none => s
    | some g =>
      let (srv', g') := gstep s.srv g load
      let gs' := setAt s.gs i g'
      let gs'' := if srv'.key = s.srv.key then gs' else wakeKey gs'
      let gs3 := if srv'.alive = s.srv.alive then gs'' else wakeId g.id gs''
      { srv := srv', gs := gs3 }
  | .cancel i =>
    match s.gs[i]? with
    | none => s
    | some g => { s with gs := setAt s.gs i (cancelG g) }
  | .del => { srv := { s.srv with key := none }, gs := if s.srv.key = none then s.gs else wakeKey s.gs }
  | .expire => { srv := { s.srv with key := none }, gs := if s.srv.key = none then s.gs else wakeKey s.gs }
  | .put v => { srv := { s.srv with key := some v, seen := v :: s.srv.seen }, gs := wakeKey s.gs }
  | .death id => { srv := { s.srv with alive := s.srv.alive.filter (· ≠ id) },
                   gs := if id ∈ s.srv.alive then wakeId id s.gs else s.gs }
  | .refresh id => { srv := { s.srv with alive := if id ∈ s.srv.alive then s.srv.alive else id :: s.srv.alive },
                     gs := wakeId id s.gs }

def run (s : Sys) : List Ev → Sys
  | [] => s
  | e :: r => run (next s e) r

end Rv.Aside
