/-
Model of the `CacheStore` built by `NewSimpleCacheAdapter` (/repo/cache.go) over an
ideal user `SimpleCache` (a map from address string to message). Core Lean only.

* `flights map[string]map[string]CacheEntry` is kept as ONE finite map from
  (key, cmd) to a slot: absent / `nil` (`none`: the marker left by `Update`/`Cancel`,
  "there may be something in the user store under key+cmd") / a pending
  `*adapterEntry` (`some e`: id, xat). The inner maps of the real code are never left
  empty (`del` removes them), so the two-level map and this flat one carry the same
  information; the correspondence suite prints the real two-level map in the flat
  format (and would show an empty inner map as a difference).
  `flights = none` is `a.flights == nil` after `Close`.
* the user store is addressed by the Go string concatenation `key + cmd` (`k ++ c`);
* values are opaque ids with an expiry; `typ != 0` for everything ever `Set`;
* maps are association lists that are only read through `get` and written
  through `put`/`del`.
-/
import Rv.Model.Lru
namespace Rv.Adapter
open Rv.Lru (Bytes FRes Outcome pack unixMilli relativePTTL)

structure AEntry where
  id  : Nat
  xat : Int    -- `now.Add(ttl).UnixMilli()`, not truncated to 56 bits
deriving DecidableEq, Repr

abbrev KC := Bytes × Bytes

structure State where
  flights : Option (List (KC × Option AEntry))
  store   : List (Bytes × (Nat × Int))     -- user SimpleCache: address ↦ (value id, getExpireAt)
  nextId  : Nat
  done    : List (Nat × Outcome)
deriving Repr

def init : State := { flights := some [], store := [], nextId := 0, done := [] }

/-- map read `m[k]` -/
def get {α β : Type} [DecidableEq α] : List (α × β) → α → Option β
  | [], _ => none
  | (a, b) :: m, k => if a = k then some b else get m k

/-- map write `m[k] = v` -/
def put {α β : Type} [DecidableEq α] : List (α × β) → α → β → List (α × β)
  | [], k, v => [(k, v)]
  | (a, b) :: m, k, v => if a = k then (k, v) :: m else (a, b) :: put m k v

/-- `delete(m, k)` -/
def del {α β : Type} [DecidableEq α] (m : List (α × β)) (k : α) : List (α × β) := m.filter (fun p => p.1 ≠ k)

/-- `a.flights[key][cmd]`: `none` = absent (also after Close), `some none` = nil marker, `some (some e)` = pending -/
def slot (s : State) (k c : Bytes) : Option (Option AEntry) := get (s.flights.getD []) (k, c)

/-- the miss path of `Flight` -/
def miss (s : State) (k c : Bytes) (ttl now : Int) : State × FRes :=
  match slot s k c with
  | some (some e) => (s, .wait e.id)          -- `if flight != nil { return RedisMessage{}, flight }`
  | _ =>
    match s.flights with
    | none => (s, .send)                       -- closed: `entries == nil`, nothing is created
    | some fl =>
      -- `entries[cmd] = &adapterEntry{…}` (the slot is absent or a nil marker)
      let e : AEntry := { id := s.nextId, xat := unixMilli (now + ttl) }
      ({ s with flights := some (put fl (k, c) (some e)), nextId := s.nextId + 1 }, .send)

/-- `Flight` -/
def flight (s : State) (k c : Bytes) (ttl now : Int) : State × FRes :=
  match get s.store (k ++ c) with
  | some (v, exp) =>
    if relativePTTL exp (unixMilli now) > 0 then (s, .hit v exp) else miss s k c ttl now
  | none => miss s k c ttl now

/-- `Update`; `raw` is what was last given to `val.setExpireAt` (0 if never). Returns `sxat`. -/
def update (s : State) (k c : Bytes) (v : Nat) (raw : Int) : State × Int :=
  match s.flights, slot s k c with
  | some fl, some (some e) =>
    let sxat0 := pack raw
    let own := decide (e.xat < sxat0) || decide (sxat0 = 0)
    let sxat := if own then e.xat else sxat0            -- returned
    let stored := if own then pack e.xat else sxat0     -- `val.setExpireAt(sxat)` truncates
    ({ s with store := put s.store (k ++ c) (v, stored),
              flights := some (put fl (k, c) none),
              done := s.done ++ [(e.id, .val v stored)] }, sxat)
  | _, _ => (s, 0)

/-- `Cancel` -/
def cancel (s : State) (k c : Bytes) (err : Nat) : State :=
  match s.flights, slot s k c with
  | some fl, some (some e) =>
    { s with flights := some (put fl (k, c) none), done := s.done ++ [(e.id, .err err)] }
  | _, _ => s

/-- the (key, cmd) pairs `del(key)` removes: those of the key whose slot is the nil marker -/
def marked (fl : List (KC × Option AEntry)) (k : Bytes) : List KC :=
  (fl.map (·.1)).filter fun kc => kc.1 = k ∧ get fl kc = some none

/-- `del(key)`: every nil-marked cmd is deleted from the user store and from the map; pending ones stay -/
def delKey (s : State) (k : Bytes) : State :=
  match s.flights with
  | none => s
  | some fl =>
    { s with store := (marked fl k).foldl (fun st kc => del st (kc.1 ++ kc.2)) s.store,
             flights := some ((marked fl k).foldl del fl) }

/-- `Delete(keys)`; `none` = nil slice: every key of `a.flights` -/
def delete (s : State) : Option (List Bytes) → State
  | some keys => keys.foldl delKey s
  | none => ((s.flights.getD []).map (·.1.1)).foldl delKey s

/-- `Close(err)`: `a.flights = nil; a.store.Flush()`, pending entries get the error -/
def close (s : State) (err : Nat) : State :=
  let pend := (s.flights.getD []).filterMap fun p => p.2.map fun e => (e.id, Outcome.err err)
  { s with flights := none, store := [], done := s.done ++ pend }

inductive Op
  | flight (k c : Bytes) (ttl now : Int)
  | update (k c : Bytes) (v : Nat) (raw : Int)
  | cancel (k c : Bytes) (err : Nat)
  | delete (keys : Option (List Bytes))
  | close (err : Nat)
deriving Repr

inductive Res
  | fl (r : FRes)
  | pxat (p : Int)
  | unit
deriving Repr

def step (s : State) : Op → State × Res
  | .flight k c ttl now => let r := flight s k c ttl now; (r.1, .fl r.2)
  | .update k c v raw => let r := update s k c v raw; (r.1, .pxat r.2)
  | .cancel k c err => (cancel s k c err, .unit)
  | .delete keys => (delete s keys, .unit)
  | .close err => (close s err, .unit)

end Rv.Adapter
