/-
Model of the client-side-caching protocol of ONE connection (pipe.go `DoCache` +
the reader loop's cache branches + `handlePush` + teardown) on top of the lru model
`Rv.Lru`, together with the server side it talks to. Core Lean only.

What is modelled
* the connection's store is the lru model; `DoCache` is `Flight` (hit | wait on the pending
  entry | become the fetcher: the MULTI/PTTL/GET/EXEC block goes on the wire = `reqQ`);
* the wire towards the client is ONE FIFO (`respQ`) holding, in the order the server wrote
  them, EXEC replies, error replies and invalidation pushes; the reader loop takes them from
  the head (`deliver`): reply → `Update`, error → `Cancel`, push → `Delete(keys)` / `Delete(nil)`;
* `disconnect` is `Close` and drops both queues (the pipe is dead afterwards);
* the server keeps a version per key (ghost: the number of writes so far), executes queued
  fetches in order (`exec`: the reply carries the version at that moment and the connection
  becomes tracked for the key), and on a write (`write k`) bumps the version and, if the
  connection is tracked for the key, appends ONE invalidation push behind everything it wrote to
  this connection before (Redis order: reply-before-push on one connection) and forgets the
  tracking entry; `flushall` bumps every key and always pushes the nil invalidation.
* time is the `now` argument of `start` (any value; expiry only makes the lru miss more).

Ghost state (not part of any decision): `floor k` = largest write version of `k` whose
invalidation has been PROCESSED by the reader loop; `log` = replies committed to the store.

Events are total: an event that is not enabled (empty queue, dead pipe) leaves the state
unchanged, so "every event list" = every interleaving that respects wire order.
-/
import Rv.Model.Lru
namespace Rv.CachePipe
open Rv.Lru (Bytes FRes)

/-- what travels from the server to the client on the connection -/
inductive Msg
  | reply (k c : Bytes) (v : Nat) (vsz pttl : Int)  -- EXEC reply of the fetch of (k, c): value = version `v`, server PTTL answer
  | fail (k c : Bytes) (err : Nat)                  -- the fetch failed / was aborted
  | push (k : Bytes) (n : Nat)                      -- invalidation of `k`, caused by write number `n` (ghost)
  | pushAll (g : Bytes → Nat)                       -- nil invalidation (flush); ghost: versions after the flush

/-- ghost: the write version an invalidation message stands for, as far as key `k` is concerned (0: none) -/
def pushVer : Msg → Bytes → Nat
  | .push k' n, k => if k' = k then n else 0
  | .pushAll g, k => g k
  | _, _ => 0

structure St where
  store   : Lru.State
  reqQ    : List (Bytes × Bytes)     -- fetches on the wire towards the server
  respQ   : List Msg                 -- what the server wrote to the connection, oldest first
  ver     : Bytes → Nat              -- server: current version of every key
  tracked : Bytes → Bool             -- server: this connection is to be told about the next write of the key
  floor   : Bytes → Nat              -- ghost
  log     : List ((Bytes × Bytes) × Nat)   -- ghost: (command, version) of every reply handed to `Update`

def init (mx base : Int) : St :=
  { store := Lru.init mx base, reqQ := [], respQ := [], ver := fun _ => 0, tracked := fun _ => false,
    floor := fun _ => 0, log := [] }

inductive Ev
  | start (k c : Bytes) (ttl now : Int)   -- a DoCache call for (k, c)
  | startDone (k c : Bytes) (ttl now : Int) (err : Nat)  -- a DoCache call whose context is already done: nothing is written
  | exec (vsz pttl : Int)                 -- the server executes the oldest queued fetch; `pttl` = its PTTL answer
  | execFail (err : Nat)                  -- … and answers it with an error (abort, MOVED, …)
  | write (k : Bytes)                     -- some client writes `k`
  | flushall
  | deliver (now : Int)                   -- the reader loop handles the next message of the connection at clock `now` (ns)
  | disconnect (err : Nat)

def upd {β : Type} (f : Bytes → β) (k : Bytes) (x : β) : Bytes → β := fun k' => if k' = k then x else f k'

/-- what the reader loop does with one message -/
def handle (st : St) (now : Int) : Msg → St
  | .reply k c v vsz pttl =>
    -- `if pttl >= 0 { cp.setExpireAt(now.Add(pttl ms).UnixMilli()) }; p.cache.Update(ck, cc, cp)`
    { st with store := (Lru.update st.store k c v vsz (Lru.serverRaw now pttl)).1, log := st.log ++ [((k, c), v)] }
  | .fail k c err => { st with store := Lru.cancel st.store k c err }
  | .push k n => { st with store := Lru.delete st.store (some [k]), floor := upd st.floor k (max (st.floor k) n) }
  | .pushAll g => { st with store := Lru.delete st.store none, floor := fun k => max (st.floor k) (g k) }

def step (st : St) : Ev → St
  | .start k c ttl now =>
    let r := Lru.flight st.store k c ttl now
    if st.store.closed then st   -- dead pipe: the call fails, nothing is sent
    else if r.2 = .send then { st with store := r.1, reqQ := st.reqQ ++ [(k, c)] }
    else { st with store := r.1 }
  | .startDone k c ttl now err =>
    -- `Flight`; if the call became the fetcher, `DoMulti` returns the context error without writing the request
    -- and the caller cancels its flight at once (`p.cache.Cancel(ck, cc, err)`)
    let r := Lru.flight st.store k c ttl now
    if st.store.closed then st
    else if r.2 = .send then { st with store := Lru.cancel r.1 k c err }
    else { st with store := r.1 }
  | .exec vsz pttl =>
    match st.reqQ with
    | [] => st
    | (k, c) :: rest =>
      { st with reqQ := rest, respQ := st.respQ ++ [.reply k c (st.ver k) vsz pttl], tracked := upd st.tracked k true }
  | .execFail err =>
    match st.reqQ with
    | [] => st
    | (k, c) :: rest => { st with reqQ := rest, respQ := st.respQ ++ [.fail k c err] }
  | .write k =>
    let n := st.ver k + 1
    if st.tracked k then
      { st with ver := upd st.ver k n, respQ := st.respQ ++ [.push k n], tracked := upd st.tracked k false }
    else { st with ver := upd st.ver k n }
  | .flushall =>
    if st.store.closed then { st with ver := fun k => st.ver k + 1 }
    else { st with ver := fun k => st.ver k + 1, respQ := st.respQ ++ [.pushAll fun k => st.ver k + 1],
                   tracked := fun _ => false }
  | .deliver now =>
    match st.respQ with
    | [] => st
    | m :: rest => handle { st with respQ := rest } now m
  | .disconnect err =>
    { st with store := Lru.close st.store err, reqQ := [], respQ := [], tracked := fun _ => false }

def run (st : St) : List Ev → St
  | [] => st
  | e :: rest => run (step st e) rest

/-- the answer a DoCache call for (k, c) gets in state `st` -/
def lookupRes (st : St) (k c : Bytes) (ttl now : Int) : FRes := (Lru.flight st.store k c ttl now).2

end Rv.CachePipe
