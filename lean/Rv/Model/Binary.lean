/-
Model of binary.go on bit patterns: a float32/float64 is its IEEE bit pattern (a natural
number below 2^32 / 2^64; `math.Float32bits`/`Float32frombits` are the identity on
patterns), a byte is a natural number below 256, a Go string/[]byte is a list of bytes.
`>>`, `<<`, `|` are the Nat operations, `byte(x)` is `x % 256`. Core Lean only.
-/
namespace Rv.Binary

/-- `binary.LittleEndian.PutUint32(b, v)`: `b[0]=byte(v); b[1]=byte(v>>8); b[2]=byte(v>>16); b[3]=byte(v>>24)` -/
def le32 (v : Nat) : List Nat := [v % 256, (v >>> 8) % 256, (v >>> 16) % 256, (v >>> 24) % 256]

/-- `binary.LittleEndian.Uint32(b)`: `uint32(b[0]) | uint32(b[1])<<8 | uint32(b[2])<<16 | uint32(b[3])<<24` -/
def fromLE32 (b0 b1 b2 b3 : Nat) : Nat := b0 ||| b1 <<< 8 ||| b2 <<< 16 ||| b3 <<< 24

/-- `binary.LittleEndian.PutUint64` -/
def le64 (v : Nat) : List Nat :=
  [v % 256, (v >>> 8) % 256, (v >>> 16) % 256, (v >>> 24) % 256,
   (v >>> 32) % 256, (v >>> 40) % 256, (v >>> 48) % 256, (v >>> 56) % 256]

/-- `binary.LittleEndian.Uint64` -/
def fromLE64 (b0 b1 b2 b3 b4 b5 b6 b7 : Nat) : Nat :=
  b0 ||| b1 <<< 8 ||| b2 <<< 16 ||| b3 <<< 24 ||| b4 <<< 32 ||| b5 <<< 40 ||| b6 <<< 48 ||| b7 <<< 56

/-- `BinaryString(bs)`: a string header over the slice's own backing array (no copy) — the same bytes -/
def binaryString (bs : List Nat) : List Nat := bs

/-- `VectorString32(v)`: every element written at offset `4*i` of a `len(v)*4` byte buffer -/
def vectorString32 (v : List Nat) : List Nat := binaryString (v.flatMap le32)

/-- `ToVector32(s)`: `for i := 0; i < len(bs); i += 4 { … bs[i:i+4] … }`;
    `none` is the Go panic "slice bounds out of range" on a trailing chunk shorter than 4 -/
def toVector32 : List Nat → Option (List Nat)
  | [] => some []
  | b0 :: b1 :: b2 :: b3 :: rest => (toVector32 rest).map (fromLE32 b0 b1 b2 b3 :: ·)
  | _ => none

def vectorString64 (v : List Nat) : List Nat := binaryString (v.flatMap le64)

def toVector64 : List Nat → Option (List Nat)
  | [] => some []
  | b0 :: b1 :: b2 :: b3 :: b4 :: b5 :: b6 :: b7 :: rest =>
    (toVector64 rest).map (fromLE64 b0 b1 b2 b3 b4 b5 b6 b7 :: ·)
  | _ => none

/-- `JSON(in)`: `bs, err := json.Marshal(in); if err != nil { panic(err) }; return BinaryString(bs)`;
    `marshal` stands for `encoding/json.Marshal`, `none` for the panic -/
def json {α ε : Type} (marshal : α → Except ε (List Nat)) (x : α) : Option (List Nat) :=
  match marshal x with
  | .ok bs => some (binaryString bs)
  | .error _ => none

end Rv.Binary
