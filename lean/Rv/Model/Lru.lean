/-
Model of /repo/lru.go (the default client-side cache store) and of the expiry
helpers of message.go (`setExpireAt/getExpireAt/relativePTTL/CacheTTL/CachePTTL/
CachePXAT`). Core Lean only.

Conventions
* byte strings (`key`, `cmd`) are `List UInt8`; replies are opaque value ids with
  a size (`approximateSize()`), so `e.val.typ == 0` ("pending") is the flag `pend`;
* every `*cacheEntry` gets an id when it is created (`nextId`): ids play the role
  of Go pointer identity ("the same pending entry");
* the recency list `container/list` is a `List Entry`, front first; `list.Remove`
  is `List.erase`, `MoveToBack` is erase + append, an in-place write through the
  entry pointer is `List.replace`;
* `store map[string]*keyCache` is *derived*: `store[key].cache[cmd]` is the entry
  of the list with that (key, cmd) (`find?`); only the per-key `hits` counter is
  kept explicitly (`hits`, present exactly for the keys that have a `keyCache`).
  The correspondence suite compares both the real list and the real map against
  this single structure after every operation.
* time: `now`/`ttl` are nanoseconds (`time.Time`/`time.Duration`), `unixMilli`
  floors to milliseconds like `Time.UnixMilli`; expiries are milliseconds.
* one call = one atomic step (the real code serialises on `lru.mu`; the read-locked
  fast path works on a snapshot taken under `RLock`).
-/
namespace Rv.Lru

abbrev Bytes := List UInt8

/-! ### message.go: the 7-byte expiry field -/

/-- `setExpireAt`: `m.ttl[i] = byte(pttl >> (8*i))` for i = 0..6 (arithmetic shift of an int64,
    then truncation to a byte) -/
def setExpireAt (v : Int) : List Int :=
  [v % 256, v / 256 % 256, v / 65536 % 256, v / 16777216 % 256,
   v / 4294967296 % 256, v / 1099511627776 % 256, v / 281474976710656 % 256]

/-- `getExpireAt`: `int64(ttl[0]) | int64(ttl[1])<<8 | … | int64(ttl[6])<<48` (disjoint bit ranges: `|` is `+`) -/
def getExpireAt : List Int → Int
  | [b0, b1, b2, b3, b4, b5, b6] =>
    b0 + b1 * 256 + b2 * 65536 + b3 * 16777216 + b4 * 4294967296 + b5 * 1099511627776 + b6 * 281474976710656
  | _ => 0

/-- what survives a `setExpireAt`/`getExpireAt` round trip -/
def pack (v : Int) : Int := getExpireAt (setExpireAt v)

/-- `time.Time.UnixMilli` of an instant given in nanoseconds (floor) -/
def unixMilli (ns : Int) : Int := ns / 1000000

/-- `relativePTTL(now)` with `now` already in ms -/
def relativePTTL (exp nowMs : Int) : Int := exp - nowMs

/-- `CachePXAT` -/
def cachePXAT (exp : Int) : Int := if exp = 0 then -1 else exp

/-- `CachePTTL`, the clock reading `time.Now().UnixMilli()` made explicit -/
def cachePTTL (exp nowMs : Int) : Int :=
  if exp = 0 then -1 else
  let milli := exp - nowMs
  if milli < 0 then 0 else milli

/-- `CacheTTL` (seconds, rounded up) -/
def cacheTTL (exp nowMs : Int) : Int :=
  let milli := cachePTTL exp nowMs
  if milli > 0 then
    let ttl := milli / 1000   -- Go truncates; `milli > 0` here, so this is the same
    if milli > ttl * 1000 then ttl + 1 else ttl
  else milli

/-- pipe.go `_backgroundRead`: `if pttl >= 0 { cp.setExpireAt(now.Add(time.Duration(pttl) * time.Millisecond).UnixMilli()) }`
    on a freshly parsed reply (ttl field all zero); the value is what `getExpireAt` then reads -/
def serverExpire (arrivalNs pttl : Int) : Int :=
  if pttl ≥ 0 then pack (unixMilli (arrivalNs + pttl * 1000000)) else 0

/-- the argument pipe.go gives to `setExpireAt` on arrival (`0`: the field stays empty) -/
def serverRaw (arrivalNs pttl : Int) : Int :=
  if pttl ≥ 0 then unixMilli (arrivalNs + pttl * 1000000) else 0

/-! ### lru.go state -/

structure Entry where
  id   : Nat
  key  : Bytes
  cmd  : Bytes
  pend : Bool   -- e.val.typ == 0
  val  : Nat    -- opaque reply id (0 while pending)
  size : Int    -- e.size
  exp  : Int    -- e.val.getExpireAt()
deriving DecidableEq, Repr

/-- what `CacheEntry.Wait` returns once the channel is closed -/
inductive Outcome
  | val (v : Nat) (exp : Int)
  | err (e : Nat)
deriving DecidableEq, Repr

structure State where
  list   : List Entry           -- c.list, front first
  hits   : List (Bytes × Nat)   -- keyCache.hits for every key of c.store
  size   : Int                  -- c.size
  max    : Int                  -- c.max
  base   : Int                  -- the constant entryBaseSize
  closed : Bool                 -- c.store == nil && c.list == nil
  nextId : Nat
  done   : List (Nat × Outcome) -- entries whose channel has been closed, in order
deriving Repr

def init (max base : Int) : State :=
  { list := [], hits := [], size := 0, max := max, base := base, closed := false, nextId := 0, done := [] }

/-- result of `Flight` as pipe.go interprets it: `v.typ != 0` hit, else `entry != nil` wait, else send.
    (On a hit the lru returns a non-nil entry as well; pipe.go tests `v.typ` first.) -/
inductive FRes
  | hit (v : Nat) (exp : Int)
  | wait (id : Nat)
  | send
deriving DecidableEq, Repr

def isKC (k c : Bytes) (e : Entry) : Bool := e.key == k && e.cmd == c

/-- `c.store[key].cache[cmd]` -/
def find? (l : List Entry) (k c : Bytes) : Option Entry := l.find? (isKC k c)

/-- `e.val.typ == 0 || e.val.relativePTTL(now) > 0` -/
def valid (e : Entry) (nowMs : Int) : Bool := e.pend || decide (relativePTTL e.exp nowMs > 0)

def resOf (e : Entry) : FRes := if e.pend then .wait e.id else .hit e.val e.exp

def hitsOf (s : State) (k : Bytes) : Nat := (s.hits.lookup k).getD 0

def setHits (s : State) (k : Bytes) (h : Nat) : State :=
  { s with hits := s.hits.map fun p => if p.1 == k then (k, h) else p }

/-- `atomic.AddUint32(&kc.hits, 1)` -/
def bumpHits (s : State) (k : Bytes) : State × Nat :=
  let h := (hitsOf s k + 1) % 4294967296
  (setHits s k h, h)

/-- `kc = &keyCache{…}; c.store[key] = kc` when the key has no keyCache yet -/
def ensureKc (s : State) (k : Bytes) : State :=
  match s.hits.lookup k with
  | some _ => s
  | none => { s with hits := s.hits ++ [(k, 0)] }

/-- `delete(c.store, key)` for every key whose `kc.cache` became empty -/
def gcHits (s : State) : State :=
  { s with hits := s.hits.filter fun p => s.list.any fun e => e.key == p.1 }

/-- `c.list.MoveToBack(ele)` -/
def moveToBack (l : List Entry) (e : Entry) : List Entry := l.erase e ++ [e]

/-- the write-locked part of `Flight`, also the body of the second loop of `Flights` -/
def locked (s : State) (k c : Bytes) (ttl now : Int) : State × FRes :=
  if s.closed then (s, .send) else   -- `if c.store == nil { goto ret }`
  let s := ensureKc s k
  let push (s : State) : State × FRes :=
    let e : Entry := { id := s.nextId, key := k, cmd := c, pend := true, val := 0, size := 0,
                       exp := pack (unixMilli (now + ttl)) }
    ({ s with list := s.list ++ [e], nextId := s.nextId + 1 }, .send)
  match find? s.list k c with
  | some e =>
    if valid e (unixMilli now) then
      let s := (bumpHits s k).1
      ({ s with list := moveToBack s.list e }, resOf e)
    else
      push { s with list := s.list.erase e, size := s.size - e.size }
  | none => push s

/-- `Flight` -/
def flight (s : State) (k c : Bytes) (ttl now : Int) : State × FRes :=
  -- read-locked fast path
  match (if s.closed then none else find? s.list k c) with
  | some e =>
    if valid e (unixMilli now) then
      let (s1, h) := bumpHits s k
      if s.list.getLast? ≠ some e ∧ h % 1024 = 0 then   -- `ele != back && hits&moveThreshold == 0`
        ({ s1 with list := moveToBack s1.list e }, resOf e)
      else (s1, resOf e)
    else locked s k c ttl now
  | none => locked s k c ttl now

/-- accumulator of the first (read-locked) loop of `Flights` -/
structure P1 where
  s      : State
  res    : List (Option FRes)   -- `results[i]` / `entries[i]` by position; `none` = neither set
  moves  : List Entry
  missed : List Nat

def flights1 (nowMs : Int) : List (Bytes × Bytes × Int) → Nat → P1 → P1
  | [], _, a => a
  | (k, c, _) :: rest, i, a =>
    let miss : P1 := { a with res := a.res ++ [none], missed := a.missed ++ [i] }
    let a' : P1 :=
      match (if a.s.closed then none else find? a.s.list k c) with
      | some e =>
        if e.pend || decide (relativePTTL e.exp nowMs > 0) then
          let (s1, h) := bumpHits a.s k
          { s := s1, res := a.res ++ [some (resOf e)],
            moves := if h % 1024 = 0 then a.moves ++ [e] else a.moves, missed := a.missed }
        else miss
      | none => miss
    flights1 nowMs rest (i + 1) a'

/-- second (write-locked) loop of `Flights` over the indexes missed by the first -/
def flights2 (multi : List (Bytes × Bytes × Int)) (now : Int) :
    List Nat → State → List (Option FRes) → List Nat → State × List (Option FRes) × List Nat
  | [], s, res, out => (s, res, out)
  | i :: rest, s, res, out =>
    match multi[i]? with
    | none => flights2 multi now rest s res out   -- unreachable: indexes come from `multi`
    | some (k, c, ttl) =>
      let (s', r) := locked s k c ttl now
      flights2 multi now rest s' (res.set i (some r)) (if r = .send then out ++ [i] else out)

/-- `Flights`: positional results (`some (hit …)` = `results[i]`, `some (wait id)` = `entries[i]`)
    and the returned slice of indexes the caller has to send -/
def flights (s : State) (now : Int) (multi : List (Bytes × Bytes × Int)) : State × List (Option FRes) × List Nat :=
  let a := flights1 (unixMilli now) multi 0 { s := s, res := [], moves := [], missed := [] }
  let s1 : State := { a.s with list := a.moves.foldl moveToBack a.s.list }
  if a.missed.isEmpty then (s1, a.res, [])
  else if s1.closed then (s1, a.res, a.missed)   -- `if c.store == nil { return missed }`
  else flights2 multi now a.missed s1 a.res []

/-- the (repaired) eviction loop of `Update`, from the front of the list:
    `for c.size > c.max && ele != nil { next := ele.Next(); if e.val.typ != 0 { …Remove(ele); c.size -= e.size }; ele = next }`.
    Returns the new size, the elements kept and the elements evicted. -/
def evictLoop (max : Int) : Int → List Entry → Int × List Entry × List Entry
  | size, [] => (size, [], [])
  | size, e :: rest =>
    if size > max then
      if !e.pend then
        let r := evictLoop max (size - e.size) rest
        (r.1, r.2.1, e :: r.2.2)
      else
        let r := evictLoop max size rest
        (r.1, e :: r.2.1, r.2.2)
    else (size, e :: rest, [])

/-- `min` rule of `Update`: `if cpttl < pxat || pxat == 0 { pxat = cpttl }` -/
def chooseExp (cpttl pxat : Int) : Int := if cpttl < pxat ∨ pxat = 0 then cpttl else pxat

/-- the expiry with which the reply of one cached read is committed: the call started at `startNs` with client TTL
    `ttlNs` (`Flight`), its reply arrived at `arrivalNs` carrying the server's `PTTL` answer `pttl` (reader loop +
    `Update`) -/
def expiryOf (startNs ttlNs arrivalNs pttl : Int) : Int :=
  chooseExp (pack (unixMilli (startNs + ttlNs))) (pack (serverRaw arrivalNs pttl))

/-- `Update(key, cmd, value)`; `vsz = value.approximateSize()`, `raw` is what was last given to
    `value.setExpireAt` (0 if never set). Returns `pxat`. -/
def update (s : State) (k c : Bytes) (v : Nat) (vsz raw : Int) : State × Int :=
  if s.closed then (s, 0) else
  match find? s.list k c with
  | none => (s, 0)
  | some e =>
    let w : State × Int :=   -- the in-place write, only for a pending entry
      if e.pend then
        let pxat := chooseExp e.exp (pack raw)
        let e' : Entry := { e with pend := false, val := v, exp := pxat,
                                   size := s.base + 2 * ((k.length : Int) + (c.length : Int)) + vsz }
        ({ s with list := s.list.replace e e', size := s.size + e'.size,
                  done := s.done ++ [(e.id, .val v pxat)] }, pxat)
      else (s, 0)
    let r := evictLoop w.1.max w.1.size w.1.list
    (gcHits { w.1 with list := r.2.1, size := r.1 }, w.2)

/-- `Cancel(key, cmd, err)` -/
def cancel (s : State) (k c : Bytes) (err : Nat) : State :=
  if s.closed then s else
  match find? s.list k c with
  | none => s
  | some e =>
    if e.pend then
      gcHits { s with list := s.list.erase e, done := s.done ++ [(e.id, .err err)] }
    else s

def sumSizes (l : List Entry) : Int := (l.map (·.size)).sum

/-- `purge(key, c.store[key])`: completed entries of the key leave list and map, pending ones stay -/
def purge (s : State) (k : Bytes) : State :=
  let gone := s.list.filter fun e => e.key == k && !e.pend
  gcHits { s with list := s.list.filter (fun e => !(e.key == k && !e.pend)), size := s.size - sumSizes gone }

/-- `Delete(keys)`; `none` is `keys == nil` (flush): every keyCache is purged -/
def delete (s : State) : Option (List Bytes) → State
  | some keys => keys.foldl purge s
  | none => (s.list.map (·.key)).foldl purge s   -- `for key, kc := range c.store` (the store is derived from the list)

/-- `Close(err)`: pending entries are failed, `store` and `list` dropped (`size` is left as it is) -/
def close (s : State) (err : Nat) : State :=
  { s with done := s.done ++ ((s.list.filter (·.pend)).map fun e => (e.id, Outcome.err err)),
           list := [], hits := [], closed := true }

/-- `GetTTL(key, cmd)` in nanoseconds, the clock reading made explicit -/
def getTTL (s : State) (k c : Bytes) (nowMs : Int) : Int :=
  let ttl := match find? s.list k c with
    | some e => relativePTTL e.exp nowMs * 1000000
    | none => 0
  if ttl ≤ 0 then -2 else ttl

/-! ### operations as data (for statements over arbitrary histories) -/

inductive Op
  | flight (k c : Bytes) (ttl now : Int)
  | flights (now : Int) (multi : List (Bytes × Bytes × Int))
  | update (k c : Bytes) (v : Nat) (vsz raw : Int)
  | cancel (k c : Bytes) (err : Nat)
  | delete (keys : Option (List Bytes))
  | close (err : Nat)
  | sethits (k : Bytes) (n : Nat)   -- test hook: overwrite `keyCache.hits`
deriving Repr

inductive Res
  | fl (r : FRes)
  | fls (rs : List (Option FRes)) (missed : List Nat)
  | pxat (p : Int)
  | unit
deriving Repr

def step (s : State) : Op → State × Res
  | .flight k c ttl now => let r := flight s k c ttl now; (r.1, .fl r.2)
  | .flights now multi => let r := flights s now multi; (r.1, .fls r.2.1 r.2.2)
  | .update k c v vsz raw => let r := update s k c v vsz raw; (r.1, .pxat r.2)
  | .cancel k c err => (cancel s k c err, .unit)
  | .delete keys => (delete s keys, .unit)
  | .close err => (close s err, .unit)
  | .sethits k n => (setHits s k (n % 4294967296), .unit)

def run (s : State) : List Op → State
  | [] => s
  | op :: rest => run (step s op).1 rest

end Rv.Lru
