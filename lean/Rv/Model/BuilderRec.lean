/-
Record types for the regenerated builder tables (Rv/Gen/Builders*.lean, written by
tools/extract/builders.go from /repo/internal/cmds/gen_*.go). One `Method` per generated
Go method, one `Cmd` per root constructor `func (b Builder) Xxx() (c Xxx)`.
Core Lean only.
-/
namespace Rv.Bld

/-- Go parameter types that occur in generated builder methods -/
inductive PKind
  | str       -- string
  | strs      -- ...string
  | strSlice  -- []string
  | i64 | u64 | f64 | f32           -- int64 uint64 float64 float32
  | i64s | u64s | f64s | f32s       -- variadic numerics
  | dur       -- time.Duration
  | time      -- time.Time
  deriving DecidableEq, Repr, Inhabited

/-- the formatting expression wrapped around a parameter inside `append(c.cs.s, …)` -/
inductive Fmt
  | str        -- the parameter itself (a string)
  | int        -- strconv.FormatInt(p, 10)
  | uint       -- strconv.FormatUint(p, 10)
  | f64        -- strconv.FormatFloat(p, 'f', -1, 64)
  | f32        -- strconv.FormatFloat(float64(p), 'f', -1, 64)
  | durSec     -- strconv.FormatInt(int64(p/time.Second), 10)
  | durMs      -- strconv.FormatInt(int64(p/time.Millisecond), 10)
  | unixSec    -- strconv.FormatInt(p.Unix(), 10)
  | unixMs     -- strconv.FormatInt(p.UnixMilli(), 10)
  | unknown (src : String)  -- an expression over the parameter the translator has no name for
  deriving DecidableEq, Repr, Inhabited

/-- one argument of an `append(c.cs.s, …)` statement, in source order -/
inductive Item
  | lit (s : String)            -- "TOKEN"
  | par (i : Nat) (f : Fmt)     -- parameter i through formatting f
  | spread (i : Nat)            -- p...
  | loop (i : Nat) (f : Fmt)    -- for _, n := range p { append(f(n)) }
  deriving DecidableEq, Repr, Inhabited

/-- the `if c.ks&NoSlot == NoSlot {…} else {…}` statement of a key parameter -/
inductive KeyUpd
  | one (i : Nat)    -- single key parameter i
  | many (i : Nat)   -- variadic key parameter i (two `for range` loops)
  deriving DecidableEq, Repr, Inhabited

structure Method where
  recv : String
  name : String
  params : List PKind
  keys : List KeyUpd
  block : Bool            -- body contains `c.cf |= int16(blockTag)`
  items : List Item       -- all appended items in statement order
  result : String
  deriving DecidableEq, Repr, Inhabited

structure Cmd where
  ty : String             -- root type = name of the Builder method
  nm : Nat                -- command name (tokens joined by one space) as a base-256 number,
                          -- see `Rv.Bld.code`; kernel-cheap key for joins with the oracle
  tokens : List String    -- command tokens appended by the root constructor
  cf : Nat                -- value of the flag constant in `cf: int16(<flag>)`, 0 if absent
  cfName : String         -- its name in cmds.go ("" if absent)
  methods : List Method   -- every method of every type reachable from the root
  builds : List String    -- types with `Build() Completed`
  caches : List String    -- types with `Cache() Cacheable`
  deriving Repr, Inhabited

/-- base-256 (big-endian) number of the UTF-8 bytes of a name. String processing is slow in
    the kernel, so tables and oracle carry this number next to the readable string. -/
def code (s : String) : Nat := s.toUTF8.toList.foldl (fun acc b => acc * 256 + b.toNat) 0

/-- `nm! "GET"` is the numeral `code "GET"`, computed when the file is parsed -/
macro "nm!" s:str : term =>
  return Lean.Syntax.mkNumLit (toString (s.getString.toUTF8.toList.foldl (fun acc b => acc * 256 + b.toNat) 0))

end Rv.Bld
