/-
Model of the multi-key helpers of /repo/helper.go (MGet, MGetCache, JsonMGet, JsonMGetCache,
MSet, MSetNX, MDel, JsonMSet; clientMGet, clusterMGet, clusterJsonMGet, arrayToKV, doMultiSet,
doMultiCache, clientMSet, clientJSONMSet, clientMDel) and of the slot grouping of
/repo/internal/cmds/cmds.go (slotMCMDs / slotMSets behind MGets, MDels, MSets, MSetNXs,
JsonMGets, JsonMSets). The slot function is a parameter everywhere. Core Lean only.
-/
namespace Rv.MultiKey

abbrev Key := List UInt8

/-- a scalar reply / an element of an array reply -/
inductive Val
  | str (s : Key)
  | int (n : Int)
  | nil
  | rerr (t : Key)      -- error message with this text
  | arrN (n : Nat)      -- an array message stored as a map entry (contents not tracked)
  deriving DecidableEq, Repr, Inhabited

/-- what the client returns for one command -/
inductive Reply
  | val (v : Val)
  | arr (vs : List Val)
  | io (t : Key)        -- transport error: RedisResult.err
  deriving DecidableEq, Repr, Inhabited

/-- Go `error` values the helpers hand out -/
inductive Err
  | nil                 -- rueidis.Nil
  | redis (t : Key)     -- *RedisError with this (trimmed) text
  | parse               -- errParse (wrong reply type)
  | io (t : Key)        -- transport error
  | nx                  -- ErrMSetNXNotSet
  deriving DecidableEq, Repr

def ERR_ : Key := [69, 82, 82, 32]
def trimErr (t : Key) : Key := if ERR_.isPrefixOf t then t.drop 4 else t

/-- `RedisResult.ToArray()` -/
def toArray : Reply → Except Err (List Val)
  | .io t => .error (.io t)
  | .arr vs => .ok vs
  | .val .nil => .error .nil
  | .val (.rerr t) => .error (.redis (trimErr t))
  | .val _ => .error .parse

/-- `RedisResult.Error()` (`none` is the nil error) -/
def errOf : Reply → Option Err
  | .io t => some (.io t)
  | .val .nil => some .nil
  | .val (.rerr t) => some (.redis (trimErr t))
  | _ => none

/-- `resp.val` as stored by doMultiCache -/
def msgOf : Reply → Val
  | .val v => v
  | .arr vs => .arrN vs.length
  | .io _ => .nil   -- not reached: doMultiCache returns on NonRedisError first

/-- a Go map as a write log, newest first; `lookup` finds the surviving entry -/
abbrev KV (α : Type) := List (Key × α)

def KV.get? {α : Type} (m : KV α) (k : Key) : Option α := List.lookup k m
def KV.keys {α : Type} (m : KV α) : List Key := m.map (·.1)

inductive Outcome (α : Type)
  | ok (m : KV α)
  | err (e : Err)       -- (nil, err)
  | panic               -- index out of range
  deriving DecidableEq, Repr

/-- `for i, v := range vs { m[ks[i]] = v }` when `vs` is not longer than `ks` -/
def writeAll {α : Type} (m : KV α) : List Key → List α → KV α
  | k :: ks, v :: vs => writeAll ((k, v) :: m) ks vs
  | _, _ => m

/-- `arrayToKV`: `none` is the index-out-of-range panic for a reply longer than the key list -/
def arrayToKV (m : KV Val) (arr : List Val) (keys : List Key) : Option (KV Val) :=
  if arr.length > keys.length then none else some (writeAll m keys arr)

/-- `clientMGet`: one MGET / JSON.MGET on a single, standalone or sentinel client -/
def clientMGet (keys : List Key) (r : Reply) : Outcome Val :=
  match toArray r with
  | .error e => .err e
  | .ok arr =>
    match arrayToKV [] arr keys with
    | none => .panic
    | some m => .ok m

/-! ### slot grouping (`slotMCMDs`, `slotMSets`, the `slotIdx` loop of clusterMGet) -/

/-- one step of `for _, key := range keys`: append to the slot's command, or start a new one -/
def addKey {β : Type} (slot : Key → Nat) (key : β → Key) (g : List (Nat × List β)) (x : β) :
    List (Nat × List β) :=
  if g.any (fun p => p.1 == slot (key x)) then
    g.map fun p => if p.1 == slot (key x) then (p.1, p.2 ++ [x]) else p
  else g ++ [(slot (key x), [x])]

/-- per-slot groups in order of first appearance; inside a group the input order -/
def groupBy {β : Type} (slot : Key → Nat) (key : β → Key) (xs : List β) : List (Nat × List β) :=
  xs.foldl (addKey slot key) []

def group (slot : Key → Nat) (keys : List Key) : List (Nat × List Key) := groupBy slot id keys

/-- `clusterMGet` / `clusterJsonMGet`, after `DoMulti`: `names i` is `cmds.s[i].Commands()[1:]`
    (the keys of the command, plus the path for JSON.MGET) -/
def mergeResps : KV Val → List (List Key) → List Reply → Outcome Val
  | m, _, [] => .ok m
  | _, [], _ :: _ => .panic
  | m, names :: cs, r :: rs =>
    match toArray r with
    | .error e => .err e
    | .ok arr => if arr.length > names.length then .panic else mergeResps (writeAll m names arr) cs rs

/-- the key lists of the per-slot commands, `path` appended for JSON.MGET -/
def clusterNames (slot : Key → Nat) (keys : List Key) (path : Option Key) : List (List Key) :=
  (group slot keys).map fun p => p.2 ++ path.toList

def clusterMGet (slot : Key → Nat) (keys : List Key) (path : Option Key) (resps : List Reply) : Outcome Val :=
  mergeResps [] (clusterNames slot keys path) resps

/-- `doMultiCache`: `for i, resp := range resps { NonRedisError → return; ret[keys[i]] = resp.val }` -/
def doMultiCache : KV Val → List Key → List Reply → Outcome Val
  | m, _, [] => .ok m
  | _, _, .io t :: _ => .err (.io t)
  | _, [], _ :: _ => .panic
  | m, k :: ks, r :: rs => doMultiCache ((k, msgOf r) :: m) ks rs

/-- `doMultiSet`: `ret[cmds[i].Commands()[1]] = resp.Error()`; `ks i` is that second word -/
def doMultiSet : KV (Option Err) → List Key → List Reply → Outcome (Option Err)
  | m, _, [] => .ok m
  | _, [], _ :: _ => .panic
  | m, k :: ks, r :: rs => doMultiSet ((k, errOf r) :: m) ks rs

def OK_ : Key := [79, 75]

/-- `ok, err := AsBool(); if err == nil && !ok { err = ErrMSetNXNotSet }` -/
def msetErr : Reply → Option Err
  | .io t => some (.io t)
  | .val .nil => some .nil
  | .val (.rerr t) => some (.redis (trimErr t))
  | .val (.str s) => if s = OK_ then none else some .nx
  | .val (.int n) => if n ≠ 0 then none else some .nx
  | .val (.arrN _) => some .parse
  | .arr _ => some .parse

/-- `for k := range kvs { ret[k] = err }` -/
def allKeys (keys : List Key) (e : Option Err) : KV (Option Err) := (keys.map fun k => (k, e)).reverse

/-! ### the helpers: what is sent and what comes back

`srv` answers one command (argv); a batch is answered command by command. -/

inductive Call
  | one (argv : List Key)            -- client.Do
  | multi (cmds : List (List Key))   -- client.DoMulti
  | cache (cmds : List (List Key))   -- client.DoMultiCache
  deriving Repr

inductive Out
  | vals (o : Outcome Val)
  | errs (o : Outcome (Option Err))
  deriving Repr

def s (x : String) : Key := x.toUTF8.toList

/-- `MGet` / `JsonMGet` (`path = some p`) -/
def mget (slot : Key → Nat) (single : Bool) (keys : List Key) (path : Option Key)
    (srv : List Key → Reply) : List Call × Out :=
  if keys.isEmpty then ([], .vals (.ok [])) else
  if single then
    let cmd := (if path.isSome then s "JSON.MGET" else s "MGET") :: keys ++ path.toList
    ([.one cmd], .vals (clientMGet keys (srv cmd)))
  else
    let cmds := (clusterNames slot keys path).map fun ns => (if path.isSome then s "JSON.MGET" else s "MGET") :: ns
    ([.multi cmds], .vals (clusterMGet slot keys path (cmds.map srv)))

/-- `MGetCache` / `JsonMGetCache`. `cacheOff`: `isCacheDisabled(client)` (MGetCache only) -/
def mgetCache (slot : Key → Nat) (single cacheOff : Bool) (keys : List Key) (path : Option Key)
    (srv : List Key → Reply) : List Call × Out :=
  if keys.isEmpty then ([], .vals (.ok [])) else
  if cacheOff && path.isNone then mget slot single keys none srv else
  let cmds := keys.map fun k => (if path.isSome then s "JSON.GET" else s "GET") :: k :: path.toList
  ([.cache cmds], .vals (doMultiCache [] keys (cmds.map srv)))

/-- `MSet` / `MSetNX` (`nx`) over the pairs in map-iteration order `kvs` -/
def mset (single nx : Bool) (kvs : List (Key × Key)) (srv : List Key → Reply) : List Call × Out :=
  if kvs.isEmpty then ([], .errs (.ok [])) else
  if single then
    let cmd := (if nx then s "MSETNX" else s "MSET") :: kvs.flatMap fun p => [p.1, p.2]
    ([.one cmd], .errs (.ok (allKeys (kvs.map (·.1)) (msetErr (srv cmd)))))
  else
    let cmds := kvs.map fun p => [s "SET", p.1, p.2] ++ (if nx then [s "NX"] else [])
    ([.multi cmds], .errs (doMultiSet [] (kvs.map (·.1)) (cmds.map srv)))

/-- `JsonMSet` -/
def jsonMSet (single : Bool) (kvs : List (Key × Key)) (path : Key) (srv : List Key → Reply) : List Call × Out :=
  if kvs.isEmpty then ([], .errs (.ok [])) else
  if single then
    let cmd := s "JSON.MSET" :: kvs.flatMap fun p => [p.1, path, p.2]
    ([.one cmd], .errs (.ok (allKeys (kvs.map (·.1)) (errOf (srv cmd)))))
  else
    let cmds := kvs.map fun p => [s "JSON.SET", p.1, path, p.2]
    ([.multi cmds], .errs (doMultiSet [] (kvs.map (·.1)) (cmds.map srv)))

/-- `MDel` -/
def mdel (single : Bool) (keys : List Key) (srv : List Key → Reply) : List Call × Out :=
  if keys.isEmpty then ([], .errs (.ok [])) else
  if single then
    let cmd := s "DEL" :: keys
    ([.one cmd], .errs (.ok (allKeys keys (errOf (srv cmd)))))
  else
    let cmds := keys.map fun k => [s "DEL", k]
    ([.multi cmds], .errs (doMultiSet [] keys (cmds.map srv)))

end Rv.MultiKey
