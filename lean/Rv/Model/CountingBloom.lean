/-
Model of rueidisprob/countingbloomfilter.go (core Lean only).

* Redis state: the hash `{name}:cbf` (field = decimal index, value = counter; absent
  field = nil) and the counter key `{name}:cbf:c`.
* `addScript` / `removeScript` / delete are hand transcriptions of the Lua texts pinned in
  Rv/Props/C36.lean (trusted). `removeScript` keeps the script's structure: phase 1 reads
  the current counters into the local table `indexCounter`; phase 2 walks the argument list
  in groups of `hashIterations`, decrementing the local table and rolling the group back
  (`rollback`) when a counter would become negative; phase 3 applies HINCRBY -1 for the
  collected `decreaseIndexes`; finally DECRBY on the item counter.
  Domain: `hashIterations ≥ 1` and an argument list that is a multiple of it (what the glue
  sends for accepted configurations). Outside it (k = 0: `for i=1,n,0` does not terminate;
  ragged lists index past ARGV) the model answers `none` and the fake an error.
* `existsMulti` / `itemMinCountMulti` transcribe the Go aggregation loops over the HMGET
  reply (`(i+1) % k == 0`), via the same literal flat loop `Rv.GroupLoop.gloop`.
-/
import Rv.Lemmas.GroupLoop
import Rv.Model.Bloom
namespace Rv.CBloom
open Rv.GroupLoop Rv.Bloom

abbrev Ctrs := Nat → Option Int
def val (h : Ctrs) (i : Nat) : Int := (h i).getD 0
/-- HINCRBY key field d -/
def hincr (h : Ctrs) (i : Nat) (d : Int) : Ctrs := fun j => if j = i then some (val h i + d) else h j

structure St where
  h : Ctrs
  counter : Option Int

def St.init : St := { h := fun _ => none, counter := none }

/-! ### Lua scripts -/

/-- countingBloomFilterAddMultiScript: ARGV[1] = number of items, ARGV[2..] = indexes -/
def addScript (itemCount : Int) (idxs : List Nat) (s : St) : St × Int :=
  let c := s.counter.getD 0 + itemCount
  ({ h := idxs.foldl (fun h i => hincr h i 1) s.h, counter := some c }, c)

/-- the script's local table `indexCounter` -/
abbrev IC := Nat → Int
def upd (ic : IC) (i : Nat) (v : Int) : IC := fun j => if j = i then v else ic j

/-- inner `for j=i, i+hashIterations-1` of phase 2: decrement in order, stop at the first counter
that becomes negative. Returns (table, `temp` = indexes touched incl. the failing one, isAbleToRemove). -/
def decGroup (ic : IC) : List Nat → IC × List Nat × Bool
  | [] => (ic, [], true)
  | x :: xs =>
    if (upd ic x (ic x - 1)) x < 0 then (upd ic x (ic x - 1), [x], false)
    else ((decGroup (upd ic x (ic x - 1)) xs).1, x :: (decGroup (upd ic x (ic x - 1)) xs).2.1,
          (decGroup (upd ic x (ic x - 1)) xs).2.2)

/-- `for j=i, rollbackIndex do indexCounter[ARGV[j]] = indexCounter[ARGV[j]] + 1 end` -/
def rollback (ic : IC) : List Nat → IC
  | [] => ic
  | x :: xs => rollback (upd ic x (ic x + 1)) xs

structure RS where
  ic : IC
  dec : List Nat      -- decreaseIndexes
  del : Nat           -- deleteItemCount

/-- one iteration of the outer `for i=1, numElements, hashIterations` -/
def groupStep (r : RS) (g : List Nat) : RS :=
  if (decGroup r.ic g).2.2 then
    { ic := (decGroup r.ic g).1, dec := r.dec ++ (decGroup r.ic g).2.1, del := r.del + 1 }
  else
    { ic := rollback (decGroup r.ic g).1 (decGroup r.ic g).2.1, dec := r.dec, del := r.del }

def chunksAux (k : Nat) : Nat → List Nat → List (List Nat)
  | 0, _ => []
  | fuel + 1, xs => if xs.isEmpty then [] else xs.take k :: chunksAux k fuel (xs.drop k)

/-- ARGV[1..numElements] cut into consecutive groups of `k` -/
def chunks (k : Nat) (xs : List Nat) : List (List Nat) := chunksAux k xs.length xs

def removePhase2 (groups : List (List Nat)) (h : Ctrs) : RS :=
  groups.foldl groupStep { ic := val h, dec := [], del := 0 }

/-- countingBloomFilterRemoveMultiScript: ARGV[1..n] = indexes, ARGV[#ARGV] = hashIterations -/
def removeScript (k : Nat) (idxs : List Nat) (s : St) : Option (St × Int) :=
  if k = 0 ∨ idxs.length % k ≠ 0 then none else
  let r := removePhase2 (chunks k idxs) s.h
  let c := s.counter.getD 0 - r.del
  some ({ h := r.dec.foldl (fun h i => hincr h i (-1)) s.h, counter := some c }, c)

def deleteScript (_ : St) : St := St.init

/-! ### Go glue -/

def addMulti (c : Cfg) (keys : List (Nat × Nat)) (s : St) : St :=
  if keys.isEmpty then s else (addScript keys.length (allIdx c.m c.k keys) s).1

/-- `RemoveMulti`; `none` = the call is outside the modelled domain (k = 0) -/
def removeMulti (c : Cfg) (keys : List (Nat × Nat)) (s : St) : Option St :=
  if keys.isEmpty then some s else (removeScript c.k (allIdx c.m c.k keys) s).map (·.1)

inductive Out (α : Type) where
  | nil                -- `return nil, nil`
  | ok (r : List α)
  | errRedis           -- HMGET without fields (k = 0): the server rejects the command
  | errParse           -- a counter that does not parse as uint64 (negative)
  deriving Repr

def negative (h : Ctrs) (idxs : List Nat) : Bool := idxs.any fun i => val h i < 0

/-- `ExistsMulti`: `isExist` per group, flushed when `(i+1) % k == 0` -/
def existsMulti (c : Cfg) (keys : List (Nat × Nat)) (s : St) : Out Bool :=
  if keys.isEmpty then .nil else
  let idxs := allIdx c.m c.k keys
  if idxs.isEmpty then .errRedis
  else if negative s.h idxs then .errParse
  else .ok (gloop c.k (fun (res : List Bool) x => (res, s.h x))
      (fun (acc : Bool) (v : Option Int) => acc && (v.getD 0 != 0)) true
      (fun res acc => res ++ [acc]) idxs 1 true [])

def maxU64 : Nat := 2 ^ 64 - 1

/-- `ItemMinCountMulti`: minimum per group, `math.MaxUint64` as the neutral start value -/
def itemMinCountMulti (c : Cfg) (keys : List (Nat × Nat)) (s : St) : Out Nat :=
  if keys.isEmpty then .nil else
  let idxs := allIdx c.m c.k keys
  if idxs.isEmpty then .errRedis
  else if negative s.h idxs then .errParse
  else .ok (gloop c.k (fun (res : List Nat) x => (res, s.h x))
      (fun (acc : Nat) (v : Option Int) => min acc (v.getD 0).toNat) maxU64
      (fun res acc => res ++ [acc]) idxs 1 maxU64 [])

/-- `Count`: GET, nil ↦ 0, negative ↦ parse error (`none`) -/
def count (s : St) : Option Nat :=
  match s.counter with
  | none => some 0
  | some v => if v < 0 then none else some v.toNat

/-! ### Specification state for the oracle lines: net multiplicities -/

structure Spec where
  net : List ((Nat × Nat) × Nat) := []
  clean : Bool := true      -- "only previously added items are removed" still holds

def Spec.get (sp : Spec) (x : Nat × Nat) : Nat := ((sp.net.find? (·.1 == x)).map (·.2)).getD 0
def Spec.set (sp : Spec) (x : Nat × Nat) (n : Nat) : Spec :=
  { sp with net := (x, n) :: sp.net.filter (·.1 != x) }
def Spec.add (sp : Spec) (x : Nat × Nat) : Spec := sp.set x (sp.get x + 1)
def Spec.remove (sp : Spec) (x : Nat × Nat) : Spec :=
  if sp.get x = 0 then { sp with clean := false } else sp.set x (sp.get x - 1)

end Rv.CBloom
