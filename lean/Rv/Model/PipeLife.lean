/-
Interleaving model of one pipe's life as /repo/pipe.go implements it: N callers of
Do/DoMulti (one batch each), the writer goroutine (`_backgroundWrite`), the reader
goroutine (`_backgroundRead`), the exit path of `_background` (error latch, drain loop,
`state` store), `Close`, the keep-alive watchdog as an error source and context-done
events. Every `Label` is one atomic step of one goroutine; `step` is a partial function
(`none` = the step is not enabled). Core Lean only.

What is transcribed (pipe.go, function by function):
* `Do`/`DoMulti`: `ctx.Err()` check, `incrWaits`, `state` load, the three branches
  (`goto queue` / sync path when `state == 0 && waits == 1` / reject with `p.Error()`),
  `PutOne`/`PutMulti`, the `select` on the result channel and `ctx.Done`, the abort goroutine,
  the tail `if left := decrWaitsAndIncrRecvs(); waits == 1 && left != 0 { background() }` (since fix
  eac8ecc; before it the condition was `state == 0 && left != 0`, kept as `stepBefore_eac8ecc` for the
  witness of the repaired defect only).
* `background()`: CAS state 0→1 and CAS bgState 0→1 (taken as one step).
* `_exit`: error latch CAS, state CAS 1→2, `conn.Close()` (taken as one step).
* `_backgroundWrite`: `NextWriteCmd`/`WaitForWrite` (take the first entry with mark 1,
  `wcnt++`), buffered write, `Flush` when nothing is left to take; a dead connection is
  noticed at the flush, a writer with nothing buffered sleeps in `WaitForWrite`.
* `_backgroundRead`: `NextResultCh` (`rcnt++`) when a reply arrives, delivery on the entry's
  channel, the deferred handler that hands the read error to the in-flight batch.
* `_background` after the reader returned: `_exit(rerr)`, the wake-up PING for a sleeping
  writer, the drain loop `for loadWaits() != 0` (observe `p.close`, `NextWriteCmd` by the
  drain itself once the writer has exited, `NextResultCh`, `sent`/`resp` chosen by
  `!closed || rcnt < wcnt`), `<-p.close`, `state` store 4.
* `Close`: error latch, `incrWaits`, CAS 0→2 / 1→2, `background()` when it stopped a
  synchronous pipe and holds the only wait, the PING with the 1 s grace timer, `decrWaits`,
  `conn.Close()`.

Abstractions: the ring is an unbounded FIFO (a full ring blocks `PutOne`); a batch is one
entry; receiving on a result channel and the following `decrWaitsAndIncrRecvs` are one step
for the abort goroutine and the PING helpers; drain iterations that change nothing are not
steps; timers are events; subscriptions, the cache and `blcksig` (a configuration bit here)
are not modelled. `p.state` takes the values 0 sync, 1 background, 2 closing, 4 closed
(3 is only the static dead pipe of `deadFn`/`epipeFn`).
-/
namespace Rv.PipeLife

/-- what a caller gets back for its batch -/
inductive Res where
  | reply          -- the server's replies
  | transport      -- a non-nil error that is neither ErrClosing, errConnExpired nor the caller's ctx error
  | expired        -- errConnExpired
  | closing        -- ErrClosing
  | ctx            -- the caller's own ctx.Err()
  | nilerr         -- NewErrorResult(nil): neither a reply nor an error (never produced, see `reject_has_error`)
  deriving Repr, DecidableEq

/-- the class of the latched `p.error` -/
inductive Why where
  | broken | closing | expired
  deriving Repr, DecidableEq

/-- `NewErrorResult(p.Error())` -/
def latched : Option Why → Res
  | none => .nilerr
  | some .broken => .transport
  | some .closing => .closing
  | some .expired => .expired

/-- `sent` of the drain loop: `if err == errConnExpired && rerr != nil { sent = NewErrorResult(rerr) }`
    (`_backgroundRead` only returns with a non-nil error) -/
def sentRes : Option Why → Res
  | some .expired => .transport
  | w => latched w

/-- `p.error.CompareAndSwap(nil, …)` -/
def latch (w : Why) : Option Why → Option Why
  | none => some w
  | some x => some x

/-- program counter of one Do/DoMulti call (and of its abort goroutine) -/
inductive CS where
  | idle                         -- not started
  | counted (w : Nat)            -- ctx.Err() == nil, `waits := p.incrWaits()` returned `w`
  | toQueue                      -- took `goto queue`, before PutOne/PutMulti
  | syncing                      -- in syncDo/syncDoMulti: written on the wire, reading
  | waiting                      -- entry queued; in `select { case <-ch: case <-ctxCh: }`
  | got (r : Res) (sb : Bool)    -- has its result; `decrWaitsAndIncrRecvs` pending; `sb` = the tail may call background()
  | aborted                      -- returned ctx.Err(); the abort goroutine is blocked on `<-ch`
  | done                         -- returned and its slot is resolved
  deriving Repr, DecidableEq

structure Call where
  st : CS := .idle
  needBg : Bool := false      -- NoReply/OptIn batch, or a context with Done() but without deadline: never the sync path
  canDone : Bool := false     -- the context can become done (cancel or deadline)
  ctxDone : Bool := false
  deriving Repr, DecidableEq

inductive Owner where
  | call (i : Nat)
  | bgPing          -- the PING `_background` queues to wake a sleeping writer
  | closePing       -- the PING of Close
  deriving Repr, DecidableEq

/-- one ring slot in use; `taken` = mark 2 (fetched by NextWriteCmd/WaitForWrite) -/
structure Entry where
  owner : Owner
  taken : Bool := false
  deriving Repr, DecidableEq

/-- where the `_background` goroutine is -/
inductive Td where
  | off                        -- bgState = 0
  | reading                    -- inside `_backgroundRead`
  | exited                     -- `p._exit(rerr)` done, before the `select` that may spawn the wake-up PING
  | draining (closed : Bool)   -- in the drain loop; `closed` = the loop variable
  | loopDone                   -- `loadWaits() == 0` observed; blocked on `<-p.close`
  | finished                   -- `atomic.StoreInt32(&p.state, 4)` done
  deriving Repr, DecidableEq

/-- the writer goroutine; `dirty` = something is buffered in `p.w` -/
inductive Wr where
  | off | run (dirty : Bool) | exited      -- exited = `_exit(err)` and `close(p.close)` done
  deriving Repr, DecidableEq

/-- the wake-up PING helper goroutine of `_background` -/
inductive HS where
  | none | toPut | waiting | done
  deriving Repr, DecidableEq

/-- program counter of `Close()` -/
inductive ClosePc where
  | idle
  | entered (w : Nat)            -- error latched, `waits := p.incrWaits()` returned `w`
  | casDone (stopping : Bool)    -- both CAS done (and `background()` when `stopping1 && waits == 1`)
  | pingWait                     -- PING queued, in `select { case <-ch: case <-time.After(time.Second): }`
  | tail                         -- after the `if p.queue != nil` block
  | done                         -- `decrWaits`, `conn.Close()` done
  deriving Repr, DecidableEq

structure St where
  state : Nat := 0
  waits : Nat := 0
  err : Option Why := none
  connUp : Bool := true
  queue : List Entry := []
  calls : List Call := []
  td : Td := .off
  writer : Wr := .off
  inflight : Option Owner := none     -- fetched by the reader, not yet delivered
  bgPing : HS := .none
  close : ClosePc := .idle
  cpOwed : Bool := false              -- Close's PING is queued and its channel has not fired yet
  blockFree : Bool := true            -- `block == 1` in Close (no blocking command in flight, no other Close)
  wcnt : Nat := 0
  rcnt : Nat := 0
  log : List (Nat × Res) := []        -- every return of a call, in order
  wire : List Nat := []               -- calls handed to a writer (the writer goroutine or the sync path), in order
  deriving Repr, DecidableEq

/-! ### small accessors and updates -/

def stOf (s : St) (i : Nat) : Option CS := (s.calls[i]?).map (·.st)
def ctxDoneOf (s : St) (i : Nat) : Bool := match s.calls[i]? with | some c => c.ctxDone | none => false
def needBgOf (s : St) (i : Nat) : Bool := match s.calls[i]? with | some c => c.needBg | none => false
def canDoneOf (s : St) (i : Nat) : Bool := match s.calls[i]? with | some c => c.canDone | none => false

def setCallSt (cs : CS) (c : Call) : Call := { c with st := cs }
def setSt (i : Nat) (cs : CS) (s : St) : St := { s with calls := s.calls.modify i (setCallSt cs) }

/-- `atomic.CompareAndSwapInt32(&p.state, 0, 1)` -/
def bgState (n : Nat) : Nat := if n = 0 then 1 else n

/-- `background()` -/
def startBg (s : St) : St :=
  match s.td with
  | .off => { s with state := bgState s.state, td := .reading, writer := .run false }
  | _ => { s with state := bgState s.state }

/-- `_exit(err)` -/
def exitConn (w : Why) (s : St) : St :=
  { s with err := latch w s.err, state := if s.state = 1 then 2 else s.state, connUp := false }

/-- a result is sent on the channel of `o`'s entry: the waiting caller takes it, or its abort
    goroutine / the PING helper / Close's `select` does (and decrements `waits`) -/
def deliver (o : Owner) (r : Res) (s : St) : St :=
  match o with
  | .call i =>
    match stOf s i with
    | some .waiting => setSt i (.got r false) s
    | some .aborted => { (setSt i .done s) with waits := s.waits - 1 }
    | _ => s
  | .bgPing => { s with bgPing := .done, waits := s.waits - 1 }
  | .closePing => { s with cpOwed := false, waits := s.waits - 1 }

/-- NextWriteCmd/WaitForWrite: mark the first entry with mark 1 -/
def takeFirst : List Entry → Option (Owner × List Entry)
  | [] => none
  | e :: es =>
    if e.taken then
      match takeFirst es with
      | some (o, es') => some (o, e :: es')
      | none => none
    else some (e.owner, { e with taken := true } :: es)

def wireAdd (o : Owner) (w : List Nat) : List Nat :=
  match o with
  | .call i => w ++ [i]
  | _ => w

/-! ### steps -/

inductive Label where
  -- caller `i`
  | enter (i : Nat) | decide (i : Nat) | put (i : Nat) | putFail (i : Nat)
  | syncOk (i : Nat) | syncErr (i : Nat) | leave (i : Nat) | abort (i : Nat)
  -- environment
  | cancel (i : Nat) | connBreak | pingFail
  -- writer, reader, `_background`
  | wTake | wFlush
  | rFetch | rDeliver | rErr
  | tdSpawn | bgPingPut | tdIter | tdClose
  -- Close (`w` = closing for Close(), expired for `p.expired()`)
  | closeEnter (w : Why) | closeCas | closePing | closeGot | closeGrace | closeTail
  deriving Repr, DecidableEq

/-- `if err := ctx.Err(); err != nil { return }`, else `waits := p.incrWaits()` -/
def enter (i : Nat) (s : St) : Option St :=
  match stOf s i with
  | some .idle =>
    if ctxDoneOf s i then some { (setSt i .done s) with log := s.log ++ [(i, .ctx)] }
    else some { (setSt i (.counted (s.waits + 1)) s) with waits := s.waits + 1 }
  | _ => none

/-- `state := atomic.LoadInt32(&p.state)` and the branch taken. `fix = true` is the code as it is (tail
    `waits == 1 && left != 0`, fix eac8ecc): a rejected call that holds wait number 1 still runs
    `background()` in its tail when somebody is left. `fix = false` is the tail before eac8ecc
    (`state == 0 && left != 0`), used only by `stepBefore_eac8ecc`. -/
def decide (fix : Bool) (i : Nat) (s : St) : Option St :=
  match stOf s i with
  | some (.counted w) =>
    if s.state = 1 then some (setSt i .toQueue s)
    else if s.state = 0 then
      if w ≠ 1 then some (setSt i .toQueue s)
      else if needBgOf s i then some (setSt i .toQueue (startBg s))
      else some { (setSt i .syncing s) with wire := s.wire ++ [i] }
    else some (setSt i (.got (latched s.err) (fix && w == 1)) s)
  | _ => none

/-- `ch, err := p.queue.PutOne(ctx, cmd)` (ring: never fails) -/
def put (i : Nat) (s : St) : Option St :=
  match stOf s i with
  | some .toQueue => some { (setSt i .waiting s) with queue := s.queue ++ [{ owner := .call i }] }
  | _ => none

/-- PutOne of the flow-buffer queue can give up when the context is done: `p.decrWaits(); return` -/
def putFail (i : Nat) (s : St) : Option St :=
  match stOf s i with
  | some .toQueue =>
    if ctxDoneOf s i then some { (setSt i .done s) with waits := s.waits - 1, log := s.log ++ [(i, .ctx)] }
    else none
  | _ => none

/-- syncDo/syncDoMulti read the replies -/
def syncOk (i : Nat) (s : St) : Option St :=
  match stOf s i with
  | some .syncing => if s.connUp then some (setSt i (.got .reply true) s) else none
  | _ => none

/-- syncDo/syncDoMulti fail (dead connection, or the deadline set on the connection from the context):
    `p.error.CompareAndSwap(nil, err); p.conn.Close(); p.background()` -/
def syncErr (i : Nat) (s : St) : Option St :=
  match stOf s i with
  | some .syncing =>
    if !s.connUp || ctxDoneOf s i then
      some (setSt i (.got (if s.connUp then .ctx else .transport) true)
        (startBg { s with err := latch .broken s.err, connUp := false }))
    else none
  | _ => none

/-- the caller takes its result home: `waits` goes down by one and the return is logged -/
def leaveSt (i : Nat) (r : Res) (s : St) : St :=
  { (setSt i .done s) with waits := s.waits - 1, log := s.log ++ [(i, r)] }

/-- `left := p.decrWaitsAndIncrRecvs()`, the optional `background()`, `return resp` -/
def leave (i : Nat) (s : St) : Option St :=
  match stOf s i with
  | some (.got r sb) => some (if sb && s.waits - 1 != 0 then startBg (leaveSt i r s) else leaveSt i r s)
  | _ => none

/-- `case <-ctxCh: goto abort` -/
def abort (i : Nat) (s : St) : Option St :=
  match stOf s i with
  | some .waiting =>
    if ctxDoneOf s i then some { (setSt i .aborted s) with log := s.log ++ [(i, .ctx)] } else none
  | _ => none

def setDone (c : Call) : Call := { c with ctxDone := true }

/-- the context of call `i` becomes done -/
def cancel (i : Nat) (s : St) : Option St :=
  if canDoneOf s i && !ctxDoneOf s i then some { s with calls := s.calls.modify i setDone } else none

/-- the connection dies (peer close, I/O error, write timeout) -/
def connBreak (s : St) : Option St :=
  if s.connUp then some { s with connUp := false } else none

/-- the keep-alive watchdog gives up: `p._exit(err)` -/
def pingFail (s : St) : Option St :=
  match s.err with
  | none => some (exitConn .broken s)
  | some _ => none

def wTake (s : St) : Option St :=
  match s.writer with
  | .run _ =>
    match takeFirst s.queue with
    | some (o, q) => some { s with queue := q, wcnt := s.wcnt + 1, writer := .run true, wire := wireAdd o s.wire }
    | none => none
  | _ => none

/-- nothing left to take: `p.w.Flush()`; on error `_exit(err); close(p.close)` -/
def wFlush (s : St) : Option St :=
  match s.writer with
  | .run true =>
    match takeFirst s.queue with
    | some _ => none
    | none =>
      if s.connUp then some { s with writer := .run false }
      else some { (exitConn .broken s) with writer := .exited }
  | _ => none

/-- a reply arrives while no batch is in flight: `NextResultCh`, `rcnt++` -/
def rFetch (s : St) : Option St :=
  match s.td, s.inflight, s.queue with
  | .reading, none, e :: es =>
    if e.taken && s.connUp then some { s with queue := es, inflight := some e.owner, rcnt := s.rcnt + 1 } else none
  | _, _, _ => none

/-- the last reply of the in-flight batch arrived: `ch <- resp` -/
def rDeliver (s : St) : Option St :=
  match s.td, s.inflight with
  | .reading, some o => if s.connUp then some (deliver o .reply { s with inflight := none }) else none
  | _, _ => none

/-- the deferred handler of `_backgroundRead`: the in-flight batch gets the read error -/
def deferDeliver (s : St) : St :=
  match s.inflight with
  | some o => deliver o .transport { s with inflight := none }
  | none => s

/-- `readNextMessage` fails: the deferred handler completes the in-flight batch with the read error,
    then `p._exit(rerr)` -/
def rErr (s : St) : Option St :=
  match s.td with
  | .reading =>
    if s.connUp then none
    else some { (exitConn .broken (deferDeliver s)) with td := .exited }
  | _ => none

/-- `select { case <-p.close: default: p.incrWaits(); go func() { PutOne(PING); <-ch; p.decrWaits() }() }` -/
def tdSpawn (s : St) : Option St :=
  match s.td with
  | .exited =>
    match s.writer with
    | .exited => some { s with td := .draining false }
    | _ => some { s with td := .draining false, waits := s.waits + 1, bgPing := .toPut }
  | _ => none

def bgPingPut (s : St) : Option St :=
  match s.bgPing with
  | .toPut => some { s with bgPing := .waiting, queue := s.queue ++ [{ owner := .bgPing }] }
  | _ => none

/-- the drain's own `NextWriteCmd` (no `wcnt++`) -/
def drainTake (q : List Entry) : List Entry :=
  match takeFirst q with
  | some (_, q') => q'
  | none => q

def isExited : Wr → Bool
  | .exited => true
  | _ => false

/-- the loop variable `closed` after this iteration's `select { case <-p.close: closed = true … default: }` -/
def seenClosed (c : Bool) (s : St) : Bool := c || isExited s.writer

/-- the queue after the iteration's own `NextWriteCmd` (only called once `p.close` is closed) -/
def drainQueue (c' : Bool) (q : List Entry) : List Entry := if c' then drainTake q else q

/-- `resp := resp; if !closed || p.rcnt < p.wcnt { resp = sent }` -/
def drainRes (c' : Bool) (s : St) : Res :=
  if !c' || s.rcnt < s.wcnt then sentRes s.err else latched s.err

/-- one iteration of `for p.loadWaits() != 0 { … }` that changes something -/
def tdIter (s : St) : Option St :=
  match s.td with
  | .draining c =>
    if s.waits = 0 then some { s with td := .loopDone }
    else
      match drainQueue (seenClosed c s) s.queue with
      | e :: es =>
        if e.taken then
          some (deliver e.owner (drainRes (seenClosed c s) s)
            { s with td := .draining (seenClosed c s), queue := es, rcnt := s.rcnt + 1 })
        else none
      | [] => if seenClosed c s != c then some { s with td := .draining (seenClosed c s) } else none
  | _ => none

/-- `<-p.close; atomic.StoreInt32(&p.state, 4)` -/
def tdClose (s : St) : Option St :=
  match s.td, s.writer with
  | .loopDone, .exited => some { s with td := .finished, state := 4 }
  | _, _ => none

/-- `p.error.CompareAndSwap(nil, errClosing)` (errExpired first for `p.expired()`), `waits := p.incrWaits()` -/
def closeEnter (w : Why) (s : St) : Option St :=
  match s.close with
  | .idle => some { s with err := latch w s.err, waits := s.waits + 1, close := .entered (s.waits + 1) }
  | _ => none

/-- one of `CompareAndSwapInt32(&p.state, 0, 2)` / `(&p.state, 1, 2)` succeeds -/
def isStopping (n : Nat) : Bool := n == 0 || n == 1

def casSt (s : St) : St :=
  { s with state := if isStopping s.state then 2 else s.state, close := .casDone (isStopping s.state) }

/-- both CAS and `if stopping1 && waits == 1 { p.background() }` -/
def closeCas (s : St) : Option St :=
  match s.close with
  | .entered w => some (if s.state == 0 && w == 1 then startBg (casSt s) else casSt s)
  | _ => none

/-- `if block == 1 && (stopping1 || stopping2) { p.incrWaits(); ch, _ := PutOne(PING); select … }` -/
def closePing (s : St) : Option St :=
  match s.close with
  | .casDone stopping =>
    if s.blockFree && stopping then
      some { s with waits := s.waits + 1, queue := s.queue ++ [{ owner := .closePing }], cpOwed := true, close := .pingWait }
    else some { s with close := .tail }
  | _ => none

/-- `case <-ch: p.decrWaits()` (the decrement is part of `deliver`) -/
def closeGot (s : St) : Option St :=
  match s.close with
  | .pingWait => if s.cpOwed then none else some { s with close := .tail }
  | _ => none

/-- `case <-time.After(time.Second)`: the helper goroutine keeps waiting for the channel -/
def closeGrace (s : St) : Option St :=
  match s.close with
  | .pingWait => some { s with close := .tail }
  | _ => none

/-- `p.decrWaits(); … p.conn.Close()` -/
def closeTail (s : St) : Option St :=
  match s.close with
  | .tail => some { s with waits := s.waits - 1, connUp := false, close := .done }
  | _ => none

def step (fix : Bool) (s : St) : Label → Option St
  | .enter i => enter i s
  | .decide i => decide fix i s
  | .put i => put i s
  | .putFail i => putFail i s
  | .syncOk i => syncOk i s
  | .syncErr i => syncErr i s
  | .leave i => leave i s
  | .abort i => abort i s
  | .cancel i => cancel i s
  | .connBreak => connBreak s
  | .pingFail => pingFail s
  | .wTake => wTake s
  | .wFlush => wFlush s
  | .rFetch => rFetch s
  | .rDeliver => rDeliver s
  | .rErr => rErr s
  | .tdSpawn => tdSpawn s
  | .bgPingPut => bgPingPut s
  | .tdIter => tdIter s
  | .tdClose => tdClose s
  | .closeEnter w => closeEnter w s
  | .closeCas => closeCas s
  | .closePing => closePing s
  | .closeGot => closeGot s
  | .closeGrace => closeGrace s
  | .closeTail => closeTail s

/-- the model of the code as it is (repaired tail) -/
abbrev stepNow : St → Label → Option St := step true

/-- the step function of the tail before fix eac8ecc — only for the witness `close_race_strands_call` -/
abbrev stepBefore_eac8ecc : St → Label → Option St := step false

/-- a fresh pipe with the given callers; `pipelined` = `_newPipe` already called `background()`
    (AlwaysPipelining or an invalidation handler) -/
def init (calls : List Call) (pipelined : Bool) (blockFree : Bool := true) : St :=
  let s : St := { calls := calls, blockFree := blockFree }
  if pipelined then startBg s else s

/-- run a list of labels; `none` as soon as one of them is not enabled -/
def run (fix : Bool) : St → List Label → Option St
  | s, [] => some s
  | s, l :: ls =>
    match step fix s l with
    | some s' => run fix s' ls
    | none => none

abbrev runNow : St → List Label → Option St := run true
abbrev runBefore_eac8ecc : St → List Label → Option St := run false

/-- states reachable from a fresh pipe (`Reachable true` = the code as it is) -/
inductive Reachable (fix : Bool) : St → Prop where
  | init (calls : List Call) (pipelined blockFree : Bool) (h : ∀ c ∈ calls, c.st = .idle) :
      Reachable fix (init calls pipelined blockFree)
  | step {s s' : St} (l : Label) (hr : Reachable fix s) (hs : step fix s l = some s') : Reachable fix s'

/-! ### classification of labels and states -/

/-- steps that need nothing from the server, from new callers or from the environment: the pipe's own
    goroutines, the callers' non-blocking statements, Close's statements and its 1 s timer -/
def Label.internal : Label → Bool
  | .enter _ | .cancel _ | .connBreak | .pingFail | .closeEnter _ => false     -- environment
  | .syncOk _ | .rFetch | .rDeliver => false                                    -- need the server to answer
  | .putFail _ => false                                                         -- only the flow-buffer queue
  | _ => true

/-- the pipe accepted the call and owes it a result -/
def CS.owed : CS → Bool
  | .toQueue | .syncing | .waiting | .aborted => true
  | _ => false

/-- the call has started and has not returned to its caller yet -/
def CS.pending : CS → Bool
  | .counted _ | .toQueue | .syncing | .waiting | .got _ _ => true
  | _ => false

/-- the call holds one unit of `waits` -/
def CS.weight : CS → Nat
  | .idle | .done => 0
  | _ => 1

def returned (s : St) (i : Nat) : Bool := s.log.any (·.1 == i)

/-! ### scheduler used by the driver (and by the non-vacuity examples) -/

def callLabels (i : Nat) : List Label :=
  [.decide i, .put i, .syncErr i, .leave i, .abort i]

/-- internal labels in a fixed order, the 1 s grace timer last -/
def internalLabels (n : Nat) : List Label :=
  ((List.range n).flatMap callLabels) ++
  [.wTake, .wFlush, .rErr, .tdSpawn, .bgPingPut, .tdIter, .tdClose, .closeCas, .closePing, .closeGot, .closeTail, .closeGrace]

def firstEnabled (fix : Bool) (s : St) : List Label → Option (Label × St)
  | [] => none
  | l :: ls =>
    match step fix s l with
    | some s' => some (l, s')
    | none => firstEnabled fix s ls

/-- the server answers PINGs at once (only user commands are held back by the harness) -/
def pingServe (s : St) : Option St :=
  match s.inflight with
  | some .bgPing | some .closePing => rDeliver s
  | some _ => none
  | none =>
    match s.queue with
    | e :: _ => match e.owner with
      | .call _ => none
      | _ => rFetch s
    | [] => none

/-- run internal steps (and prompt PING replies) until nothing is enabled -/
def quiesce (fix : Bool) : Nat → St → St
  | 0, s => s
  | fuel + 1, s =>
    match pingServe s with
    | some s' => quiesce fix fuel s'
    | none =>
      match firstEnabled fix s (internalLabels s.calls.length) with
      | some (_, s') => quiesce fix fuel s'
      | none => s

end Rv.PipeLife
