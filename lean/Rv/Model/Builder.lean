/-
Interpreter for the regenerated builder records (Rv/Gen/Builders*.lean): given a root
command and a path = sequence of method calls with argument values, compute what the
generated Go code computes: the argv (`c.cs.s`), the key-slot word `ks` and the flag word
`cf`. The interpreter never looks at the concrete tables, so everything proved about it
holds for every table. Core Lean only.

Go facts transcribed here (internal/cmds/gen_*.go, printed by hack/cmds/gen.go):
* root:   `c = X{cs: get(), ks: b.ks, cf: int16(<flag>)}; c.cs.s = append(c.cs.s, tokens…)`
* method: key-slot `if` statements (in parameter order), then optionally
          `c.cf |= int16(blockTag)`, then appends (literals / formatted parameters /
          spread / for-range), then `return (Next)(c)`; a `check` panic aborts the call
* final:  `c.cs.Build(); return Completed{cs: c.cs, cf: uint16(c.cf), ks: c.ks}`
-/
import Rv.Model.BuilderRec
import Rv.Model.Slot
namespace Rv.Bld

abbrev Bytes := List UInt8

def bytes (s : String) : Bytes := s.toUTF8.toList

/-! ### argument values -/

/-- a Go argument value. Numbers are mathematical integers; the harness only sends values
    inside the Go type's range (`Val.inRange`). Floats travel as IEEE-754 binary64 bits
    (a `float32` parameter as the bits of `float64(x)`, which is exact). -/
inductive Val
  | str (s : Bytes)
  | strs (l : List Bytes)
  | int (v : Int)
  | uint (v : Nat)
  | flt (bits : Nat)
  | ints (l : List Int)
  | uints (l : List Nat)
  | flts (l : List Nat)
  | dur (ns : Int)
  | time (sec : Int) (nsec : Nat)
  deriving Repr, Inhabited, DecidableEq

def Val.hasKind : Val → PKind → Bool
  | .str _, .str => true
  | .strs _, .strs => true
  | .strs _, .strSlice => true
  | .int _, .i64 => true
  | .uint _, .u64 => true
  | .flt _, .f64 => true
  | .flt _, .f32 => true
  | .ints _, .i64s => true
  | .uints _, .u64s => true
  | .flts _, .f64s => true
  | .flts _, .f32s => true
  | .dur _, .dur => true
  | .time _ _, .time => true
  | _, _ => false

def argsOk : List PKind → List Val → Bool
  | [], [] => true
  | k :: ks, v :: vs => v.hasKind k && argsOk ks vs
  | _, _ => false

/-! ### number formatting (strconv.FormatInt/FormatUint base 10) -/

/-- decimal digits of a natural number, most significant first, no leading zeros ("0" for 0) -/
def fmtNat (n : Nat) : Bytes :=
  if h : n < 10 then [UInt8.ofNat (48 + n)] else fmtNat (n / 10) ++ [UInt8.ofNat (48 + n % 10)]
termination_by n
decreasing_by omega

/-- `strconv.FormatInt(v, 10)`: a minus sign for negative numbers, then the digits of |v| -/
def fmtInt (v : Int) : Bytes :=
  if v < 0 then 45 :: fmtNat v.natAbs else fmtNat v.natAbs

/-- two's-complement wrap to int64 (Go integer arithmetic wraps) -/
def wrap64 (v : Int) : Int := (v + 2^63) % 2^64 - 2^63

/-- `int64(d / time.Second)`: Go integer division truncates toward zero -/
def durSeconds (ns : Int) : Int := Int.tdiv ns 1000000000
def durMillis (ns : Int) : Int := Int.tdiv ns 1000000

/-- `time.Unix(sec, nsec).Unix()` for `0 ≤ nsec < 1e9` -/
def unixSeconds (sec : Int) (_nsec : Nat) : Int := sec
/-- `time.Unix(sec, nsec).UnixMilli()` = `sec*1e3 + nsec/1e6` in wrapping int64 arithmetic -/
def unixMillis (sec : Int) (nsec : Nat) : Int := wrap64 (sec * 1000 + Int.ofNat (nsec / 1000000))

/-! ### floats: strconv.FormatFloat(x, 'f', -1, 64)

TRUSTED (not proved): for a finite binary64 `x = m·2^e` whose exact decimal expansion has
at most 15 significant digits, the shortest decimal that round-trips is that exact
expansion (any shorter decimal differs by ≥ 10⁻¹⁵ relative, more than half an ulp), so
`'f', -1` prints the exact expansion without trailing zeros. Outside that class the model
gives no answer (`none`); the harness only sends floats inside the class. -/

def pad0 (k : Nat) (ds : Bytes) : Bytes := List.replicate (k - ds.length) 48 ++ ds

def stripZeros (ds : Bytes) : Bytes := (ds.reverse.dropWhile (· == 48)).reverse

/-- exact expansion of `m / 2^k` (k fractional binary digits give exactly k decimal digits) -/
def fmtDyadic (m k : Nat) : Bytes :=
  let ip := m / 2^k
  let fp := stripZeros (pad0 k (fmtNat ((m % 2^k) * 5^k)))
  if fp.isEmpty || k = 0 then fmtNat ip else fmtNat ip ++ 46 :: fp

def sigDigits (ds : Bytes) : Nat :=
  ((ds.filter (· != 46)).dropWhile (· == 48)).length

def fmtFloatBits (bits : Nat) : Option Bytes :=
  let sign := bits / 2^63 % 2
  let ex := bits / 2^52 % 2048
  let frac := bits % 2^52
  if ex = 2047 then
    if frac ≠ 0 then some (bytes "NaN") else some (bytes (if sign = 1 then "-Inf" else "+Inf"))
  else
    -- value = m · 2^(e-1075) with the implicit bit for normal numbers
    let m := if ex = 0 then frac else frac + 2^52
    let e := if ex = 0 then 1 else ex
    -- drop common factors of two so that the expansion is short
    let tz := if m = 0 then 0 else (List.range 53).foldl (fun acc i => if m % 2^(i+1) = 0 then i + 1 else acc) 0
    let m' := m / 2^tz
    let e' : Nat := e + tz   -- exponent + 1075
    let body := if m = 0 then bytes "0"
      else if e' ≥ 1075 then fmtNat (m' * 2^(e' - 1075)) else fmtDyadic m' (1075 - e')
    if sigDigits body ≤ 15 ∧ body.length ≤ 40 then
      some (if sign = 1 then 45 :: body else body)
    else none

/-! ### items -/

def fmtVal : Fmt → Val → Option Bytes
  | .str, .str s => some s
  | .int, .int v => some (fmtInt v)
  | .uint, .uint v => some (fmtNat v)
  | .f64, .flt b => fmtFloatBits b
  | .f32, .flt b => fmtFloatBits b
  | .durSec, .dur ns => some (fmtInt (durSeconds ns))
  | .durMs, .dur ns => some (fmtInt (durMillis ns))
  | .unixSec, .time s n => some (fmtInt (unixSeconds s n))
  | .unixMs, .time s n => some (fmtInt (unixMillis s n))
  | _, _ => none

def sequence {α : Type} : List (Option α) → Option (List α)
  | [] => some []
  | none :: _ => none
  | some a :: rest => match sequence rest with
    | some l => some (a :: l)
    | none => none

/-- what one append item contributes to argv (in order) -/
def itemOut (args : List Val) : Item → Option (List Bytes)
  | .lit s => some [bytes s]
  | .par i f => match args[i]? with
    | some v => (fmtVal f v).map ([·])
    | none => none
  | .spread i => match args[i]? with
    | some (.strs l) => some l
    | _ => none
  | .loop i f => match args[i]? with
    | some (.ints l) => sequence (l.map fun v => fmtVal f (.int v))
    | some (.uints l) => sequence (l.map fun v => fmtVal f (.uint v))
    | some (.flts l) => sequence (l.map fun v => fmtVal f (.flt v))
    | _ => none

/-- everything one method call appends, in statement order -/
def callOut (m : Method) (args : List Val) : Option (List Bytes) :=
  (sequence (m.items.map (itemOut args))).map List.flatten

/-! ### key-slot updates -/

/-- single key parameter: exactly `Rv.Slot.keyStep` -/
def keyOne (ks : Nat) (k : Bytes) : Option Nat := Slot.keyStep ks k

def checkFold (ks : Nat) : List Bytes → Option Nat
  | [] => some ks
  | k :: rest => match Slot.check ks (Slot.slot k) with
    | none => none
    | some ks' => checkFold ks' rest

/-- variadic key parameter:
    `if ks&NoSlot == NoSlot { for _, k := range keys { ks = NoSlot | slot(k); break } }
     else { for _, k := range keys { ks = check(ks, slot(k)) } }` -/
def keyMany (ks : Nat) (keys : List Bytes) : Option Nat :=
  if ks / Slot.noSlot % 2 = 1 then
    match keys with
    | [] => some ks
    | k :: _ => some (Slot.noSlot + Slot.slot k)
  else checkFold ks keys

inductive Err
  | panic                 -- the Go code panics (cross-slot keys)
  | stuck (why : String)  -- the path is not a path of the tables / ill-typed arguments
  deriving Repr, DecidableEq

def keyUpd (args : List Val) (ks : Nat) : KeyUpd → Except Err Nat
  | .one i => match args[i]? with
    | some (.str k) => match keyOne ks k with
      | some v => .ok v
      | none => .error .panic
    | _ => .error (.stuck "key-arg")
  | .many i => match args[i]? with
    | some (.strs l) => match keyMany ks l with
      | some v => .ok v
      | none => .error .panic
    | _ => .error (.stuck "key-arg")

def keyUpds (args : List Val) : Nat → List KeyUpd → Except Err Nat
  | ks, [] => .ok ks
  | ks, u :: rest => match keyUpd args ks u with
    | .ok ks' => keyUpds args ks' rest
    | .error e => .error e

/-! ### paths -/

structure St where
  ty : String
  argv : List Bytes
  ks : Nat
  cf : Nat
  deriving Repr, DecidableEq

structure Call where
  name : String
  args : List Val
  deriving Repr

def findMethod (ms : List Method) (ty name : String) : Option Method :=
  ms.find? fun m => m.recv == ty && m.name == name

/-- root constructor on a builder whose `ks` is `ks0` (InitSlot or NoSlot) -/
def start (c : Cmd) (ks0 : Nat) : St :=
  { ty := c.ty, argv := c.tokens.map bytes, ks := ks0, cf := c.cf }

/-- effect of one method record on the state -/
def apply (blockTag : Nat) (m : Method) (s : St) (args : List Val) : Except Err St :=
  if !argsOk m.params args then .error (.stuck "bad-args") else
  match keyUpds args s.ks m.keys with
  | .error e => .error e
  | .ok ks =>
    match callOut m args with
    | none => .error (.stuck "bad-item")
    | some out =>
      .ok { ty := m.result, argv := s.argv ++ out, ks := ks,
            cf := if m.block then s.cf ||| blockTag else s.cf }

def step (blockTag : Nat) (ms : List Method) (s : St) (call : Call) : Except Err St :=
  match findMethod ms s.ty call.name with
  | none => .error (.stuck "no-method")
  | some m => apply blockTag m s call.args

def run (blockTag : Nat) (ms : List Method) : St → List Call → Except Err St
  | s, [] => .ok s
  | s, call :: rest => match step blockTag ms s call with
    | .ok s' => run blockTag ms s' rest
    | .error e => .error e

/-- `Build()` / `Cache()`: only offered by the listed types; copies argv, ks, cf unchanged
    (`uint16(c.cf)` keeps the bit pattern) -/
def finish (c : Cmd) (s : St) (cache : Bool) : Except Err St :=
  if (if cache then c.caches else c.builds).contains s.ty then .ok s else .error (.stuck "no-final")

/-- a complete builder expression `b.Root().M1(a…).….Build()` -/
def build (blockTag : Nat) (c : Cmd) (ks0 : Nat) (path : List Call) (cache : Bool) : Except Err St :=
  match run blockTag c.methods (start c ks0) path with
  | .ok s => finish c s cache
  | .error e => .error e

/-- flag predicate `c.cf&mask == mask` -/
def hasFlag (cf mask : Nat) : Bool := cf &&& mask == mask

end Rv.Bld
