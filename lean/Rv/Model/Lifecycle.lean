/-
Small models for C04/C05: the mux slot that replaces a broken wire (mux.go
pipeline/pipelineMulti/DoCache `isBroken` + `_pipe`), the pipe's admission of new calls
by `state` (pipe.go Do/DoMulti), the waiting points that select on ctx.Done, and the
retry back-off decision (retry.go WaitOrSkipRetry). Core Lean only.
-/
namespace Rv.Lifecycle

/-! ### mux slot -/
inductive Wire where
  | init                    -- placeholder: the next call dials
  | live (id : Nat)
  | broken (id : Nat)       -- w.Error() != nil
  | dead                    -- installed by mux.Close: every call fails with ErrClosing
  deriving Repr, DecidableEq

structure Mux where
  slot : Wire := .init
  next : Nat := 0           -- id of the next dialled connection
  deriving Repr

/-- `m._pipe`: returns the wire a call uses (dialling when the slot holds the placeholder) -/
def Mux.pick (m : Mux) : Mux × Wire :=
  match m.slot with
  | .init => ({ slot := .live m.next, next := m.next + 1 }, .live m.next)
  | w => (m, w)

/-- after a call on wire `w` finished with `err` (non-nil, not ErrClosing) and `w.Error() != nil`:
    `muxwires[slot].wire.CompareAndSwap(wire, m.init)` -/
def Mux.afterCall (m : Mux) (used : Wire) (brokenNow : Bool) : Mux :=
  if brokenNow && m.slot = used then { m with slot := .init } else m

/-- `mux.Close`: `wire.Swap(m.dead)` -/
def Mux.close (m : Mux) : Mux := { m with slot := .dead }

/-- a dial that was started while the slot held the placeholder completes with connection `id`:
    `CompareAndSwap(m.init, w)`; when it fails the new connection is closed and the current wire is used -/
def Mux.install (m : Mux) (id : Nat) : Mux × Wire :=
  if m.slot = .init then ({ m with slot := .live id }, .live id) else (m, m.slot)

/-- the connection `id` fails: the slot's wire now reports an error -/
def Mux.fail (m : Mux) (id : Nat) : Mux :=
  if m.slot = .live id then { m with slot := .broken id } else m

/-! ### admission by pipe state (0 sync, 1 pipelined, 2 closing, 3/4 closed) -/
inductive Admit where
  | sync | queue | reject     -- reject = NewErrorResult(p.Error()) without touching the wire
  deriving Repr, DecidableEq

def admission (state : Nat) (waits : Nat) (ctxDone : Bool) : Option Admit :=
  if ctxDone then none                       -- `if err := ctx.Err(); err != nil { return }`: nothing is sent
  else if state = 1 then some .queue
  else if state = 0 then (if waits ≠ 1 then some .queue else some .sync)
  else some .reject

/-! ### a waiting point that selects on the reply channel and ctx.Done -/
inductive WaitSt where
  | waiting | gotReply | gotCtxErr
  deriving Repr, DecidableEq
inductive WaitEv where
  | reply | ctxDone | other
  deriving Repr, DecidableEq
/-- `select { case resp = <-ch: … case <-ctxCh: goto abort }` -/
def waitStep : WaitSt → WaitEv → WaitSt
  | .waiting, .reply => .gotReply
  | .waiting, .ctxDone => .gotCtxErr
  | s, _ => s

/-! ### retry back-off (time in arbitrary units; `untilDl = none` means no deadline) -/
inductive Backoff where
  | now | wait (d : Int) | skip
  deriving Repr, DecidableEq
def waitOrSkip (delay : Int) (untilDl : Option Int) : Backoff :=
  if delay = 0 then .now
  else if delay > 0 then
    match untilDl with
    | none => .wait delay
    | some t => if t > delay then .wait delay else .skip
  else .skip

end Rv.Lifecycle
