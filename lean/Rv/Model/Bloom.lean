/-
Model of rueidisprob/bloomfilter.go + index.go (core Lean only).

* Redis state touched by the scripts: the bitmap `{name}` (set of 1-bits) and the
  counter key `{name}:c` (absent or a number).
* `addScript` / `existsScript` / `resetScript` / `deleteScript` are hand
  transcriptions of the Lua texts pinned in Rv/Props/C35.lean (trusted); the loops
  are the literal flat loops (`Rv.GroupLoop.gloop`, test `i % k = 0`).
  In Lua `i % 0` is NaN, never equal to 0; in Lean `i % 0 = i ≥ 1`, never 0 either,
  so the transcription is also right for `hashIterations = 0`.
* `addMulti` / `existsMulti` / `count` / `reset` / `delete` transcribe the Go glue.
* `newBloomFilter` transcribes the constructor's accept/reject logic over the *results*
  of the floating-point sizing functions (`bitsRaw`, `hashRaw` are parameters: floating
  point is not modelled), including the clamp `max(hashRaw, 1)`.
-/
import Rv.Lemmas.GroupLoop
namespace Rv.Bloom
open Rv.GroupLoop

abbrev Bits := Nat → Bool
def emptyBits : Bits := fun _ => false
def setBit (b : Bits) (i : Nat) : Bits := fun j => if j = i then true else b j
def bitVal (b : Bits) (i : Nat) : Nat := if b i then 1 else 0

/-- `index` of index.go: `offset := h1 + uint64(i)*h2; return offset % maxSize` on uint64
(both the product and the sum wrap). `h1 h2 < 2^64`, `i < 2^64`. -/
def indexGo (h1 h2 i m : Nat) : Nat := ((h1 + (i * h2) % 2 ^ 64) % 2 ^ 64) % m

/-- the `k` indexes of one item, in the order `indexes` appends them -/
def itemIdx (m k : Nat) (h : Nat × Nat) : List Nat := (List.range k).map fun i => indexGo h.1 h.2 i m

/-- `indexes(keys)`: per key, per hash function -/
def allIdx (m k : Nat) (keys : List (Nat × Nat)) : List Nat := (keys.map (itemIdx m k)).flatten

structure St where
  bits : Bits
  counter : Option Nat

def St.init : St := { bits := emptyBits, counter := none }

/-! ### Lua scripts (ARGV[1] = hashIterations = k, ARGV[2..] = indexes) -/

/-- loop of bloomFilterAddMultiScript; state = (bitmap, counter) -/
def addLoop (k : Nat) (idxs : List Nat) (b : Bits) : Bits × Nat :=
  gloop k (fun (st : Bits × Nat) x => ((setBit st.1 x, st.2), bitVal st.1 x)) (· + ·) 0
    (fun st one => (st.1, if one ≠ k then st.2 + 1 else st.2)) idxs 1 0 (b, 0)

/-- bloomFilterAddMultiScript; reply = INCRBY result -/
def addScript (k : Nat) (idxs : List Nat) (s : St) : St × Nat :=
  let r := addLoop k idxs s.bits
  let c := s.counter.getD 0 + r.2
  ({ bits := r.1, counter := some c }, c)

/-- bloomFilterExistsMultiScript (and the `_RO` twin): one boolean per completed group -/
def existsScript (k : Nat) (idxs : List Nat) (b : Bits) : List Bool :=
  gloop k (fun (res : List Bool) x => (res, bitVal b x)) (· + ·) 0
    (fun res one => res ++ [one == k]) idxs 1 0 []

def resetScript (_ : St) : St := { bits := emptyBits, counter := some 0 }
def deleteScript (_ : St) : St := { bits := emptyBits, counter := none }

/-! ### Go glue -/

structure Cfg where
  m : Nat
  k : Nat

/-- `AddMulti`: no call for an empty key list -/
def addMulti (c : Cfg) (keys : List (Nat × Nat)) (s : St) : St :=
  if keys.isEmpty then s else (addScript c.k (allIdx c.m c.k keys) s).1

inductive ExistsOut where
  | nil                       -- `return nil, nil` for no keys
  | ok (r : List Bool)
  | panic                     -- `result[i] = v` out of range
  deriving DecidableEq, Repr

/-- `ExistsMulti`: `result := make([]bool, len(keys))`, then `result[i] = arr[i]` -/
def existsMulti (c : Cfg) (keys : List (Nat × Nat)) (s : St) : ExistsOut :=
  if keys.isEmpty then .nil else
  let arr := existsScript c.k (allIdx c.m c.k keys) s.bits
  if arr.length > keys.length then .panic
  else .ok (arr ++ List.replicate (keys.length - arr.length) false)

/-- `AddMulti` together with the script arguments it hands to the client (`none`: no call).
The model builds them from the call's own keys; the `bloom` suite compares them with the argv the
fake client actually consumed, also when another call on the same filter value ran in between. -/
def addMultiTrace (c : Cfg) (keys : List (Nat × Nat)) (s : St) : St × Option (List Nat) :=
  if keys.isEmpty then (s, none)
  else ((addScript c.k (allIdx c.m c.k keys) s).1, some (c.k :: allIdx c.m c.k keys))

/-- `ExistsMulti` together with the script arguments it hands to the client -/
def existsMultiTrace (c : Cfg) (keys : List (Nat × Nat)) (s : St) : ExistsOut × Option (List Nat) :=
  (existsMulti c keys s, if keys.isEmpty then none else some (c.k :: allIdx c.m c.k keys))

/-- `Count`: GET, nil ↦ 0 -/
def count (s : St) : Nat := s.counter.getD 0

/-! ### Constructor (accept / reject and the resulting parameters) -/

inductive NewErr where
  | emptyName | rateLeZero | rateGtOne | bitsZero | bitsTooLarge
  deriving DecidableEq, Repr

def maxSize : Nat := 2 ^ 32

/-- `numberOfBloomFilterHashFunctions` after the float computation: `max(hashRaw, 1)` -/
def hashFunctions (hashRaw : Nat) : Nat := max hashRaw 1

/-- `NewBloomFilter` over the outcomes of the float computations:
`rateSign` = -1/0/1 for rate ≤ 0 / in (0,1] / > 1. -/
def newBloomFilter (nameLen : Nat) (rateClass : Int) (bitsRaw hashRaw : Nat) : Except NewErr Cfg :=
  if nameLen = 0 then .error .emptyName
  else if rateClass < 0 then .error .rateLeZero
  else if rateClass > 0 then .error .rateGtOne
  else if bitsRaw = 0 then .error .bitsZero
  else if bitsRaw > maxSize then .error .bitsTooLarge
  else .ok { m := bitsRaw, k := hashFunctions hashRaw }

/-! ### Specification used by oracle lines: plain set membership -/

/-- what the property demands of `Exists x` given the items added since the last
reset/delete: `true` if `x` was added; unconstrained otherwise -/
def specExists (added : List (Nat × Nat)) (x : Nat × Nat) : Option Bool :=
  if added.contains x then some true else none

end Rv.Bloom

/-! ### line-protocol formatting shared by the Bloom / CountingBloom / SlidingBloom drivers -/
namespace Rv.BloomFmt

def joinC (xs : List String) : String := ",".intercalate xs
def natsC (xs : List Nat) : String := joinC (xs.map toString)
/-- a Lua table of booleans as RESP: `true` ↦ integer 1, `false` ↦ nil -/
def boolsReply (bs : List Bool) : String := "*" ++ String.ofList (bs.map fun b => if b then '1' else '_')
def boolsAns (bs : List Bool) : String := String.ofList (bs.map fun b => if b then '1' else '0')

/-- `hexkey:h1:h2` -/
def parseItem (w : String) : Option (Nat × Nat) :=
  match w.splitOn ":" with
  | [_, a, b] => do
    let x ← a.toNat?
    let y ← b.toNat?
    pure (x, y)
  | _ => none

def parseNats (ws : List String) : Option (List Nat) := ws.mapM String.toNat?

/-- one logged server call: `name/keys/args/reply` -/
def call (name keys args reply : String) : String := name ++ "/" ++ keys ++ "/" ++ args ++ "/" ++ reply

end Rv.BloomFmt
