/-
Line-protocol helpers shared by every driver (core Lean only).
Byte strings travel hex-encoded; "-" stands for the empty string.
-/
namespace Rv.Hex

def hexDigit (n : Nat) : Char :=
  if n < 10 then Char.ofNat (48 + n) else Char.ofNat (87 + n)

def encode (bs : List UInt8) : String :=
  if bs.isEmpty then "-" else
  String.ofList (bs.flatMap fun b => [hexDigit (b.toNat / 16), hexDigit (b.toNat % 16)])

def nib (c : Char) : Option Nat :=
  if '0' ≤ c ∧ c ≤ '9' then some (c.toNat - 48)
  else if 'a' ≤ c ∧ c ≤ 'f' then some (c.toNat - 87)
  else none

def decodeChars : List Char → Option (List UInt8)
  | [] => some []
  | a :: b :: rest => do
      let x ← nib a
      let y ← nib b
      let r ← decodeChars rest
      pure (UInt8.ofNat (x * 16 + y) :: r)
  | _ => none

def decode (s : String) : Option (List UInt8) :=
  if s == "-" then some [] else decodeChars s.toList

def words (line : String) : List String :=
  (line.splitOn " ").filter (· ≠ "") |>.map fun s => (s.replace "\n" "").replace "\r" ""

/-- Run `f` on every stdin line and print its answer (one line in, one line out). -/
partial def lineLoop {σ : Type} (init : σ) (step : σ → List String → σ × String) : IO Unit := do
  let stdin ← IO.getStdin
  let stdout ← IO.getStdout
  let rec go (s : σ) : IO Unit := do
    let line ← stdin.getLine
    if line.isEmpty then
      stdout.flush
      return ()
    let ws := words line
    let (s', out) := step s ws
    stdout.putStrLn out
    go s'
  go init

end Rv.Hex
