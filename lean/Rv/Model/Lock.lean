/-
Model of /repo/rueidislock/lock.go (core Lean only).

Server: `n = 2m−1` registers `rueidislock:<i>:<name>` holding the random value of their owner
(TTL abstracted: `expire` events). Scripts (texts pinned in Rv/Props/C34.lean):
  acq   — SET key val NX PX(AT) …; GET key; return r          (`acqScript`)
  fcq   — SET key val PX(AT) …; GET key; return r              (`forceScript`)
  extend— if GET key == val then PEXPIREAT …; return 1 else 0   (`extendScript`)
  delkey— if GET key == val then DEL key (1) else 0             (`delScript`)
A holder is one invocation of `try` (one random `val`): per key a monitor goroutine
(`idle` → `running` while the key is believed owned → `exited`), the `released` counter
(= number of exited monitors), the lock context (`cancelled`), whether `try` handed the context
to the caller (`returned`), and — for WithContext — the waiter state (`parked`, the key that
refused it, the 1-buffered gate token).
Every event is one script execution or one client step; interleavings are event lists.
-/
namespace Rv.Lock

inductive Mon where
  | idle | running | exited
  deriving Repr, DecidableEq

structure Holder where
  mons : Nat → Mon := fun _ => .idle
  acquired : Nat := 0
  cancelled : Bool := false
  returned : Bool := false
  csc : Nat → Bool := fun _ => false   -- g.csc[i] (capacity 1): an invalidation of key i arrived since the last drain

/-- a WithContext caller between attempts (each attempt is a fresh holder with a fresh value) -/
structure Waiter where
  parked : Bool := false          -- the last attempt failed, waiting on g.ch
  blocked : Nat := 0              -- the key whose NX refused the attempt (tracked since its GET)
  token : Bool := false           -- g.ch (capacity 1)

structure Sys where
  m : Nat                          -- KeyMajority
  regs : Nat → Option Nat := fun _ => none
  hs : Nat → Holder := fun _ => {}   -- holders indexed by their random value
  ws : Nat → Waiter := fun _ => {}   -- WithContext callers

def Sys.n (s : Sys) : Nat := 2 * s.m - 1

def upd {α : Type} (f : Nat → α) (i : Nat) (v : α) : Nat → α := fun j => if j = i then v else f j

/-- number of indices below `n` satisfying `p` -/
def cnt : Nat → (Nat → Bool) → Nat
  | 0, _ => 0
  | n + 1, p => cnt n p + (if p n then 1 else 0)

/-! ### scripts on one register -/
def acqScript (v : Nat) (r : Option Nat) : Option Nat × Bool :=
  match r with
  | none => (some v, true)
  | some w => (some w, false)
def forceScript (v : Nat) (_ : Option Nat) : Option Nat × Bool := (some v, true)
def extendScript (v : Nat) (r : Option Nat) : Option Nat × Bool := (r, decide (r = some v))
def delScript (v : Nat) (r : Option Nat) : Option Nat × Bool :=
  if r = some v then (none, true) else (r, false)

/-! ### holder bookkeeping -/
def isRunning (h : Holder) (i : Nat) : Bool := h.mons i == .running
def isExited (h : Holder) (i : Nat) : Bool := h.mons i == .exited

/-- a monitor goroutine ends: `released++`, `cancel()` once `released >= majority` -/
def exitMon (m n : Nat) (h : Holder) (i : Nat) : Holder :=
  let h1 := { h with mons := upd h.mons i .exited }
  if cnt n (isExited h1) ≥ m then { h1 with cancelled := true } else h1

/-- `if atomic.AddInt32(&leaving, 1) >= m.majority { cancel() }` — the decision monitoring() takes
BEFORE its delkey (repair 04be27c): this monitor counts as leaving already -/
def preExit (m n : Nat) (h : Holder) (i : Nat) : Holder :=
  if cnt n (isExited { h with mons := upd h.mons i .exited }) ≥ m then { h with cancelled := true } else h

/-- register `i` was written: the invalidation reaches every waiter that tracks it (tracking
started with the GET of its refused attempt) and leaves a gate token (`select { case g.ch <- …:
default: }` on a channel of capacity 1). SCOPE: every waiter of `ws` has its own gate and its
connection is told about every write of the key it tracks — i.e. waiters of different Lockers,
none of which is the writer. Waiters that share one Locker (one gate channel, one connection) and
a writer on that same NOLOOP connection are NOT covered: the explicit gate send of monitoring()
happens only after a successful lock (`failures < majority`), so a failed attempt's own deletions
wake nobody — see `Sib` below and `Rv.C34.noloop_sibling_lost_wakeup_witness`. -/
def notify (ws : Nat → Waiter) (i : Nat) : Nat → Waiter :=
  fun w => if (ws w).parked = true ∧ (ws w).blocked = i then { ws w with token := true } else ws w

/-- a third party wrote or removed key i: every holder whose monitor of key i runs (its acquire
script read the key, so its connection tracks it) gets the notification in `g.csc[i]` -/
def signalCsc (hs : Nat → Holder) (i : Nat) : Nat → Holder :=
  fun v => if (hs v).mons i = .running then { hs v with csc := upd (hs v).csc i true } else hs v

inductive Ev where
  | acq (v i : Nat)          -- acquire script of holder v on key i (monitor i starts)
  | acqErr (v i : Nat)       -- the acquire script of v on key i fails with a server/network error (timeout):
                             -- the monitor starts with that error, runs delkey (the SET may have been applied) and ends
  | skip (v i : Nat)         -- key i is not attempted after an earlier ErrNotLocked (monitor starts and ends)
  | ret (v : Nat)            -- try returns the context to the caller
  | release (v : Nat)        -- the caller's cancel() / parent context done / failed try
  | mon (v i : Nat)          -- monitor i of v wakes (timer, invalidation, ctx.Done): extend or delkey
  | monErr (v i : Nat)       -- … and the extend script fails with a server/network error
  | force (v i : Nat)        -- ForceWithContext's script on key i
  | extdel (i : Nat)         -- another program deletes key i
  | expire (i : Nat)         -- key i expires
  | extset (i x : Nat)       -- another program writes key i (foreign value x)
  | park (w i : Nat)         -- WithContext attempt of w was refused at key i; it waits on the gate
  | wake (w : Nat)           -- the waiter takes the gate token and tries again (as a fresh attempt)
  | parkErr (w : Nat)        -- the waiter's attempt failed on server errors only (no key refused it, none read):
                             -- `try` returns the error, WithContext waits on the gate again, tracking nothing
  | gate (w : Nat)           -- explicit `g.ch <- struct{}{}` of monitoring() when a successful lock of the same
                             -- Locker has let go of all its keys and the gate has other users

def setH (s : Sys) (v : Nat) (h : Holder) : Sys := { s with hs := upd s.hs v h }

def next (s : Sys) : Ev → Sys
  | .acq v i =>
    let h := s.hs v
    if h.mons i = .idle ∧ i < s.n then
      -- `select { case <-ch: default: }` drains a stale notification BEFORE the acquire script is sent: what
      -- arrives after the script ran (between the server's execution and the reply) stays for the monitor
      match acqScript v (s.regs i) with
      | (r, true) => { s with regs := upd s.regs i r,
                              hs := upd s.hs v { h with mons := upd h.mons i .running, acquired := h.acquired + 1,
                                                        csc := upd h.csc i false } }
      | (_, false) => setH s v (exitMon s.m s.n h i)
    else s
  | .acqErr v i =>
    let h := s.hs v
    if h.mons i = .idle ∧ i < s.n then
      -- never acquired, but the monitor counts like any other when it leaves (`leaving`, `released`)
      let r := delScript v (s.regs i)
      { s with regs := upd s.regs i r.1, ws := if r.2 then notify s.ws i else s.ws,
               hs := upd s.hs v (exitMon s.m s.n h i) }
    else s
  | .skip v i =>
    let h := s.hs v
    if h.mons i = .idle ∧ i < s.n then setH s v (exitMon s.m s.n h i) else s
  | .ret v =>
    let h := s.hs v
    if h.acquired ≥ s.m ∧ h.cancelled = false then setH s v { h with returned := true } else s
  | .release v => setH s v { s.hs v with cancelled := true }
  | .mon v i =>
    let h := s.hs v
    if h.mons i = .running then
      if h.cancelled then
        -- ctx.Done(): delkey, then released++
        let r := delScript v (s.regs i)
        { s with regs := upd s.regs i r.1, ws := if r.2 then notify s.ws i else s.ws,
                 hs := upd s.hs v (exitMon s.m s.n h i) }
      else if (extendScript v (s.regs i)).2 then s
      else setH s v (exitMon s.m s.n h i)     -- ErrNotLocked: no delkey
    else s
  | .monErr v i =>
    let h := s.hs v
    if h.mons i = .running then
      -- `leaving++ >= majority → cancel()` (see `delState`), `if !errors.Is(err, ErrNotLocked) { delkey }`,
      -- then `released++` (and the late cancel(), which is idempotent)
      let r := delScript v (s.regs i)
      { s with regs := upd s.regs i r.1, ws := if r.2 then notify s.ws i else s.ws,
               hs := upd s.hs v (exitMon s.m s.n h i) }
    else s
  | .force v i =>
    let h := s.hs v
    if h.mons i = .idle ∧ i < s.n then
      { s with regs := upd s.regs i (some v), ws := notify s.ws i,
               hs := upd s.hs v { h with mons := upd h.mons i .running, acquired := h.acquired + 1 } }
    else s
  | .extdel i => { s with regs := upd s.regs i none, ws := if s.regs i = none then s.ws else notify s.ws i,
                          hs := signalCsc s.hs i }
  | .expire i => { s with regs := upd s.regs i none, ws := if s.regs i = none then s.ws else notify s.ws i,
                          hs := signalCsc s.hs i }
  | .extset i x => { s with regs := upd s.regs i (some x), ws := notify s.ws i, hs := signalCsc s.hs i }
  | .park w i =>
    -- the refused attempt read key i (held by somebody) inside the script: tracked from now on;
    -- a token that is already in the channel stays there
    if s.regs i ≠ none then { s with ws := upd s.ws w { s.ws w with parked := true, blocked := i } } else s
  | .parkErr w => { s with ws := upd s.ws w { s.ws w with parked := true, blocked := s.n } }
  | .gate w => { s with ws := upd s.ws w { s.ws w with token := true } }
  | .wake w =>
    let x := s.ws w
    if x.parked = true ∧ x.token = true then { s with ws := upd s.ws w { x with parked := false, token := false } } else s

/-- the state in which monitor `i` of `v` issues its DEL on the error path: after the `leaving`
decision, before the deletion (the event `monErr` is this decision, the DEL and `released++` in
one step; its end state is the same with or without the early decision) -/
def delState (s : Sys) (v i : Nat) : Sys := setH s v (preExit s.m s.n (s.hs v) i)

def run (s : Sys) : List Ev → Sys
  | [] => s
  | e :: r => run (next s e) r

/-- the events of the property's hypothesis: nobody forces, keys do not expire (holders extend in
time), nobody else deletes or writes keys, extends do not fail with server errors (an acquisition that
fails with an error, `acqErr`, is allowed) -/
def clean : Ev → Bool
  | .force _ _ | .extdel _ | .expire _ | .monErr _ _ | .extset _ _ => false
  | _ => true

/-- the one event after which a waiter is parked without tracking a held key: its attempt ended
with a server error instead of a refusal -/
def faultPark : Ev → Bool
  | .parkErr _ => true
  | _ => false

/-- a holder whose lock context is live in the caller's hands -/
def live (s : Sys) (v : Nat) : Bool := (s.hs v).returned && !(s.hs v).cancelled

/-- keys (below n) the holder's value still owns on the server -/
def owned (s : Sys) (v : Nat) : Nat := cnt s.n (fun i => decide (s.regs i = some v))

/-! ### key names: `keyname` and the parsing in onInvalidations

`keyname(prefix, name, i) = prefix + ":" + strconv.Itoa(i) + ":" + name`; onInvalidations takes a
pushed key `k` with `strings.HasPrefix(k, prefix)`, cuts `k[len(prefix)+1:]` (the byte after the
prefix is not looked at; a key that IS the prefix makes the slice expression panic), splits it with
`strings.SplitN(…, ":", 2)` — at the FIRST colon only, so the name may contain colons —, reads the
index with `strconv.Atoi` (error ignored: 0) and signals `g.csc[n]` and `g.ch` of the gate
registered under the name (an index outside the gate's channels panics). Strings are character
lists here (the driver maps byte b to the character with code b). -/
namespace KeyName

def keyname (p : List Char) (i : Nat) (n : List Char) : List Char := p ++ ':' :: (Nat.toDigits 10 i ++ ':' :: n)

/-- `strings.SplitN(s, ":", 2)` with `len(ks) == 2`: the parts before and after the first colon -/
def splitFirst : List Char → Option (List Char × List Char)
  | [] => none
  | c :: r => if c = ':' then some ([], r) else (splitFirst r).map fun ab => (c :: ab.1, ab.2)

def allDigits (d : List Char) : Bool := !d.isEmpty && d.all Char.isDigit

/-- `n, _ := strconv.Atoi(s)`: optional sign and decimal digits, anything else gives 0
(values beyond int64 are not modelled) -/
def atoi (a : List Char) : Int :=
  if a.head? = some '-' then (if allDigits a.tail then -((Nat.ofDigitChars 10 a.tail 0 : Nat) : Int) else 0)
  else if a.head? = some '+' then (if allDigits a.tail then ((Nat.ofDigitChars 10 a.tail 0 : Nat) : Int) else 0)
  else if allDigits a then ((Nat.ofDigitChars 10 a 0 : Nat) : Int) else 0

inductive Parsed where
  | ignored                                 -- not one of ours / no second part
  | panic                                   -- slice bounds out of range
  | hit (idx : Int) (name : List Char)
  deriving Repr, DecidableEq

def parseKey (p k : List Char) : Parsed :=
  if p.isPrefixOf k then
    if k.length < p.length + 1 then .panic
    else match splitFirst (k.drop (p.length + 1)) with
      | some (a, b) => .hit (atoi a) b
      | none => .ignored
  else .ignored

inductive Signal where
  | none | panic | gate (idx : Nat)
  deriving Repr, DecidableEq

/-- what onInvalidations does for one pushed key when a gate for `name` with `total` per-key
channels exists -/
def signal (p name : List Char) (total : Nat) (k : List Char) : Signal :=
  match parseKey p k with
  | .ignored => .none
  | .panic => .panic
  | .hit idx nm =>
    if nm = name then (if 0 ≤ idx ∧ idx < total then .gate idx.toNat else .panic) else .none

end KeyName

/-! ### several WithContext waiters of ONE Locker (one gate channel, one connection)

A small machine for exactly that configuration (KeyMajority 2, three keys): the gate channel
`token`, the keys the shared connection tracks, the number of parked waiters, and the steps of
onInvalidations / WithContext / a failing `try` as the connection sees them. `noloop` is the
Locker's NoLoopTracking option: the connection's own writes are then not notified (Redis drops
the tracking entry of the written key for everybody and tells everybody but the writer). -/
namespace Sib

structure St where
  noloop : Bool
  regs : List (Option Nat) := [some 1, some 1, some 1]   -- held by a holder of another Locker
  tracked : List Nat := []
  token : Bool := false
  parked : Nat := 0
  live : Nat := 0            -- lock contexts handed out to waiters
  deriving Repr, DecidableEq

inductive Ev where
  | park (i : Nat)           -- a waiter's attempt is refused at key i (GET inside the script: tracked); it parks
  | otherDel (i : Nat)       -- the other Locker's holder deletes key i
  | wake                     -- a parked waiter takes the gate token and starts an attempt
  | ownAcq (v i : Nat)       -- the attempt acquires key i (own SET NX, then GET: tracked)
  | ownRefused (i : Nat)     -- the attempt is refused at key i (tracked)
  | ownDel (v i : Nat)       -- the failed attempt's monitor deletes key i again (own write)
  | repark                   -- the failed attempt is over (failures >= majority: no gate send); the waiter parks
  | success                  -- the attempt got its majority: the waiter returns with the lock
  deriving Repr, DecidableEq

/-- a write of key i by `own` connection or by somebody else: the tracking entry is consumed; the
gate gets a token unless it was the connection's own write under NOLOOP -/
def written (s : St) (i : Nat) (own : Bool) : St :=
  if i ∈ s.tracked then
    { s with tracked := s.tracked.filter (· ≠ i), token := s.token || !(own && s.noloop) }
  else s

def track (s : St) (i : Nat) : St := if i ∈ s.tracked then s else { s with tracked := i :: s.tracked }

def next (s : St) : Ev → St
  | .park i => { track s i with parked := s.parked + 1 }
  | .otherDel i => written { s with regs := s.regs.set i none } i false
  | .wake => if s.token ∧ 0 < s.parked then { s with token := false, parked := s.parked - 1 } else s
  | .ownAcq v i => track (written { s with regs := s.regs.set i (some v) } i true) i
  | .ownRefused i => track s i
  | .ownDel v i =>
    if s.regs[i]? = some (some v) then written { s with regs := s.regs.set i none } i true else s
  | .repark => { s with parked := s.parked + 1 }
  | .success => { s with live := s.live + 1 }

def run (s : St) : List Ev → St
  | [] => s
  | e :: r => run (next s e) r

/-- one whole attempt of a woken waiter with value v on the canonical schedule -/
def attempt (s : St) (v : Nat) : St :=
  let rec go (s : St) (i : Nat) (fuel : Nat) (got : List Nat) : St × List Nat × Bool :=
    match fuel with
    | 0 => (s, got, true)
    | f + 1 =>
      if i ≥ s.regs.length then (s, got, true)
      else if s.regs[i]? = some none then go (next s (.ownAcq v i)) (i + 1) f (i :: got)
      else (next s (.ownRefused i), got, false)
  let (s1, got, ok) := go s 0 s.regs.length []
  if ok then next s1 .success
  else next (got.foldl (fun t i => next t (.ownDel v i)) s1) .repark

/-- waiters take tokens and attempt until no token is left or nobody is parked -/
def settle (s : St) : Nat → Nat → St
  | 0, _ => s
  | fuel + 1, v => if s.token ∧ 0 < s.parked then settle (attempt (next s .wake) v) fuel (v + 1) else s

/-- the schedule the harness fixes with gates: both waiters parked on key 0; the holder deletes
key 0 (waiter A wakes, takes key 0, is refused at key 1, its cleanup is held back); the holder
deletes key 1 (waiter B wakes, is refused at key 0 by A, parks); the holder deletes key 2; A's
cleanup deletes key 0 and A parks -/
def schedule : List Ev :=
  [.park 0, .park 0, .otherDel 0, .wake, .ownAcq 7 0, .ownRefused 1, .otherDel 1, .wake, .ownRefused 0, .repark,
   .otherDel 2, .ownDel 7 0, .repark]

end Sib

end Rv.Lock
