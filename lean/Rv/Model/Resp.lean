/-
Model of /repo/resp.go: the RESP2/RESP3 reader (`readNextMessage` and the
`readers` table), transcribed branch by branch. The input is the list of all
bytes that will ever arrive (then EOF). `bufSize` is the bufio.Reader size
(it only matters for `ReadSlice` in `readI`: a number line longer than the
buffer is `bufio.ErrBufferFull`). Allocation sites (`make`, `Builder.Grow`)
are explicit: a negative request is the Go runtime panic, a request far beyond
what has been received is `oom`. Core Lean only.
-/
import Rv.Model.Msg
namespace Rv.Resp

/-- int64 wrap-around -/
@[irreducible] def wrap64 (v : Int) : Int := (v + 9223372036854775808) % 18446744073709551616 - 9223372036854775808

/-- bytes reserved upfront for a declared blob length (`maxPreallocBytes`) -/
def capBytes : Nat := 65536
/-- elements reserved upfront for a declared aggregate length (`maxPreallocMsgs`) -/
def capMsgs : Nat := 1024

/-- an allocation request of `req` units when `received` units of that buffer have arrived -/
def alloc (req : Int) (received cap : Nat) : Res Unit :=
  if req < 0 then .panic
  else if req.toNat > max cap received then .oom
  else .ok ()

/-- split at the first '\n': (line including the '\n', rest) -/
def splitLine : List UInt8 → Option (List UInt8 × List UInt8)
  | [] => none
  | b :: bs => if b = 10 then some ([b], bs) else
    match splitLine bs with
    | none => none
    | some (l, r) => some (b :: l, r)

/-- digit loop of `readI`: `d := int64(c - '0'); d >= 0 && d <= 9` on a byte -/
def digitsVal : List UInt8 → Int → Res Int
  | [], v => .ok v
  | c :: cs, v =>
    let d := (c - 48).toNat
    if d ≤ 9 then digitsVal cs (wrap64 (v * 10 + d))
    else .err ("numbyte:" ++ toString c.toNat)

/-- result of `readI`: a number, `errChunked` (the `?` line, consumed), or an error -/
inductive IRes where
  | num (v : Int) (rest : List UInt8)
  | chunked (rest : List UInt8)
  | fail (e : String)

/-- `readI`: ReadSlice('\n'), length/`?`/sign handling, digit loop, `v * s` -/
def readI (bufSize : Nat) (bs : List UInt8) : IRes :=
  match splitLine bs with
  | none => .fail "io"
  | some (line, rest) =>
    if line.length > bufSize then .fail "io"
    else if line.length < 3 then .fail "nocrlf"
    else if line.head? = some 63 then .chunked rest
    else
      let neg := line.head? = some 45
      let body := if neg then line.tail else line
      match digitsVal (body.take (body.length - 2)) 0 with
      | .ok v => .num (wrap64 (if neg then -v else v)) rest
      | .err e => .fail e
      | .panic => .fail "unreachable"
      | .oom => .fail "unreachable"

/-- growth loop of the repaired `readB`: while len(bs) < length, append min(length-n, n) more -/
def grow : Nat → Nat → Nat → Nat → Res Unit
  | 0, _, _, _ => .ok ()
  | f + 1, n, len, avail =>
    if n < len then
      match alloc (min (len - n) n : Nat) n capBytes with
      | .ok _ => if avail < n + min (len - n) n then .err "io" else grow f (n + min (len - n) n) len avail
      | .err e => .err e
      | .panic => .panic
      | .oom => .oom
    else .ok ()

/-- result of `readB` -/
inductive BRes where
  | str (s : List UInt8) (rest : List UInt8)
  | oldNull (rest : List UInt8)
  | chunked (rest : List UInt8)
  | fail (r : Res Unit)      -- err / panic / oom

/-- the repaired `readB` -/
def readB (bufSize : Nat) (bs : List UInt8) : BRes :=
  match readI bufSize bs with
  | .fail e => .fail (.err e)
  | .chunked r => .chunked r
  | .num len r =>
    if len = -1 then .oldNull r
    else if len < 0 then .fail (.err "neglen")
    else
      let n := len.toNat
      let n0 := min n capBytes
      match alloc n0 0 capBytes with
      | .err e => .fail (.err e)
      | .panic => .fail .panic
      | .oom => .fail .oom
      | .ok _ =>
        if r.length < n0 then .fail (.err "io") else
        match grow n n0 n r.length with
        | .err e => .fail (.err e)
        | .panic => .fail .panic
        | .oom => .fail .oom
        | .ok _ =>
          if (r.drop n).length < 2 then .fail (.err "io")
          else .str (r.take n) (r.drop (n + 2))

/-- chunk loop of `readBlobString` after `$?\r\n`; fuel bounds the number of chunks -/
def readChunks (bufSize : Nat) : Nat → List UInt8 → List UInt8 → Res (List UInt8 × List UInt8)
  | 0, _, _ => .err "fuel"
  | f + 1, acc, bs =>
    match bs with
    | [] => .err "io"
    | _ :: bs1 =>   -- Discard(1): the ';' is not checked
      match readI bufSize bs1 with
      | .fail e => .err e
      | .chunked _ => .err "chunked"
      | .num len r =>
        if len = 0 then .ok (acc, r)
        else if len < 0 then .err "neglen"
        else
          match alloc (min len capBytes) 0 capBytes with
          | .err e => .err e
          | .panic => .panic
          | .oom => .oom
          | .ok _ =>
            let n := len.toNat
            if r.length < n then .err "io"
            else if (r.drop n).length < 2 then .err "io"
            else readChunks bufSize f (acc ++ r.take n) (r.drop (n + 2))

/-- `readS`: ReadBytes('\n'), strip the last two bytes -/
def readS (bs : List UInt8) : Res (List UInt8 × List UInt8) :=
  match splitLine bs with
  | none => .err "io"
  | some (line, rest) =>
    if line.length < 2 then .err "nocrlf"
    else .ok (line.take (line.length - 2), rest)

inductive RK where
  | blob | simple | integer | null | bool | array | map
  deriving DecidableEq, Repr

/-- the `readers` table -/
def readerOf (t : UInt8) : Option RK :=
  if t = 36 ∨ t = 33 ∨ t = 61 then some .blob          -- $ ! =
  else if t = 43 ∨ t = 45 ∨ t = 44 ∨ t = 40 then some .simple   -- + - , (
  else if t = 58 then some .integer                    -- :
  else if t = 95 ∨ t = 46 then some .null              -- _ .
  else if t = 35 then some .bool                       -- #
  else if t = 42 ∨ t = 126 ∨ t = 62 then some .array   -- * ~ >
  else if t = 37 ∨ t = 124 then some .map              -- % |
  else none

def discard2 (bs : List UInt8) : Res (List UInt8) :=
  if bs.length < 2 then .err "io" else .ok (bs.drop 2)

/-- guard and pre-allocation at the head of the repaired `readA` -/
def preFixed (len : Int) : Res Unit :=
  if len < 0 then .err "neglen" else alloc (min len capMsgs) 0 capMsgs

def wrapFixed (t : UInt8) (len : Int) : Res (List Msg × List UInt8) → Res (Option Msg × List UInt8)
  | .ok (xs, r') => .ok (some (Msg.mk t [] len xs []), r')
  | .err e => .err e
  | .panic => .panic
  | .oom => .oom

def wrapStream (t : UInt8) : Res (List Msg × List UInt8) → Res (Option Msg × List UInt8)
  | .ok (xs, r') => .ok (some (Msg.agg t xs), r')
  | .err e => .err e
  | .panic => .panic
  | .oom => .oom

/-- `readA(i, length)`: guard, pre-allocation, element loop `k`, wrapped into the caller's message -/
def fixedBody (t : UInt8) (len : Int) (k : Nat → Res (List Msg × List UInt8)) : Res (Option Msg × List UInt8) :=
  match preFixed len with
  | .ok _ => wrapFixed t len (k len.toNat)
  | .err e => .err e
  | .panic => .panic
  | .oom => .oom

/-- body of `readArray` given the result of `readI`; `kA` is the element loop, `kE` the streamed loop -/
def arrCase (t : UInt8) (ri : IRes) (kA : Nat → List UInt8 → Res (List Msg × List UInt8))
    (kE : List UInt8 → Res (List Msg × List UInt8)) : Res (Option Msg × List UInt8) :=
  match ri with
  | .num len r => if len = -1 then .ok (none, r) else fixedBody t len (fun n => kA n r)
  | .chunked r0 => wrapStream t (kE r0)
  | .fail e => .err e

/-- body of `readMap`: `readA(i, length*2)` with the int64 product -/
def mapCase (t : UInt8) (ri : IRes) (kA : Nat → List UInt8 → Res (List Msg × List UInt8))
    (kE : List UInt8 → Res (List Msg × List UInt8)) : Res (Option Msg × List UInt8) :=
  match ri with
  | .num len r => fixedBody t (wrap64 (len * 2)) (fun n => kA n r)
  | .chunked r0 => wrapStream t (kE r0)
  | .fail e => .err e

mutual
/-- `readNextMessage` (the loop over attribute frames is the recursive call) -/
def readNext (bufSize : Nat) : Nat → List Msg → List UInt8 → Res (Msg × List UInt8)
  | 0, _, _ => .err "fuel"
  | _ + 1, _, [] => .err "io"
  | f + 1, attrs, t :: bs =>
    match readerOf t with
    | none => .err ("unknowntype:" ++ toString t.toNat)
    | some rk =>
      match readBody bufSize f t rk bs with
      | .err e => .err e
      | .panic => .panic
      | .oom => .oom
      | .ok (none, r) => .ok (Msg.null, r)      -- errOldNull: attrs are dropped
      | .ok (some m, r) =>
        if t = 124 then readNext bufSize f [m] r
        else .ok (m.withAttr attrs, r)

/-- the type-specific reader; `none` is `errOldNull` -/
def readBody (bufSize : Nat) : Nat → UInt8 → RK → List UInt8 → Res (Option Msg × List UInt8)
  | _, t, .blob, bs =>
    match readB bufSize bs with
    | .oldNull r => .ok (none, r)
    | .str s r => .ok (some (Msg.leafStr t s), r)
    | .chunked r0 =>
      match readChunks bufSize (r0.length + 1) [] r0 with
      | .ok (s, r) => .ok (some (Msg.leafStr t s), r)
      | .err e => .err e
      | .panic => .panic
      | .oom => .oom
    | .fail (.err e) => .err e
    | .fail .panic => .panic
    | .fail .oom => .oom
    | .fail (.ok _) => .err "unreachable"
  | _, t, .simple, bs =>
    match readS bs with
    | .ok (s, r) => .ok (some (Msg.leafStr t s), r)
    | .err e => .err e
    | .panic => .panic
    | .oom => .oom
  | _, t, .integer, bs =>
    match readI bufSize bs with
    | .num v r => .ok (some (Msg.leafInt t v), r)
    | .chunked _ => .err "chunked"
    | .fail e => .err e
  | _, t, .null, bs =>
    match discard2 bs with
    | .ok r => .ok (some (Msg.leafInt t 0), r)
    | .err e => .err e
    | .panic => .panic
    | .oom => .oom
  | _, t, .bool, bs =>
    match bs with
    | [] => .err "io"
    | b :: r0 =>
      match discard2 r0 with
      | .ok r => .ok (some (Msg.leafInt t (if b = 116 then 1 else 0)), r)
      | .err e => .err e
      | .panic => .panic
      | .oom => .oom
  | 0, _, .array, _ => .err "fuel"
  | 0, _, .map, _ => .err "fuel"
  | f + 1, t, .array, bs =>
    arrCase t (readI bufSize bs) (fun n r => readArr bufSize f n r) (fun r0 => readEnd bufSize f [] r0)
  | f + 1, t, .map, bs =>
    mapCase t (readI bufSize bs) (fun n r => readArr bufSize f n r) (fun r0 => readEnd bufSize f [] r0)

/-- the element loop of `readA` -/
def readArr (bufSize : Nat) : Nat → Nat → List UInt8 → Res (List Msg × List UInt8)
  | _, 0, bs => .ok ([], bs)
  | 0, _ + 1, _ => .err "fuel"
  | f + 1, n + 1, bs =>
    match readNext bufSize f [] bs with
    | .ok (m, r) =>
      match readArr bufSize f n r with
      | .ok (ms, r') => .ok (m :: ms, r')
      | .err e => .err e
      | .panic => .panic
      | .oom => .oom
    | .err e => .err e
    | .panic => .panic
    | .oom => .oom

/-- `readE`: elements until a message of type '.' -/
def readEnd (bufSize : Nat) : Nat → List Msg → List UInt8 → Res (List Msg × List UInt8)
  | 0, _, _ => .err "fuel"
  | f + 1, acc, bs =>
    match readNext bufSize f [] bs with
    | .ok (m, r) => if m.typ = 46 then .ok (acc.reverse, r) else readEnd bufSize f (m :: acc) r
    | .err e => .err e
    | .panic => .panic
    | .oom => .oom
end

/-- decode one reply from a byte stream; fuel is generous (every recursive call
    consumes at least one input byte) -/
def decode (bufSize : Nat) (bs : List UInt8) : Res (Msg × List UInt8) :=
  readNext bufSize (2 * bs.length + 4) [] bs

end Rv.Resp
