/-
Model of the cache identity of a cacheable command:
/repo/internal/cmds/cmds.go `CacheKey`, `MGetCacheCmd`, `MGetCacheKey`, and the address the
SimpleCache adapter uses (/repo/cache.go: `a.store.Get(key + cmd)`, `Set(key+cmd, …)`,
`Del(key + cmd)`). The built-in LRU store addresses entries by the pair (key, cmd)
(`store[key].cache[cmd]`). Tokens are byte strings; a command is its argv `cs.s`.
Index expressions that can panic in Go are explicit. Core Lean only.
-/
import Rv.Model.Msg
namespace Rv.CacheKey

/-- bytes of an ASCII literal -/
def b (s : String) : List UInt8 := s.toList.map (fun c => UInt8.ofNat c.toNat)

/-- `key = v` for `i == kp` (stays "" when there is no such index) -/
def keyOf (kp : Nat) (s : List (List UInt8)) : List UInt8 := s.getD kp []

/-- the `strings.Builder` loop: every token except index `kp`, concatenated -/
def cmdOf (kp : Nat) (s : List (List UInt8)) : List UInt8 := (s.eraseIdx kp).flatten

/-- `CacheKey(c)`; `scrRo` is `c.cf&scrRoTag == scrRoTag` (EVAL_RO / EVALSHA_RO / FCALL_RO) -/
def cacheKey (scrRo : Bool) (s : List (List UInt8)) : Res (List UInt8 × List UInt8) :=
  match s with
  | [c, k] => .ok (k, c)                          -- len(c.cs.s) == 2
  | _ =>
    if scrRo then
      match s[2]? with
      | none => .panic                            -- c.cs.s[2]: index out of range
      | some n => if n = [49] then .ok (keyOf 3 s, cmdOf 3 s) else .panic   -- panic(multiKeyCacheErr)
    else .ok (keyOf 1 s, cmdOf 1 s)

/-- `MGetCacheCmd(c)` -/
def mgetCacheCmd (s : List (List UInt8)) : Res (List UInt8) :=
  match s with
  | [] => .panic                                  -- c.cs.s[0]
  | [] :: _ => .panic                             -- c.cs.s[0][0]
  | (c0 :: _) :: _ =>
    if c0 = 74 then .ok (b "JSON.GET" ++ s.getLast?.getD []) else .ok (b "GET")

/-- `MGetCacheKey(c, i)` -/
def mgetCacheKey (s : List (List UInt8)) (i : Nat) : Res (List UInt8) :=
  match s[i + 1]? with
  | none => .panic
  | some k => .ok k

/-- the adapter's SimpleCache address of an entry -/
def adapterAddr (key cmd : List UInt8) : List UInt8 := key ++ cmd

end Rv.CacheKey
