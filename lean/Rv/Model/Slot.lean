/-
Model of internal/cmds/slot.go: `crc16` (table driven) and `slot` (hash tag
scan written as the two index loops of the Go code). Core Lean only.
-/
import Rv.Gen.Crc16Table
namespace Rv.Slot

abbrev W := BitVec 16

/-- table lookup `crc16tab[i]` (Go indexes a [256]uint16 with a uint8: always in range) -/
def tab (i : Nat) : W := BitVec.ofNat 16 (Rv.Gen.crc16tab.getD i 0)

/-- one iteration of the Go loop body:
    `crc = (crc << 8) ^ crc16tab[(uint8(crc>>8)^key[i])&0x00FF]` -/
def stepTab (crc : W) (b : UInt8) : W :=
  (crc <<< 8) ^^^ tab ((((crc >>> 8).toNat % 256) ^^^ b.toNat) % 256)

def crc16 (key : List UInt8) : W := key.foldl stepTab 0

/-- first index `i ≥ s` with `key[i] = c`, or `len key` (the Go `for ; s < len; s++ { if key[s]==c break }`) -/
def scan (c : UInt8) : List UInt8 → Nat → Nat
  | [], s => s
  | x :: xs, s => if x = c then s else scan c xs (s + 1)

/-- `slot` as written: s = index of first '{' (or len); e = index of first '}' from s+1 (or len). -/
def slot (key : List UInt8) : Nat :=
  let s := scan 123 key 0
  if s = key.length then (crc16 key).toNat % 16384 else
  let e := scan 125 (key.drop (s + 1)) (s + 1)
  if e = key.length ∨ e = s + 1 then (crc16 key).toNat % 16384
  else (crc16 ((key.drop (s + 1)).take (e - (s + 1)))).toNat % 16384

/-! Key-slot bookkeeping of the builders (`ks` field). `InitSlot = 1<<14`, `NoSlot = 1<<15`. -/
def initSlot : Nat := 16384
def noSlot : Nat := 32768

/-- `check(prev, new)`: `none` is the Go `panic(multiKeySlotErr)` -/
def check (prev new : Nat) : Option Nat :=
  if prev = initSlot ∨ prev = new then some new else none

/-- body of every generated key method (and of one `Arbitrary.Keys(k)` call):
    `if ks&NoSlot == NoSlot { ks = NoSlot | slot(key) } else { ks = check(ks, slot(key)) }` -/
def keyStep (ks : Nat) (key : List UInt8) : Option Nat :=
  if ks / noSlot % 2 = 1 then some (noSlot + slot key) else check ks (slot key)

def keyFold (ks : Nat) : List (List UInt8) → Option Nat
  | [] => some ks
  | k :: rest => match keyStep ks k with
    | none => none
    | some ks' => keyFold ks' rest

end Rv.Slot
