/-
Model of how a pipe tears down (pipe.go `_backgroundRead` deferred handler and the
drain loop of `_background`) and of the client retry loops that consume its results
(client.go singleClient.Do/DoMulti/DoCache/Receive; the other clients have the same
`errConnExpired` branch). A *batch* is one queue entry (a Do or a whole DoMulti).
Core Lean only.
-/
namespace Rv.Teardown

/-- what a caller of the pipe gets back for one batch -/
inductive Res where
  | reply                -- the server's replies
  | transport            -- I/O error, deadline, closed connection … (the read error `rerr`)
  | expired              -- errConnExpired: "safe to re-send transparently"
  | closing              -- ErrClosing / latched non-expiry error
  deriving Repr, DecidableEq

/-- why the connection is torn down (`p.Error()`) -/
inductive Why where
  | expired | broken | closing
  deriving Repr, DecidableEq

/-- one pending queue entry at teardown; `written` = it was handed to `_backgroundWrite` -/
structure Entry where
  id : Nat
  written : Bool
  deriving Repr, DecidableEq

/-- `resp`/`sent` of the drain loop -/
def latched : Why → Res
  | .expired => .expired
  | .broken => .transport
  | .closing => .closing
def sentRes : Why → Res
  | .expired => .transport      -- `if err == errConnExpired && rerr != nil { sent = NewErrorResult(rerr) }`
  | .broken => .transport
  | .closing => .closing

structure Drain where
  why : Why
  rcnt : Nat          -- batches fetched with NextResultCh so far
  wcnt : Nat          -- batches the writer dequeued (final once `closed`)
  closed : Bool       -- `p.close` observed closed (the writer has exited)
  pending : List Entry
  out : List (Nat × Res) := []
  deriving Repr

/-- the in-flight batch of `_backgroundRead` (already fetched, hence written): always the transport error -/
def inflightRes (_ : Why) : Res := .transport

/-- the writer exits: from now on the drain loop itself may move entries to the result side -/
def Drain.close (d : Drain) : Drain := { d with closed := true }

/-- one productive iteration of the drain loop. An unwritten head can only be fetched after
    `p.close` is closed (the loop calls NextWriteCmd itself only then). -/
def Drain.fetch (d : Drain) : Option Drain :=
  match d.pending with
  | [] => none
  | e :: rest =>
    if !e.written && !d.closed then none       -- not yet fetchable: mark is still 1
    else
      let r := if !d.closed || d.rcnt < d.wcnt then sentRes d.why else latched d.why
      some { d with rcnt := d.rcnt + 1, pending := rest, out := d.out ++ [(e.id, r)] }

/-- FIFO well-formedness at teardown (C02): written entries precede unwritten ones, and the
    counters agree with the number of written entries still pending -/
def WF (d : Drain) : Prop :=
  ∃ ws us, d.pending = ws ++ us ∧ (∀ e ∈ ws, e.written = true) ∧ (∀ e ∈ us, e.written = false) ∧
    d.rcnt + ws.length = d.wcnt

/-! ### client loop (one call) -/

/-- what one attempt of `conn.Do` / `conn.DoMulti` does with the caller's batch -/
inductive Attempt where
  | handed (r : Res)       -- the batch reached a writer; result `r`
  | refused (r : Res)      -- it never reached a writer (state 2/3, dial error, done ctx …); result `r`
  deriving Repr, DecidableEq

structure LoopCfg where
  retryable : Bool      -- cmd.IsRetryable() (read-only or marked retryable)
  retryOn : Bool        -- c.retry (DisableRetry = false) ∧ policy allows (delay ≥ 0, ctx live, not closed)
  deriving Repr

/-- singleClient.Do's decision after an attempt: `goto retry`? -/
def again (cfg : LoopCfg) : Res → Bool
  | .expired => true                                   -- `if err == errConnExpired { goto retry }`
  | .transport => cfg.retryOn && cfg.retryable         -- isRetryable(err): non-Redis error
  | .closing => false                                  -- atomic stop flag / ErrClosing is not retried
  | .reply => false

/-- run the loop over the environment's attempt outcomes; returns how often the batch reached a writer -/
def handedCount (cfg : LoopCfg) : List Attempt → Nat
  | [] => 0
  | .handed r :: rest => 1 + (if again cfg r then handedCount cfg rest else 0)
  | .refused r :: rest => if again cfg r then handedCount cfg rest else 0

end Rv.Teardown
