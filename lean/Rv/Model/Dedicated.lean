/-!
Model of dedicated clients (C25): client.go `dedicatedSingleClient` (check / release / Close and
the checked methods), `mux.Store`'s cleanup sequence and `pipe.CleanSubscriptions`' decision.
Core Lean only.
-/
namespace Rv.Dedicated

/-- which PubSubHooks fields are set (only nil-ness matters) -/
structure Hooks where
  msg : Bool := false
  sub : Bool := false
  inv : Bool := false
  deriving DecidableEq, Repr

def Hooks.isZero (h : Hooks) : Bool := !h.msg && !h.sub && !h.inv

/-- calls on the wire / the pool, in the order they are made -/
inductive Call
  | wDo | wMulti (n : Nat) | wReceive
  | wGetHooks | wSetHooks (h : Hooks) | wClean | wTrackingOff | wClose
  | poolStore
  | poolDiscard   -- pool.Store of a wire whose Error() != nil: `p.size--; v.Close()`
  deriving DecidableEq, Repr

/-- `mux.Store(w)`: read the hooks, reset them, CleanSubscriptions, CLIENT TRACKING OFF when an
    invalidation callback was installed, then hand the wire back to the pool -/
def storeSeq (wireHooks : Hooks) : List Call :=
  [.wGetHooks, .wSetHooks {}, .wClean] ++ (if wireHooks.inv then [.wTrackingOff] else []) ++ [.poolStore]

inductive Op
  | do_ | doMulti (n : Nat) | receive | setHooks (h : Hooks) | setInv (on : Bool) | close | release
  deriving DecidableEq, Repr

/-- what the caller gets back: a normal result, ErrDedicatedClientRecycled, nothing (void), or the
    nil slice of `DoMulti()` with no commands (returned before the check) -/
inductive Ret | ok | recycled | void | nilEmpty
  deriving DecidableEq, Repr

structure St where
  mark : Bool := false       -- c.mark != 0
  hooks : Hooks := {}        -- hooks currently installed on the wire
  deriving DecidableEq, Repr

/-- `release()`: CompareAndSwap(mark, 0, 1) then `conn.Store(wire)` -/
def release (st : St) : St × List Call :=
  if st.mark then (st, []) else ({ mark := true, hooks := {} }, storeSeq st.hooks)

def step (st : St) : Op → St × List Call × Ret
  | .do_ => if st.mark then (st, [], .recycled) else (st, [.wDo], .ok)
  | .doMulti n =>
    if n == 0 then (st, [], .nilEmpty)
    else if st.mark then (st, [], .recycled) else (st, [.wMulti n], .ok)
  | .receive => if st.mark then (st, [], .recycled) else (st, [.wReceive], .ok)
  | .setHooks h => if st.mark then (st, [], .recycled) else ({ st with hooks := h }, [.wSetHooks h], .ok)
  | .setInv on =>
    if st.mark then (st, [], .recycled)
    else ({ st with hooks := { st.hooks with inv := on } }, [.wGetHooks, .wSetHooks { st.hooks with inv := on }], .ok)
  | .close =>
    -- `if CompareAndSwap(mark, 0, 1) { c.wire.Close(); c.conn.Store(c.wire) }` (fix: d3f54a6; before it
    -- `c.wire.Close(); c.release()` closed the wire even after the client had been recycled)
    if st.mark then (st, [], .void) else ({ mark := true, hooks := {} }, .wClose :: storeSeq st.hooks ++ [.poolDiscard], .void)
  | .release => let (st', cs) := release st; (st', cs, .void)

def run : St → List Op → List (List Call × Ret)
  | _, [] => []
  | st, op :: ops => ((step st op).2.1, (step st op).2.2) :: run (step st op).1 ops

def stateAfter : St → List Op → St
  | st, [] => st
  | st, op :: ops => stateAfter (step st op).1 ops

/-! ### the shared client's blocking path (mux.go blocking / blockingMulti)

`wire := pool.Acquire(ctx); resp = wire.Do(ctx, cmd); if resp.NonRedisError() != nil { wire.Close() };
pool.Store(wire)`: a command that returned early for ANY non-Redis reason — also a cancelled context
on a perfectly healthy pipe — may still be pending on the connection, so the wire is closed and the
pool discards it instead of handing it to the next Dedicate(). -/

/-- `early`: the command returned a non-Redis error (context cancelled / deadline, transport error) -/
def blockingCalls (early : Bool) : List Call :=
  [.wDo] ++ (if early then [.wClose] else []) ++ [.poolStore] ++ (if early then [.poolDiscard] else [])

/-- does the wire stay in the pool (available to the next Acquire) after the call -/
def blockingKeepsWire (early : Bool) : Bool := !(blockingCalls early).contains .poolDiscard

/-! ### the cluster client's dedicated client (cluster.go dedicatedClusterClient)

The wire is acquired lazily by the first command (`acquire`), hooks set before that are kept pending
(`c.pshks`) and installed at acquisition; release/Close set the mark but KEEP `c.wire`. Every method
looks at the mark before it touches the wire. -/

structure CSt where
  mark : Bool := false
  hasWire : Bool := false             -- c.wire != nil
  pending : Option Hooks := none      -- c.pshks
  hooks : Hooks := {}                 -- hooks installed on the wire
  deriving DecidableEq, Repr

/-- `acquire`: recycled clients are refused; the first call picks a wire and installs pending hooks -/
def cacquire (st : CSt) : Option (CSt × List Call) :=
  if st.mark then none
  else if st.hasWire then some (st, [])
  else match st.pending with
    | some h => some ({ st with hasWire := true, pending := none, hooks := h }, [.wSetHooks h])
    | none => some ({ st with hasWire := true }, [])

def crelease (st : CSt) : CSt × List Call :=
  if st.mark then (st, [])
  else ({ st with mark := true, pending := none }, if st.hasWire then storeSeq st.hooks else [])

def csetHooks (st : CSt) (h : Hooks) : CSt × List Call × Ret :=
  if st.mark then (st, [], .recycled)
  else if st.hasWire then ({ st with pending := none, hooks := h }, [.wSetHooks h], .ok)
  else if h.isZero then ({ st with pending := none }, [], .ok)
  else ({ st with pending := some h }, [], .ok)

def cstep (st : CSt) : Op → CSt × List Call × Ret
  | .do_ => match cacquire st with
    | none => (st, [], .recycled)
    | some (st1, cs) => (st1, cs ++ [.wDo], .ok)
  | .doMulti n =>
    if n == 0 then (st, [], .nilEmpty) else
    match cacquire st with
    | none => (st, [], .recycled)
    | some (st1, cs) => (st1, cs ++ [.wMulti n], .ok)
  | .receive => match cacquire st with
    | none => (st, [], .recycled)
    | some (st1, cs) => (st1, cs ++ [.wReceive], .ok)
  | .setHooks h => csetHooks st h
  | .setInv on =>
    -- reads the current hooks first (`c.wire.GetPubSubHooks()`, a read, also on a recycled client)
    let cur := if st.hasWire then st.hooks else st.pending.getD {}
    let r := csetHooks st { cur with inv := on }
    (r.1, (if st.hasWire then [.wGetHooks] else []) ++ r.2.1, r.2.2)
  | .close =>
    let cs := if st.hasWire && !st.mark then [.wClose] else []
    let r := crelease st
    (r.1, cs ++ r.2 ++ (if st.hasWire && !st.mark then [.poolDiscard] else []), .void)
  | .release => let r := crelease st; (r.1, r.2, .void)

/-- calls that change something on the wire (everything except reading the hooks) -/
def Call.mutates : Call → Bool
  | .wGetHooks => false
  | _ => true

/-! ### the retry loop of Do / DoMulti / Receive

`retry: if err := c.check(); err != nil { return err }; resp = c.wire.X(…); if retryable { wait; goto retry }`.
While the caller sleeps in `WaitOrSkipRetry` another goroutine may release or close the client. -/

/-- what another goroutine does to the client during one retry delay -/
inductive Between | nothing | release | close
  deriving DecidableEq, Repr

/-- which checked method is looping -/
inductive Meth | do_ | doMulti (n : Nat) | receive
  deriving DecidableEq, Repr

def Meth.call : Meth → Call
  | .do_ => .wDo
  | .doMulti n => .wMulti n
  | .receive => .wReceive

def between (st : St) : Between → St × List Call
  | .nothing => (st, [])
  | .release => release st
  | .close => ((step st .close).1, (step st .close).2.1)

/-- one call of a checked method whose first `delays.length` passes are answered by a retryable
    error (LOADING / a transport error on a healthy wire) and whose last pass is answered for good;
    `delays[i]` is what happens to the client during the i-th retry delay. The mark is checked at the
    top of EVERY pass. Result: final state, all wire calls in order, the value returned. -/
def retryLoop (m : Meth) : St → List Between → St × List Call × Ret
  | st, [] => if st.mark then (st, [], .recycled) else (st, [m.call], .ok)
  | st, b :: rest =>
    if st.mark then (st, [], .recycled) else
    let (st1, cs1) := between st b
    let r := retryLoop m st1 rest
    (r.1, m.call :: cs1 ++ r.2.1, r.2.2)

/-- `pipe.CleanSubscriptions`: a pipe that ran a blocking command is closed; a pipe in background
    mode gets the unsubscribe family + DISCARD (SUNSUBSCRIBE only for version >= 7); otherwise nothing -/
inductive Clean | closePipe | cmds (cs : List String) | nothing
  deriving DecidableEq, Repr

def cleanSubscriptions (blcksig : Bool) (state : Nat) (version : Nat) : Clean :=
  if blcksig then .closePipe
  else if state == 1 then
    (if version ≥ 7 then .cmds ["UNSUBSCRIBE", "PUNSUBSCRIBE", "SUNSUBSCRIBE", "DISCARD"]
     else .cmds ["UNSUBSCRIBE", "PUNSUBSCRIBE", "DISCARD"])
  else .nothing

/-! ### wire exclusivity, as a trace property -/

/-- events of several callers on wires: pool hand-out, a command written on the wire, hand-back -/
inductive Ev | acq (who wire : Nat) | cmd (who wire : Nat) | store (who wire : Nat)
  deriving DecidableEq, Repr

/-- holder of each wire after a trace (none: in the pool) -/
def holder : List Ev → Nat → Option Nat
  | [], _ => none
  | e :: es, w =>
    -- the trace is stored newest-first
    match e with
    | .acq a w' => if w' = w then some a else holder es w
    | .store _ w' => if w' = w then none else holder es w
    | .cmd _ _ => holder es w

/-- well-formed trace (newest first): the pool hands a wire only out when nobody holds it
    (C24 pool exclusivity — a hypothesis here), callers write only on a wire they hold
    (`recycled_rejects_all`), and only the holder hands it back -/
def wf : List Ev → Prop
  | [] => True
  | e :: es =>
    wf es ∧
    match e with
    | .acq _ w => holder es w = none
    | .cmd a w => holder es w = some a
    | .store a w => holder es w = some a

/-! ### oracle for an observed per-connection command log -/

/-- a command on a connection, seen from one dedicated session: its own, part of the release
    clean-up (UNSUBSCRIBE family, DISCARD, CLIENT TRACKING OFF, the PINGs that follow unsubscribes),
    a key-less MULTI/EXEC (neutral), or somebody else's -/
inductive Tok | mine | cleanup | tx | other
  deriving DecidableEq, Repr

/-- isolation as the property states it: from the session's first to its last command nobody else's
    command is on the connection, and when the session set up subscriptions / hooks / tracking
    (`needs`) the clean-up comes before anybody else's command -/
def isoOK (needs : Bool) (toks : List Tok) : Bool :=
  let fromFirst := toks.dropWhile (· != .mine)
  let core := (fromFirst.reverse.dropWhile (· != .mine)).reverse
  let after := fromFirst.drop core.length
  core.all (fun t => t == .mine || t == .tx) &&
  (!needs || (after.dropWhile (· == .tx)).head? != some .other)

end Rv.Dedicated
