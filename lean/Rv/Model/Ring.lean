/-
Model of /repo/ring.go (the default `queue` of pipe.go) at the granularity of the Go
code's lock regions. Core Lean only.

Go code                                             model transition (`Label`)
--------------------------------------------------  ---------------------------------------
atomic.AddUint32(&r.write, 1) & r.mask              arrive       (caller takes a ticket)
n.c1.L.Lock(); for n.mark != 0 { n.c1.Wait() }      enter c      (one lock region: either the
  n.one = m; n.mark = 1; s := n.slept; Unlock()                   slot is filled, or the caller
                                                                  joins c1's wait set)
if s { n.c2.Broadcast() }; return n.ch              bcast c      (outside the lock!)
NextWriteCmd (whole body is one lock region)        wTry
WaitForWrite, up to the first c2.Wait()/success     wWait
WaitForWrite, after c2.Wait() returned              wWake
NextResultCh (locks the slot, keeps it locked)      rBegin
`ch <- result` in pipe.go (unbuffered send)         rDeliver c   (c = the goroutine receiving on n.ch)
FinishResult: r.resc.L.Unlock()                     rUnlock
FinishResult: r.resc.Signal()                       rSignal w    (w = the waiter woken, if any)

Facts about Go's primitives that the model relies on (not verified, see props/C02.json):
* `sync.Cond.Wait` enqueues the goroutine on the notify list *before* it unlocks, so
  "unlock and join the wait set" is one atomic step; there are no spurious wake-ups;
* `Signal` wakes exactly one waiter if there is one (which one is not specified: the model
  lets the environment choose), `Broadcast` wakes all (c2 only ever has the writer);
* a mutex is held across transitions only by the reader (NextResultCh → FinishResult); every
  other lock region is a single transition that is enabled only while the reader does not
  hold that slot's mutex. `read1`/`read2`/`resc` are touched by their dedicated goroutine only.

Wake-up targets (who is woken by which step; theorems C02.signal_wakes_a_waiting_caller,
C02.broadcast_wakes_only_the_writer; C02.one_cond_var_variant_deadlocks shows that merging the
two wait sets breaks deadlock freedom):
* c1's wait set of slot s = the callers with `Pc.waiting s`; only `rSignal w` (FinishResult)
  removes one member (`w`), and it must remove one if the set is not empty;
* c2's wait set of slot s = the writer while `WPc.sleeping s`; only `bcast c` (PutOne/PutMulti
  after it saw `slept`) wakes it; the reader's Signal never reaches the writer and the callers'
  Broadcast never reaches a parked caller.

The counters are unbounded naturals here; the Go fields hold them modulo 2^32 and the slot
index is `(counter mod 2^32) mod 2^k` (`slotOf`), so counter wrap-around is part of the model.
`read1` counts the commands taken so far (Go's field is one ahead while WaitForWrite sleeps
and momentarily inside a failing NextWriteCmd); `read2` likewise.

Fields marked GHOST are history variables: never read by a guard or by a non-ghost update.
-/
namespace Rv.Ring

/-- point-wise function update -/
def upd {α : Type} (f : Nat → α) (i : Nat) (v : α) : Nat → α := fun j => if j = i then v else f j

@[simp] theorem upd_same {α : Type} (f : Nat → α) (i : Nat) (v : α) : upd f i v i = v := by simp [upd]
theorem upd_other {α : Type} (f : Nat → α) (i j : Nat) (v : α) (h : j ≠ i) : upd f i v j = f j := by
  simp [upd, h]
theorem upd_apply {α : Type} (f : Nat → α) (i j : Nat) (v : α) :
    upd f i v j = if j = i then v else f j := rfl

structure Slot where
  mark : Nat            -- n.mark: 0 free, 1 filled, 2 handed to the writer
  slept : Bool          -- n.slept
  cmd : Option Nat      -- n.one / n.multi: id of the call whose command is stored (none = Completed{})
  gen : Nat             -- GHOST: queue position (1-based) this slot serves in its current cycle
deriving DecidableEq, Repr

/-- a caller inside PutOne/PutMulti (+ the wait for the reply in pipe.Do) -/
inductive Pc
  | idle                -- has not called yet
  | ready (s : Nat)     -- owns a ticket for slot s; next: Lock and test mark (also: just woken from c1.Wait)
  | waiting (s : Nat)   -- in the wait set of slot s's c1 (mutex released)
  | bcast (s : Nat)     -- filled the slot, saw slept = true, unlocked; next: c2.Broadcast()
  | filled (s : Nat)    -- PutOne returned n.ch of slot s; blocked in `<-ch`
  | done (r : Nat)      -- received the reply of command r
deriving DecidableEq, Repr

/-- the writer goroutine (_backgroundWrite) -/
inductive WPc
  | idle
  | sleeping (s : Nat)  -- in c2.Wait() of slot s
  | woken (s : Nat)     -- c2.Wait() was notified; next: re-lock
deriving DecidableEq, Repr

/-- the reader goroutine (_backgroundRead) -/
inductive RPc
  | idle
  | holding (s : Nat) (got : Option Nat)  -- NextResultCh returned; slot s's mutex is held; got = command to answer
  | signal (s : Nat)                      -- FinishResult unlocked; next: Signal
deriving DecidableEq, Repr

structure State where
  slot : Nat → Slot
  write : Nat
  read1 : Nat
  read2 : Nat
  pc : Nat → Pc
  ncalls : Nat            -- callers so far; the next caller gets id `ncalls`
  wpc : WPc
  rpc : RPc
  atPos : Nat → Nat       -- GHOST: queue position ↦ call that filled it
  pos : Nat → Nat         -- GHOST: call ↦ queue position it filled (0 = not yet)
  top : Nat → Nat         -- GHOST: slot ↦ next ticket value that maps to it
  wlog : List Nat         -- GHOST: commands handed to the writer, in order
  clog : List (Nat × Nat) -- GHOST: (command answered, call that received the answer), in order

inductive Label
  | arrive
  | enter (c : Nat)
  | bcast (c : Nat)
  | wTry
  | wWait
  | wWake
  | rBegin
  | rDeliver (c : Nat)
  | rUnlock
  | rSignal (w : Option Nat)
deriving DecidableEq, Repr

/-- `store[counter & mask]` with a uint32 counter and `mask = 2^k - 1` -/
def slotOf (k x : Nat) : Nat := (x % 2 ^ 32) % 2 ^ k

def gen0 (k s : Nat) : Nat := if s = 0 then 2 ^ k else s

def init (k : Nat) : State where
  slot := fun s => { mark := 0, slept := false, cmd := none, gen := gen0 k s }
  write := 0
  read1 := 0
  read2 := 0
  pc := fun _ => .idle
  ncalls := 0
  wpc := .idle
  rpc := .idle
  atPos := fun _ => 0
  pos := fun _ => 0
  top := gen0 k
  wlog := []
  clog := []

/-- is slot s's mutex held (by the reader)? -/
def locked (σ : State) (s : Nat) : Bool :=
  match σ.rpc with
  | .holding s' _ => s' == s
  | _ => false

def enabled (k : Nat) : Label → State → Bool
  | .arrive, _ => true
  | .enter c, σ => match σ.pc c with
    | .ready s => !locked σ s
    | _ => false
  | .bcast c, σ => match σ.pc c with
    | .bcast _ => true
    | _ => false
  | .wTry, σ => σ.wpc == .idle && !locked σ (slotOf k (σ.read1 + 1))
  | .wWait, σ => σ.wpc == .idle && !locked σ (slotOf k (σ.read1 + 1))
  | .wWake, σ => match σ.wpc with
    | .woken s => !locked σ s
    | _ => false
  | .rBegin, σ => σ.rpc == .idle
  | .rDeliver c, σ => match σ.rpc with
    | .holding s (some _) => σ.pc c == .filled s
    | _ => false
  | .rUnlock, σ => match σ.rpc with
    | .holding _ none => true
    | _ => false
  | .rSignal w, σ => match σ.rpc with
    | .signal s => match w with
      | some c => σ.pc c == .waiting s
      | none => (List.range σ.ncalls).all fun c => σ.pc c != .waiting s
    | _ => false

/-- the writer takes the command of slot s: `one, multi, ch = n.one, n.multi, n.ch; n.mark = 2` -/
def take (σ : State) (s : Nat) (slept : Bool) : State :=
  let n := σ.slot s
  { σ with
    slot := upd σ.slot s { n with mark := 2, slept := slept }
    read1 := σ.read1 + 1
    wpc := .idle
    wlog := σ.wlog ++ n.cmd.toList }

def apply (k : Nat) : Label → State → State
  | .arrive, σ =>
    let w := σ.write + 1
    let s := slotOf k w
    { σ with write := w, ncalls := σ.ncalls + 1, pc := upd σ.pc σ.ncalls (.ready s),
             top := upd σ.top s (σ.top s + 2 ^ k) }
  | .enter c, σ =>
    match σ.pc c with
    | .ready s =>
      let n := σ.slot s
      if n.mark = 0 then
        { σ with
          slot := upd σ.slot s { n with mark := 1, cmd := some c }
          pc := upd σ.pc c (if n.slept then .bcast s else .filled s)
          atPos := upd σ.atPos n.gen c
          pos := upd σ.pos c n.gen }
      else { σ with pc := upd σ.pc c (.waiting s) }
    | _ => σ
  | .bcast c, σ =>
    match σ.pc c with
    | .bcast s =>
      { σ with pc := upd σ.pc c (.filled s),
               wpc := if σ.wpc = .sleeping s then .woken s else σ.wpc }
    | _ => σ
  | .wTry, σ =>
    let s := slotOf k (σ.read1 + 1)
    if (σ.slot s).mark = 1 then take σ s (σ.slot s).slept else σ
  | .wWait, σ =>
    let s := slotOf k (σ.read1 + 1)
    let n := σ.slot s
    if n.mark = 1 then take σ s n.slept
    else { σ with slot := upd σ.slot s { n with slept := true }, wpc := .sleeping s }
  | .wWake, σ =>
    match σ.wpc with
    | .woken s =>
      let n := σ.slot s
      if n.mark = 1 then take σ s false
      else { σ with slot := upd σ.slot s { n with slept := true }, wpc := .sleeping s }
    | _ => σ
  | .rBegin, σ =>
    let s := slotOf k (σ.read2 + 1)
    let n := σ.slot s
    if n.mark = 2 then
      { σ with
        slot := upd σ.slot s { n with mark := 0, cmd := none, gen := n.gen + 2 ^ k }
        read2 := σ.read2 + 1
        rpc := .holding s n.cmd }
    else { σ with rpc := .holding s none }
  | .rDeliver c, σ =>
    match σ.rpc with
    | .holding s (some r) =>
      { σ with pc := upd σ.pc c (.done r), rpc := .holding s none, clog := σ.clog ++ [(r, c)] }
    | _ => σ
  | .rUnlock, σ =>
    match σ.rpc with
    | .holding s _ => { σ with rpc := .signal s }
    | _ => σ
  | .rSignal w, σ =>
    match σ.rpc with
    | .signal s =>
      match w with
      | some c => { σ with rpc := .idle, pc := upd σ.pc c (.ready s) }
      | none => { σ with rpc := .idle }
    | _ => σ

/-- states reachable from the empty ring of 2^k slots by any interleaving of enabled transitions -/
inductive Reachable (k : Nat) : State → Prop
  | init : Reachable k (init k)
  | step {σ : State} (l : Label) : Reachable k σ → enabled k l σ = true → Reachable k (apply k l σ)

/-- run a schedule; `none` when some label is not enabled -/
def run (k : Nat) : State → List Label → Option State
  | σ, [] => some σ
  | σ, l :: ls => if enabled k l σ then run k (apply k l σ) ls else none

theorem run_reachable (k : Nat) : ∀ (ls : List Label) (σ σ' : State),
    Reachable k σ → run k σ ls = some σ' → Reachable k σ' := by
  intro ls
  induction ls with
  | nil => intro σ σ' h r; simp [run] at r; exact r ▸ h
  | cons l ls ih =>
    intro σ σ' h r
    simp only [run] at r
    split at r
    · rename_i he; exact ih _ _ (Reachable.step l h he) r
    · cases r

/-! ### Deterministic, non-blocking method calls (used by the single-threaded differential) -/

/-- PutOne by a fresh caller when it does not block: ticket, fill, (broadcast), return -/
def putOne (k : Nat) (σ : State) : Option State :=
  let c := σ.ncalls
  let σ1 := apply k .arrive σ
  if enabled k (.enter c) σ1 then
    let σ2 := apply k (.enter c) σ1
    match σ2.pc c with
    | .bcast _ => some (apply k (.bcast c) σ2)
    | .filled _ => some σ2
    | _ => none        -- would block in c1.Wait()
  else none            -- would block in Lock()

end Rv.Ring
