/-
Model of rueidisprob/slidingbloomfilter.go (core Lean only).

* Redis state: current filter `{name}`, next filter `{name}:n`, their counters `{name}:c`,
  `{name}:nc` (each absent or present), and the rotation lock `{name}:lr` with its expiry
  (its value, the script's `current_time`, is never read).
* The server clock `now` (ms) is a parameter of every script run (Redis freezes time during
  a script). A key with expiry `e` is gone iff `now > e` (Redis `keyIsExpired`).
* Scripts are hand transcriptions of the Lua texts pinned in Rv/Props/C37.lean (trusted).
  A script aborted by a Redis error (RENAME of a missing key, PX 0) keeps the effects made so
  far: `Except.error s` carries that state.
-/
import Rv.Model.Bloom
namespace Rv.SBloom
open Rv.GroupLoop Rv.Bloom

structure St where
  cur : Option Bits
  next : Option Bits
  curC : Option Nat
  nextC : Option Nat
  lock : Option Nat      -- expiry (ms) of lastRotationKey

def St.init : St := { cur := none, next := none, curC := none, nextC := none, lock := none }

def bitsOf (o : Option Bits) : Bits := o.getD emptyBits

/-- lastRotationKey exists at server time `now` -/
def lockHeld (s : St) (now : Nat) : Bool :=
  match s.lock with
  | some e => decide (now ≤ e)
  | none => false

/-- `SET lastRotationKey … PX windowHalf NX` and, when it was acquired, the rotation:
RENAME next→current (filters, then counters), SET next "", SET nextCounter 0. -/
def rotate (half now : Nat) (s : St) : Except St St :=
  if half = 0 then .error s                     -- "invalid expire time in 'set' command"
  else if lockHeld s now then .ok s
  else
    match s.next with
    | none => .error { s with lock := some (now + half) }            -- RENAME: no such key
    | some nb =>
      match s.nextC with
      | none => .error { s with lock := some (now + half), cur := some nb, next := none }
      | some nc =>
        .ok { cur := some nb, next := some emptyBits, curC := some nc, nextC := some 0,
              lock := some (now + half) }

/-- loop of slidingBloomFilterAddMultiScript: BITFIELD SET on both filters, old bit of the current one counted -/
def addLoop (k : Nat) (idxs : List Nat) (cur next : Bits) : (Bits × Bits) × Nat :=
  gloop k (fun (st : (Bits × Bits) × Nat) x => (((setBit st.1.1 x, setBit st.1.2 x), st.2), bitVal st.1.1 x))
    (· + ·) 0 (fun st one => (st.1, if one ≠ k then st.2 + 1 else st.2)) idxs 1 0 ((cur, next), 0)

/-- slidingBloomFilterAddMultiScript; reply = INCRBY counterKey -/
def addScript (k half now : Nat) (idxs : List Nat) (s : St) : Except St (St × Nat) :=
  match rotate half now s with
  | .error s' => .error s'
  | .ok s1 =>
    let r := addLoop k idxs (bitsOf s1.cur) (bitsOf s1.next)
    let c := s1.curC.getD 0 + r.2
    .ok ({ s1 with
            cur := if idxs.isEmpty then s1.cur else some r.1.1,
            next := if idxs.isEmpty then s1.next else some r.1.2,
            nextC := some (s1.nextC.getD 0 + r.2), curC := some c }, c)

/-- slidingBloomFilterExistsMultiScript (and the ReadOnly twin): rotation, then read the current filter -/
def existsScript (k half now : Nat) (idxs : List Nat) (s : St) : Except St (St × List Bool) :=
  match rotate half now s with
  | .error s' => .error s'
  | .ok s1 => .ok (s1, Bloom.existsScript k idxs (bitsOf s1.cur))

/-- slidingBloomFilterInitializeScript -/
def initScript (half now : Nat) (s : St) : Except St St :=
  if s.cur.isNone && s.next.isNone && s.curC.isNone && s.nextC.isNone && !lockHeld s now then
    let s1 := { s with cur := some emptyBits, curC := some 0, next := some emptyBits, nextC := some 0 }
    if half = 0 then .error s1 else .ok { s1 with lock := some (now + half) }
  else .ok s

/-- slidingBloomFilterResetScript (no return value: the reply is nil) -/
def resetScript (s : St) : Except St St :=
  match s.next with
  | none => .error s
  | some nb =>
    match s.nextC with
    | none => .error { s with cur := some nb, next := none }
    | some nc => .ok { s with cur := some nb, next := some emptyBits, curC := some nc, nextC := some 0 }

/-- `DEL` of the five keys; reply = number of keys that existed -/
def delete (now : Nat) (s : St) : St × Nat :=
  (St.init, (if s.cur.isSome then 1 else 0) + (if s.next.isSome then 1 else 0) + (if s.curC.isSome then 1 else 0)
    + (if s.nextC.isSome then 1 else 0) + (if lockHeld s now then 1 else 0))

/-! ### Go glue -/

structure Cfg where
  m : Nat
  k : Nat
  half : Nat        -- windowSize.Milliseconds()/2

def idxsOf (c : Cfg) (keys : List (Nat × Nat)) : List Nat := allIdx c.m c.k keys

/-- `AddMulti`: `none` result = script error -/
def addMulti (c : Cfg) (now : Nat) (keys : List (Nat × Nat)) (s : St) : Except St St :=
  if keys.isEmpty then .ok s else (addScript c.k c.half now (idxsOf c keys) s).map (·.1)

/-- `ExistsMulti`: new state and the answers (`none` answers = `nil, nil` for no keys) -/
def existsMulti (c : Cfg) (now : Nat) (keys : List (Nat × Nat)) (s : St) : Except St (St × Option (List Bool)) :=
  if keys.isEmpty then .ok (s, none) else
  match existsScript c.k c.half now (idxsOf c keys) s with
  | .error s' => .error s'
  | .ok (s1, arr) => .ok (s1, some (arr ++ List.replicate (keys.length - arr.length) false))

def count (s : St) : Nat := s.curC.getD 0

end Rv.SBloom
