/-
C21 — the replica-vs-primary decision of the standalone, sentinel and cluster clients
(/repo/standalone.go pick/Do/DoMulti/DoStream/DoMultiStream/Receive/DoCache/DoMultiCache,
/repo/sentinel.go pick/pickMulti/sendAllToReplica(Cache),
/repo/cluster.go `_refresh` (wslots/rslots), `_pick`, `_pickMulti`, `_pickMultiCache`,
DoMultiStream, toReplica). Only the decision is modelled: which node of the topology the
command is handed to. Core Lean only.

A command is abstracted to what the routing code looks at: `opted` = the value the caller's
`SendToReplicas` function returns for it (an arbitrary Boolean function of the command, so
an arbitrary Boolean per command), and for clusters its slot class (`keyless` =
`cmds.InitSlot`) and shard.
-/
namespace Rv.ReplicaRoute

/-- where a call is handed to -/
inductive Target where
  /-- the primary (standalone `s.primary`, sentinel `mConn`, cluster `g.nodes[0]`) -/
  | primary
  /-- replica number `i` of the candidate list (standalone `s.replicas[i]`, cluster `g.nodes[1+i]`) -/
  | replica (i : Nat)
  /-- a replica chosen by the client's own random source (`rand.IntN`, `util.FastRand`);
      sentinel: the single stored replica connection `rConn` -/
  | someReplica
  /-- cluster, keyless command: the first connection of a Go map iteration over *all* known
      nodes of the cluster (primaries and replicas alike) -/
  | anyNode
  /-- no connection in the table (`nil` → refresh / ErrNoSlot) -/
  | none
  /-- the Go code panics (`rand.IntN(0)`, `panicMixCxSlot`) -/
  | panic
  deriving DecidableEq, Repr

namespace Target
def isReplica : Target → Bool
  | replica _ => true
  | someReplica => true
  | _ => false

def show_ : Target → String
  | primary => "P"
  | replica i => "R" ++ toString i
  | someReplica => "R*"
  | anyNode => "ANY"
  | none => "none"
  | panic => "panic"
end Target

/-! ### standalone.go -/

structure Standalone where
  /-- `s.toReplicas != nil` -/
  hasPred : Bool
  /-- `len(s.replicas)` -/
  nrep : Nat
  /-- `s.nodeSelector != nil` (ClientOption.ReadNodeSelector) -/
  hasSel : Bool
  /-- ClientOption.EnableReplicaAZInfo -/
  az : Bool

/-- `len(s.nodes)`: newStandaloneClient fills `s.nodes` (primary + replicas) only when
    `EnableReplicaAZInfo && (ReadNodeSelector != nil || len(replicas) > 1)` -/
def Standalone.nNodes (s : Standalone) : Nat :=
  if s.az && (s.hasSel || decide (s.nrep > 1)) then s.nrep + 1 else 0

/-- `standalone.pick`; `sel` is what the ReadNodeSelector returns (any Go int) -/
def Standalone.pick (s : Standalone) (sel : Int) : Target :=
  if s.hasSel then
    let r : Int := if sel < 0 ∨ sel ≥ (s.nNodes : Int) then 0 else sel
    if r = 0 then .primary else .replica (r.toNat - 1)
  else if s.nrep = 1 then .replica 0
  else if s.nrep = 0 then .panic       -- rand.IntN(0) panics
  else .someReplica

/-- Do / DoStream / Receive: `if s.toReplicas != nil && s.toReplicas(cmd)` -/
def Standalone.one (s : Standalone) (opted : Bool) (sel : Int) : Target :=
  if s.hasPred && opted then s.pick sel else .primary

/-- the `toReplica` loop of DoMulti / DoMultiStream -/
def allOpted : List Bool → Bool
  | [] => true
  | o :: r => o && allOpted r

/-- DoMulti / DoMultiStream: the whole batch goes to one node -/
def Standalone.multi (s : Standalone) (opted : List Bool) (sel : Int) : Target :=
  if (s.hasPred && allOpted opted) && decide (opted.length > 0) then s.pick sel else .primary

/-- DoCache / DoMultiCache: always `s.primary` -/
def Standalone.cache (_ : Standalone) : Target := .primary

/-! ### sentinel.go -/

structure Sentinel where
  /-- `c.replica` (ClientOption.ReplicaOnly) -/
  replicaOnly : Bool
  /-- `c.mOpt.SendToReplicas != nil` -/
  hasPred : Bool

/-- `sentinelClient.pick` (Do, DoCache, DoStream, Receive): `rConn` ↦ `someReplica`, `mConn` ↦ `primary` -/
def Sentinel.pick (c : Sentinel) (opted : Bool) : Target :=
  if c.replicaOnly then .someReplica
  else if c.hasPred then (if opted then .someReplica else .primary)
  else .primary

/-- `sendAllToReplica` / `sendAllToReplicaCache` -/
def Sentinel.sendAll (c : Sentinel) (opted : List Bool) : Bool :=
  if !c.hasPred then false else allOpted opted

/-- `pickMulti(sendAllToReplica(multi))` (DoMulti, DoMultiCache, DoMultiStream; non-empty batch) -/
def Sentinel.multi (c : Sentinel) (opted : List Bool) : Target :=
  if c.replicaOnly then .someReplica
  else if c.hasPred then (if c.sendAll opted then .someReplica else .primary)
  else .primary

/-! ### ConnLifetime recovery inside a batch (client.go / sentinel.go DoMulti, DoMultiCache, `hasLftm`) -/

/-- The connection calls of one round of DoMulti / DoMultiCache when ConnLifetime is set. The first call
    carries the whole batch (`start = 0`); if in a call the replies from batch position `p` on are
    errConnExpired, the rest `multi[p:]` is sent again — on the connection `t` that was picked for the WHOLE
    batch before the loop (`cc := c.pickMulti(sendToReplica)`; the single client has only one).
    `exp` lists `p` per call (`p ≥ n`: nothing expired); the result lists (first position, target). -/
def recoverCalls (n : Nat) (t : Target) : (exp : List Nat) → (start : Nat) → List (Nat × Target)
  | [], start => [(start, t)]
  | p :: rest, start =>
    if start ≤ p ∧ p < n then (start, t) :: recoverCalls n t rest p else [(start, t)]

def Sentinel.multiCalls (c : Sentinel) (opted : List Bool) (exp : List Nat) : List (Nat × Target) :=
  recoverCalls opted.length (c.multi opted) exp 0

def Standalone.multiCalls (s : Standalone) (cache : Bool) (opted : List Bool) (sel : Int) (exp : List Nat) :
    List (Nat × Target) :=
  recoverCalls opted.length (if cache then s.cache else s.multi opted sel) exp 0

/-! ### cluster.go -/

structure Cluster where
  /-- `c.opt.ReplicaOnly` -/
  replicaOnly : Bool
  /-- `c.opt.SendToReplicas != nil` (then also `c.rOpt != nil`) -/
  hasPred : Bool
  /-- `c.opt.ReadNodeSelector != nil` -/
  hasRns : Bool

/-- one shard as `_refresh` sees it: `len(g.nodes)` = 1 + number of replicas -/
structure Shard where
  nrep : Nat

/-- `wslots[slot]` after `_refresh`, for a slot covered by shard `g` -/
def Cluster.wslot (c : Cluster) (g : Shard) : Target :=
  if c.replicaOnly && decide (g.nrep ≥ 1) then .someReplica   -- g.nodes[1+FastRand(n-1)]
  else .primary

/-- the candidate list stored in `rslots[slot]` -/
inductive RSlot where
  /-- `rslots == nil` or the entry is empty -/
  | absent
  /-- `nodes{node}`: exactly one node -/
  | single (t : Target)
  /-- `g.nodes`: primary followed by `n` replicas (ReadNodeSelector decides at pick time) -/
  | all (nrep : Nat)
  deriving DecidableEq, Repr

/-- `rslots[slot]` after `_refresh`; `rsel` is what the ReplicaSelector returned for this slot
    (`none` = the default `replicaOnlySelector`, a random in-range index) -/
def Cluster.rslot (c : Cluster) (g : Shard) (rsel : Option Int) : RSlot :=
  if c.replicaOnly then .absent            -- rOpt == nil: rslots is never allocated
  else if !c.hasPred then .absent
  else if g.nrep ≥ 1 then
    if c.hasRns then .all g.nrep
    else match rsel with
      | none => .single .someReplica
      | some r => if 0 ≤ r ∧ r < (g.nrep : Int) then .single (.replica r.toNat) else .single .primary
  else .single .primary

/-- the `toReplica && c.rslots != nil` branch of `_pick` / the opted branch of `_pickMulti(Cache)` -/
def pickR (hasRns : Bool) (rs : RSlot) (rns : Int) : Target :=
  match rs with
  | .absent => .none
  | .single t => t            -- ReadNodeSelector is nil here, or the list has one entry: index 0
  | .all n =>
    if hasRns then
      let r : Int := if rns < 0 ∨ rns ≥ (n : Int) + 1 then 0 else rns
      if r = 0 then .primary else .replica (r.toNat - 1)
    else .primary

/-- a ReadNodeSelector is also consulted on a one-entry list; any result ≠ 0 is out of range -/
def Cluster.readPick (c : Cluster) (g : Shard) (rsel : Option Int) (rns : Int) : Target :=
  pickR c.hasRns (c.rslot g rsel) rns

/-- `c.rslots != nil`: allocated lazily by the first shard handled in the `rOpt != nil` case -/
def Cluster.hasRslots (c : Cluster) : Bool := !c.replicaOnly && c.hasPred

/-- `_pick(slot, toReplica)` with `toReplica = c.toReplica(cmd)`; `keyless` = `slot == cmds.InitSlot` -/
def Cluster.pick (c : Cluster) (g : Shard) (keyless opted : Bool) (rsel : Option Int) (rns : Int) : Target :=
  if keyless then .anyNode
  else if (c.hasPred && opted) && c.hasRslots then c.readPick g rsel rns
  else c.wslot g

/-- one member of a `_pickMulti` batch; `init` = some member of the batch is keyless.
    A keyless member in the wslots branch rides with the batch's keyed slot (`last`). -/
def Cluster.multiOne (c : Cluster) (g : Shard) (init opted : Bool) (rsel : Option Int) (rns : Int) : Target :=
  if !init && c.hasRslots && c.hasPred then
    (if opted then c.readPick g rsel rns else c.wslot g)
  else c.wslot g

/-- one member of a `_pickMultiCache` batch (cacheable commands always have a key) -/
def Cluster.multiCacheOne (c : Cluster) (g : Shard) (opted : Bool) (rsel : Option Int) (rns : Int) : Target :=
  if !c.hasPred || !c.hasRslots then c.wslot g
  else if opted then c.readPick g rsel rns else c.wslot g

/-- DoMultiStream: `repl = toReplica(multi[0]) && … && toReplica(multi[n-1])`, one `pick(slot, repl)` -/
def Cluster.multiStream (c : Cluster) (g : Shard) (allKeyless : Bool) (opted : List Bool)
    (rsel : Option Int) (rns : Int) : Target :=
  c.pick g allKeyless (allOpted opted) rsel rns

end Rv.ReplicaRoute
