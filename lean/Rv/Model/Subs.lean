import Rv.Model.Invalidation
/-!
Model of Pub/Sub delivery (C26): pubsub.go `subs` (Subscribe / Publish / Confirm / Unsubscribe /
Close and the cancel func), pipe.go `handlePush` dispatch, `Receive`'s return value, and the
life cycle of the channel returned by `SetPubSubHooks`. Core Lean only.

Ghost state: a removed subscription stays in the table (inactive) and `buf` is the log of
everything ever sent into the subscription's buffered channel, so that "delivered exactly once,
in order" can be stated. `sb.ch <- msg` blocks while the buffer (16) is full; the model treats
that as back-pressure (delivery is delayed, never dropped).
-/
namespace Rv.Subs
open Rv.Push

structure Msg where
  pattern : String
  channel : String
  message : String
  deriving DecidableEq, Repr

/-- PubSubSubscription -/
structure Note where
  kind : String
  channel : String
  count : Int
  deriving DecidableEq, Repr

structure Sub where
  id : Nat
  chans : List String
  hasFn : Bool
  active : Bool := true      -- still in s.sub / s.chs
  buf : List Msg := []       -- everything sent into sb.ch, in order
  closes : Nat := 0          -- number of close(sb.ch)
  notes : List Note := []    -- calls of sb.fn
  deriving DecidableEq, Repr

structure Table where
  live : Bool := true        -- s.chs != nil
  cnt : Nat := 0
  subs : List Sub := []
  deriving DecidableEq, Repr

inductive Op
  | subscribe (chans : List String) (hasFn : Bool)
  | publish (channel : String) (m : Msg)
  | confirm (n : Note)
  | unsubscribe (n : Note)
  | cancel (id : Nat)
  | close
  deriving DecidableEq, Repr

/-- `remove(id)`: out of every channel map, channel closed -/
def Sub.remove (s : Sub) : Sub := { s with active := false, closes := s.closes + 1 }

def upd (t : Table) (f : Sub → Sub) : Table := { t with subs := t.subs.map f }

def step (t : Table) : Op → Table
  | .subscribe chans hasFn =>
    -- `id := atomic.AddUint64(&s.cnt, 1)`; the entry is only made while `s.chs != nil`
    let t' := { t with cnt := t.cnt + 1 }
    if t.live then { t' with subs := t.subs ++ [{ id := t.cnt + 1, chans := chans, hasFn := hasFn }] } else t'
  | .publish ch m =>
    if t.cnt != 0 then upd t fun s => if s.active && s.chans.contains ch then { s with buf := s.buf ++ [m] } else s else t
  | .confirm n =>
    if t.cnt != 0 then upd t fun s => if s.active && s.chans.contains n.channel && s.hasFn then { s with notes := s.notes ++ [n] } else s else t
  | .unsubscribe n =>
    if t.cnt != 0 then upd t fun s =>
      if s.active && s.chans.contains n.channel then
        (if s.hasFn then { s with notes := s.notes ++ [n] } else s).remove
      else s
    else t
  | .cancel id => if t.live then upd t fun s => if s.active && s.id == id then s.remove else s else t
  | .close => { upd t (fun s => if s.active then s.remove else s) with live := false }

def run (t : Table) (ops : List Op) : Table := ops.foldl step t

def Table.get (t : Table) (id : Nat) : Option Sub := t.subs.find? (·.id == id)

/-! ### handlePush -/

structure Pipe where
  n : Table := {}
  p : Table := {}
  s : Table := {}
  onMsg : Bool := false     -- pshks.hooks.OnMessage != nil
  onSub : Bool := false     -- pshks.hooks.OnSubscription != nil

inductive HookCall | msg (m : Msg) | note (n : Note)
  deriving DecidableEq, Repr

structure PushRes where
  pipe : Pipe
  hooks : List HookCall := []
  reply : Bool := false
  unsub : Bool := false

def setTable (pp : Pipe) (k : Nat) (t : Table) : Pipe :=
  if k == 0 then { pp with n := t } else if k == 1 then { pp with p := t } else { pp with s := t }
def getTable (pp : Pipe) (k : Nat) : Table := if k == 0 then pp.n else if k == 1 then pp.p else pp.s

/-- `handlePush(values)` for the Pub/Sub kinds; `none` for kinds handled elsewhere / ignored -/
def handlePush (pp : Pipe) (vs : List PV) : PushRes :=
  if vs.length < 2 then { pipe := pp } else
  let k := (vs.getD 0 .null).string
  let v (i : Nat) : PV := vs.getD i .null
  let deliver (tbl : Nat) (key : String) (m : Msg) : PushRes :=
    { pipe := setTable pp tbl (step (getTable pp tbl) (.publish key m)), hooks := if pp.onMsg then [.msg m] else [] }
  let note (tbl : Nat) (un : Bool) : PushRes :=
    if vs.length ≥ 3 then
      let n : Note := ⟨k, (v 1).string, (v 2).intlen⟩
      { pipe := setTable pp tbl (step (getTable pp tbl) (if un then .unsubscribe n else .confirm n)),
        hooks := if pp.onSub then [.note n] else [], reply := true, unsub := un }
    else { pipe := pp, reply := true, unsub := un }
  if k == "message" then
    (if vs.length ≥ 3 then deliver 0 (v 1).string ⟨"", (v 1).string, (v 2).string⟩ else { pipe := pp })
  else if k == "pmessage" then
    (if vs.length ≥ 4 then deliver 1 (v 1).string ⟨(v 1).string, (v 2).string, (v 3).string⟩ else { pipe := pp })
  else if k == "smessage" then
    (if vs.length ≥ 3 then deliver 2 (v 1).string ⟨"", (v 1).string, (v 2).string⟩ else { pipe := pp })
  else if k == "unsubscribe" then note 0 true
  else if k == "punsubscribe" then note 1 true
  else if k == "sunsubscribe" then note 2 true
  else if k == "subscribe" then note 0 false
  else if k == "psubscribe" then note 1 false
  else if k == "ssubscribe" then note 2 false
  else { pipe := pp }

/-! ### Receive's return value -/

/-- how a Receive call ends -/
inductive End
  | tableDead            -- Subscribe returned a nil channel (subs already closed)
  | doErr                -- the SUBSCRIBE command itself failed
  | chClosed             -- the subscription's channel was closed (unsubscribe / Close / disconnect)
  | ctxDone              -- the context ended first
  deriving DecidableEq, Repr

inductive Err | nil | ctx | cmd | pipe (e : String)
  deriving DecidableEq, Repr

/-- `pipeErr`: what `p.Error()` returns at that moment (`none`: nil, `"closing"`: ErrClosing, …) -/
def receiveResult (e : End) (pipeErr : Option String) : Err :=
  let fallback : Err := match pipeErr with | none => .nil | some s => .pipe s
  match e with
  | .doErr => .cmd
  | .ctxDone => .ctx
  | .tableDead => fallback
  | .chClosed => fallback

/-! ### the channel returned by SetPubSubHooks -/

/-- one `chan error` handed out by SetPubSubHooks -/
structure HookCh where
  errs : List String := []
  closes : Nat := 0
  sendAfterClose : Bool := false     -- would be a Go panic
  deriving DecidableEq, Repr

structure HookSt where
  cur : Option Nat := none           -- index of the channel in the slot (none: emptypshks)
  chans : List HookCh := []
  deriving DecidableEq, Repr

/-- atomic steps: the `Swap`s of SetPubSubHooks and of `_background`'s cleanup -/
inductive HookOp
  | swapNew                 -- SetPubSubHooks(non-zero): Swap(new); close(old.close)
  | swapEmpty (err : Option String)   -- Swap(emptypshks); (old.close <- err)? ; close(old.close)
  deriving DecidableEq, Repr

def closeCh (chs : List HookCh) (i : Nat) (err : Option String) : List HookCh :=
  chs.mapIdx fun j c => if j == i then
    let c := match err with
      | some e => { c with errs := c.errs ++ [e], sendAfterClose := c.sendAfterClose || c.closes > 0 }
      | none => c
    { c with closes := c.closes + 1 } else c

def hookStep (s : HookSt) : HookOp → HookSt
  | .swapNew =>
    let chans := match s.cur with | some i => closeCh s.chans i none | none => s.chans
    { cur := some chans.length, chans := chans ++ [{}] }
  | .swapEmpty err =>
    match s.cur with
    | some i => { cur := none, chans := closeCh s.chans i err }
    | none => s

end Rv.Subs
