import Rv.Model.Invalidation
/-!
Model of Pub/Sub delivery (C26): pubsub.go `subs` (Subscribe / Publish / Confirm / Unsubscribe /
Close and the cancel func), pipe.go `handlePush` dispatch, `Receive`'s return value, and the
life cycle of the channel returned by `SetPubSubHooks`. Core Lean only.

Ghost state: a removed subscription stays in the table (inactive) and `buf` is the log of
everything ever sent into the subscription's buffered channel, so that "delivered exactly once,
in order" can be stated. `sb.ch <- msg` blocks while the buffer (16) is full; the model treats
that as back-pressure (delivery is delayed, never dropped).
-/
namespace Rv.Subs
open Rv.Push

structure Msg where
  pattern : String
  channel : String
  message : String
  deriving DecidableEq, Repr

/-- PubSubSubscription -/
structure Note where
  kind : String
  channel : String
  count : Int
  deriving DecidableEq, Repr

structure Sub where
  id : Nat
  chans : List String
  hasFn : Bool
  active : Bool := true      -- still in s.sub / s.chs
  buf : List Msg := []       -- everything sent into sb.ch, in order
  closes : Nat := 0          -- number of close(sb.ch)
  notes : List Note := []    -- calls of sb.fn
  deriving DecidableEq, Repr

structure Table where
  live : Bool := true        -- s.chs != nil
  cnt : Nat := 0
  subs : List Sub := []
  deriving DecidableEq, Repr

inductive Op
  | subscribe (chans : List String) (hasFn : Bool)
  | publish (channel : String) (m : Msg)
  | confirm (n : Note)
  | unsubscribe (n : Note)
  | cancel (id : Nat)
  | close
  deriving DecidableEq, Repr

/-- `remove(id)`: out of every channel map, channel closed -/
def Sub.remove (s : Sub) : Sub := { s with active := false, closes := s.closes + 1 }

def upd (t : Table) (f : Sub → Sub) : Table := { t with subs := t.subs.map f }

def step (t : Table) : Op → Table
  | .subscribe chans hasFn =>
    -- `id := atomic.AddUint64(&s.cnt, 1)`; the entry is only made while `s.chs != nil`
    let t' := { t with cnt := t.cnt + 1 }
    if t.live then { t' with subs := t.subs ++ [{ id := t.cnt + 1, chans := chans, hasFn := hasFn }] } else t'
  | .publish ch m =>
    if t.cnt != 0 then upd t fun s => if s.active && s.chans.contains ch then { s with buf := s.buf ++ [m] } else s else t
  | .confirm n =>
    if t.cnt != 0 then upd t fun s => if s.active && s.chans.contains n.channel && s.hasFn then { s with notes := s.notes ++ [n] } else s else t
  | .unsubscribe n =>
    if t.cnt != 0 then upd t fun s =>
      if s.active && s.chans.contains n.channel then
        (if s.hasFn then { s with notes := s.notes ++ [n] } else s).remove
      else s
    else t
  | .cancel id => if t.live then upd t fun s => if s.active && s.id == id then s.remove else s else t
  | .close => { upd t (fun s => if s.active then s.remove else s) with live := false }

def run (t : Table) (ops : List Op) : Table := ops.foldl step t

def Table.get (t : Table) (id : Nat) : Option Sub := t.subs.find? (·.id == id)

/-! ### handlePush -/

structure Pipe where
  n : Table := {}
  p : Table := {}
  s : Table := {}
  onMsg : Bool := false     -- pshks.hooks.OnMessage != nil
  onSub : Bool := false     -- pshks.hooks.OnSubscription != nil

inductive HookCall | msg (m : Msg) | note (n : Note)
  deriving DecidableEq, Repr

structure PushRes where
  pipe : Pipe
  hooks : List HookCall := []
  reply : Bool := false
  unsub : Bool := false

def setTable (pp : Pipe) (k : Nat) (t : Table) : Pipe :=
  if k == 0 then { pp with n := t } else if k == 1 then { pp with p := t } else { pp with s := t }
def getTable (pp : Pipe) (k : Nat) : Table := if k == 0 then pp.n else if k == 1 then pp.p else pp.s

/-- `handlePush(values)` for the Pub/Sub kinds; `none` for kinds handled elsewhere / ignored -/
def handlePush (pp : Pipe) (vs : List PV) : PushRes :=
  if vs.length < 2 then { pipe := pp } else
  let k := (vs.getD 0 .null).string
  let v (i : Nat) : PV := vs.getD i .null
  let deliver (tbl : Nat) (key : String) (m : Msg) : PushRes :=
    { pipe := setTable pp tbl (step (getTable pp tbl) (.publish key m)), hooks := if pp.onMsg then [.msg m] else [] }
  let note (tbl : Nat) (un : Bool) : PushRes :=
    if vs.length ≥ 3 then
      let n : Note := ⟨k, (v 1).string, (v 2).intlen⟩
      { pipe := setTable pp tbl (step (getTable pp tbl) (if un then .unsubscribe n else .confirm n)),
        hooks := if pp.onSub then [.note n] else [], reply := true, unsub := un }
    else { pipe := pp, reply := true, unsub := un }
  if k == "message" then
    (if vs.length ≥ 3 then deliver 0 (v 1).string ⟨"", (v 1).string, (v 2).string⟩ else { pipe := pp })
  else if k == "pmessage" then
    (if vs.length ≥ 4 then deliver 1 (v 1).string ⟨(v 1).string, (v 2).string, (v 3).string⟩ else { pipe := pp })
  else if k == "smessage" then
    (if vs.length ≥ 3 then deliver 2 (v 1).string ⟨"", (v 1).string, (v 2).string⟩ else { pipe := pp })
  else if k == "unsubscribe" then note 0 true
  else if k == "punsubscribe" then note 1 true
  else if k == "sunsubscribe" then note 2 true
  else if k == "subscribe" then note 0 false
  else if k == "psubscribe" then note 1 false
  else if k == "ssubscribe" then note 2 false
  else { pipe := pp }

/-! ### Receive's return value -/

/-- how a Receive call ends -/
inductive End
  | tableDead            -- Subscribe returned a nil channel (subs already closed)
  | doErr                -- the SUBSCRIBE command itself failed
  | chClosed             -- the subscription's channel was closed (unsubscribe / Close / disconnect)
  | ctxDone              -- the context ended first
  deriving DecidableEq, Repr

inductive Err | nil | ctx | cmd | pipe (e : String)
  deriving DecidableEq, Repr

/-- `pipeErr`: what `p.Error()` returns at that moment (`none`: nil, `"closing"`: ErrClosing, …) -/
def receiveResult (e : End) (pipeErr : Option String) : Err :=
  let fallback : Err := match pipeErr with | none => .nil | some s => .pipe s
  match e with
  | .doErr => .cmd
  | .ctxDone => .ctx
  | .tableDead => fallback
  | .chClosed => fallback

/-- the subscription table around one `pipe.Receive` call: the subscription is registered BEFORE the
    (P|S)SUBSCRIBE command is sent, `during` is whatever happens on the connection while the call
    runs (pushes for other or the same channels, other Receive calls, …), and `defer cancel()` removes
    the registration when the call returns — on EVERY exit path (`End`), also when the command
    itself failed -/
def receiveCall (t : Table) (chans : List String) (hasFn : Bool) (during : List Op) (_exit : End) : Table :=
  step (run (step t (.subscribe chans hasFn)) during) (.cancel (t.cnt + 1))

/-! ### the channel returned by SetPubSubHooks -/

/-- one `chan error` handed out by SetPubSubHooks -/
structure HookCh where
  errs : List String := []
  closes : Nat := 0
  sendAfterClose : Bool := false     -- would be a Go panic
  deriving DecidableEq, Repr

/-- the slot `p.pshks` holds at most one channel; whoever swaps it out owns it and closes it -/
structure HookSt where
  done : List HookCh := []           -- channels swapped out so far, in order of creation
  cur : Option HookCh := none        -- the channel in the slot (none: emptypshks)
  deriving DecidableEq, Repr

/-- atomic steps: the `Swap`s of SetPubSubHooks and of `_background`'s cleanup -/
inductive HookOp
  | swapNew                 -- SetPubSubHooks(non-zero): Swap(new); close(old.close)
  | swapEmpty (err : Option String)   -- Swap(emptypshks); (old.close <- err)? ; close(old.close)
  deriving DecidableEq, Repr

/-- `old.close <- err` (optional) then `close(old.close)` -/
def HookCh.finish (c : HookCh) (err : Option String) : HookCh :=
  let c := match err with
    | some e => { c with errs := c.errs ++ [e], sendAfterClose := c.sendAfterClose || c.closes > 0 }
    | none => c
  { c with closes := c.closes + 1 }

def hookStep (s : HookSt) : HookOp → HookSt
  | .swapNew => { done := s.done ++ (s.cur.map (·.finish none)).toList, cur := some {} }
  | .swapEmpty err =>
    match s.cur with
    | some c => { done := s.done ++ [c.finish err], cur := none }
    | none => s

def HookSt.all (s : HookSt) : List HookCh := s.done ++ s.cur.toList

/-! ### specification of an end-to-end run: what a Receive callback must see -/

/-- the server's publish log -/
inductive Pub | publish (channel payload : String) | spublish (channel payload : String)
  deriving DecidableEq, Repr

/-- glob restricted to the shapes the end-to-end suite uses: literal, or literal prefix followed by `*` -/
def globMatch (p s : String) : Bool :=
  if p.endsWith "*" then s.startsWith (p.dropEnd 1).toString else p == s

/-- insertion sort of the patterns (the server walks a connection's patterns in sorted order) -/
def sortStrs (l : List String) : List String :=
  l.foldl (fun acc x => (acc.filter (· < x)) ++ [x] ++ (acc.filter (fun y => !(y < x)))) []

/-- what a subscription established before the first publish and ended after the last one must
    receive, exactly once and in server order: kind 0 = SUBSCRIBE (channel match), 1 = PSUBSCRIBE
    (one message per matching pattern), 2 = SSUBSCRIBE -/
def specLog (kind : Nat) (chans : List String) (log : List Pub) : List Msg :=
  log.flatMap fun
    | .publish ch m =>
      if kind == 0 then (if chans.contains ch then [⟨"", ch, m⟩] else [])
      else if kind == 1 then ((sortStrs chans.eraseDups).filter (globMatch · ch)).map fun p => ⟨p, ch, m⟩
      else []
    | .spublish ch m => if kind == 2 && chans.contains ch then [⟨"", ch, m⟩] else []

end Rv.Subs
