/-
Model of the topology parsers of /repo/cluster.go: `parseEndpoint`, `parseSlots`,
`parseShards`, together with the `RedisMessage` accessors they use (`values()`,
`string()`, `intlen`, `AsMap`, `AsInt64`) and the two stdlib functions whose results
they embed (`net.SplitHostPort` host part, `net.JoinHostPort`, `strconv.FormatInt`,
`strconv.ParseInt` base 10).

Every place where the Go code indexes a slice goes through `idx`, which answers
`Res.panic` when the index is out of range; `Rv.C19.parse_total_no_panic` proves that
outcome unreachable. Core Lean only.
-/
import Rv.Model.Msg
import Rv.Model.Hex
namespace Rv.Topology
open Rv

abbrev Bytes := List UInt8

def b (s : String) : Bytes := s.toUTF8.toList

/-! ## stdlib pieces -/

def natDigits : Nat → Nat → List UInt8
  | 0, _ => []
  | fuel + 1, n => if n < 10 then [UInt8.ofNat (48 + n)] else natDigits fuel (n / 10) ++ [UInt8.ofNat (48 + n % 10)]

/-- `strconv.FormatInt(n, 10)` -/
def fmtInt (n : Int) : Bytes :=
  if n < 0 then 45 :: natDigits (n.natAbs + 1) n.natAbs else natDigits (n.natAbs + 1) n.natAbs

def indexOf (c : UInt8) : Bytes → Option Nat
  | [] => none
  | x :: xs => if x = c then some 0 else (indexOf c xs).map (· + 1)

def lastIndexOf (c : UInt8) : Bytes → Option Nat
  | [] => none
  | x :: xs => match lastIndexOf c xs with
    | some i => some (i + 1)
    | none => if x = c then some 0 else none

/-- host part of `net.SplitHostPort(hostport)`; every error path yields `""` (the caller drops the error) -/
def splitHost (hp : Bytes) : Bytes :=
  match lastIndexOf 58 hp with
  | none => []
  | some i =>
    if hp.head? = some 91 then
      match indexOf 93 hp with
      | none => []
      | some e =>
        if e + 1 = hp.length then []
        else if e + 1 = i then
          if (hp.drop 1).contains 91 then []
          else if (hp.drop (e + 1)).contains 93 then []
          else (hp.drop 1).take (e - 1)
        else []
    else
      let host := hp.take i
      if host.contains 58 then []
      else if hp.contains 91 then []
      else if hp.contains 93 then []
      else host

/-- `net.JoinHostPort(host, port)` -/
def joinHostPort (host port : Bytes) : Bytes :=
  if host.contains 58 then [91] ++ host ++ [93, 58] ++ port else host ++ [58] ++ port

def maxU64 : Nat := 18446744073709551615

/-- `strconv.ParseUint(s, 10, 64)`: `(value, status)` with status 0 = ok, 1 = syntax, 2 = range.
    The loop stops at the first offending byte, as the Go loop does. -/
def parseUintLoop : Bytes → Nat → Nat × Nat
  | [], n => (n, 0)
  | c :: rest, n =>
    if c < 48 ∨ c > 57 then (0, 1)
    else if n ≥ maxU64 / 10 + 1 then (maxU64, 2)
    else if n * 10 + (c.toNat - 48) > maxU64 then (maxU64, 2)
    else parseUintLoop rest (n * 10 + (c.toNat - 48))

def parseUint (s : Bytes) : Nat × Nat :=
  if s = [] then (0, 1) else parseUintLoop s 0

/-- value returned by `strconv.ParseInt(s, 10, 64)` (the error is dropped by the callers):
    syntax error → 0, range error → the clamped bound -/
def parseInt64 (s : Bytes) : Int :=
  match s with
  | [] => 0
  | c :: rest =>
    let neg := c = 45
    let body := if c = 43 ∨ c = 45 then rest else s
    let (un, st) := parseUint body
    if st = 1 then 0
    else if ¬ neg ∧ un ≥ 9223372036854775808 then 9223372036854775807
    else if neg ∧ un > 9223372036854775808 then -9223372036854775808
    else if neg then -(un : Int) else (un : Int)

/-! ## message accessors -/

def isStrT (t : UInt8) : Bool := t = 36 || t = 43          -- '$' '+'
def isArrT (t : UInt8) : Bool := t = 42 || t = 126         -- '*' '~'
def isMapT (t : UInt8) : Bool := t = 37                    -- '%'
def isErrT (t : UInt8) : Bool := t = 95 || t = 45 || t = 33 -- '_' '-' '!'  (`Error() != nil`)

/-- the zero `RedisMessage{}` a Go map yields for a missing key -/
def zero : Msg := Msg.mk 0 [] 0 [] []

/-- `xs[i]` of the Go code: out of range is a run-time panic -/
def idx (xs : List Msg) (i : Nat) : Res Msg :=
  match xs[i]? with
  | some m => .ok m
  | none => .panic

/-- value of `m.AsInt64()` (error dropped) -/
def asInt64 (m : Msg) : Int :=
  if m.typ = 58 then m.int
  else if isStrT m.typ then parseInt64 m.str
  else if m.arr ≠ [] then 0
  else if isErrT m.typ then 0
  else parseInt64 m.str

abbrev Dict := List (Bytes × Msg)

/-- `toMap(values)`: pairs in order; a non-string key is an error; `values[i+1]` past the end would panic -/
def toMap : List Msg → Res Dict
  | [] => .ok []
  | [k] => if isStrT k.typ then .panic else .err "parse"
  | k :: v :: rest =>
    if isStrT k.typ then
      match toMap rest with
      | .ok d => .ok ((k.str, v) :: d)
      | r => r
    else .err "parse"

/-- `m.AsMap()` -/
def asMap (m : Msg) : Res Dict :=
  if isErrT m.typ then .err "redis"
  else if (isMapT m.typ || isArrT m.typ) && m.arr.length % 2 = 0 then toMap m.arr
  else .err "parse"

/-- `x, _ := m.AsMap()`: an error leaves the nil map -/
def asMapOrNil (m : Msg) : Res Dict :=
  match asMap m with
  | .ok d => .ok d
  | .err _ => .ok []
  | .panic => .panic
  | .oom => .oom

/-- `dict[key]` on a Go map filled in order (later duplicates overwrite) -/
def mget (key : Bytes) (d : Dict) : Msg :=
  d.foldl (fun acc kv => if kv.1 = key then kv.2 else acc) zero

/-! ## groups -/

structure Group where
  nodes : List Bytes
  slots : List (Int × Int)
  deriving Repr, DecidableEq

/-- `map[string]group` as an association list with unique keys (order is not observable in Go) -/
abbrev Groups := List (Bytes × Group)

def gget (k : Bytes) (gs : Groups) : Option Group := (gs.find? (·.1 = k)).map (·.2)
def gset (k : Bytes) (g : Group) (gs : Groups) : Groups := (k, g) :: gs.filter (·.1 ≠ k)

/-- `parseEndpoint(fallback, endpoint, port)` -/
def parseEndpoint (fallback endpoint : Bytes) (port : Int) : Bytes :=
  if endpoint = [63] then []
  else if endpoint = [] then joinHostPort (splitHost fallback) (fmtInt port)
  else joinHostPort endpoint (fmtInt port)

/-! ## parseSlots -/

/-- the inner loop `for i := 2; i < len(values); i++` run over `values[2:]` -/
def slotNodes (defaultAddr : Bytes) : List Msg → Res (List Bytes)
  | [] => .ok []
  | nv :: rest =>
    let nodeValues := nv.arr
    if nodeValues.length < 2 then slotNodes defaultAddr rest
    else
      match idx nodeValues 0, idx nodeValues 1 with
      | .ok n0, .ok n1 =>
        match slotNodes defaultAddr rest with
        | .ok ns =>
          let dst := parseEndpoint defaultAddr n0.str n1.int
          if dst ≠ [] then .ok (dst :: ns) else .ok ns
        | r => r
      | _, _ => .panic

/-- one iteration of `for _, v := range slots.values()` -/
def slotsStep (defaultAddr : Bytes) (groups : Groups) (v : Msg) : Res Groups :=
  let values := v.arr
  if values.length < 3 then .ok groups
  else
    match idx values 0, idx values 1, idx values 2 with
    | .ok v0, .ok v1, .ok v2 =>
      let masterValues := v2.arr
      if masterValues.length < 2 then .ok groups
      else
        match idx masterValues 0, idx masterValues 1 with
        | .ok m0, .ok m1 =>
          let master := parseEndpoint defaultAddr m0.str m1.int
          if master = [] then .ok groups
          else
            match gget master groups with
            | some g => .ok (gset master { g with slots := g.slots ++ [(v0.int, v1.int)] } groups)
            | none =>
              match slotNodes defaultAddr (values.drop 2) with
              | .ok ns => .ok (gset master { nodes := ns, slots := [(v0.int, v1.int)] } groups)
              | .err e => .err e
              | .panic => .panic
              | .oom => .oom
        | _, _ => .panic
    | _, _, _ => .panic

def foldRes {α β : Type} (f : β → α → Res β) : β → List α → Res β
  | acc, [] => .ok acc
  | acc, x :: xs =>
    match f acc x with
    | .ok acc' => foldRes f acc' xs
    | r => r

/-- `parseSlots(slots, defaultAddr)` -/
def parseSlots (slots : Msg) (defaultAddr : Bytes) : Res Groups :=
  foldRes (slotsStep defaultAddr) [] slots.arr

/-! ## parseShards -/

/-- `for i := range g.slots { g.slots[i][0], _ = slots[i*2].AsInt64(); g.slots[i][1], _ = slots[i*2+1].AsInt64() }`
    for `i = from, from+1, …, from+n-1` -/
def slotPairs (slots : List Msg) : Nat → Nat → Res (List (Int × Int))
  | _, 0 => .ok []
  | i, n + 1 =>
    match idx slots (i * 2), idx slots (i * 2 + 1) with
    | .ok a, .ok c =>
      match slotPairs slots (i + 1) n with
      | .ok r => .ok ((asInt64 a, asInt64 c) :: r)
      | r => r
    | _, _ => .panic

def kHealth := b "health"
def kOnline := b "online"
def kPort := b "port"
def kTlsPort := b "tls-port"
def kEndpoint := b "endpoint"
def kRole := b "role"
def kMaster := b "master"
def kSlots := b "slots"
def kNodes := b "nodes"

/-- one iteration of `for _, n := range _nodes`; state = (g.nodes, m) with `none` for `m = -1` -/
def shardNodeStep (defaultAddr : Bytes) (tls : Bool) (st : List Bytes × Option Nat) (n : Msg) :
    Res (List Bytes × Option Nat) :=
  match asMapOrNil n with
  | .ok dict =>
    if (mget kHealth dict).str ≠ kOnline then .ok st
    else
      let port := if tls ∧ (mget kTlsPort dict).int > 0 then (mget kTlsPort dict).int else (mget kPort dict).int
      let dst := parseEndpoint defaultAddr (mget kEndpoint dict).str port
      if dst = [] then .ok st
      else .ok (st.1 ++ [dst], if (mget kRole dict).str = kMaster then some st.1.length else st.2)
  | .err e => .err e
  | .panic => .panic
  | .oom => .oom

/-- `g.nodes[0], g.nodes[m] = g.nodes[m], g.nodes[0]` -/
def swap0 (ns : List Bytes) (m : Nat) : Res (List Bytes) :=
  match ns[0]?, ns[m]? with
  | some a, some c => .ok ((ns.set 0 c).set m a)
  | _, _ => .panic

/-- one iteration of `for _, v := range shards.values()` -/
def shardStep (defaultAddr : Bytes) (tls : Bool) (groups : Groups) (v : Msg) : Res Groups :=
  match asMapOrNil v with
  | .ok shard =>
    let slots := (mget kSlots shard).arr
    let nodes := (mget kNodes shard).arr
    match slotPairs slots 0 (slots.length / 2) with
    | .ok ss =>
      match foldRes (shardNodeStep defaultAddr tls) ([], none) nodes with
      | .ok (ns, some m) =>
        match swap0 ns m with
        | .ok ns' =>
          match ns'.head? with
          | some master => .ok (gset master { nodes := ns', slots := ss } groups)
          | none => .panic
        | .err e => .err e
        | .panic => .panic
        | .oom => .oom
      | .ok (_, none) => .ok groups
      | .err e => .err e
      | .panic => .panic
      | .oom => .oom
    | .err e => .err e
    | .panic => .panic
    | .oom => .oom
  | .err e => .err e
  | .panic => .panic
  | .oom => .oom

/-- `parseShards(shards, defaultAddr, tls)` -/
def parseShards (shards : Msg) (defaultAddr : Bytes) (tls : Bool) : Res Groups :=
  foldRes (shardStep defaultAddr tls) [] shards.arr

/-- `clusterslots.parse`: CLUSTER SLOTS below version 8, CLUSTER SHARDS from 8 on -/
def parseTopology (ver : Nat) (reply : Msg) (addr : Bytes) (tls : Bool) : Res Groups :=
  if ver < 8 then parseSlots reply addr else parseShards reply addr tls

end Rv.Topology

/-! ## line-protocol helpers shared by the cluster drivers (not part of the model) -/
namespace Rv.ClusterWire
open Rv Rv.Topology

/-- prefix token stream: `S t hex` string leaf, `I t n` integer leaf, `A t n` aggregate with n children -/
def parseMsg : Nat → List String → Option (Msg × List String)
  | 0, _ => none
  | _ + 1, "S" :: t :: h :: rest =>
    match t.toNat?, Hex.decode h with
    | some t, some s => some (Msg.leafStr (UInt8.ofNat t) s, rest)
    | _, _ => none
  | _ + 1, "I" :: t :: n :: rest =>
    match t.toNat?, n.toInt? with
    | some t, some n => some (Msg.leafInt (UInt8.ofNat t) n, rest)
    | _, _ => none
  | f + 1, "A" :: t :: n :: rest =>
    match t.toNat?, n.toNat? with
    | some t, some n =>
      let rec kids (f : Nat) : Nat → List String → Option (List Msg × List String)
        | 0, ws => some ([], ws)
        | k + 1, ws =>
          match parseMsg f ws with
          | some (m, ws') =>
            match kids f k ws' with
            | some (ms, ws'') => some (m :: ms, ws'')
            | none => none
          | none => none
      match kids f n rest with
      | some (ms, rest') => some (Msg.agg (UInt8.ofNat t) ms, rest')
      | none => none
    | _, _ => none
  | _, _ => none

def parseMsgAll (ws : List String) : Option Msg :=
  match parseMsg (ws.length + 1) ws with
  | some (m, []) => some m
  | _ => none

def insertSorted (x : String × String) : List (String × String) → List (String × String)
  | [] => [x]
  | y :: ys => if x.1 < y.1 then x :: y :: ys else y :: insertSorted x ys

def sortByKey (xs : List (String × String)) : List (String × String) :=
  xs.foldl (fun acc x => insertSorted x acc) []

def dumpGroup (k : Bytes) (g : Group) : String :=
  "g " ++ Hex.encode k ++ " n=" ++ ",".intercalate (g.nodes.map Hex.encode) ++
    " s=" ++ ",".intercalate (g.slots.map fun p => toString p.1 ++ ":" ++ toString p.2)

/-- canonical text of a `map[string]group`: entries sorted by master -/
def dumpGroups (gs : Groups) : String :=
  if gs.isEmpty then "empty" else
  " | ".intercalate ((sortByKey (gs.map fun kg => (Hex.encode kg.1, dumpGroup kg.1 kg.2))).map (·.2))

def dumpRes : Res Groups → String
  | .ok gs => dumpGroups gs
  | .err e => "err:" ++ e
  | .panic => "panic"
  | .oom => "oom"

end Rv.ClusterWire
