/-
The outer loop of `pipe._backgroundWrite` as far as C03 needs it: batches are dequeued in order, each is counted in
`wcnt` and then written command by command; the connection may fail in the middle of a batch, after which the loop ends
(`for err == nil`). `before` selects where the counter is incremented: `true` = before the write loop (the code; pinned by
the regenerated fact `Rv.Gen.PipeShape.writerCountsBeforeWrite`), `false` = only after an error-free write.
A batch is `(commands, accept)`: `accept` = number of its commands the connection takes before the write fails
(`accept ≥ length`: the write succeeds).
-/
namespace Rv.WriterLoop

structure W where
  wcnt : Nat          -- batches counted as handed to the writer
  wire : List Nat     -- command ids whose bytes reached the connection (may have been executed)
  err  : Bool         -- the write loop has ended with an error
deriving Repr, DecidableEq

abbrev Batch := List Nat × Nat

def writeBatch (before : Bool) (w : W) (b : Batch) : W :=
  if w.err then w else
    let ok := decide (b.1.length ≤ b.2)
    { wcnt := if before || ok then w.wcnt + 1 else w.wcnt,
      wire := w.wire ++ b.1.take b.2,
      err := !ok }

def init : W := ⟨0, [], false⟩

def run (before : Bool) (bs : List Batch) : W := bs.foldl (writeBatch before) init

/-- every command on the wire belongs to one of the first `wcnt` batches (those the teardown treats as written) -/
def Covered (bs : List Batch) (w : W) : Prop :=
  ∀ x ∈ w.wire, ∃ i, i < w.wcnt ∧ ∃ b, bs[i]? = some b ∧ x ∈ b.1

end Rv.WriterLoop
