/-
Decidable per-record checks over the regenerated builder tables, shared by
Rv/Props/C32.lean, Rv/Props/C33.lean (which prove them for every record by kernel
evaluation) and Rv/Drv/Builder.lean (which answers `!judge` oracle lines with them).
Nothing here looks at the concrete tables. Core Lean only.
-/
import Rv.Model.Builder
import Rv.Spec.RedisCommands
import Rv.Gen.Flags
namespace Rv.Bld
open Rv.Gen Rv.Spec.RedisCommands

/-- the Redis command a root constructor stands for: its tokens joined by one space
    (for printing; joins with the oracle go through the number `c.nm = code (cmdName c)`) -/
def cmdName (c : Cmd) : String := " ".intercalate c.tokens

/-- the regenerated name number is the code of the tokens (checked by the driver for every
    command when it starts, not in the kernel: decoding 575 strings there takes minutes) -/
def nameCodeOk (c : Cmd) : Bool := c.nm == code (cmdName c)

/-! ### flag predicates exactly as cmds.go tests them (`c.cf&X == X`, X regenerated) -/
def isReadOnly (cf : Nat) : Bool := hasFlag cf Flags.maskIsReadOnly
def isBlock (cf : Nat) : Bool := hasFlag cf Flags.maskIsBlock
def noReply (cf : Nat) : Bool := hasFlag cf Flags.maskNoReply
def isUnsub (cf : Nat) : Bool := hasFlag cf Flags.maskIsUnsub
def isRetryable (cf : Nat) : Bool := hasFlag cf Flags.maskIsRetryable
def isPipe (cf : Nat) : Bool := hasFlag cf Flags.maskIsPipe
def isMGet (cf : Nat) : Bool := hasFlag cf Flags.maskIsMGet
def isOptIn (cf : Nat) : Bool := hasFlag cf Flags.maskIsOptIn
def isStaticTTL (cf : Nat) : Bool := hasFlag cf Flags.maskIsStaticTTL

/-! ### C32: what the oracle demands of one built command -/

/-- commands the builders mark read-only although the oracle says they write.
    FINDING (reported, not repaired: gen_inference_test.go calls its Cache()). -/
def knownWriters : List Nat := [nm! "AI.MODELEXECUTE"]

def isPubSub (cmd : Nat) : Bool := subscribeFamily.contains cmd || unsubscribeFamily.contains cmd

/-- full-strength clause 1: a read-only flag is only allowed on oracle reads (the Pub/Sub
    family carries the read-only bits inside noRetTag/unsubTag; it is judged by clause 4) -/
def readonlyOk (cmd : Nat) (cf : Nat) : Bool := !isReadOnly cf || isRead cmd || isPubSub cmd

/-- clause 3 for a root: always-blocking commands carry the block flag -/
def blockingOk (cmd : Nat) (cf : Nat) : Bool := !alwaysBlocking.contains cmd || isBlock cf

/-- clause 3 for a method: appending the option token that makes the command block sets the flag -/
def blockOptionOk (cmd : Nat) (m : Method) : Bool :=
  blockingWithOption.all fun p => !(p.1 == cmd && m.items.contains (.lit p.2)) || m.block

/-- the same for all methods of a command (commands without a blocking option are skipped
    without looking at their methods) -/
def blockOptionsOk (c : Cmd) : Bool :=
  !(blockingWithOption.any (·.1 == c.nm)) || c.methods.all (blockOptionOk c.nm)

/-- clause 4 -/
def pubsubOk (cmd : Nat) (cf : Nat) : Bool :=
  (!subscribeFamily.contains cmd || noReply cf) && (!unsubscribeFamily.contains cmd || isUnsub cf)

/-- verdict of the specification on one *built* command, given the command name (number and
    text), whether the path appended the blocking option token as a literal, whether it
    ended in Cache(), and the flag word of the result. "ok" or the violated clause. -/
def judge (cmd : Nat) (name : String) (blockOpt : Bool) (cache : Bool) (cf : Nat) : String :=
  if !readonlyOk cmd cf then "bad:readonly-not-read:" ++ name
  else if cache && !isReadOnly cf then "bad:cacheable-not-readonly:" ++ name
  else if !blockingOk cmd cf then "bad:blocking-not-tagged:" ++ name
  else if blockOpt && (blockingWithOption.any (·.1 == cmd)) && !isBlock cf then "bad:block-option-not-tagged:" ++ name
  else if !pubsubOk cmd cf then "bad:pubsub-not-tagged:" ++ name
  else "ok"

/-! ### C33: shape of one method record -/

def Fmt.named : Fmt → Bool
  | .unknown _ => false
  | _ => true

def Item.named : Item → Bool
  | .par _ f => f.named
  | .loop _ f => f.named
  | _ => true

def Item.paramIdx : Item → Option Nat
  | .lit _ => none
  | .par i _ => some i
  | .spread i => some i
  | .loop i _ => some i

/-- every parameter is appended exactly once, in parameter (= call) order -/
def paramsInOrder (m : Method) : Bool :=
  m.items.filterMap Item.paramIdx == List.range m.params.length

/-- which scalar Go type a formatting expression applies to -/
def Fmt.accepts : Fmt → PKind → Bool
  | .str, .str => true
  | .int, .i64 => true
  | .uint, .u64 => true
  | .f64, .f64 => true
  | .f32, .f32 => true
  | .durSec, .dur => true
  | .durMs, .dur => true
  | .unixSec, .time => true
  | .unixMs, .time => true
  | _, _ => false

def PKind.elem : PKind → Option PKind
  | .i64s => some .i64
  | .u64s => some .u64
  | .f64s => some .f64
  | .f32s => some .f32
  | _ => none

def Item.typed (ps : List PKind) : Item → Bool
  | .lit _ => true
  | .par i f => match ps[i]? with
    | some k => f.accepts k
    | none => false
  | .spread i => ps[i]? == some .strs || ps[i]? == some .strSlice
  | .loop i f => match ps[i]? with
    | some k => match k.elem with
      | some e => f.accepts e
      | none => false
    | none => false

def KeyUpd.typed (ps : List PKind) : KeyUpd → Bool
  | .one i => ps[i]? == some .str
  | .many i => ps[i]? == some .strs

/-- the option token a duration/time conversion belongs to -/
def unitToken : Fmt → Option String
  | .durSec => some "EX"      -- seconds
  | .durMs => some "PX"       -- milliseconds
  | .unixSec => some "EXAT"   -- unix time, seconds
  | .unixMs => some "PXAT"    -- unix time, milliseconds
  | _ => none

/-- every duration/time conversion directly follows the literal option token naming its unit -/
def unitsOk : Option Item → List Item → Bool
  | _, [] => true
  | prev, it :: rest =>
    (match it with
     | .par _ f | .loop _ f => match unitToken f with
       | some tok => prev == some (.lit tok)
       | none => true
     | _ => true) && unitsOk (some it) rest

def methodOk (m : Method) : Bool :=
  m.items.all Item.named && paramsInOrder m && m.items.all (Item.typed m.params)
  && m.keys.all (KeyUpd.typed m.params) && unitsOk none m.items

end Rv.Bld
