/-
Model of /repo/lua.go: `Lua.Exec`, `Lua.ExecMulti` and the `sha1Mu` protocol.
The server is a parameter (`step : σ → Cmd → σ × Reply`), so every theorem over this
model holds for every server behaviour. Core Lean only.
-/
namespace Rv.LuaExec

abbrev Bytes := List UInt8

/-- what a command can be answered with -/
inductive Reply
  | str (s : Bytes)   -- simple / blob string
  | int (n : Int)     -- integer (any non-string, non-error value)
  | nil               -- redis nil: `Error()` is `Nil`
  | rerr (t : Bytes)  -- redis error message with this text
  | io (t : Bytes)    -- transport error (RedisResult.err), no reply at all
  deriving DecidableEq, Repr, Inhabited

/-- the five commands lua.go builds -/
inductive Kind
  | scriptLoad | evalsha | evalshaRo | eval | evalRo
  deriving DecidableEq, Repr

/-- a built command: kind, the `IsRetryable()` flag and the words after the command name -/
structure Cmd where
  kind : Kind
  retry : Bool
  args : List Bytes
  deriving DecidableEq, Repr

/-- options of a `*Lua`; `sha` is the hex SHA-1 of `script` that `newLuaScript` computes
    client-side (a parameter: the correspondence suite passes crypto/sha1's value) -/
structure Cfg where
  ro : Bool
  nosha : Bool
  load : Bool
  retry : Bool
  script : Bytes
  sha : Bytes
  deriving Repr

/-- the `RedisResult` handed back to the caller -/
inductive Res
  | reply (r : Reply)   -- the server's answer (or transport error) unchanged
  | eRedis (t : Bytes)  -- `NewErrorResult(redis error)`: the error moved into the err field
  | eNil                -- `NewErrorResult(Nil)`
  | zero                -- zero RedisResult (`NewErrorResult(nil)` or `resp` never assigned)
  deriving DecidableEq, Repr

/-- `newLuaScript`: SHA-1 is computed only when neither NoSha nor WithLoadSHA1 -/
def initSha (c : Cfg) : Bytes := if !c.nosha && !c.load then c.sha else []

def ERR_ : Bytes := [69, 82, 82, 32]                       -- "ERR "
def NOSCRIPT : Bytes := [78, 79, 83, 67, 82, 73, 80, 84]   -- "NOSCRIPT"

/-- `RedisMessage.Error()` trims a leading "ERR " -/
def trimErr (t : Bytes) : Bytes := if ERR_.isPrefixOf t then t.drop 4 else t

/-- `err, isErr := IsRedisErr(resp.Error()); isErr && err.IsNoScript()` -/
def isNoScript : Reply → Bool
  | .rerr t => NOSCRIPT.isPrefixOf (trimErr t)
  | _ => false

/-- `result.ToString()` succeeds exactly on string replies -/
def toStr? : Reply → Option Bytes
  | .str s => some s
  | _ => none

/-- `NewErrorResult(result.Error())` -/
def errRes : Reply → Res
  | .io t => .reply (.io t)
  | .rerr t => .eRedis (trimErr t)
  | .nil => .eNil
  | _ => .zero

/-- `result.Error() != nil`, as the result ExecMulti fills in -/
def replyErr? : Reply → Option Res
  | .io t => some (.reply (.io t))
  | .rerr t => some (.eRedis (trimErr t))
  | .nil => some .eNil
  | _ => none

def natBytes (n : Nat) : Bytes := (toString n).toUTF8.toList

/-- `ScriptLoad().Script(s.script).Build().ToRetryable()` -/
def loadCmd (c : Cfg) : Cmd := ⟨.scriptLoad, true, [c.script]⟩

/-- `EvalshaRo()…Build()` (scrRoTag ⊇ retryableTag) / `mayRetryable(Evalsha()…Build())` -/
def evalshaCmd (c : Cfg) (sha : Bytes) (keys args : List Bytes) : Cmd :=
  if c.ro then ⟨.evalshaRo, true, sha :: natBytes keys.length :: (keys ++ args)⟩
  else ⟨.evalsha, c.retry, sha :: natBytes keys.length :: (keys ++ args)⟩

def evalCmd (c : Cfg) (keys args : List Bytes) : Cmd :=
  if c.ro then ⟨.evalRo, true, c.script :: natBytes keys.length :: (keys ++ args)⟩
  else ⟨.eval, c.retry, c.script :: natBytes keys.length :: (keys ++ args)⟩

structure Out (σ : Type) where
  trace : List (Cmd × Reply)   -- commands sent through `c.Do`, with their answers, in order
  res : Res
  sha : Bytes                  -- `s.sha1` afterwards
  srv : σ

/-- the two `if` blocks at the end of `Exec` -/
def evalPhase {σ : Type} (c : Cfg) (sha : Bytes) (keys args : List Bytes)
    (step : σ → Cmd → σ × Reply) (s : σ) (tr : List (Cmd × Reply)) : Out σ :=
  -- if !s.noSha1 && scriptSha1 != "" { resp = EVALSHA…; isNoScript = … }
  let first : σ × List (Cmd × Reply) × Res × Bool :=
    if !c.nosha && sha ≠ [] then
      let cmd := evalshaCmd c sha keys args
      let p := step s cmd
      (p.1, [(cmd, p.2)], .reply p.2, isNoScript p.2)
    else (s, [], .zero, false)
  -- if s.noSha1 || isNoScript { resp = EVAL… }
  if c.nosha || first.2.2.2 then
    let cmd := evalCmd c keys args
    let p := step first.1 cmd
    ⟨tr ++ first.2.1 ++ [(cmd, p.2)], .reply p.2, sha, p.1⟩
  else ⟨tr ++ first.2.1, first.2.2.1, sha, first.1⟩

/-- `Lua.Exec` (one goroutine; `sha` is `s.sha1` on entry) -/
def exec {σ : Type} (c : Cfg) (sha : Bytes) (keys args : List Bytes)
    (step : σ → Cmd → σ × Reply) (s : σ) : Out σ :=
  if c.load then
    if sha = [] then
      let cmd := loadCmd c
      let p := step s cmd
      match toStr? p.2 with
      | some str => evalPhase c str keys args step p.1 [(cmd, p.2)]
      | none => ⟨[(cmd, p.2)], errRes p.2, sha, p.1⟩
    else evalPhase c sha keys args step s []
  else evalPhase c sha keys args step s []

/-- scripted server: answers come from a list, `io "eof"` when it runs out -/
def eofReply : Reply := .io [101, 111, 102]

def scripted : List Reply → Cmd → List Reply × Reply
  | [], _ => ([], eofReply)
  | r :: rs, _ => (rs, r)

/-! ### ExecMulti -/

structure MOut where
  nodeCmds : List Cmd          -- the command each node of `c.Nodes()` receives
  batch : Option (List Cmd)    -- argument of the final `c.DoMulti` (none: not called)
  res : List Res
  sha : Bytes
  deriving Repr

def multiCmds (c : Cfg) (sha : Bytes) (multi : List (List Bytes × List Bytes)) : List Cmd :=
  multi.map fun m =>
    if !c.nosha && sha ≠ [] then evalshaCmd c sha m.1 m.2 else evalCmd c m.1 m.2

/-- `Lua.ExecMulti`. `nodes`: the SCRIPT LOAD answer of every node (the model takes the first
    failing / first succeeding node in list order; the Go code takes whichever CAS wins).
    `answer`: what `c.DoMulti` returns for the batch. -/
def execMulti (c : Cfg) (sha : Bytes) (nodes : List Reply)
    (multi : List (List Bytes × List Bytes)) (answer : List Cmd → List Reply) : MOut :=
  if !c.nosha then
    match nodes.findSome? replyErr? with
    | some e => ⟨nodes.map fun _ => loadCmd c, none, multi.map fun _ => e, sha⟩
    | none =>
      let sha' := if c.load then
          match nodes.findSome? toStr? with
          | some s => if sha = [] then s else sha
          | none => sha
        else sha
      let cmds := multiCmds c sha' multi
      ⟨nodes.map fun _ => loadCmd c, some cmds, (answer cmds).map .reply, sha'⟩
  else
    let cmds := multiCmds c sha multi
    ⟨[], some cmds, (answer cmds).map .reply, sha⟩

/-! ### concurrent callers: the `sha1Mu` protocol of `Exec` (loadSha1 scripts)

Atomic steps (everything between Lock and Unlock is one step, because the SCRIPT LOAD round
trip happens while the write lock is held):
 * `read`   : RLock; scriptSha1 = s.sha1; RUnlock
 * `hit`    : Lock; s.sha1 != "" (double check); scriptSha1 = s.sha1; Unlock
 * `load r` : Lock; s.sha1 == ""; SCRIPT LOAD answered r; store or fail; Unlock
 * `multi s`: ExecMulti's `Lock; if s.sha1 == "" { s.sha1 = sha }; Unlock` -/

inductive Pc
  | start | wantLock | haveSha (s : Bytes) | failed
  deriving DecidableEq, Repr

structure Sys where
  sha : Bytes
  pc : Nat → Pc            -- one program counter per concurrent Exec call
  loads : List Reply       -- answers of the SCRIPT LOADs issued by Exec calls, in lock order

def setPc (pc : Nat → Pc) (i : Nat) (v : Pc) : Nat → Pc := fun j => if j = i then v else pc j

inductive Step : Sys → Sys → Prop
  | read (σ : Sys) (i : Nat) : σ.pc i = .start →
      Step σ { σ with pc := setPc σ.pc i (if σ.sha = [] then .wantLock else .haveSha σ.sha) }
  | hit (σ : Sys) (i : Nat) : σ.pc i = .wantLock → σ.sha ≠ [] →
      Step σ { σ with pc := setPc σ.pc i (.haveSha σ.sha) }
  | load (σ : Sys) (i : Nat) (r : Reply) : σ.pc i = .wantLock → σ.sha = [] →
      Step σ (match toStr? r with
        | some s => { sha := s, pc := setPc σ.pc i (.haveSha s), loads := σ.loads ++ [r] }
        | none => { σ with pc := setPc σ.pc i .failed, loads := σ.loads ++ [r] })
  | multi (σ : Sys) (s : Bytes) :
      Step σ { σ with sha := if σ.sha = [] then s else σ.sha }

inductive Reach : Sys → Prop
  | init (pc : Nat → Pc) : (∀ i, pc i = .start) → Reach ⟨[], pc, []⟩
  | step {σ τ : Sys} : Reach σ → Step σ τ → Reach τ

/-- a SCRIPT LOAD answer that gives the script a usable SHA-1 -/
def goodLoad (r : Reply) : Prop := ∃ s, toStr? r = some s ∧ s ≠ []


/-! ### Specification of C30 over an *observed* command log (used by the `!` oracle lines and
by the theorems: the model's traces are proved to satisfy it for every server). -/
namespace Spec

/-- how a command was answered, as far as the property cares -/
inductive Cls
  | ok        -- SCRIPT LOAD: a non-empty string; others: anything but NOSCRIPT
  | empty     -- SCRIPT LOAD answered with the empty string
  | noscript  -- a NOSCRIPT error reply
  | other     -- SCRIPT LOAD: anything that is not a string
  deriving DecidableEq, Repr

structure Ev where
  kind : Kind
  cls : Cls
  deriving DecidableEq, Repr

def isSha (k : Kind) : Bool := k == .evalsha || k == .evalshaRo
def isEval (k : Kind) : Bool := k == .eval || k == .evalRo

/-- the server ran the script body for this command: every EVAL/EVAL_RO, and every
    EVALSHA/EVALSHA_RO that was not refused with NOSCRIPT (a lost reply counts as run) -/
def ranBody (e : Ev) : Bool := isEval e.kind || (isSha e.kind && e.cls != .noscript)

/-- every EVAL/EVAL_RO directly follows an EVALSHA/EVALSHA_RO that was answered NOSCRIPT -/
def afterNoscript : Option Ev → List Ev → Bool
  | _, [] => true
  | prev, e :: rest =>
    (if isEval e.kind then
      (match prev with
       | some p => isSha p.kind && p.cls == .noscript
       | none => false)
     else true) && afterNoscript (some e) rest

def roOk (ro : Bool) (k : Kind) : Bool :=
  k == .scriptLoad || (if ro then k == .evalshaRo || k == .evalRo else k == .evalsha || k == .eval)

/-- SCRIPT LOAD appears only as the very first command, only for a WithLoadSHA1 script that has
    no usable SHA-1 yet, and nothing follows it unless it returned a string -/
def loadsOk (load loaded : Bool) : List Ev → Bool
  | [] => true
  | e :: rest =>
    rest.all (fun x => x.kind != .scriptLoad) &&
    (if e.kind == .scriptLoad then load && !loaded && (e.cls != .other || rest.isEmpty) else true)

/-- the property for one `Exec` call. `loaded`: an earlier SCRIPT LOAD of this script already
    returned a non-empty SHA-1. -/
def execOk (ro nosha load loaded : Bool) (log : List Ev) : Bool :=
  (!nosha || log.all (fun e => !isSha e.kind)) &&          -- NoSha never sends EVALSHA
  log.all (fun e => roOk ro e.kind) &&                      -- read-only ⇒ only _RO commands
  (nosha || afterNoscript none log) &&                      -- EVALSHA first, EVAL only after NOSCRIPT
  decide ((log.filter ranBody).length ≤ 1) &&               -- the body runs at most once
  loadsOk load loaded log

/-- `loaded` after this call -/
def loadedAfter (loaded : Bool) (log : List Ev) : Bool :=
  loaded || log.any (fun e => e.kind == .scriptLoad && e.cls == .ok)

/-- how often the server may run the body for one `Exec`. `resend`: the client re-sends commands
    tagged retryable after a transport error (rueidis clients with retries enabled). Without
    re-sending: at most once, whatever the script. With re-sending: more than once only for
    read-only scripts (harmless) and the *Retryable constructors (explicit opt-in). -/
def bodyRunsOk (ro retryable resend : Bool) (runs : Nat) : Bool :=
  decide (runs ≤ 1) || (resend && (ro || retryable))

def clsOf (k : Kind) (r : Reply) : Cls :=
  if k == .scriptLoad then
    match r with
    | .str [] => .empty
    | .str _ => .ok
    | _ => .other
  else if isNoScript r then .noscript else .ok

def evOf (p : Cmd × Reply) : Ev := ⟨p.1.kind, clsOf p.1.kind p.2⟩

end Spec

end Rv.LuaExec
