/-
Model of the batch paths of /repo/cluster.go: `_pickMulti` / `_pickMultiCache` (grouping with
index lists), `doretry` / `doretrycache`, `doresultfn` / `resultcachefn` (result placement,
MULTI…EXEC detection, re-queueing), `askingMulti` / `askingMultiCache` (ASKING interleaving)
and the round loop of `DoMulti` / `DoMultiCache`. Core Lean only.

A sub-batch is a list of pairs `(index in the caller's batch, command)`: the Go code keeps the
two parallel slices `cIndexes`/`commands` (`aIndexes`/`cAskings`) and only ever appends to both
together. The per-connection goroutines of one round are run one after the other in the order
of the pending list (the harness canonicalises the real, concurrent order accordingly).
-/
import Rv.Model.ClusterRoute
import Rv.Spec.Cluster
namespace Rv.ClusterMulti
open Rv Rv.Topology Rv.ClusterRoute

abbrev Entry := Nat × Cmd

structure Retry where
  cmds : List Entry := []
  asks : List Entry := []
  deriving Repr

/-- `retries.m` -/
abbrev Pending := List (Conn × Retry)

def pget (cc : Conn) (p : Pending) : Retry := ((p.find? (·.1 = cc)).map (·.2)).getD {}
def pset (cc : Conn) (r : Retry) (p : Pending) : Pending :=
  if p.any (·.1 = cc) then p.map fun e => if e.1 = cc then (cc, r) else e else p ++ [(cc, r)]

def addCmds (cc : Conn) (es : List Entry) (p : Pending) : Pending :=
  let r := pget cc p
  pset cc { r with cmds := r.cmds ++ es } p
def addAsks (cc : Conn) (es : List Entry) (p : Pending) : Pending :=
  let r := pget cc p
  pset cc { r with asks := r.asks ++ es } p

/-! ## `_pickMulti` -/

inductive PM where
  | ok (groups : Pending) (init : Bool)
  | nil_     -- `return nil, false`: some command has no connection
  | panic    -- `panic(panicMixCxSlot)`
  deriving Repr

/-- destination of every command, `none` as soon as one has no connection -/
def destsReplica (o : Opt) (c : Client) : List Cmd → Option (List Conn)
  | [] => some []
  | cmd :: rest =>
    match pickSlot o c cmd.slot (toReplica o cmd) with
    | none => none
    | some cc => (destsReplica o c rest).map (cc :: ·)

/-- append every command to its connection's sub-batch, in batch order -/
def groupBy : List (Entry × Conn) → Pending → Pending
  | [], p => p
  | (e, cc) :: rest, p => groupBy rest (addCmds cc [e] p)

/-- the counting loop of the second half of `_pickMulti`: `some last` / nil / panic -/
inductive Scan where
  | go (last : Nat)
  | nil_
  | panic

def scanLoop (c : Client) (init : Bool) : List Cmd → Nat → Scan
  | [], last => .go last
  | cmd :: rest, last =>
    if cmd.slot = initSlot then scanLoop c init rest last
    else if last ≠ initSlot ∧ init ∧ last ≠ cmd.slot then .panic
    else
      let last' := if last = initSlot then cmd.slot else last
      match c.wslots cmd.slot with
      | none => .nil_
      | some _ => scanLoop c init rest last'

/-- first index of a non-nil entry of `wslots` (`for i, cc := range c.wslots`) -/
def firstNonNil (c : Client) : Nat → Nat → Option Nat
  | 0, _ => none
  | fuel + 1, i => if (c.wslots i).isSome then some i else firstNonNil c fuel (i + 1)

def enumFrom {α : Type} : Nat → List α → List (Nat × α)
  | _, [] => []
  | i, x :: xs => (i, x) :: enumFrom (i + 1) xs

def pickMulti1 (o : Opt) (c : Client) (multi : List Cmd) : PM :=
  let init := multi.any (·.slot = initSlot)
  if !init ∧ c.rslots.isSome ∧ (o.mode = .sendRS ∨ o.mode = .sendRN) then
    match destsReplica o c multi with
    | none => .nil_
    | some ds => .ok (groupBy ((enumFrom 0 multi).zip ds) []) init
  else
    match scanLoop c init multi initSlot with
    | .panic => .panic
    | .nil_ => .nil_
    | .go last =>
      let last? : Option Nat := if last = initSlot then firstNonNil c 16384 0 else some last
      match last? with
      | none => .nil_
      | some last =>
        let dest (cmd : Cmd) : Option Conn := c.wslots (if cmd.slot ≠ initSlot then cmd.slot else last)
        match multi.mapM dest with
        | none => .nil_
        | some ds => .ok (groupBy ((enumFrom 0 multi).zip ds) []) init

/-- `_pickMultiCache` (cacheable commands always carry a key) -/
def pickMultiCache1 (o : Opt) (c : Client) (multi : List Cmd) : PM :=
  if c.rslots.isSome ∧ (o.mode = .sendRS ∨ o.mode = .sendRN) then
    match destsReplica o c multi with
    | none => .nil_
    | some ds => .ok (groupBy ((enumFrom 0 multi).zip ds) []) false
  else
    match multi.mapM (fun cmd => c.wslots cmd.slot) with
    | none => .nil_
    | some ds => .ok (groupBy ((enumFrom 0 multi).zip ds) []) false

inductive PMRes where
  | ok (groups : Pending) (init : Bool) (c : Client)
  | fail (e : Reply) (c : Client)
  | panic

/-- `pickMulti` / `pickMultiCache`: on nil one refresh and a second attempt -/
def pickMulti (o : Opt) (topo : Msg) (ro : Nat → Nat → Nat) (cache : Bool) (c : Client) (multi : List Cmd) : PMRes :=
  let f := if cache then pickMultiCache1 o else pickMulti1 o
  match f c multi with
  | .ok g i => .ok g i c
  | .panic => .panic
  | .nil_ =>
    match refresh o topo ro c with
    | .ok c' =>
      match f c' multi with
      | .ok g i => .ok g i c'
      | .panic => .panic
      | .nil_ => .fail errNoSlot c'
    | .fail e => .fail e c
    | .panic => .panic

/-! ## `askingMulti` / `askingMultiCache` -/

/-- the command list `askingMulti` sends: ASKING before every unit (a MULTI…EXEC run or a single command) -/
def askingItems : Bool → List Entry → List Item
  | _, [] => []
  | true, e :: rest => .cmd e.2.id :: askingItems (!e.2.isExec) rest
  | false, e :: rest => .asking :: .cmd e.2.id :: askingItems e.2.isMulti rest

def askingCacheItems : List Entry → List Item
  | [] => []
  | e :: rest => cacheAskItems e.2.id ++ askingCacheItems rest

/-! ## `doresultfn` / `resultcachefn` -/

structure Acc where
  c : Client
  results : List (Option Reply)
  next : Pending := []
  redirects : Nat := 0
  /-- `retries.RetryDelay >= 0` -/
  hasDelay : Bool := false

def strOf : Reply → Bytes
  | .val s => s
  | .rerr s => s
  | _ => []

def isM (cs : List Entry) (k : Nat) : Bool := (cs[k]?).any (·.2.isMulti)
def isE (cs : List Entry) (k : Nat) : Bool := (cs[k]?).any (·.2.isExec)

/-- `for mi = i; mi >= 0 && !isMulti(commands[mi]) && !isExec(commands[mi]); mi-- {}`; `none` = −1 -/
def scanDown (cs : List Entry) : Nat → Option Nat
  | 0 => if isM cs 0 || isE cs 0 then some 0 else none
  | k + 1 => if isM cs (k + 1) || isE cs (k + 1) then some (k + 1) else scanDown cs k

/-- `mi = i; if isExec(commands[mi]) { mi-- }; for ; mi >= 0 && …; mi-- {}`: when the command at `i` is the EXEC
    itself the search for its MULTI starts one above it -/
def scanStart (cs : List Entry) (i : Nat) : Option Nat :=
  if isE cs i then (match i with | 0 => none | k + 1 => scanDown cs k) else scanDown cs i

/-- `for ei = i; ei < len(commands) && !isMulti(commands[ei]) && !isExec(commands[ei]); ei++ {}` -/
def scanUp (cs : List Entry) : Nat → Nat → Nat
  | 0, k => k
  | fuel + 1, k => if k < cs.length ∧ !(isM cs k || isE cs k) then scanUp cs fuel (k + 1) else k

/-- loop state of `doresultfn`: `mi`, `ei` (`none` = −1) survive across iterations -/
structure Tx where
  mi : Option Nat := none
  ei : Option Nat := none

def setAt {α : Type} (xs : List α) (i : Nat) (v : α) : List α := xs.set i v

/-- `ei < i` with `ei = -1` initially -/
def eiLt (t : Tx) (i : Nat) : Bool := match t.ei with | none => true | some e => e < i

/-- what one iteration of the `for i, resp := range resps` loop decides to re-queue -/
inductive Requeue where
  | nothing
  | cmds (nc : Conn) (es : List Entry)   -- appended to `nr.cIndexes` / `nr.commands`
  | asks (nc : Conn) (es : List Entry)   -- appended to `nr.aIndexes` / `nr.cAskings`

structure Dec where
  c : Client
  t : Tx
  rq : Requeue := .nothing
  /-- `retries.Redirects++` -/
  redirInc : Bool := false
  /-- `retries.RetryDelay = max(…, retryDelay)` with `retryDelay >= 0` -/
  delay : Bool := false

def applyRq : Requeue → Pending → Pending
  | .nothing, p => p
  | .cmds nc es, p => addCmds nc es p
  | .asks nc es, p => addAsks nc es p

def mkRq (isAsk : Bool) (nc : Conn) (es : List Entry) : Requeue :=
  if isAsk then .asks nc es else .cmds nc es

/-- `continue` right after storing the result: not a redirect-class reply, or a retryable failure that is
    not to be retried (retries disabled, command not retryable, negative `RetryDelay`) -/
def skips (o : Opt) (cache : Bool) (attempts : Nat) (cm : Cmd) (mode : Mode) : Bool :=
  mode = .none || (mode = .retry && (!o.retry || (!cache && !cm.retryable) || !decide (attempts ≤ o.budget)))

/-- `mi`, `ei` after the (conditional) transaction search at position `i` -/
def searchTx (hasInit cache : Bool) (cs : List Entry) (t : Tx) (i : Nat) : Tx :=
  if hasInit && !cache && eiLt t i then { mi := scanStart cs i, ei := some (scanUp cs (cs.length + 1) i) } else t

/-- "a transaction is found" -/
def txFound (hasInit cache : Bool) (cs : List Entry) (resps : List Reply) (t t' : Tx) (i : Nat) : Bool :=
  hasInit && !cache && eiLt t i &&
    (match t'.mi, t'.ei with
     | some m, some e => decide (e < cs.length) && isM cs m && isE cs e && decide ((resps[m]?).map strOf = some kOK)
     | _, _ => false)

/-- "the current cmd is in the processed transaction and has been added to the retries" -/
def txInside (hasInit cache : Bool) (cs : List Entry) (t' : Tx) (i : Nat) : Bool :=
  hasInit && !cache &&
    (match t'.mi, t'.ei with
     | some m, some e => decide (m < i) && decide (i < e) && isM cs m
     | _, _ => false)

def txBlock (cs : List Entry) (t' : Tx) : List Entry :=
  match t'.mi, t'.ei with
  | some m, some e => (cs.drop m).take (e + 1 - m)
  | _, _ => []

/-- the decision part of the loop body (everything after `results.s[ii] = resp`) -/
def decideStep (o : Opt) (cache hasInit : Bool) (attempts : Nat) (cc : Conn) (cs : List Entry) (resps : List Reply)
    (c : Client) (t : Tx) (i ii : Nat) (cm : Cmd) (resp : Reply) : Dec :=
  let mode := classify resp
  if skips o cache attempts cm mode then { c := c, t := t }
  else
    let isAsk : Bool := match mode with | .ask _ => true | _ => false
    let ncc : Conn × Client := match mode with
      | .move addr => redirectOrNew c addr cc cm.slot true
      | .ask addr => redirectOrNew c addr cc cm.slot false
      | _ => (cc, c)
    let t' := searchTx hasInit cache cs t i
    let found := txFound hasInit cache cs resps t t' i
    let inside := txInside hasInit cache cs t' i
    { c := ncc.2, t := t',
      rq := if found then mkRq isAsk ncc.1 (txBlock cs t') else if inside then .nothing else mkRq isAsk ncc.1 [(ii, cm)],
      redirInc := found || (!inside && mode ≠ .retry),
      delay := !found && !inside && mode = .retry }

/-- body of the `for i, resp := range resps` loop -/
def resultStep (o : Opt) (cache hasInit : Bool) (attempts : Nat) (cc : Conn) (cs : List Entry) (resps : List Reply)
    (st : Acc × Tx) (i : Nat) : Acc × Tx :=
  match cs[i]?, resps[i]? with
  | some (ii, cm), some resp =>
    let d := decideStep o cache hasInit attempts cc cs resps st.1.c st.2 i ii cm resp
    ({ c := d.c, results := setAt st.1.results ii (some resp), next := applyRq d.rq st.1.next,
       redirects := if d.redirInc then st.1.redirects + 1 else st.1.redirects,
       hasDelay := st.1.hasDelay || d.delay }, d.t)
  | _, _ => st

def resultFn (o : Opt) (cache hasInit : Bool) (attempts : Nat) (cc : Conn) (cs : List Entry) (resps : List Reply) (a : Acc) : Acc :=
  ((List.range resps.length).foldl (resultStep o cache hasInit attempts cc cs resps) (a, {})).1

/-! ## `doretry` / `doretrycache` and the round loop -/

def callKind (cache : Bool) : CallKind := if cache then .multiCache else .multi

/-- one call to the node and the scattering of its replies: `cc.DoMulti(…)` + `doresultfn(…)` -/
def phase (o : Opt) (cache hasInit : Bool) (attempts : Nat) (cc : Conn) (kind : CallKind) (items : List Item)
    (es : List Entry) (a : Acc) (w : World) : Acc × World :=
  let out := answerAll (logCall w { conn := cc, kind := kind, items := items }) cc.addr (es.map (·.2))
  (resultFn o cache hasInit attempts cc es out.1 a, out.2)

/-- the sending part of one `doretry`: the `commands` sub-batch, then the `cAskings` sub-batch -/
def doRetryCore (o : Opt) (cache hasInit : Bool) (attempts : Nat) (cc : Conn) (re : Retry) (a : Acc) (w : World) : Acc × World :=
  let s1 : Acc × World :=
    if re.cmds ≠ [] then phase o cache hasInit attempts cc (callKind cache) (re.cmds.map fun e => Item.cmd e.2.id) re.cmds a w
    else (a, w)
  if re.asks ≠ [] then
    phase o cache hasInit attempts cc .multi (if cache then askingCacheItems re.asks else askingItems false re.asks) re.asks s1.1 s1.2
  else s1

/-- `resp.NonRedisError() == nil`: the reply came from the server (value, redis error, nil) — the command was
    written and answered. A transport or context error says nothing of the kind: the command may still sit,
    unwritten, in the connection's queue, which holds the very slice `re.commands`. -/
def isRedisReply : Reply → Bool
  | .xerr _ => false
  | .cerr _ => false
  | _ => true

/-- the replies the node gives to one sub-batch call (what `phase` scatters) -/
def phaseReplies (cc : Conn) (kind : CallKind) (items : List Item) (es : List Entry) (w : World) : List Reply :=
  (answerAll (logCall w { conn := cc, kind := kind, items := items }) cc.addr (es.map (·.2))).1

/-- the world after the `commands` call of an entry -/
def afterCmds (cache : Bool) (cc : Conn) (re : Retry) (w : World) : World :=
  if re.cmds ≠ [] then
    (answerAll (logCall w { conn := cc, kind := callKind cache, items := re.cmds.map fun e => Item.cmd e.2.id }) cc.addr (re.cmds.map (·.2))).2
  else w

/-- `clean` of `doretry`: `doresultfn` and-s `resp.NonRedisError() == nil` over every reply of both calls -/
def retryClean (cache : Bool) (cc : Conn) (re : Retry) (w : World) : Bool :=
  (decide (re.cmds = []) ||
    (phaseReplies cc (callKind cache) (re.cmds.map fun e => Item.cmd e.2.id) re.cmds w).all isRedisReply) &&
  (decide (re.asks = []) ||
    (phaseReplies cc .multi (if cache then askingCacheItems re.asks else askingItems false re.asks) re.asks
      (afterCmds cache cc re w)).all isRedisReply)

def recycle (w : World) (cc : Conn) (re : Retry) : World :=
  { w with recycled := w.recycled ++ [(cc, (re.cmds ++ re.asks).map (·.2.id))] }

/-- one `doretry`: send both lists, then `if clean { retryp.Put(re) }` — the per-connection batch goes back to
    the pool (its command slice is cleared) only when no command of it can still be waiting to be written -/
def doRetry (o : Opt) (cache hasInit : Bool) (attempts : Nat) (cc : Conn) (re : Retry) (a : Acc) (w : World) : Acc × World :=
  let s := doRetryCore o cache hasInit attempts cc re a w
  if retryClean cache cc re w then (s.1, recycle s.2 cc re) else s

def runRound (o : Opt) (cache hasInit : Bool) (attempts : Nat) : Pending → Acc → World → Acc × World
  | [], a, w => (a, w)
  | (cc, re) :: rest, a, w =>
    let (a', w') := doRetry o cache hasInit attempts cc re a w
    runRound o cache hasInit attempts rest a' w'

/-- canonical order in which the model runs the sub-batches of one round -/
def leConn (x y : Conn × Retry) : Bool :=
  Rv.Hex.encode x.1.addr < Rv.Hex.encode y.1.addr ||
    (Rv.Hex.encode x.1.addr == Rv.Hex.encode y.1.addr && x.1.serial ≤ y.1.serial)

def insertP (x : Conn × Retry) : Pending → Pending
  | [] => [x]
  | y :: ys => if leConn x y then x :: y :: ys else y :: insertP x ys

def sortP (p : Pending) : Pending := p.foldl (fun acc x => insertP x acc) []

/-- the `retry:` loop of `DoMulti` / `DoMultiCache` -/
def rounds (o : Opt) (cache hasInit : Bool) : Nat → Pending → Acc → World → Nat → Nat → Acc × World
  | 0, _, a, w, _, _ => (a, w)
  | fuel + 1, pend, a, w, attempts, redirects =>
    let (a', w') := runRound o cache hasInit attempts (sortP pend) { a with next := [], redirects := 0, hasDelay := false } w
    if a'.next ≠ [] then
      if a'.redirects > 0 then
        if o.maxRedir > 0 ∧ redirects + 1 > o.maxRedir then (a', w')
        else rounds o cache hasInit fuel a'.next a' w' attempts (redirects + 1)
      else if a'.hasDelay then rounds o cache hasInit fuel a'.next a' w' (attempts + 1) redirects
      else (a', w')
    else (a', w')

inductive MultiOut where
  | ok (results : List (Option Reply)) (s : St)
  | panic

/-- `DoMulti` (cache = false) / `DoMultiCache` (cache = true) -/
def doMulti (o : Opt) (topo : Msg) (ro : Nat → Nat → Nat) (cache : Bool) (multi : List Cmd) (s : St) : MultiOut :=
  if multi = [] then .ok [] s
  else
    match pickMulti o topo ro cache s.c multi with
    | .panic => .panic
    | .fail e c' => .ok (multi.map fun _ => some e) { s with c := c' }
    | .ok groups hasInit c' =>
      let a0 : Acc := { c := c', results := multi.map fun _ => none }
      let (a, w) := rounds o cache hasInit (s.w.script.length + 2) groups a0 s.w 1 0
      .ok a.results { c := a.c, w := w }

end Rv.ClusterMulti

/-! ## line protocol of the `cluster` suite (driver side; not part of the model) -/
namespace Rv.ClusterMulti.Wire
open Rv Rv.Topology Rv.ClusterRoute Rv.ClusterMulti

structure DS where
  o : Opt := {}
  topo : Msg := Topology.zero
  st : St := { c := {}, w := { script := [] } }
  /-- single-flight episode: automaton state and who leads the current flight (`some none` = DelayDo's goroutine) -/
  sf : SF.S := {}
  sfLeader : Option (Option Nat) := none
  /-- an abandoned batch (some command answered with the caller's context error, possibly still unwritten on the
      connection) whose per-connection `retry` went back to the pool nevertheless -/
  heldBad : Bool := false

def ro0 : Nat → Nat → Nat := fun _ _ => 0

def kv (w : String) : String × String :=
  match w.splitOn "=" with
  | [k, v] => (k, v)
  | _ => (w, "")

def hexList (s : String) : Option (List Bytes) :=
  if s == "" || s == "_" then some [] else (s.splitOn ",").mapM Hex.decode

def parseOpt (ws : List String) : Option Opt :=
  ws.foldlM (fun (o : Opt) w =>
    let (k, v) := kv w
    match k with
    | "ver" => v.toNat?.map fun n => { o with ver := n }
    | "tls" => some { o with tls := v == "1" }
    | "mode" => some { o with mode := if v == "ro" then .replicaOnly else if v == "rs" then .sendRS else if v == "rn" then .sendRN else .plain }
    | "maxredir" => v.toNat?.map fun n => { o with maxRedir := n }
    | "retry" => some { o with retry := v == "1" }
    | "budget" => v.toNat?.map fun n => { o with budget := n }
    | "init" => (hexList v).map fun l => { o with initAddrs := l }
    | _ => none) {}

def parseCmd (w : String) : Option Cmd :=
  match w.splitOn "/" with
  | [i, s, f] =>
    match i.toNat?, s.toNat? with
    | some i, some s =>
      some { id := i, slot := s, retryable := f.contains 'r' || f.contains 't', readonly := f.contains 'r',
             isMulti := f.contains 'M', isExec := f.contains 'E' }
    | _, _ => none
  | _ => none

def mkMoved (kind : String) (slot : Nat) (addr : Bytes) : Reply :=
  .rerr (b (kind ++ " " ++ toString slot ++ " ") ++ addr)

def parseInj (w : String) : Option (Bytes × Nat × Reply) :=
  match w.splitOn "/" with
  | a :: i :: k :: rest =>
    match Hex.decode a, i.toNat? with
    | some a, some i =>
      let arg : Option Bytes := match rest with | [x] => Hex.decode x | _ => some []
      match arg with
      | none => none
      | some arg =>
        let r : Option Reply :=
          match k with
          | "mv" => some (mkMoved "MOVED" 1 arg)
          | "ask" => some (mkMoved "ASK" 1 arg)
          | "try" => some (.rerr (b "TRYAGAIN wait"))
          | "load" => some (.rerr (b "LOADING wait"))
          | "down" => some (.rerr (b "CLUSTERDOWN wait"))
          | "xerr" => some (.xerr (b "boom"))
          | "ctx" => some (.cerr (b "context canceled"))
          | "err" => some (.rerr (b "ERR boom"))
          | "nil" => some .nilr
          | "OK" => some (.val kOK)
          | "val" => some (.val arg)
          | "raw" => some (.rerr arg)
          | _ => none
        r.map fun r => (a, i, r)
    | _, _ => none
  | _ => none

def splitSemi (ws : List String) : List String × List String :=
  (ws.takeWhile (· ≠ ";"), (ws.dropWhile (· ≠ ";")).drop 1)

def showReply : Reply → String
  | .val s => "s:" ++ Hex.encode s
  | .rerr t => "e:" ++ Hex.encode (errText t)
  | .nilr => "n"
  | .xerr s => "x:" ++ Hex.encode s
  | .cerr s => "x:" ++ Hex.encode s

def showItem : Item → String
  | .cmd i => toString i
  | .asking => "A"
  | .other t => "O:" ++ t

def showCall (c : Call) : String :=
  (match c.kind with | .do_ => "d" | .multi => "m" | .cache => "c" | .multiCache => "mc") ++ ":" ++
    ",".intercalate (c.items.map showItem)

def connsOf (log : List Call) : List ConnId :=
  log.foldl (fun acc c => if acc.contains c.conn then acc else acc ++ [c.conn]) []

def insertConn (x : ConnId) : List ConnId → List ConnId
  | [] => [x]
  | y :: ys =>
    if Hex.encode x.addr < Hex.encode y.addr || (x.addr = y.addr && x.serial ≤ y.serial) then x :: y :: ys
    else y :: insertConn x ys

/-- per-connection logs, connections ordered by address then age; a second, third … connection to the
    same address is labelled `addr#1`, `addr#2` … -/
def showLog (log : List Call) : String :=
  if log.isEmpty then "-" else
  let cs := (connsOf log).foldl (fun acc x => insertConn x acc) []
  let label (c : ConnId) : String :=
    let ord := ((cs.filter fun d => d.addr = c.addr).takeWhile (· ≠ c)).length
    Hex.encode c.addr ++ (if ord = 0 then "" else "#" ++ toString ord)
  " ".intercalate (cs.map fun c => label c ++ "=" ++ ";".intercalate ((log.filter (·.conn = c)).map showCall))

def insertNat (x : Nat) : List Nat → List Nat
  | [] => [x]
  | y :: ys => if x < y then x :: y :: ys else if x = y then y :: ys else y :: insertNat x ys

/-- sorted, duplicate-free break points below 16384 (always containing 0) -/
def breakPoints (marks : List Nat) : List Nat :=
  (marks.filter (· < 16384)).foldl (fun acc x => insertNat x acc) [0]

/-- pieces `[p_k, p_{k+1})` of the table between consecutive break points, with the value at `p_k`.
    (If the marks missed a change of the table the dump differs from the real one: fail-safe.) -/
def pieces {α : Type} (f : Nat → α) : List Nat → List (Nat × Nat × α)
  | [] => []
  | [p] => [(p, 16383, f p)]
  | p :: q :: rest => (p, q - 1, f p) :: pieces f (q :: rest)

def mergePieces (key : α → String) : List (Nat × Nat × α) → List (Nat × Nat × String) → List (Nat × Nat × String)
  | [], acc => acc.reverse
  | (lo, hi, v) :: rest, acc =>
    let k := key v
    if k = "" then mergePieces key rest acc else
    match acc with
    | (alo, ahi, ak) :: arest =>
      if ahi + 1 = lo ∧ ak = k then mergePieces key rest ((alo, hi, ak) :: arest)
      else mergePieces key rest ((lo, hi, k) :: acc)
    | [] => mergePieces key rest [(lo, hi, k)]

def showSegs (segs : List (Nat × Nat × String)) : String :=
  if segs.isEmpty then "empty" else
  " ".intercalate (segs.map fun s => toString s.1 ++ "-" ++ toString s.2.1 ++ ":" ++ s.2.2)

/-- run-length text of the write table -/
def showTable (c : Client) : String :=
  showSegs (mergePieces (fun (v : Option Conn) => match v with | some cc => Hex.encode cc.addr | none => "")
    (pieces c.wslots (breakPoints c.marks)) [])

def showRSlots (c : Client) (slots : List Nat) : String :=
  match c.rslots with
  | none => "nil"
  | some f => " ".intercalate (slots.map fun i =>
      let k := ",".intercalate ((f i).map fun c => Hex.encode c.addr)
      if k = "" then "-" else k)

def showConns (m : List (Bytes × Conn × Bool)) : String :=
  if m.isEmpty then "-" else
  " ".intercalate ((ClusterWire.sortByKey (m.map fun e =>
    (Hex.encode e.1, Hex.encode e.1 ++ (if e.2.2 then ":h" else ":v")))).map (·.2))

def showPending (p : Pending) : String :=
  let rendered := p.map fun e => Hex.encode e.1.addr ++ "=" ++ ",".intercalate (e.2.cmds.map fun x => toString x.1)
  " ".intercalate ((ClusterWire.sortByKey (rendered.map fun r => (r, r))).map (·.2))

def withScript (d : DS) (inj : List (Bytes × Nat × Reply)) : St :=
  { d.st with w := { script := inj } }

def step (d : DS) (ws0 : List String) : DS × String :=
  let ws := ws0.filter (· ≠ "")
  match ws with
  | "reset" :: rest =>
    match parseOpt rest with
    | some o => ({ o := o }, "ok")   -- also resets the single-flight automaton
    | none => (d, "bad-op")
  | "serve" :: rest =>
    match ClusterWire.parseMsgAll rest with
    | some m => ({ d with topo := m }, "ok")
    | none => (d, "bad-op")
  | ["new"] =>
    -- newClusterClient: init (connections to InitAddress) + first refresh
    let c0 : Client := { conns := (enumFrom 0 d.o.initAddrs).map fun (i, a) => (a, ({ addr := a, serial := i } : Conn), false),
                         next := d.o.initAddrs.length }
    match refresh d.o d.topo ro0 c0 with
    | .ok c => ({ d with st := { d.st with c := c } }, "ok")
    | .fail e => ({ d with st := { d.st with c := c0 } }, "err " ++ showReply e)
    | .panic => (d, "panic")
  | ["refresh"] =>
    match refresh d.o d.topo ro0 d.st.c with
    | .ok c => ({ d with st := { d.st with c := c } }, "ok")
    | .fail e => (d, "err " ++ showReply e)
    | .panic => (d, "panic")
  | ["table"] => (d, showTable d.st.c)
  | "rslots" :: rest =>
    match rest.mapM String.toNat? with
    | some slots => (d, showRSlots d.st.c slots)
    | none => (d, "bad-op")
  | ["conns"] => (d, showConns d.st.c.conns)
  | "do" :: rest | "cache" :: rest =>
    let cache := ws.head? == some "cache"
    let (front, inj) := splitSemi rest
    match front, inj.mapM parseInj with
    | [cw, hw], some inj =>
      match parseCmd cw, Hex.decode (kv hw).2 with
      | some cmd, some hint =>
        let s0 := withScript d inj
        match doCmd d.o d.topo ro0 cache cmd hint (inj.length + 2) s0 1 0 with
        | .ok (r, s) => ({ d with st := { s with w := { script := [] } } }, showReply r ++ " | " ++ showLog s.w.log)
        | _ => (d, "panic")
      | _, _ => (d, "bad-op")
    | _, _ => (d, "bad-op")
  | "multi" :: rest | "mcache" :: rest | "multix" :: rest | "mcachex" :: rest =>
    -- `multix` / `mcachex`: the same call with a context that is already done (its effect is in the `ctx` replies)
    let cache := ws.head? == some "mcache" || ws.head? == some "mcachex"
    let (front, inj) := splitSemi rest
    match front.mapM parseCmd, inj.mapM parseInj with
    | some cmds, some inj =>
      let s0 := withScript d inj
      match doMulti d.o d.topo ro0 cache cmds s0 with
      | .ok rs s =>
        let unwritten : List (Nat × Bytes) := s.w.replies.filterMap fun (i, a, r) => match r with | .cerr _ => some (i, a) | _ => none
        let bad := s.w.recycled.any fun (cc, ids) => unwritten.any fun (i, a) => a = cc.addr && ids.contains i
        ({ d with st := { s with w := { script := [] } }, heldBad := d.heldBad || bad },
         (if rs.isEmpty then "none" else " ".intercalate (rs.map fun r => match r with | some r => showReply r | none => "unset"))
           ++ " | " ++ showLog s.w.log)
      | .panic => (d, "panic")
    | _, _ => (d, "bad-op")
  | "pickmulti" :: rest | "pickmcache" :: rest =>
    let cache := ws.head? == some "pickmcache"
    match rest.mapM parseCmd with
    | some cmds =>
      match (if cache then pickMultiCache1 d.o d.st.c cmds else pickMulti1 d.o d.st.c cmds) with
      | .ok g i => (d, "init=" ++ (if i then "1" else "0") ++ " " ++ showPending g)
      | .nil_ => (d, "nil")
      | .panic => (d, "panic")
    | none => (d, "bad-op")
  | "!trace" :: rest => (d, Spec.Cluster.Wire.judgeLine rest)
  | ["consume"] => (d, if d.heldBad then "changed" else "intact")
  | ["!consume"] => (d, Spec.Cluster.Trace.consumeSpec)
  | ["!sticky", prev, fresh, pf, tg, nf] => (d, Spec.Cluster.Trace.stickyVerdict prev (fresh == "1") pf tg nf)
  | ["sf-enter", c] =>
    match c.toNat? with
    | some c =>
      let (s', lead) := SF.enter d.sf c
      ({ d with sf := s', sfLeader := if lead then some (some c) else d.sfLeader }, if lead then "leader" else "wait")
    | none => (d, "bad-op")
  | ["sf-delay"] =>
    let (s', lead) := SF.delayEnter d.sf
    ({ d with sf := s', sfLeader := if lead then some none else d.sfLeader }, if lead then "leader" else "skip")
  | ["sf-finish"] =>
    let before := d.sf.returned.length
    let s' := SF.finish d.sf (d.sfLeader.getD none)
    let rel := ((s'.returned.drop before).map (·.1)).foldl (fun acc x => insertNat x acc) []
    ({ d with sf := s', sfLeader := none },
     "released=" ++ (if rel.isEmpty then "-" else ",".intercalate (rel.map toString)) ++
       " runs=" ++ toString s'.started ++ " cn=" ++ toString s'.cn)
  | "!route" :: ver :: tls :: rest =>
    -- oracle: owner of each slot according to the specification on the topology description
    match ver.toNat?, Spec.Cluster.Wire.parseDesc rest with
    | some ver, some (ds, _ :: slots) =>
      let v : Spec.Cluster.View := { ver := ver, tls := tls == "1", defaultAddr := [] }
      (d, " ".intercalate (slots.map fun s =>
        match s.toInt? with
        | none => "bad"
        | some s => match Spec.Cluster.ownerOf v ds s with
          | none => "-"
          | some (m, _) => Hex.encode m))
    | _, _ => (d, "bad-op")
  | _ => (d, "bad-op")

end Rv.ClusterMulti.Wire
