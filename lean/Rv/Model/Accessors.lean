/-
Model of the typed reply accessors of /repo/message.go (part 1: leaf
conversions, strconv, slices, maps, RedisError classifiers), transcribed branch
by branch from the repaired source. Every place where the Go code indexes or
slices goes through `idx` / `slice2` / an explicit `.panic` arm, so that
"never panics" is a theorem about guards and not a property of the notation.

What is abstract (trusted, see props/C15.json):
* float parsing: `FP.ok s` says whether `strconv.ParseFloat(s, 64)` returns a nil
  error; a float *value* is represented by the text handed to strconv (`F.str s`
  is the first result of `strconv.ParseFloat(s, 64)`, whatever the error was).
* `encoding/json`: only which bytes are handed to `json.Unmarshal` is modelled.

`m.array != nil` is `hasArray m`: in the decoder's range the array pointer is
non-nil exactly for the aggregate types (`* % ~ > |`), also when empty.
Core Lean only.
-/
import Rv.Model.Msg
namespace Rv.Acc

abbrev Bytes := List UInt8

/-! ## type bytes (resp.go) -/
def tBlob : UInt8 := 36      -- '$'
def tSimple : UInt8 := 43    -- '+'
def tErr : UInt8 := 45       -- '-'
def tInt : UInt8 := 58       -- ':'
def tNull : UInt8 := 95      -- '_'
def tEnd : UInt8 := 46       -- '.'
def tFloat : UInt8 := 44     -- ','
def tBool : UInt8 := 35      -- '#'
def tBlobErr : UInt8 := 33   -- '!'
def tVerbatim : UInt8 := 61  -- '='
def tBig : UInt8 := 40       -- '('
def tArray : UInt8 := 42     -- '*'
def tMap : UInt8 := 37       -- '%'
def tSet : UInt8 := 126      -- '~'
def tAttr : UInt8 := 124     -- '|'
def tPush : UInt8 := 62      -- '>'

/-! ## error classes (canonical texts shared with the harness) -/
def eParse : String := "parse"
def eNil : String := "nil"
def eRedis (text : Bytes) : String := "redis:" ++ Hex.encode text
def eOther (tag : String) : String := "other:" ++ Hex.encode tag.toUTF8.toList
def eFloat : String := eOther "strconv.ParseFloat"
def eGot (n : Nat) (wanted : String) : String := eOther ("got " ++ toString n ++ ", " ++ wanted ++ " 2")
def eZScore : String := eOther "redis message is not a map/array/set or its length is not 2"

/-! ## Go slices -/
/-- `xs[i]` -/
def idx {α} (xs : List α) (i : Nat) : Res α :=
  match xs[i]? with
  | some x => .ok x
  | none => .panic

/-- `xs[j:j+2]` -/
def slice2 {α} (xs : List α) (j : Nat) : Res (List α) :=
  if j + 2 ≤ xs.length then .ok ((xs.drop j).take 2) else .panic

/-- `v, _ = f()` : the error is dropped and the zero value `d` is what `f` returned with it -/
def orZero {α} (r : Res α) (d : α) : Res α :=
  match r with
  | .ok a => .ok a
  | .err _ => .ok d
  | .panic => .panic
  | .oom => .oom

/-- sequential `for … { x, err := f(v); if err != nil { return err } }` -/
def mapR {α β} (f : α → Res β) : List α → Res (List β)
  | [] => .ok []
  | x :: r =>
    match f x with
    | .ok y =>
      match mapR f r with
      | .ok ys => .ok (y :: ys)
      | .err e => .err e
      | .panic => .panic
      | .oom => .oom
    | .err e => .err e
    | .panic => .panic
    | .oom => .oom

/-! ## strconv.ParseInt / ParseUint (bitSize 64, base 10 or 0) -/
inductive NumErr where
  | syntax
  | range
  deriving Repr, DecidableEq

/-- `lower(c)` of strconv: `c | ('x' - 'X')` -/
def lower (c : UInt8) : UInt8 := c ||| 32

def digitVal (c : UInt8) : Option Nat :=
  if 48 ≤ c ∧ c ≤ 57 then some (c.toNat - 48)
  else if 97 ≤ lower c ∧ lower c ≤ 122 then some ((lower c).toNat - 97 + 10)
  else none

/-- digit loop of `ParseUint`; returns the value and whether an underscore was seen -/
def uintLoop (base : Nat) (base0 : Bool) : Bytes → Nat → Bool → Except NumErr (Nat × Bool)
  | [], n, u => .ok (n, u)
  | c :: cs, n, u =>
    if c = 95 ∧ base0 = true then uintLoop base base0 cs n true
    else
      match digitVal c with
      | none => .error .syntax
      | some d =>
        if d ≥ base then .error .syntax
        else if n * base + d ≥ 18446744073709551616 then .error .range
        else uintLoop base base0 cs (n * base + d) u

/-- scan of `underscoreOK`; `saw`: 0 `^`, 1 digit, 2 underscore, 3 other -/
def usLoop (hex : Bool) : Bytes → Nat → Bool
  | [], saw => saw ≠ 2
  | c :: cs, saw =>
    if (48 ≤ c ∧ c ≤ 57) ∨ (hex = true ∧ 97 ≤ lower c ∧ lower c ≤ 102) then usLoop hex cs 1
    else if c = 95 then (if saw ≠ 1 then false else usLoop hex cs 2)
    else if saw = 2 then false
    else usLoop hex cs 3

def isBasePrefix (c : UInt8) : Bool := lower c = 98 || lower c = 111 || lower c = 120

def underscoreOK (s0 : Bytes) : Bool :=
  let s := match s0 with
    | 45 :: r => r
    | 43 :: r => r
    | _ => s0
  match s with
  | 48 :: c :: r => if isBasePrefix c then usLoop (lower c = 120) r 1 else usLoop false s 0
  | _ => usLoop false s 0

/-- base selection of `ParseUint`: (base, digits to scan, base0) -/
def uintCfg (s : Bytes) (base : Nat) : Nat × Bytes × Bool :=
  if base ≠ 0 then (base, s, false) else
  match s with
  | 48 :: c :: _ :: _ =>
    if lower c = 98 then (2, s.drop 2, true)
    else if lower c = 111 then (8, s.drop 2, true)
    else if lower c = 120 then (16, s.drop 2, true)
    else (8, s.drop 1, true)
  | 48 :: _ => (8, s.drop 1, true)
  | _ => (10, s, true)

/-- `strconv.ParseUint(s, base, 64)` for base 10 and base 0 -/
def parseUint (s : Bytes) (base : Nat) : Except NumErr Nat :=
  if s = [] then .error .syntax else
  match uintLoop (uintCfg s base).1 (uintCfg s base).2.2 (uintCfg s base).2.1 0 false with
  | .error e => .error e
  | .ok (n, u) => if u = true ∧ underscoreOK s = false then .error .syntax else .ok n

/-- sign handling of `ParseInt`: (negative, rest) -/
def signSplit (s : Bytes) : Bool × Bytes :=
  match s with
  | 43 :: r => (false, r)
  | 45 :: r => (true, r)
  | _ => (false, s)

/-- range check and sign application of `ParseInt` (bitSize 64) on the result of `ParseUint` -/
def intOfUint (neg : Bool) : Except NumErr Nat → Except NumErr Int
  | .error e => .error e
  | .ok un =>
    if neg = false ∧ un ≥ 9223372036854775808 then .error .range
    else if neg = true ∧ un > 9223372036854775808 then .error .range
    else .ok (if neg then -(un : Int) else (un : Int))

/-- `strconv.ParseInt(s, base, 64)` -/
def parseInt (s : Bytes) (base : Nat) : Except NumErr Int :=
  if s = [] then .error .syntax else
  intOfUint (signSplit s).1 (parseUint (signSplit s).2 base)

def numErrTag (fn : String) : NumErr → String
  | .syntax => eOther ("strconv." ++ fn ++ ":syntax")
  | .range => eOther ("strconv." ++ fn ++ ":range")

def liftNum {α} (fn : String) : Except NumErr α → Res α
  | .ok v => .ok v
  | .error e => .err (numErrTag fn e)

/-! ## floats -/
/-- abstract `strconv.ParseFloat(s, 64)`: does it return a nil error -/
structure FP where
  ok : Bytes → Bool

/-- a float64 denoted by how it was obtained -/
inductive F where
  | str (s : Bytes)   -- first result of strconv.ParseFloat(s, 64)
  | int (i : Int)     -- float64(i); the zero value is `int 0`
  | nan               -- math.NaN()
  deriving Repr, DecidableEq

def minusNan : Bytes := [45, 110, 97, 110]

/-- `util.ToFloat64` -/
def utilFloat (fp : FP) (s : Bytes) : Res F :=
  if fp.ok s = true then .ok (.str s)
  else if s = minusNan then .ok .nan
  else .err eFloat

/-- the value `util.ToFloat64` returns, error or not -/
def utilFloatV (fp : FP) (s : Bytes) : F :=
  if fp.ok s = false ∧ s = minusNan then .nan else .str s

/-! ## message predicates -/
def isString (m : Msg) : Prop := m.typ = tBlob ∨ m.typ = tSimple
def isArray (m : Msg) : Prop := m.typ = tArray ∨ m.typ = tSet
def isMap (m : Msg) : Prop := m.typ = tMap
def isAggTyp (t : UInt8) : Prop := t = tArray ∨ t = tMap ∨ t = tSet ∨ t = tPush ∨ t = tAttr
instance (m : Msg) : Decidable (isString m) := by unfold isString; exact inferInstance
instance (m : Msg) : Decidable (isArray m) := by unfold isArray; exact inferInstance
instance (m : Msg) : Decidable (isMap m) := by unfold isMap; exact inferInstance
instance (t : UInt8) : Decidable (isAggTyp t) := by unfold isAggTyp; exact inferInstance

/-- `m.array != nil` -/
def hasArray (m : Msg) : Prop := isAggTyp m.typ ∨ m.arr ≠ []
instance (m : Msg) : Decidable (hasArray m) := by unfold hasArray; exact inferInstance

def errPrefix : Bytes := [69, 82, 82, 32]  -- "ERR "

/-- `strings.TrimPrefix(s, "ERR ")` -/
def trimErr (s : Bytes) : Bytes :=
  if s.take 4 = errPrefix then s.drop 4 else s

/-- `m.Error()` : `none` is Go's nil error -/
def errOf (m : Msg) : Option String :=
  if m.typ = tNull then some eNil
  else if m.typ = tErr ∨ m.typ = tBlobErr then some (eRedis (trimErr m.str))
  else none

/-! ## leaf accessors -/
def toStr (m : Msg) : Res Bytes :=
  if isString m then .ok m.str
  else if m.typ = tInt ∨ hasArray m then .err eParse
  else
    match errOf m with
    | some e => .err e
    | none => .ok m.str

/-- AsReader / AsBytes: the bytes of `ToString` -/
def asBytes (m : Msg) : Res Bytes := toStr m

/-- DecodeJSON: the bytes handed to `json.Unmarshal` -/
def decodeJSON (m : Msg) : Res Bytes := asBytes m

def asInt64 (m : Msg) : Res Int :=
  if m.typ = tInt then .ok m.int
  else
    match toStr m with
    | .ok v => liftNum "ParseInt" (parseInt v 10)
    | .err e => .err e
    | .panic => .panic
    | .oom => .oom

/-- `uint64(intlen)` -/
def toU64 (i : Int) : Nat := (i % 18446744073709551616).toNat

def asUint64 (m : Msg) : Res Nat :=
  if m.typ = tInt then .ok (toU64 m.int)
  else
    match toStr m with
    | .ok v => liftNum "ParseUint" (parseUint v 10)
    | .err e => .err e
    | .panic => .panic
    | .oom => .oom

def okBytes : Bytes := [79, 75]  -- "OK"

def asBool (m : Msg) : Res Bool :=
  match errOf m with
  | some e => .err e
  | none =>
    if isString m then .ok (decide (m.str = okBytes))
    else if m.typ = tInt then .ok (decide (m.int ≠ 0))
    else if m.typ = tBool then .ok (decide (m.int = 1))
    else .err eParse

def asFloat64 (fp : FP) (m : Msg) : Res F :=
  if m.typ = tFloat then utilFloat fp m.str
  else
    match toStr m with
    | .ok v => utilFloat fp v
    | .err e => .err e
    | .panic => .panic
    | .oom => .oom

/-- the value of `x, _ = m.AsFloat64()` -/
def asFloat64V (fp : FP) (m : Msg) : Res F :=
  if m.typ = tFloat then .ok (utilFloatV fp m.str)
  else
    match toStr m with
    | .ok v => .ok (utilFloatV fp v)
    | .err _ => .ok (.int 0)
    | .panic => .panic
    | .oom => .oom

/-- the common tail `if err = m.Error(); err != nil {return err}; return parse error` -/
def errOrParse {α} (m : Msg) : Res α :=
  match errOf m with
  | some e => .err e
  | none => .err eParse

def toInt64 (m : Msg) : Res Int :=
  if m.typ = tInt then .ok m.int else errOrParse m

def toBool (m : Msg) : Res Bool :=
  if m.typ = tBool then .ok (decide (m.int = 1)) else errOrParse m

def toFloat64 (fp : FP) (m : Msg) : Res F :=
  if m.typ = tFloat then utilFloat fp m.str else errOrParse m

def toArray (m : Msg) : Res (List Msg) :=
  if isArray m then .ok m.arr else errOrParse m

/-! ## slices -/
def asStrSlice (m : Msg) : Res (List Bytes) :=
  match toArray m with
  | .ok vs => .ok (vs.map Msg.str)
  | .err e => .err e
  | .panic => .panic
  | .oom => .oom

def intElem (v : Msg) : Res Int :=
  if v.str ≠ [] then liftNum "ParseInt" (parseInt v.str 10) else .ok v.int

def asIntSlice (m : Msg) : Res (List Int) :=
  match toArray m with
  | .ok vs => mapR intElem vs
  | .err e => .err e
  | .panic => .panic
  | .oom => .oom

def floatElem (fp : FP) (v : Msg) : Res F :=
  if v.str ≠ [] then utilFloat fp v.str else .ok (.int v.int)

def asFloatSlice (fp : FP) (m : Msg) : Res (List F) :=
  match toArray m with
  | .ok vs => mapR (floatElem fp) vs
  | .err e => .err e
  | .panic => .panic
  | .oom => .oom

def asBoolSlice (m : Msg) : Res (List Bool) :=
  match toArray m with
  | .ok vs => mapR (fun v => orZero (asBool v) false) vs
  | .err e => .err e
  | .panic => .panic
  | .oom => .oom

/-! ## maps. A Go map is modelled by its assignment log (first assignment first);
the map itself is `lookupLast` of the log. -/
abbrev Log (α : Type) := List (Bytes × α)

/-- the value a Go map holds for `k` after the assignments of the log -/
def lookupLast {α} (k : Bytes) : Log α → Option α
  | [] => none
  | (k', v) :: r =>
    match lookupLast k r with
    | some x => some x
    | none => if k' = k then some v else none

/-- `for i := 0; i < len(vs); i += 2 { r[vs[i].string()] = vs[i+1].string() }` -/
def strPairs : List Msg → Res (Log Bytes)
  | [] => .ok []
  | [_] => .panic
  | k :: v :: r =>
    match strPairs r with
    | .ok rest => .ok ((k.str, v.str) :: rest)
    | .err e => .err e
    | .panic => .panic
    | .oom => .oom

def mapLike (m : Msg) : Prop := (isMap m ∨ isArray m) ∧ m.arr.length % 2 = 0
instance (m : Msg) : Decidable (mapLike m) := by unfold mapLike; exact inferInstance

def asStrMap (m : Msg) : Res (Log Bytes) :=
  match errOf m with
  | some e => .err e
  | none => if mapLike m then strPairs m.arr else .err eParse

/-- `x, _ = m.AsStrMap()` : nil map on error -/
def asStrMapOpt (m : Msg) : Res (Option (Log Bytes)) :=
  match asStrMap m with
  | .ok l => .ok (some l)
  | .err _ => .ok none
  | .panic => .panic
  | .oom => .oom

/-- loop body of AsIntMap (ParseInt with base 0) -/
def intPairs : List Msg → Res (Log Int)
  | [] => .ok []
  | [_] => .panic
  | k :: v :: r =>
    if isString k then
      if v.str ≠ [] then
        match liftNum "ParseInt" (parseInt v.str 0) with
        | .ok x =>
          match intPairs r with
          | .ok rest => .ok ((k.str, x) :: rest)
          | .err e => .err e
          | .panic => .panic
          | .oom => .oom
        | .err e => .err e
        | .panic => .panic
        | .oom => .oom
      else if v.typ = tInt ∨ v.typ = tNull then
        match intPairs r with
        | .ok rest => .ok ((k.str, v.int) :: rest)
        | .err e => .err e
        | .panic => .panic
        | .oom => .oom
      else intPairs r
    else intPairs r

def asIntMap (m : Msg) : Res (Log Int) :=
  match errOf m with
  | some e => .err e
  | none => if mapLike m then intPairs m.arr else .err eParse

/-- loop of `toMap` -/
def toMapPairs : List Msg → Res (Log Msg)
  | [] => .ok []
  | [_] => .panic
  | k :: v :: r =>
    if isString k then
      match toMapPairs r with
      | .ok rest => .ok ((k.str, v) :: rest)
      | .err e => .err e
      | .panic => .panic
      | .oom => .oom
    else .err eParse

/-- `toMap(values)` (repaired: odd length is a parse error) -/
def toMapV (vs : List Msg) : Res (Log Msg) :=
  if vs.length % 2 ≠ 0 then .err eParse else toMapPairs vs

def asMap (m : Msg) : Res (Log Msg) :=
  match errOf m with
  | some e => .err e
  | none => if mapLike m then toMapV m.arr else .err eParse

def toMap (m : Msg) : Res (Log Msg) :=
  if isMap m then toMapV m.arr else errOrParse m

/-! ## RedisResult wrappers: `if r.err != nil { err = r.err } else { … r.val.X() }` -/
def wrap {α} (acc : Msg → Res α) (rerr : Option String) (m : Msg) : Res α :=
  match rerr with
  | some e => .err e
  | none => acc m

/-- RedisResult.Error() / RedisMessage.Error() as a result -/
def errorRes (m : Msg) : Res Unit :=
  match errOf m with
  | some e => .err e
  | none => .ok ()

/-! ## RedisError classifiers (on the error text) -/
def hasPrefix (p s : Bytes) : Bool := s.take p.length = p

/-- `strings.Split(s, " ")` for a one-byte separator: always at least one part -/
def splitOn (sep : UInt8) : Bytes → List Bytes
  | [] => [[]]
  | c :: r =>
    if c = sep then [] :: splitOn sep r
    else
      match splitOn sep r with
      | [] => [[c]]   -- unreachable, splitOn is never empty
      | p :: ps => (c :: p) :: ps

def indexByte (c : UInt8) : Bytes → Option Nat
  | [] => none
  | x :: r => if x = c then some 0 else (indexByte c r).map (· + 1)

def lastIndexByte (c : UInt8) : Bytes → Option Nat
  | [] => none
  | x :: r =>
    match lastIndexByte c r with
    | some i => some (i + 1)
    | none => if x = c then some 0 else none

/-- `net.JoinHostPort` -/
def joinHostPort (host port : Bytes) : Bytes :=
  if (indexByte 58 host).isSome then [91] ++ host ++ [93, 58] ++ port
  else host ++ [58] ++ port

/-- `addr[:i]`, `addr[i+1:]` -/
def cut (addr : Bytes) (i : Nat) : Res (Bytes × Bytes) :=
  if i + 1 ≤ addr.length then .ok (addr.take i, addr.drop (i + 1)) else .panic

def fixIPv6HostPort (addr : Bytes) : Res Bytes :=
  if (indexByte 46 addr).isNone ∧ addr.length > 0 then
    match idx addr 0 with
    | .ok a0 =>
      if a0 ≠ 91 then
        match lastIndexByte 58 addr with
        | some i =>
          match cut addr i with
          | .ok (h, p) => .ok (joinHostPort h p)
          | .err e => .err e
          | .panic => .panic
          | .oom => .oom
        | none => .ok addr
      else .ok addr
    | .err e => .err e
    | .panic => .panic
    | .oom => .oom
  else .ok addr

/-- shared body of the repaired IsMoved / IsAsk / IsRedirect: prefix test, split, part `k` -/
def redirectAddr (pre : Bytes) (k : Nat) (s : Bytes) : Res (Bytes × Bool) :=
  if hasPrefix pre s = true then
    let parts := splitOn 32 s
    if parts.length > k then
      match idx parts k with
      | .ok p =>
        match fixIPv6HostPort p with
        | .ok a => .ok (a, true)
        | .err e => .err e
        | .panic => .panic
        | .oom => .oom
      | .err e => .err e
      | .panic => .panic
      | .oom => .oom
    else .ok ([], false)
  else .ok ([], false)

def sMOVED : Bytes := [77, 79, 86, 69, 68]
def sASK : Bytes := [65, 83, 75]
def sREDIRECT : Bytes := [82, 69, 68, 73, 82, 69, 67, 84]
def sTRYAGAIN : Bytes := [84, 82, 89, 65, 71, 65, 73, 78]
def sLOADING : Bytes := [76, 79, 65, 68, 73, 78, 71]
def sCLUSTERDOWN : Bytes := [67, 76, 85, 83, 84, 69, 82, 68, 79, 87, 78]
def sNOSCRIPT : Bytes := [78, 79, 83, 67, 82, 73, 80, 84]
def sBUSYGROUP : Bytes := [66, 85, 83, 89, 71, 82, 79, 85, 80]

def isMoved (s : Bytes) : Res (Bytes × Bool) := redirectAddr sMOVED 2 s
def isAsk (s : Bytes) : Res (Bytes × Bool) := redirectAddr sASK 2 s
def isRedirect (s : Bytes) : Res (Bytes × Bool) := redirectAddr sREDIRECT 1 s

/-- the code before the repair: `strings.Split(s, " ")[k]` without a length check -/
def redirectAddrOld (pre : Bytes) (k : Nat) (s : Bytes) : Res (Bytes × Bool) :=
  if hasPrefix pre s = true then
    match idx (splitOn 32 s) k with
    | .ok p =>
      match fixIPv6HostPort p with
      | .ok a => .ok (a, true)
      | .err e => .err e
      | .panic => .panic
      | .oom => .oom
    | .err e => .err e
    | .panic => .panic
    | .oom => .oom
  else .ok ([], false)

end Rv.Acc
