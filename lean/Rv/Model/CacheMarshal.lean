/-
Model of the cache (de)serialisation in /repo/message.go:
`cachesize` / `CacheSize`, `serialize` / `CacheMarshal`, `unmarshalView` / `CacheUnmarshalView`,
and the 7-byte expiry packing `setExpireAt` / `getExpireAt`.

Buffer layout: 7 bytes ttl (little endian expiry), then per message: 1 type byte, 8 bytes
BIG endian length, payload. `:` `_` `#` store `intlen` in the length field and have no
payload; `*` `%` `~` store the element count followed by the elements; every other type
byte (the `default:` branch — including `>` and `|`) stores `len(m.string())` and the
string bytes.

`unmarshalView` reads sizes from the buffer as int64. On arbitrary buffers that reaches
`make([]RedisMessage, size)` and `buf[c : c+size]` with a negative / overflowing / huge
size: those outcomes are explicit (`.panic`, `.oom`). `L` is the number of bytes one
allocation may take before the process is out of memory (a parameter; `maxAlloc` is the
Go runtime's hard limit above which `make` panics instead). Core Lean only.
-/
import Rv.Model.Msg
namespace Rv.CacheMarshal

/-- the three branches of the `switch m.typ` in cachesize/serialize/unmarshalView -/
inductive Kind where
  | int | agg | str
  deriving DecidableEq, Repr

def kindOf (t : UInt8) : Kind :=
  if t = 58 ∨ t = 95 ∨ t = 35 then .int          -- typeInteger, typeNull, typeBool
  else if t = 42 ∨ t = 37 ∨ t = 126 then .agg    -- typeArray, typeMap, typeSet
  else .str                                      -- default

/-- `uint64(v)` for an int64 `v` -/
def u64 (v : Int) : Nat := (v % 18446744073709551616).toNat
/-- `int64(n)` for a uint64 `n` -/
def i64 (n : Nat) : Int := if n < 9223372036854775808 then n else (n : Int) - 18446744073709551616

/-- `binary.BigEndian.PutUint64(buf[:], n)` (n is taken mod 2^64 by the byte conversions) -/
def be8 (n : Nat) : List UInt8 :=
  [UInt8.ofNat (n / 72057594037927936), UInt8.ofNat (n / 281474976710656), UInt8.ofNat (n / 1099511627776),
   UInt8.ofNat (n / 4294967296), UInt8.ofNat (n / 16777216), UInt8.ofNat (n / 65536), UInt8.ofNat (n / 256),
   UInt8.ofNat n]

/-- `binary.BigEndian.Uint64` -/
def rd8 (bs : List UInt8) : Nat := bs.foldl (fun a b => a * 256 + b.toNat) 0

/-! ### cachesize / serialize -/

/-- bytes after the type byte: length field and payload, by branch -/
def frame (k : Kind) (s : List UInt8) (i : Int) (n : Nat) (kids : List UInt8) : List UInt8 :=
  match k with
  | .int => be8 (u64 i)
  | .agg => be8 n ++ kids
  | .str => be8 s.length ++ s

def frameSize (k : Kind) (s : List UInt8) (kids : Nat) : Nat :=
  match k with
  | .int => 9
  | .agg => 9 + kids
  | .str => 9 + s.length

mutual
/-- `(*RedisMessage).serialize` -/
def serialize : Msg → List UInt8
  | .mk t s i xs _ => t :: frame (kindOf t) s i xs.length (serializeL xs)
def serializeL : List Msg → List UInt8
  | [] => []
  | x :: xs => serialize x ++ serializeL xs
end

mutual
/-- `(*RedisMessage).cachesize` -/
def cachesize : Msg → Nat
  | .mk t s _ xs _ => frameSize (kindOf t) s (cachesizeL xs)
def cachesizeL : List Msg → Nat
  | [] => 0
  | x :: xs => cachesize x + cachesizeL xs
end

/-- `CacheSize` -/
def cacheSize (m : Msg) : Nat := cachesize m + 7

/-- `CacheMarshal`: the 7 ttl bytes, then the message -/
def marshal (ttl : List UInt8) (m : Msg) : List UInt8 := ttl ++ serialize m

/-! ### unmarshalView -/

def errUnmarshal : String := "unmarshal"

/-- Go runtime limit of a single allocation (linux/amd64): above it `make` panics -/
def maxAlloc : Nat := 281474976710656
/-- `unsafe.Sizeof(RedisMessage{})` -/
def msgBytes : Nat := 40

/-- `make([]RedisMessage, size)` -/
def allocMsgs (L : Nat) (size : Int) : Res Unit :=
  if size < 0 then .panic
  else if size.toNat * msgBytes > maxAlloc then .panic
  else if size.toNat * msgBytes > L then .oom
  else .ok ()

/-- the `len(buf) < c+9` guard, `buf[c]` and the big-endian size; `bs` is `buf[c:]` -/
def hdr (bs : List UInt8) : Option (UInt8 × Int × List UInt8) :=
  match bs with
  | [] => none
  | t :: r => if r.length < 8 then none else some (t, i64 (rd8 (r.take 8)), r.drop 8)

/-- the `for i := range m.values()` loop: stop at the first error -/
def loopN (k : List UInt8 → Res (Msg × List UInt8)) : Nat → List UInt8 → Res (List Msg × List UInt8)
  | 0, bs => .ok ([], bs)
  | n + 1, bs =>
    match k bs with
    | .ok (m, r) =>
      match loopN k n r with
      | .ok (ms, r') => .ok (m :: ms, r')
      | .err e => .err e
      | .panic => .panic
      | .oom => .oom
    | .err e => .err e
    | .panic => .panic
    | .oom => .oom

/-- the `default:` branch; `c` is the offset of `r` in the buffer:
    `if int64(len(buf)) < c+size {err}; buf[c : c+size]` with int64 arithmetic -/
def strCase (c : Nat) (t : UInt8) (size : Int) (r : List UInt8) : Res (Msg × List UInt8) :=
  if size < 0 then .panic                                       -- slice bounds: high < low
  else if (c : Int) + size ≥ 9223372036854775808 then .panic    -- c+size wraps negative, guard passes, slice panics
  else if r.length < size.toNat then .err errUnmarshal
  else .ok (Msg.mk t (r.take size.toNat) size [] [], r.drop size.toNat)

def aggCase (t : UInt8) (size : Int) (a : Res Unit) (kids : Res (List Msg × List UInt8)) : Res (Msg × List UInt8) :=
  match a with
  | .ok _ =>
    match kids with
    | .ok (xs, r) => .ok (Msg.mk t [] size xs [], r)
    | .err e => .err e
    | .panic => .panic
    | .oom => .oom
  | .err e => .err e
  | .panic => .panic
  | .oom => .oom

/-- `unmarshalView(c, buf)` with `bs = buf[c:]`, `tot = len(buf)`; the fuel bounds the nesting depth -/
def unView (L tot : Nat) : Nat → List UInt8 → Res (Msg × List UInt8)
  | 0, _ => .err "fuel"
  | f + 1, bs =>
    match hdr bs with
    | none => .err errUnmarshal
    | some (t, size, r) =>
      match kindOf t with
      | .int => .ok (Msg.mk t [] size [] [], r)
      | .agg => aggCase t size (allocMsgs L size) (loopN (unView L tot f) size.toNat r)
      | .str => strCase (tot - r.length) t size r

/-- `CacheUnmarshalView`: the message (its `attrs` is then `cacheMark`) and the 7 ttl bytes.
    Bytes after the message are ignored. -/
def unmarshal (L : Nat) (buf : List UInt8) : Res (Msg × List UInt8) :=
  if buf.length < 7 then .err errUnmarshal
  else
    match unView L buf.length (buf.length + 1) (buf.drop 7) with
    | .ok (m, _) => .ok (m, buf.take 7)
    | .err e => .err e
    | .panic => .panic
    | .oom => .oom

/-! ### expiry packing -/

/-- `setExpireAt`: the low 7 bytes of the int64, little endian -/
def packTTL (v : Int) : List UInt8 :=
  let n := u64 v
  [UInt8.ofNat n, UInt8.ofNat (n / 256), UInt8.ofNat (n / 65536), UInt8.ofNat (n / 16777216),
   UInt8.ofNat (n / 4294967296), UInt8.ofNat (n / 1099511627776), UInt8.ofNat (n / 281474976710656)]

/-- `getExpireAt` -/
def unpackTTL (bs : List UInt8) : Nat := bs.foldr (fun b a => b.toNat + 256 * a) 0

/-! ### specification: what a round trip preserves -/

mutual
/-- the message `CacheUnmarshalView ∘ CacheMarshal` must reconstruct: same tree, same type bytes,
    same strings, same integers; attributes are not cached -/
def norm : Msg → Msg
  | .mk t s i xs _ =>
    match kindOf t with
    | .int => .mk t [] i [] []
    | .agg => .mk t [] xs.length (normL xs) []
    | .str => .mk t s s.length [] []
def normL : List Msg → List Msg
  | [] => []
  | x :: xs => norm x :: normL xs
end

/-- dump of a message whose root carries `cacheMark` (cf. `VerifDump`) -/
def dumpMarked : Msg → String
  | .mk t s i xs _ =>
    toString t.toNat ++ ":" ++ Hex.encode s ++ ":" ++ toString i ++ ":[" ++ Msg.dumpL xs ++ "]:cache"

end Rv.CacheMarshal
