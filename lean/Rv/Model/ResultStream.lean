/-
Model of /repo/pipe.go `RedisResultStream` (HasNext / Error / WriteTo) and of the
tails of `(*pipe).DoStream` / `DoMultiStream` that create it (the repaired code: the
wire is stored before the early `ctx.Err()` return, commit 35dadce).

The wire-level effects are recorded as an event log: `release` (blcksig-1, decrWaits),
`close` (`s.w.Close()`), `connClose` (`p.conn.Close()` after a failed flush), `store`
(`pool.Store(wire)`; the blocking pool itself is C24, `Rv.Pool`). The outcome of each
`streamTo` call is a parameter (`SO`); `session` composes the automaton with the
`streamTo` model over one byte stream. Core Lean only.
-/
import Rv.Model.StreamTo
namespace Rv.ResultStream
open Rv Rv.StreamTo

/-- values of the sticky `s.e` -/
inductive SErr where
  | eof                      -- io.EOF: all replies were read
  | ctx                      -- ctx.Err() at entry
  | pipe                     -- p.Error(): the wire was already closed / the flush failed
  | stream (e : Err)         -- the error of the `streamTo` call that was not clean
  deriving DecidableEq, Repr

inductive Ev where
  | release | close | connClose | store
  deriving DecidableEq, Repr

structure RS where
  n : Int                    -- s.n
  e : Option SErr            -- s.e
  log : List Ev              -- effects on the wire / pool so far
  calls : Nat                -- ghost: number of `streamTo` invocations
  deriving DecidableEq, Repr

/-- what `streamTo` returned: (n, err, clean) -/
structure SO where
  n : Nat
  err : Err
  clean : Bool
  deriving DecidableEq, Repr

def toS (e : Err) : Option SErr := if e = .none then none else some (.stream e)

/-- `HasNext` -/
def RS.hasNext (s : RS) : Bool := decide (s.n > 0) && s.e.isNone

/-- how `DoStream` / `DoMultiStream` leave: the context was already done; the pipe is
    closing (`state != 0`; `state == 1` cannot occur on a no-background pool wire);
    the flush failed; the commands were written -/
inductive Entry where
  | ctxDone | closing | flushErr | ok
  deriving DecidableEq, Repr

/-- `(*pipe).DoStream` (ncmd = 1) / `DoMultiStream` (ncmd = len(multi)) after `pool.Acquire` -/
def start (k : Entry) (ncmd : Nat) : RS :=
  match k with
  | .ctxDone => ⟨0, some .ctx, [.store], 0⟩
  | .closing => ⟨0, some .pipe, [.release, .store], 0⟩
  | .flushErr => ⟨0, some .pipe, [.connClose, .release, .store], 0⟩
  | .ok => ⟨ncmd, none, [], 0⟩

/-- the tail of `WriteTo` once `s.n` reached 0 -/
def finish (s : RS) : RS :=
  match s.e with
  | none => { s with e := some .eof, log := s.log ++ [.release, .store] }
  | some _ => { s with log := s.log ++ [.release, .close, .store] }

/-- the body of `WriteTo` after `streamTo` returned `o` -/
def afterStream (s : RS) (o : SO) : RS :=
  let s1 : RS := if o.clean then s else { s with e := toS o.err, n := 1 }
  let s2 : RS := { s1 with n := s1.n - 1, calls := s1.calls + 1 }
  if s2.n = 0 then finish s2 else s2

/-- `WriteTo`: the new state and the returned (n, err). `o` is what `streamTo` returns
    *if* it is called. -/
def writeTo (s : RS) (o : SO) : RS × Nat × Option SErr :=
  match s.e with
  | some e => (s, 0, some e)
  | none =>
    if s.n > 0 then (afterStream s o, o.n, toS o.err)
    else (s, 0, none)

/-- a sequence of `WriteTo` calls, the i-th `streamTo` outcome being `os[i]` -/
def runAll (s : RS) : List SO → RS
  | [] => s
  | o :: os => runAll (writeTo s o).1 os

def countStore (l : List Ev) : Nat := (l.filter (· == .store)).length

/-! ### composition with the `streamTo` model over one connection -/

structure CallRes where
  n : Nat
  err : Option SErr
  out : List UInt8
  hasNext : Bool
  deriving Repr

/-- `calls` = the writers (budget, over) of the successive `WriteTo` calls; `bs` = everything
    the server will still send on this connection -/
def session (B : Nat) : RS → List UInt8 → List (Option Nat × Nat) → List CallRes → RS × List UInt8 × List CallRes
  | s, bs, [], acc => (s, bs, acc.reverse)
  | s, bs, (k, ov) :: cs, acc =>
    match s.e with
    | some e => session B s bs cs (⟨0, some e, [], s.hasNext⟩ :: acc)
    | none =>
      if s.n > 0 then
        let o := run B ⟨k, ov, []⟩ bs
        let s' := afterStream s ⟨o.n, o.err, o.clean⟩
        session B s' o.rest cs (⟨o.n, toS o.err, o.w.out, s'.hasNext⟩ :: acc)
      else session B s bs cs (⟨0, none, [], s.hasNext⟩ :: acc)

def SErr.show : SErr → String
  | .eof => "eof"
  | .ctx => "ctx"
  | .pipe => "pipe"
  | .stream e => e.show

def Ev.show : Ev → String
  | .release => "release"
  | .close => "close"
  | .connClose => "connclose"
  | .store => "store"

end Rv.ResultStream
