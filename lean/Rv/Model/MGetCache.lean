/-
Model of the batched client-side-cache reads of /repo (C11):

* pipe.go `doCacheMGet`  — hit / pending / miss partition of the keys of an `MGET`/`JSON.MGET`,
  the rewritten command with only the missing keys, and the positional refill
  "walk left to right, put the next server value into the first empty slot";
* pipe.go `DoMultiCache` — the same for a batch of single-key commands: miss list, stride-5
  `[OPT_IN, MULTI, PTTL, cmd, EXEC]` vs. stride-2 `[OPT_IN, cmd]` (all-or-nothing static TTL)
  walks over the flat reply list, EXEC decoding, refill;
* lru.go `Flight`/`Flights` as far as the classification of ONE batch goes (a key that is absent
  gets a flight at its first occurrence, every later occurrence waits on that flight);
* mux.go `DoMultiCache` / cluster.go `_pickMultiCache` + `resultcachefn`: grouping of the
  positions by destination (`cIndexes`), one sub-batch per destination, scatter back.

Core Lean only.  Conventions
* a Go slot "is empty" when `val.typ == 0 && err == nil`; here `val = none` ⇔ `typ == 0` and
  `err = none` ⇔ `err == nil`.  Nothing in the types makes a waiter's result or a server reply
  non-empty: where the Go code relies on that, the theorems carry it as a hypothesis;
* places where the Go code would panic (index out of range) return `none`;
* Go map iteration (`for i, entry := range entries.e`, `ParallelKeys`) is an explicit order
  argument; theorems hold for every order.
-/
namespace Rv.MGetCache

/-! ## messages, errors, results -/

/-- a reply that is not an array of replies (the payload is an opaque id) -/
inductive Atom
  | str (v : Nat)    -- any non-error, non-null reply: `typ ∉ {0,'-','!','_'}`
  | rerr (v : Nat)   -- `-ERR …` / `!…`
  | null             -- `_`
  | int (n : Int)    -- `:n` (PTTL inside EXEC)
deriving DecidableEq, Repr

/-- a parsed `RedisMessage` (`typ ≠ 0` by construction; the zero message is `Option.none`) -/
inductive Msg
  | atom (a : Atom)
  | arr (xs : List Atom)   -- `*n` (the EXEC reply)
deriving DecidableEq, Repr

inductive Err
  | redis (a : Atom)   -- `*RedisError` (incl. `Nil`)
  | aborted            -- ErrDoCacheAborted
  | parse              -- errParse ("… is not a array")
  | other (n : Nat)    -- transport / context / closed errors
deriving DecidableEq, Repr

def Err.isRedis : Err → Bool
  | .redis _ => true
  | _ => false

/-- `RedisResult{val, err}` -/
structure Res where
  val : Option Msg
  err : Option Err
deriving DecidableEq, Repr

/-- the test of the refill loops: `results.s[j].val.typ == 0 && results.s[j].err == nil` -/
def Res.isEmpty (r : Res) : Bool := r.val.isNone && r.err.isNone

def Res.empty : Res := ⟨none, none⟩
def Res.ofMsg (m : Msg) : Res := ⟨some m, none⟩     -- NewResult(v, nil)
def Res.ofErr (e : Err) : Res := ⟨none, some e⟩     -- NewErrorResult(err)

/-- `RedisMessage.Error()` -/
def Msg.error : Msg → Option Err
  | .atom (.rerr v) => some (.redis (.rerr v))
  | .atom .null => some (.redis .null)
  | _ => none

/-- `RedisResult.Error()` -/
def Res.error (r : Res) : Option Err :=
  match r.err with
  | some e => some e
  | none => match r.val with
    | some m => m.error
    | none => none

/-- `RedisResult.ToArray()` -/
def Res.toArray (r : Res) : Except Err (List Atom) :=
  match r.err with
  | some e => .error e
  | none => match r.val with
    | some (.arr xs) => .ok xs
    | some m => match m.error with
      | some e => .error e
      | none => .error .parse
    | none => .error .parse

/-! ## the refill walk -/

/-- The refill loops of pipe.go (`doCacheMGet`, both walks of `DoMultiCache`):
    ```
    j := 0
    for _, ret := range partial {
        for ; j < len(vals); j++ { if empty(vals[j]) { vals[j] = ret; break } }
    }
    ```
    The first list is `vals[j:]` (everything left of `j` is final). After a fill `j` is NOT
    advanced: the slot just written is examined again for the next value. -/
def refill {σ : Type} (isEmpty : σ → Bool) : List σ → List σ → List σ
  | [], _ => []
  | s :: ss, [] => s :: ss
  | s :: ss, r :: rs =>
    if isEmpty s then refill isEmpty (r :: ss) rs else s :: refill isEmpty ss (r :: rs)
termination_by ss rs => ss.length + rs.length

/-- what the walk is meant to do: the k-th empty slot receives the k-th value -/
def fillSpec {σ : Type} (isEmpty : σ → Bool) : List σ → List σ → List σ
  | [], _ => []
  | s :: ss, [] => s :: ss
  | s :: ss, r :: rs => if isEmpty s then r :: fillSpec isEmpty ss rs else s :: fillSpec isEmpty ss (r :: rs)

/-- `for i, x := range m { vals[i] = x }` over a Go map, in the iteration order `ord` -/
def setAll {σ : Type} : List (Nat × σ) → List σ → List σ
  | [], vals => vals
  | (i, x) :: rest, vals => setAll rest (vals.set i x)

/-- positions paired with their elements (`for i, x := range l`) -/
def enum {α : Type} (l : List α) : List (Nat × α) := l.zipIdx.map fun (x, i) => (i, x)

/-! ## classification of one batch -/

/-- how `Flight` / `Flights` classified one position -/
inductive Cls
  | hit (v : Msg)         -- `v.typ != 0`
  | pending (w : Res)     -- `entry != nil`; `w` is what `entry.Wait(ctx)` will return
  | miss
deriving DecidableEq, Repr

def Cls.isMiss : Cls → Bool
  | .miss => true
  | _ => false

/-- the `entries.e` map: position ↦ waiter result -/
def entries (cls : List Cls) : List (Nat × Res) :=
  (enum cls).filterMap fun
    | (i, .pending w) => some (i, w)
    | _ => none

/-- state of one cache key at `now` (an expired entry counts as `absent`) -/
inductive Ent
  | cached (v : Msg)
  | inflight (w : Res)   -- what the flight already under way will resolve to
  | absent
deriving DecidableEq, Repr

/-- Sequential `Flight` over the keys of one batch (also the net effect of `Flights`: its second pass
    re-examines the missed positions in order under the write lock).  `seen` are the keys for which
    THIS batch already created a flight; `own k` is what that flight resolves to.  `closed`:
    `c.store == nil`, every lookup is told to send and nothing is recorded. -/
def classify {K : Type} [DecidableEq K] (closed : Bool) (own : K → Res) (st : K → Ent) :
    List K → List K → List Cls
  | _, [] => []
  | seen, k :: ks =>
    if closed then .miss :: classify closed own st seen ks
    else if k ∈ seen then .pending (own k) :: classify closed own st seen ks
    else match st k with
      | .cached v => .hit v :: classify closed own st seen ks
      | .inflight w => .pending w :: classify closed own st seen ks
      | .absent => .miss :: classify closed own st (k :: seen) ks

/-- the keys this batch has to fetch, in order (`rewrite.Args(key)` / `missed`) -/
def missKeys {K : Type} [DecidableEq K] (closed : Bool) (st : K → Ent) : List K → List K → List K
  | _, [] => []
  | seen, k :: ks =>
    if closed then k :: missKeys closed st seen ks
    else if k ∈ seen then missKeys closed st seen ks
    else match st k with
      | .absent => k :: missKeys closed st (k :: seen) ks
      | _ => missKeys closed st seen ks

/-! ## `doCacheMGet` -/

/-- `result.val.values()` before the waits: hits in place, everything else the zero message -/
def mBase : Cls → Option Msg
  | .hit v => some v
  | _ => none

/-- `for i, entry := range entries.e { v, err := entry.Wait(ctx); if err != nil { return err }; vals[i] = v }` -/
def waitAll : List (Nat × Res) → List (Option Msg) → Except Err (List (Option Msg))
  | [], vals => .ok vals
  | (_, ⟨_, some e⟩) :: _, _ => .error e
  | (i, ⟨v, none⟩) :: rest, vals => waitAll rest (vals.set i v)

/-- `doCacheMGet` after the classification. `exec` is what the MULTI…EXEC round trip of the rewritten
    command yielded: the error the function returns (`ErrDoCacheAborted`, the pre-error, a transport
    error) or `exec[last].values()`. `ord` is the iteration order of the `entries.e` map. -/
def doCacheMGet (cls : List Cls) (ord : List (Nat × Res))
    (exec : Except Err (List (Option Msg))) : Except Err (List (Option Msg)) :=
  let nmiss := (cls.filter Cls.isMiss).length
  if nmiss = 0 then
    waitAll ord (cls.map mBase)                        -- no round trip; `partial` is nil
  else match exec with
    | .error e => .error e                             -- (and Cancel of every rewritten key)
    | .ok part =>
      if nmiss = cls.length then .ok part              -- "all cache misses": the reply as it is
      else (waitAll ord (cls.map mBase)).map fun vals => refill Option.isNone vals part

/-- pipe.go `_backgroundRead`, MGET branch: `for i, cp := range msgs { ck := MGetCacheKey(cacheable, i); Update(ck, cc, cp) }`
    pairs the i-th key of the rewritten command with the i-th element of the reply; on an error
    `doCacheMGet` cancels every rewritten key with it. -/
def mgetOwn {K : Type} [DecidableEq K] (rw : List K) (exec : Except Err (List (Option Msg))) (k : K) : Res :=
  match exec with
  | .error e => ⟨none, some e⟩
  | .ok part => match (rw.zip part).lookup k with
    | some v => ⟨v, none⟩
    | none => ⟨none, none⟩     -- not resolved by this reply (only when the reply is too short)

/-- `DoCache` on an `MGET`: classification, rewritten keys, round trip, assembly -/
def mgetRun {K : Type} [DecidableEq K] (closed : Bool) (st : K → Ent) (ks : List K)
    (srv : List K → Except Err (List (Option Msg))) : List K × Except Err (List (Option Msg)) :=
  let rw := missKeys closed st [] ks
  let exec := srv rw
  let cls := classify closed (mgetOwn rw exec) st [] ks
  (rw, doCacheMGet cls (entries cls) exec)

/-! ## `DoMultiCache` -/

/-- `results.s` before the waits -/
def base0 : Cls → Res
  | .hit v => .ofMsg v
  | _ => .empty

/-- `for i := 4; i < len(resp.s); i += 5` reading `resp.s[i-1]` and `resp.s[i]` -/
def pick5 {α : Type} : List α → List (α × α)
  | _ :: _ :: _ :: d :: e :: rest => (d, e) :: pick5 rest
  | _ => []

/-- `for i := 1; i < len(resp.s); i += 2` reading `resp.s[i]` -/
def pick2 {α : Type} : List α → List α
  | _ :: b :: rest => b :: pick2 rest
  | _ => []

/-- the body of the stride-5 walk for one group (`pre` = reply of the command, `ex` = reply of EXEC);
    `none`: `exec[len(exec)-1]` on an empty array panics -/
def decode5 (pre ex : Res) : Option Res :=
  match ex.toArray with
  | .ok xs => match xs.getLast? with
    | some a => some (.ofMsg (.atom a))
    | none => none
  | .error e =>
    if e.isRedis then
      match pre.error with
      | some (.redis a) => some (.ofErr (.redis a))
      | _ => some (.ofErr .aborted)
    else some (.ofErr e)

/-- the stride-5 refill: the group is decoded only when an empty slot was found for it -/
def refill5 : List Res → List (Res × Res) → Option (List Res)
  | [], _ => some []
  | s :: ss, [] => some (s :: ss)
  | s :: ss, (pre, ex) :: rs =>
    if s.isEmpty then (decode5 pre ex).bind fun r => refill5 (r :: ss) rs
    else (refill5 ss ((pre, ex) :: rs)).map (s :: ·)
termination_by ss rs => ss.length + rs.length

/-- `DoMultiCache` after the classification; `skip` = `skipMultiExec` (every command carries a static
    TTL), `resp` = the flat result list of `p.DoMulti(ctx, missing...)`, `ord` = iteration order of
    `entries.e`. -/
def doMultiCache (cls : List Cls) (skip : Bool) (ord : List (Nat × Res)) (resp : List Res) : Option (List Res) :=
  let res1 := setAll ord (cls.map base0)
  if (cls.filter Cls.isMiss).length = 0 then some res1       -- `len(missing) == 0`
  else if skip then some (refill Res.isEmpty res1 (pick2 resp))
  else refill5 res1 (pick5 resp)

/-- the commands put on the wire for the missed ones -/
inductive Wire (C : Type)
  | optin | multi | pttl (c : C) | cmd (c : C) | exec
deriving DecidableEq, Repr

def missing {C : Type} (skip : Bool) (missed : List C) : List (Wire C) :=
  missed.flatMap fun c => if skip then [.optin, .cmd c] else [.optin, .multi, .pttl c, .cmd c, .exec]

/-- `DoMultiCache` on commands: `serve` answers the wire commands, one result per command; `own c` is
    what the flight of `c` created by this batch resolves to (Update by the reader / Cancel by the walk) -/
def multiRun {C : Type} [DecidableEq C] (closed : Bool) (skip : Bool) (st : C → Ent) (cs : List C)
    (own : C → Res) (serve : List (Wire C) → List Res) : List (Wire C) × Option (List Res) :=
  let missed := missKeys closed st [] cs
  let wire := missing skip missed
  let cls := classify closed own st [] cs
  (wire, doMultiCache cls skip (entries cls) (serve wire))

/-! ### Redis as the other end (trusted semantics; the tag server of the harness plays exactly this) -/

def okMsg : Res := .ofMsg (.atom (.int 0))          -- `+OK` / `+QUEUED`: some non-error, non-array reply
def execAbort : Atom := .rerr 1000000               -- `-EXECABORT …`

/-- Replies to a command list on one connection: commands are answered in order, one reply each;
    inside MULTI everything is queued and EXEC answers with the array of the queued commands'
    replies (`[pttl, reply c]` per group), or with an error when the transaction was discarded.
    `q = none`: not inside MULTI. -/
def serveStd {C : Type} (reply : C → Atom) (abort : C → Bool) : Option (List C) → List (Wire C) → List Res
  | _, [] => []
  | q, .optin :: ws => okMsg :: serveStd reply abort q ws
  | _, .multi :: ws => okMsg :: serveStd reply abort (some []) ws
  | some q, .pttl _ :: ws => okMsg :: serveStd reply abort (some q) ws
  | some q, .cmd c :: ws => okMsg :: serveStd reply abort (some (q ++ [c])) ws
  | some q, .exec :: ws =>
    (if q.any abort then .ofMsg (.atom execAbort)
     else .ofMsg (.arr (q.flatMap fun c => [.int (-1), reply c]))) :: serveStd reply abort none ws
  | none, .pttl _ :: ws => .ofMsg (.atom (.int (-1))) :: serveStd reply abort none ws
  | none, .cmd c :: ws => .ofMsg (.atom (reply c)) :: serveStd reply abort none ws
  | none, .exec :: ws => .ofMsg (.atom (.rerr 1000001)) :: serveStd reply abort none ws

/-- what the flight created for `c` resolves to. Stride-5: the reader `Update`s with `exec[last]`
    (whatever it is), an aborted EXEC is `Cancel`led by the walk with ErrDoCacheAborted. Stride-2
    (static TTL): the reader cancels with the `*RedisError` on a typed error reply (`Nil` excepted)
    and `Update`s otherwise. -/
def ownStd {C : Type} (skip : Bool) (reply : C → Atom) (abort : C → Bool) (c : C) : Res :=
  if skip then
    match reply c with
    | .rerr v => .ofErr (.redis (.rerr v))
    | a => .ofMsg (.atom a)
  else if abort c then .ofErr .aborted else .ofMsg (.atom (reply c))

/-- what the caller of the batch itself must see for a command it fetched -/
def outStd {C : Type} (skip : Bool) (reply : C → Atom) (abort : C → Bool) (c : C) : Res :=
  if skip then .ofMsg (.atom (reply c))
  else if abort c then .ofErr .aborted else .ofMsg (.atom (reply c))

/-! ## per-destination batching (mux.go `DoMultiCache`, cluster.go `_pickMultiCache` / `resultcachefn`) -/

/-- `batch.cIndexes` of destination `d`: the positions whose command goes to `d`, ascending
    (`for i, cmd := range multi { batch := batches.m[dest]; batch.cIndexes = append(batch.cIndexes, i) }`) -/
def cIndexes {D : Type} [DecidableEq D] (dest : List D) (d : D) : List Nat :=
  (enum dest).filterMap fun (i, d') => if d' = d then some i else none

/-- `batch.commands` of destination `d` -/
def cCommands {D C : Type} [DecidableEq D] (dest : List D) (cmds : List C) (d : D) : List C :=
  (dest.zip cmds).filterMap fun (d', c) => if d' = d then some c else none

/-- `for i, r := range resp.s { results.s[batch.cIndexes[i]] = r }`; `none` = index out of range -/
def scatter {R : Type} : List R → List Nat → List R → Option (List R)
  | res, _, [] => some res
  | _, [], _ :: _ => none
  | res, i :: is, r :: rs => if i < res.length then scatter (res.set i r) is rs else none

/-- all sub-batches in the order `order` (Go: map iteration / `ParallelKeys`; the writes go to
    pairwise different indices) -/
def scatterAll {D C R : Type} [DecidableEq D] (dest : List D) (cmds : List C) (run : D → List C → List R) :
    List D → List R → Option (List R)
  | [], res => some res
  | d :: ds, res => (scatter res (cIndexes dest d) (run d (cCommands dest cmds d))).bind (scatterAll dest cmds run ds)

/-- mux.go `DoMultiCache` (`dest i = multi[i].Cmd.Slot() & mask`) and the first round of
    cluster.go `DoMultiCache` (`dest i = c.wslots[slot]`): a batch whose commands all go to one
    destination is handed over as it is (`mask == 0`, `slots.LessThen(2)`), otherwise one sub-batch per
    destination and scatter into `results` (initially all empty). -/
def batched {D C R : Type} [DecidableEq D] (empty : R) (dest : List D) (cmds : List C) (order : List D)
    (run : D → List C → List R) : Option (List R) :=
  match dest with
  | [] => some []
  | d0 :: _ =>
    if dest.all (· = d0) then some (run d0 cmds)
    else scatterAll dest cmds run order (List.replicate cmds.length empty)

end Rv.MGetCache

/-! ## specification (what C11 demands; used by the theorems and by the `!` lines of the driver) -/
namespace Rv.MGetCache.Spec
open Rv.MGetCache

/-- classification level: the k-th missing position receives the k-th reply, every other position
    keeps its cache value -/
def spec : List Cls → List Res → List Res
  | [], _ => []
  | .miss :: cs, [] => .empty :: spec cs []
  | .miss :: cs, p :: part => p :: spec cs part
  | .hit v :: cs, part => .ofMsg v :: spec cs part
  | .pending w :: cs, part => w :: spec cs part

/-- key level: the outcome for key / command `k` as this batch must report it — the cached reply, the
    outcome of the flight already under way, or the server's answer `out k` to this batch -/
def expected {K : Type} (closed : Bool) (st : K → Ent) (out : K → Res) (k : K) : Res :=
  if closed then out k else
  match st k with
  | .cached v => .ofMsg v
  | .inflight w => w
  | .absent => out k

/-- per-destination batching: position `i` holds what its destination answered for command `i` -/
def batchedSpec {D C R : Type} (dest : List D) (cmds : List C) (g : D → C → R) : List R :=
  List.zipWith g dest cmds

end Rv.MGetCache.Spec
