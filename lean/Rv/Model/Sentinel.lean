/-
C23 — the sentinel client's target-following automaton (core Lean only).

Transcribes /repo/sentinel.go `_refresh`, `listWatch` (reply parsing only), `pickReplica`,
`_switchTarget`, `switchTargetRetry`, `refreshRetry` and the pub/sub event handler.
Addresses are natural numbers. The environment (`World`) answers every question the client asks:
dial results, the three SENTINEL replies per sentinel, and a queue of ROLE answers per node (the
k-th ROLE query of a node gets the k-th entry, the last entry repeats) so that roles can flip in
the middle of a refresh.

`_refresh` runs under `c.mu` and is one atomic step here; the two concurrent `_switchTarget`
goroutines of the SendToReplicas mode are run master first, replica second (they touch disjoint
fields; the suite only compares that mode on paths where neither fails).
-/
namespace Rv.Sentinel

abbrev Addr := Nat

/-- what `resp[0].string()` of a ROLE reply is compared with -/
inductive Role where
  | master | slave | other
  deriving DecidableEq, Repr

/-- shapes of a ROLE reply as `_switchTarget` sees it -/
inductive RoleAns where
  /-- an array whose first element is this string -/
  | arr (first : Role)
  /-- an empty array (`*0`): `resp[0]` is out of range -/
  | empty
  /-- error reply, nil, non-array, transport error: `ToArray` fails -/
  | err
  deriving DecidableEq, Repr

/-- shapes of a SENTINEL GET-MASTER-ADDR-BY-NAME reply -/
inductive MasterAns where
  | addr (a : Addr)
  /-- an array with fewer than two elements: `m[0]`, `m[1]` out of range -/
  | short
  /-- error / nil / non-array -/
  | err
  deriving DecidableEq, Repr

structure SentinelView where
  dialOk : Bool
  /-- SENTINEL SENTINELS: `none` = the reply is an error (listWatch fails) -/
  sentinels : Option (List Addr)
  master : MasterAns
  /-- SENTINEL REPLICAS: `none` = error; entries are (address, has `s-down-time`) -/
  replicas : Option (List (Addr × Bool))
  deriving Repr

structure World where
  sent : Addr → SentinelView
  nodeDialOk : Addr → Bool
  /-- remaining ROLE answers per node (association list; missing / exhausted = `err`) -/
  roles : List (Addr × List RoleAns)

def World.roleOf (w : World) (a : Addr) : RoleAns :=
  match w.roles.find? (·.1 == a) with
  | some (_, r :: _) => r
  | _ => .err

/-- consume one ROLE answer of node `a` (the last one repeats) -/
def World.popRole (w : World) (a : Addr) : World :=
  { w with roles := w.roles.map fun (b, q) =>
      if b == a then (b, match q with | _ :: r :: rest => r :: rest | q => q) else (b, q) }

inductive Mode where
  /-- neither ReplicaOnly nor SendToReplicas: master target only -/
  | masterOnly
  /-- ReplicaOnly -/
  | replicaOnly
  /-- SendToReplicas != nil: both targets -/
  | both
  deriving DecidableEq, Repr

/-- a stored connection: the node it talks to and whether the client has closed it.
    `lastRole` is a ghost field (never read by the transitions): the most recent ROLE answer the
    client received over this connection. -/
structure Conn where
  addr : Addr
  closed : Bool
  lastRole : RoleAns := .err
  deriving DecidableEq, Repr

structure St where
  mode : Mode
  sentinels : List Addr
  /-- `c.sAddr` / `c.sConn`: the sentinel connection kept between refreshes (closed?) -/
  sConn : Option Conn := none
  mAddr : Option Addr := none
  mConn : Option Conn := none
  rAddr : Option Addr := none
  rConn : Option Conn := none
  stopped : Bool := false
  /-- ghost: every address a sentinel reply or a +switch-master / +reboot event named as master -/
  reportedM : List Addr := []
  /-- ghost: every address a sentinel reply offered as an eligible replica -/
  reportedR : List Addr := []
  deriving Repr

/-- observable actions on the fake connections, in program order -/
inductive Act where
  | dial (a : Addr)
  | listWatch (a : Addr)
  /-- a ROLE command on a connection to `a`; `ans` (ghost) is the reply it got -/
  | role (a : Addr) (ans : RoleAns)
  | close (a : Addr)
  deriving DecidableEq, Repr

inductive SwErr where
  | dial | roleErr | wrongRole
  deriving DecidableEq, Repr

/-- the role check of `_switchTarget` after the repair: an empty array is "not that role" -/
def roleMatches (ans : RoleAns) (want : Role) : Option Bool :=
  match ans with
  | .arr r => some (r == want)
  | .empty => some false
  | .err => none

/-- the check before the repair: `resp[0]` on an empty array panics (`none` = panic) -/
def roleMatchesUnrepaired (ans : RoleAns) (want : Role) : Option (Option Bool) :=
  match ans with
  | .arr r => some (some (r == want))
  | .empty => none
  | .err => some none

/-- the stored connection `_switchTarget` may reuse: same address and `Error() == nil` -/
def reuseOf (s : St) (addr : Addr) (isMaster : Bool) : Option Conn :=
  let cur := if isMaster then s.mConn else s.rConn
  let curAddr := if isMaster then s.mAddr else s.rAddr
  if curAddr == some addr then
    match cur with
    | some c => if c.closed then none else some c
    | none => none
  else none

/-- `target.Close()` when the target is the stored connection: it stays stored, closed -/
def closeStored (s : St) (isMaster : Bool) (ans : RoleAns) : St :=
  if isMaster then { s with mConn := s.mConn.map fun c => { c with closed := true, lastRole := ans } }
  else { s with rConn := s.rConn.map fun c => { c with closed := true, lastRole := ans } }

/-- `c.mAddr.Store(addr); c.mConn.Swap(target)` (resp. rAddr / rConn) -/
def install (s : St) (addr : Addr) (isMaster : Bool) (ans : RoleAns) : St :=
  if isMaster then { s with mAddr := some addr, mConn := some ⟨addr, false, ans⟩ }
  else { s with rAddr := some addr, rConn := some ⟨addr, false, ans⟩ }

/-- `_switchTarget(addr, isMaster)`; returns the new state, world, actions and the error if any -/
def switchTarget (s : St) (w : World) (addr : Addr) (isMaster : Bool) : St × World × List Act × Option SwErr :=
  if s.stopped then (s, w, [], none) else
  let cur := if isMaster then s.mConn else s.rConn
  let dialed := (reuseOf s addr isMaster).isNone
  if dialed && !w.nodeDialOk addr then (s, w, [.dial addr], some .dial) else
  let pre : List Act := if dialed then [.dial addr] else []
  let ans := w.roleOf addr
  let want := if isMaster then Role.master else Role.slave
  match roleMatches ans want with
  | none =>
    -- `target.Close()`: if the target was the stored connection, that one is now closed
    (if dialed then s else closeStored s isMaster ans, w.popRole addr, pre ++ [.role addr ans, .close addr], some .roleErr)
  | some false =>
    (if dialed then s else closeStored s isMaster ans, w.popRole addr, pre ++ [.role addr ans, .close addr], some .wrongRole)
  | some true =>
    -- store; the previous connection is closed unless it is the same object
    let closeOld : List Act :=
      match cur with
      | some c => if dialed then [.close c.addr] else []
      | none => []
    (install s addr isMaster ans, w.popRole addr, pre ++ [.role addr ans] ++ closeOld, none)

/-- `pickReplica`: the first replica without `s-down-time` (the real code picks a random eligible one;
    the suite offers at most one) -/
def pickReplica (l : List (Addr × Bool)) : Option Addr :=
  (l.find? fun (_, down) => !down).map (·.1)

inductive LwErr where
  | sentinels | replicas | master
  deriving DecidableEq, Repr

/-- the parsing part of `listWatch` (after the repair: a short master array is an error) -/
def listWatch (m : Mode) (v : SentinelView) : Except LwErr (Option Addr × Option Addr × List Addr) :=
  match v.sentinels with
  | none => .error .sentinels
  | some others =>
    match m with
    | .replicaOnly =>
      match v.replicas.bind pickReplica with
      | none => .error .replicas
      | some r => .ok (none, some r, others)
    | _ =>
      let rep : Except LwErr (Option Addr) :=
        if m == .both then
          match v.replicas.bind pickReplica with
          | none => .error .replicas
          | some r => .ok (some r)
        else .ok none
      match rep with
      | .error e => .error e
      | .ok r =>
        match v.master with
        | .addr a => .ok (some a, r, others)
        | _ => .error .master

/-- `_addSentinel` for each reported sentinel: PushFront if absent -/
def addSentinels (l : List Addr) (news : List Addr) : List Addr :=
  news.foldl (fun acc a => if acc.contains a then acc else a :: acc) l

/-- `c.sentinels.MoveToBack(e)`: the element that was tried (not necessarily the front any more:
    sentinels it reported were pushed in front of it) -/
def moveToBack (l : List Addr) (a : Addr) : List Addr := l.erase a ++ [a]

/-- `c.sConn = …` / the state of the kept sentinel connection -/
def withSConn (s : St) (c : Conn) : St := { s with sConn := some c }

/-- after a successful `listWatch`: `_addSentinel` for every reported sentinel, and the ghost lists -/
def noteReported (s : St) (m r : Option Addr) (others : List Addr) : St :=
  { s with sentinels := addSentinels s.sentinels others,
           reportedM := (match m with | some x => [x] | none => []) ++ s.reportedM,
           reportedR := (match r with | some x => [x] | none => []) ++ s.reportedR }

/-- the `switch` over the client mode in `_refresh` -/
def switchByMode (s : St) (w : World) (m r : Option Addr) : St × World × List Act × Option SwErr :=
  match s.mode with
  | .replicaOnly => switchTarget s w (r.getD 0) false
  | .masterOnly => switchTarget s w (m.getD 0) true
  | .both =>
    let ra := switchTarget s w (m.getD 0) true
    let rb := switchTarget ra.1 ra.2.1 (r.getD 0) false
    (rb.1, rb.2.1, ra.2.2.1 ++ rb.2.2.1, if ra.2.2.2.isSome then ra.2.2.2 else rb.2.2.2)

/-- the kept sentinel connection is reused iff it is this address and healthy -/
def keepSConn (s : St) (a : Addr) : Bool :=
  match s.sConn with
  | some c => c.addr == a && !c.closed
  | none => false

/-- one iteration of the `_refresh` loop for the sentinel at the front; `true` = success (break) -/
def tryFront (s : St) (w : World) : St × World × List Act × Bool :=
  match s.sentinels with
  | [] => (s, w, [], false)
  | a :: _ =>
    -- (re)connect unless the kept sentinel connection is this address and healthy
    let keep := keepSConn s a
    let closeOld : List Act := if keep then [] else match s.sConn with
      | some c => [.close c.addr]
      | none => []
    let s1 := if keep then s else withSConn s ⟨a, false, .err⟩
    let acts0 := if keep then [] else closeOld ++ [.dial a]
    if !keep && !(w.sent a).dialOk then (s1, w, acts0, false) else
    match listWatch s.mode (w.sent a) with
    | .error _ => (withSConn s1 ⟨a, true, .err⟩, w, acts0 ++ [.listWatch a, .close a], false)
    | .ok (m, r, others) =>
      let res := switchByMode (noteReported s1 m r others) w m r
      match res.2.2.2 with
      | none => (res.1, res.2.1, acts0 ++ [.listWatch a] ++ res.2.2.1, true)
      | some _ => (withSConn res.1 ⟨a, true, .err⟩, res.2.1, acts0 ++ [.listWatch a] ++ res.2.2.1 ++ [.close a], false)

/-- the `_refresh` loop: try the sentinel at the front; on failure move it to the back; stop when the
    original head is at the front again. `budget` bounds the iterations (sentinels known + reported). -/
def refreshLoop (head : Addr) : (budget : Nat) → St → World → List Act → St × World × List Act × Bool
  | 0, s, w, acts => (s, w, acts, false)
  | budget + 1, s, w, acts =>
    if s.stopped then (s, w, acts, true) else
    let (s1, w1, a1, ok) := tryFront s w
    if ok then (s1, w1, acts ++ a1, true)
    else
      let s2 := { s1 with sentinels := moveToBack s1.sentinels (s.sentinels.headD 0) }
      match s2.sentinels with
      | [] => (s2, w1, acts ++ a1, false)
      | f :: _ => if f == head then (s2, w1, acts ++ a1, false)
                  else refreshLoop head budget s2 w1 (acts ++ a1)

inductive RefreshRes where
  | ok
  /-- every sentinel failed -/
  | failed
  /-- the loop succeeded but the required target is missing / its connection reports an error -/
  | noTarget
  deriving DecidableEq, Repr

/-- `_refresh` -/
def refresh (s : St) (w : World) (budget : Nat) : St × World × List Act × RefreshRes :=
  match s.sentinels with
  | [] =>
    let tgt := if s.mode == .replicaOnly then s.rConn else s.mConn
    (s, w, [], match tgt with | some c => if c.closed then .noTarget else .ok | none => .noTarget)
  | head :: _ =>
    let (s1, w1, acts, ok) := refreshLoop head budget s w []
    if s1.stopped then (s1, w1, acts, .ok)
    else if !ok then (s1, w1, acts, .failed)
    else
      let tgt := if s1.mode == .replicaOnly then s1.rConn else s1.mConn
      (s1, w1, acts, match tgt with | some c => if c.closed then .noTarget else .ok | none => .noTarget)

/-- `refreshRetry`: refresh until it succeeds (`fuel` rounds) -/
def refreshRetry : (fuel : Nat) → St → World → Nat → St × World × List Act × Bool
  | 0, s, w, _ => (s, w, [], false)
  | fuel + 1, s, w, budget =>
    let (s1, w1, a1, r) := refresh s w budget
    if r == .ok then (s1, w1, a1, true)
    else
      let (s2, w2, a2, ok) := refreshRetry fuel s1 w1 budget
      (s2, w2, a1 ++ a2, ok)

/-- pub/sub events as the handler sees them: the channel and the space-split payload -/
inductive Event where
  /-- `+switch-master <name> <oldip> <oldport> <newip> <newport>`: `named` = name is our master set -/
  | switchMaster (named : Bool) (newAddr : Addr)
  /-- `+reboot master <name> <ip> <port>` -/
  | rebootMaster (named : Bool) (addr : Addr)
  /-- `+reboot slave …` / `+slave` / `+sdown` / `-sdown` with a slave payload for master set `named` -/
  | slaveChange (named : Bool)
  /-- an event the handler ignores -/
  | other
  deriving DecidableEq, Repr

/-- `switchTargetRetry` + the event dispatch; `fuel`/`budget` bound the follow-up refreshRetry -/
def onEvent (s : St) (w : World) (ev : Event) (fuel budget : Nat) : St × World × List Act × Bool :=
  let switchRetry (addr : Addr) : St × World × List Act × Bool :=
    let (s1, w1, a1, err) := switchTarget { s with reportedM := addr :: s.reportedM } w addr true
    match err with
    | none => (s1, w1, a1, true)
    | some _ =>
      let (s2, w2, a2, ok) := refreshRetry fuel s1 w1 budget
      (s2, w2, a1 ++ a2, ok)
  match ev with
  | .switchMaster true a => switchRetry a
  | .rebootMaster true a => switchRetry a
  | .slaveChange true =>
    if s.mode == .masterOnly then (s, w, [], true) else refreshRetry fuel s w budget
  | _ => (s, w, [], true)

/-- A +switch-master / +reboot event delivered WHILE a refresh holds `c.mu`: `switchTargetRetry` blocks in
    `c.mu.Lock()` until `_refresh` releases the mutex, then handles the event — the two serialise, the
    event is processed after the refresh, never dropped. Returns the refresh result too. -/
def eventDuringRefresh (s : St) (w : World) (ev : Event) (fuel budget : Nat) :
    St × World × List Act × RefreshRes :=
  let r := refresh s w budget
  let e := onEvent r.1 r.2.1 ev fuel budget
  (e.1, e.2.1, r.2.2.1 ++ e.2.2.1, r.2.2.2)

/-- where user traffic goes: `pick` with the replica decision already made -/
def userTarget (s : St) (toReplica : Bool) : Option Conn :=
  if s.mode == .replicaOnly then s.rConn
  else if s.mode == .both && toReplica then s.rConn
  else s.mConn

end Rv.Sentinel
