/-
C28 — the retry loops of the four clients and the delay policy (core Lean only).

Transcribes /repo/client.go singleClient.Do/DoMulti/DoCache/DoMultiCache + isRetryable
(standalone delegates to these; sentinel.go has the same loops around `pick` with its own,
identical isRetryable), /repo/cluster.go shouldRefreshRetry / do / doCache / doresultfn +
DoMulti / resultcachefn + DoMultiCache, and /repo/retry.go WaitOrSkipRetry / WaitForRetry /
defaultRetryDelayFn.

The server is a script: the k-th time command `i` is handed to a connection it is answered
with the k-th entry of `script i` (`ok` once the script is exhausted). `calls` counts
connection calls so that "the context is cancelled / the client is closed during call k" can
be expressed. Time does not pass between a decision and the deadline check (the suite uses
delays and deadlines that differ by orders of magnitude).
-/
namespace Rv.RetryPolicy

/-- what `resp.Error()` is after one connection call -/
inductive Err where
  | ok            -- a reply that is not an error
  | nil_          -- redis nil (`err == Nil`)
  | plain         -- any other redis error reply
  | loading | tryAgain | clusterDown
  | moved | ask
  | transport     -- a non-redis error (I/O, timeout, ctx error returned by the connection)
  | cacheAborted  -- ErrDoCacheAborted
  | connExpired   -- errConnExpired
  deriving DecidableEq, Repr

namespace Err
def code : Err → String
  | ok => "o" | nil_ => "n" | plain => "e" | loading => "L" | tryAgain => "T" | clusterDown => "C"
  | moved => "M" | ask => "A" | transport => "x" | cacheAborted => "a" | connExpired => "X"

def ofCode (s : String) : Option Err :=
  [ok, nil_, plain, loading, tryAgain, clusterDown, moved, ask, transport, cacheAborted, connExpired].find?
    (fun e => e.code == s)

/-- `err.(*RedisError)` succeeds -/
def isRedis : Err → Bool
  | nil_ | plain | loading | tryAgain | clusterDown | moved | ask => true
  | _ => false

def isRedirect : Err → Bool
  | moved | ask => true
  | _ => false
end Err

structure Env where
  /-- `c.retry` = `!ClientOption.DisableRetry` -/
  retry : Bool
  /-- RetryDelay(attempts, command index) in ns (the suite's RetryDelayFn ignores the error) -/
  delay : Nat → Nat → Int
  /-- `ctx.Deadline()`: remaining ns, `none` = no deadline -/
  deadline : Option Int
  /-- the ctx is done from connection call `k` on (`some 0` = before the first call) -/
  ctxDoneAt : Option Nat
  /-- the client is closed during connection call `k` (`some 0` = before the first call) -/
  closeAt : Option Nat

def Env.ctxDone (e : Env) (calls : Nat) : Bool :=
  match e.ctxDoneAt with | none => false | some k => decide (k ≤ calls)

def Env.closed (e : Env) (calls : Nat) : Bool :=
  match e.closeAt with | none => false | some k => decide (k ≤ calls)

/-! ### retry.go -/

/-- `retryer.WaitOrSkipRetry`: true = (wait and) retry, false = skip.
    `delay == 0` → true; `delay > 0` → true iff there is no deadline or `time.Until(dl) > delay`;
    negative → false. -/
def waitOrSkip (d : Int) (deadline : Option Int) : Bool :=
  if d = 0 then true
  else if d > 0 then (match deadline with | none => true | some rem => decide (rem > d))
  else false

/-- `retryer.WaitForRetry(ctx, d)`: the time actually waited, given that the ctx is cancelled after
    `cancelIn` ns (`none`: never / no Done channel) -/
def waitFor (d : Int) (cancelIn : Option Int) : Int :=
  if d > 0 then (match cancelIn with | none => d | some c => if c < d then (if c < 0 then 0 else c) else d)
  else 0

/-- `defaultRetryDelayFn` in µs before the 1 s cap: `base + jitter`, `base = 1 << min(20, attempts)`,
    `jitter = FastRand(base)` ∈ [0, base) -/
def defaultDelayUs (attempts : Nat) (jitter : Nat) : Nat :=
  let base := 2 ^ (min 20 attempts)
  min 1000000 (base + jitter % base)

/-! ### client.go / sentinel.go -/

/-- `singleClient.isRetryable` = `sentinelClient.isRetryable` -/
def isRetryable (r : Err) (closed ctxDone : Bool) : Bool :=
  match r with
  | .ok | .nil_ | .cacheAborted => false
  | _ =>
    if closed || ctxDone then false
    else if r.isRedis then r == .loading
    else true

/-- outcome of one client call, per command -/
structure Out where
  /-- number of times the command was handed to a connection -/
  sends : Nat
  /-- the `attempts` argument of every RetryDelay call made for this command, in order -/
  delayCalls : List Nat
  final : Err
  deriving Repr, DecidableEq

def Out.resend (o : Out) (dc : Option Nat) : Out :=
  ⟨o.sends + 1, (match dc with | some a => [a] | none => []) ++ o.delayCalls, o.final⟩

/-- Do (`checkCmd = true`) and DoCache (`checkCmd = false`: the loop does not look at
    `cmd.IsRetryable()`; cacheable commands are read-only by construction) of the single,
    standalone and sentinel clients. -/
def seqDo (e : Env) (checkCmd retryable : Bool) : List Err → (attempts calls : Nat) → Out
  | [], _, _ => ⟨1, [], .ok⟩
  | r :: rest, attempts, calls =>
    let calls := calls + 1
    if r = .connExpired then (seqDo e checkCmd retryable rest attempts calls).resend none
    else if r ≠ .ok && e.retry && (!checkCmd || retryable) && isRetryable r (e.closed calls) (e.ctxDone calls) then
      if waitOrSkip (e.delay attempts 0) e.deadline then
        (seqDo e checkCmd retryable rest (attempts + 1) calls).resend (some attempts)
      else ⟨1, [attempts], r⟩
    else ⟨1, [], r⟩

def heads (scripts : List (List Err)) : List Err := scripts.map fun s => s.headD .ok
def tails (scripts : List (List Err)) : List (List Err) := scripts.map List.tail
def total (scripts : List (List Err)) : Nat := (scripts.map List.length).sum

/-- the `for i, resp := range resps` scan of DoMulti/DoMultiCache: the delay calls made and whether a
    retry of the whole batch was decided (the scan stops at the first member that says "retry") -/
def scan (e : Env) (attempts : Nat) (closed ctxDone : Bool) : List Err → (i : Nat) → List (Nat × Nat) × Bool
  | [], _ => ([], false)
  | r :: rest, i =>
    if isRetryable r closed ctxDone then
      if waitOrSkip (e.delay attempts i) e.deadline then ([(i, attempts)], true)
      else
        let (cs, b) := scan e attempts closed ctxDone rest (i + 1)
        ((i, attempts) :: cs, b)
    else scan e attempts closed ctxDone rest (i + 1)

structure MultiOut where
  /-- number of times the batch was handed to a connection -/
  rounds : Nat
  /-- (command index, attempts) of every RetryDelay call, in order -/
  delayCalls : List (Nat × Nat)
  finals : List Err
  deriving Repr, DecidableEq

/-- DoMulti (`checkCmd = true`, `allRetryable` = every member IsRetryable) and DoMultiCache
    (`checkCmd = false`) of the single, standalone and sentinel clients (ConnLifetime = 0). -/
def seqMulti (e : Env) (checkCmd allRetryable : Bool) : (fuel : Nat) → List (List Err) → (attempts calls : Nat) → MultiOut
  | 0, scripts, _, _ => ⟨1, [], heads scripts⟩
  | fuel + 1, scripts, attempts, calls =>
    let calls := calls + 1
    let rs := heads scripts
    if e.retry && (!checkCmd || allRetryable) then
      let (cs, again) := scan e attempts (e.closed calls) (e.ctxDone calls) rs 0
      if again then
        let o := seqMulti e checkCmd allRetryable fuel (tails scripts) (attempts + 1) calls
        ⟨o.rounds + 1, cs ++ o.delayCalls, o.finals⟩
      else ⟨1, cs, rs⟩
    else ⟨1, [], rs⟩

/-! ### cluster.go -/

inductive Mode where
  | none | move | ask | retry
  deriving DecidableEq, Repr

/-- `clusterClient.shouldRefreshRetry` -/
def refreshMode (r : Err) (closed ctxDone : Bool) : Mode :=
  match r with
  | .ok | .nil_ | .cacheAborted => .none
  | _ =>
    if closed then .none
    else match r with
      | .moved => .move
      | .ask => .ask
      | .clusterDown | .tryAgain | .loading => .retry
      | .transport | .connExpired => if ctxDone then .none else .retry
      | _ => .none

/-- per-command outcome of a cluster call: the nodes it was handed to (false = the node owning the
    slot in the client's table, true = the node redirects point to) -/
structure COut where
  sends : List Bool
  delayCalls : List Nat
  final : Err
  deriving Repr, DecidableEq

def COut.cons (o : COut) (node : Bool) (dc : Option Nat) : COut :=
  ⟨node :: o.sends, (match dc with | some a => [a] | none => []) ++ o.delayCalls, o.final⟩

/-- `clusterClient.do` (`checkCmd = true`) / `doCache` (`checkCmd = false`), MaxMovedRedirections = 0.
    A redirect to a node the client already knows does not change the slot table, so a later retry
    goes back to the table's node. -/
def clDo (e : Env) (checkCmd retryable : Bool) : List Err → (attempts calls : Nat) → (node : Bool) → COut
  | [], _, _, node => ⟨[node], [], .ok⟩
  | r :: rest, attempts, calls, node =>
    let calls := calls + 1
    if r = .connExpired then (clDo e checkCmd retryable rest attempts calls node).cons node none
    else match refreshMode r (e.closed calls) (e.ctxDone calls) with
      | .move | .ask => (clDo e checkCmd retryable rest attempts calls (!node)).cons node none
      | .retry =>
        if e.retry && (!checkCmd || retryable) then
          if waitOrSkip (e.delay attempts 0) e.deadline then
            (clDo e checkCmd retryable rest (attempts + 1) calls false).cons node (some attempts)
          else ⟨[node], [attempts], r⟩
        else ⟨[node], [], r⟩
      | .none => ⟨[node], [], r⟩

/-- Labels of the connections `clDo` used when a topology refresh removes the slot's node from
    `c.conns` during connection call `retireAt` (only if that call went to the slot table's node):
    `H` = the slot table's node before the refresh, `N` = the node that owns the slot afterwards
    (`pick` reads the refreshed table), `O` = the node a redirect pointed to. The retry decision itself
    never looks at whether the connection is still part of the topology. -/
def clLabels (retireAt : Option Nat) : (sends : List Bool) → (i : Nat) → (retired : Bool) → List String
  | [], _, _ => []
  | b :: rest, i, retired =>
    (if b then "O" else if retired then "N" else "H") ::
      clLabels retireAt rest (i + 1) (retired || (retireAt == some i && !b))

/-- `clusterClient.Nodes()`: the per-node single client gets `retry = c.retry` (= !DisableRetry) and
    `DisableCache = opt.DisableCache` — in that order -/
def nodeClientFlags (disableRetry disableCache : Bool) : Bool × Bool := (!disableRetry, disableCache)

/-- helper.go isCacheDisabled for a single client: MGetCache & co fall back to plain commands -/
def nodeClientUsesCacheCalls (disableRetry disableCache : Bool) : Bool :=
  !(nodeClientFlags disableRetry disableCache).2

/-- one member of a cluster batch that still has to be sent -/
structure Pending where
  idx : Nat
  node : Bool
  deriving Repr, DecidableEq

/-- state of `DoMulti` between rounds -/
structure Round where
  next : List Pending := []
  redirects : Nat := 0
  /-- `retries.RetryDelay`, −1 = "assume no retry" -/
  maxDelay : Int := -1
  /-- (idx, node, reply, RetryDelay attempts if called) in processing order -/
  events : List (Nat × Bool × Err × Option Nat) := []

/-- `doresultfn` / `resultcachefn` for one member (batches without keyless commands and without
    MULTI/EXEC blocks). `fixed = false` is the code before the repair: a member whose RetryDelay is
    negative is still put into `retries.m`. -/
def resultOne (fixed : Bool) (e : Env) (checkCmd : Bool) (retryable : Nat → Bool) (attempts : Nat)
    (closed ctxDone : Bool) (st : Round) (p : Pending) (r : Err) : Round :=
  match refreshMode r closed ctxDone with
  | .none => { st with events := st.events ++ [(p.idx, p.node, r, none)] }
  | .retry =>
    if !e.retry || (checkCmd && !retryable p.idx) then
      { st with events := st.events ++ [(p.idx, p.node, r, none)] }
    else
      let d := e.delay attempts p.idx
      let ev := st.events ++ [(p.idx, p.node, r, some attempts)]
      if fixed && d < 0 then { st with events := ev }
      else { st with events := ev, next := st.next ++ [p],
                     maxDelay := if d ≥ 0 then max st.maxDelay d else st.maxDelay }
  | _ => { st with events := st.events ++ [(p.idx, p.node, r, none)],
                   next := st.next ++ [⟨p.idx, !p.node⟩], redirects := st.redirects + 1 }

def scriptHead (scripts : List (List Err)) (i : Nat) : Err := (scripts.getD i []).headD .ok
def scriptPop (scripts : List (List Err)) (i : Nat) : List (List Err) :=
  scripts.mapIdx fun j s => if j = i then s.tail else s

def roundFold (fixed : Bool) (e : Env) (checkCmd : Bool) (retryable : Nat → Bool) (attempts : Nat)
    (closed ctxDone : Bool) : List Pending → List (List Err) → Round → Round × List (List Err)
  | [], scripts, st => (st, scripts)
  | p :: ps, scripts, st =>
    let r := scriptHead scripts p.idx
    roundFold fixed e checkCmd retryable attempts closed ctxDone ps (scriptPop scripts p.idx)
      (resultOne fixed e checkCmd retryable attempts closed ctxDone st p r)

/-- `DoMulti` (`checkCmd = true`) / `DoMultiCache` (`checkCmd = false`) of the cluster client: all rounds.
    The ctx and closed flags do not change during the call (the suite fixes them before it).
    Returns the events of every round. -/
def clMulti (fixed : Bool) (e : Env) (checkCmd : Bool) (retryable : Nat → Bool) (closed ctxDone : Bool) :
    (fuel : Nat) → List Pending → List (List Err) → (attempts : Nat) → List (List (Nat × Bool × Err × Option Nat))
  | 0, _, _, _ => []
  | fuel + 1, pend, scripts, attempts =>
    let (st, scripts') := roundFold fixed e checkCmd retryable attempts closed ctxDone pend scripts {}
    if st.next.isEmpty then [st.events]
    else if st.redirects > 0 then
      st.events :: clMulti fixed e checkCmd retryable closed ctxDone fuel st.next scripts' attempts
    else if st.maxDelay ≥ 0 then
      st.events :: clMulti fixed e checkCmd retryable closed ctxDone fuel st.next scripts' (attempts + 1)
    else [st.events]

end Rv.RetryPolicy
