/-
Model of helper.go `Scanner`: `scan` (the page loop), `Iter`, `Iter2`.

The `next` function is scripted: its i-th call answers the i-th entry of a list of
responses (a page `(cursor, elements)` or an error) whatever cursor it is asked for, and
a call past the end of the script answers the error "eof". The model records the cursor
of every request. The consumer of the iterator is described by the 0-based index of the
item on which its `yield` returns false (`none` = it never stops). Core Lean only.
-/
namespace Rv.Scanner

inductive Resp where
  | page (cursor : Nat) (elems : List String)
  | err (e : String)
  deriving Repr, DecidableEq

/-- what an iteration shows to the outside: the items handed to the consumer, the cursors
    requested from `next`, and `Err()` afterwards -/
structure Out (β : Type) where
  yielded : List β
  cursors : List Nat
  err : Option String
  deriving Repr, DecidableEq

/-- hand the items of one page to the consumer: the items it receives, whether every `yield`
    returned true (the page callback returns true), and the stop index relative to the next page -/
def feed {β : Type} (items : List β) : Option Nat → List β × Bool × Option Nat
  | none => (items, true, none)
  | some k => if k < items.length then (items.take (k + 1), false, none)
              else (items, true, some (k - items.length))

/-- `scan` composed with a per-page callback that yields `pg page` item by item:
    `for e, s.err = s.next(0); s.err == nil && yield(e.Elements) && e.Cursor != 0; { e, s.err = s.next(e.Cursor) }`
    `cur` is the cursor of the pending `next` call. -/
def scanFrom {β : Type} (pg : List String → List β) : List Resp → Nat → Option Nat → Out β
  | [], cur, _ => ⟨[], [cur], some "eof"⟩
  | .err e :: _, cur, _ => ⟨[], [cur], some e⟩
  | .page c vs :: rest, cur, stop =>
    let r := feed (pg vs) stop
    if r.2.1 = true ∧ c ≠ 0 then
      let o := scanFrom pg rest c r.2.2
      ⟨r.1 ++ o.yielded, cur :: o.cursors, o.err⟩
    else ⟨r.1, [cur], none⟩

/-- the inner loop of `Iter2`: `for i := 0; i+1 < len(vs); i += 2 { yield(vs[i], vs[i+1]) }` -/
def pairs : List String → List (String × String)
  | a :: b :: rest => (a, b) :: pairs rest
  | _ => []

/-- `for v := range s.Iter()` -/
def iter (script : List Resp) (stop : Option Nat) : Out String := scanFrom id script 0 stop

/-- `for k, v := range s.Iter2()` -/
def iter2 (script : List Resp) (stop : Option Nat) : Out (String × String) := scanFrom pairs script 0 stop

end Rv.Scanner
