/-
Model of helper.go `Scanner`: `scan` (the page loop), `Iter`, `Iter2`.

The `next` function is scripted: its i-th call answers the i-th entry of a list of
responses (a page `(cursor, elements)` or an error) whatever cursor it is asked for, and
a call past the end of the script answers the error "eof". The model records the cursor
of every request. The consumer of the iterator is described by the 0-based index of the
item on which its `yield` returns false (`none` = it never stops). Core Lean only.
-/
namespace Rv.Scanner

inductive Resp where
  | page (cursor : Nat) (elems : List String)
  | err (e : String)
  deriving Repr, DecidableEq

/-- what an iteration shows to the outside: the items handed to the consumer, the cursors
    requested from `next`, and `Err()` afterwards -/
structure Out (β : Type) where
  yielded : List β
  cursors : List Nat
  err : Option String
  deriving Repr, DecidableEq

/-- hand the items of one page to the consumer: the items it receives, whether every `yield`
    returned true (the page callback returns true), and the stop index relative to the next page -/
def feed {β : Type} (items : List β) : Option Nat → List β × Bool × Option Nat
  | none => (items, true, none)
  | some k => if k < items.length then (items.take (k + 1), false, none)
              else (items, true, some (k - items.length))

/-- `scan` composed with a per-page callback that yields `pg page` item by item:
    `for e, s.err = s.next(0); s.err == nil && yield(e.Elements) && e.Cursor != 0; { e, s.err = s.next(e.Cursor) }`
    `cur` is the cursor of the pending `next` call. -/
def scanFrom {β : Type} (pg : List String → List β) : List Resp → Nat → Option Nat → Out β
  | [], cur, _ => ⟨[], [cur], some "eof"⟩
  | .err e :: _, cur, _ => ⟨[], [cur], some e⟩
  | .page c vs :: rest, cur, stop =>
    let r := feed (pg vs) stop
    if r.2.1 = true ∧ c ≠ 0 then
      let o := scanFrom pg rest c r.2.2
      ⟨r.1 ++ o.yielded, cur :: o.cursors, o.err⟩
    else ⟨r.1, [cur], none⟩

/-- the inner loop of `Iter2`: `for i := 0; i+1 < len(vs); i += 2 { yield(vs[i], vs[i+1]) }` -/
def pairs : List String → List (String × String)
  | a :: b :: rest => (a, b) :: pairs rest
  | _ => []

/-- `for v := range s.Iter()` -/
def iter (script : List Resp) (stop : Option Nat) : Out String := scanFrom id script 0 stop

/-- `for k, v := range s.Iter2()` -/
def iter2 (script : List Resp) (stop : Option Nat) : Out (String × String) := scanFrom pairs script 0 stop

/-! ### several iterations over the same Scanner

`Iter()`/`Iter2()` return re-usable `iter.Seq` values over one `*Scanner`. Besides `next` the only
field of the struct is `err`; `scan` assigns it (`e, s.err = s.next(0)`) before reading anything, and
the cursor it follows is a local of the closure. The state is threaded explicitly so that
"an iteration does not depend on what happened before" is a theorem, not a convention. -/

/-- the mutable fields of a `Scanner` -/
structure St where
  err : Option String
  deriving Repr, DecidableEq

inductive Req where
  | iter (stop : Option Nat)
  | iter2 (stop : Option Nat)
  deriving Repr, DecidableEq

inductive Res where
  | items (o : Out String)
  | pairs (o : Out (String × String))
  deriving Repr, DecidableEq

/-- one `for … range s.Iter()` / `s.Iter2()` on a Scanner in state `st`: the loop starts with
    `s.next(0)` and leaves the last error in `s.err` -/
def runReq (_st : St) (script : List Resp) : Req → Res × St
  | .iter stop => let o := iter script stop; (.items o, ⟨o.err⟩)
  | .iter2 stop => let o := iter2 script stop; (.pairs o, ⟨o.err⟩)

/-- consecutive iterations over the same Scanner; the server answers every iteration from the same script -/
def runSeq (st : St) (script : List Resp) : List Req → List Res × St
  | [] => ([], st)
  | r :: rs =>
    let a := runReq st script r
    let b := runSeq a.2 script rs
    (a.1 :: b.1, b.2)

/-- the cursors a complete iteration requests (the last one may be answered by eof);
    a cursor-keyed server equals the scripted one iff these are pairwise distinct -/
def reqCursors : List Resp → Nat → List Nat
  | [], cur => [cur]
  | .err _ :: _, cur => [cur]
  | .page c _ :: rest, cur => if c = 0 then [cur] else cur :: reqCursors rest c

end Rv.Scanner
