/-
Model of the object-mapping repositories of /repo/om (core Lean only).

* `hashSave` / `jsonSave` — hand transcriptions of `hashSaveScript` (om/hash.go) and
  `jsonSaveScript` (om/json.go); the texts are pinned in Rv/Props/C40.lean (trusted
  transcription, differentially tested against the Go fake by the `s.hs` / `s.js` lines).
* `encodeField` / `decodeField` — the converter table of om/conv.go, one constructor per
  supported kind: `int64`, `string`, `bool`, `*int64`, `*string`, `*bool`, `[]byte` /
  `[]float32` / `[]float64` (`raw`: the byte image; VectorString∘ToVector is C45's theorem)
  and the kinds that go through encoding/json (`json`: struct, *struct, []struct, time.Time;
  the JSON text is opaque here — trusted).
* `save` / `fetch` — `HashRepository.toExec`+`Save` and `Fetch`/`FetchCache`+`fromHash`.
  `jsave` / `jfetch` — the JSON repository over an abstract document `(version, body)`.

Byte strings are Lean `String`s (the driver maps byte b to the character with code b, which
preserves equality and order). Numbers in scripts are Lua doubles printed with `%.14g`:
exact only below 10^14, beyond that the model answers `.domain` (not modelled).
-/
namespace Rv.Om

abbrev Hash := List (String × String)

def hget (h : Hash) (k : String) : Option String :=
  match h with
  | [] => none
  | (k', v) :: r => if k' = k then some v else hget r k

def hset (h : Hash) (k v : String) : Hash := (k, v) :: h

def hsetPairs (h : Hash) : List (String × String) → Hash
  | [] => h
  | (k, v) :: r => hsetPairs (hset h k v) r

/-- distinct field names, most recent value (what HGETALL returns, as a set) -/
def hkeys : Hash → List String
  | [] => []
  | (k, _) :: r => if k ∈ hkeys r then hkeys r else k :: hkeys r

structure Key where
  h : Hash
  exp : Option Int := none

/-- the key as seen at server time `now` (expired iff `now > exp`) -/
def live (now : Int) (st : Option Key) : Option Key :=
  match st with
  | some k => (match k.exp with
      | some e => if now > e then none else some k
      | none => some k)
  | none => none

inductive Reply where
  | str (s : String)
  | nil
  | err        -- Redis / Lua error
  | domain     -- outside the modelled domain (non-canonical numerals, |version| ≥ 10^14)
  deriving Repr, DecidableEq

/-- canonical decimal numerals (what strconv.FormatInt prints) -/
def canonDec (s : String) : Option Int :=
  match s.toInt? with
  | some n => if toString n = s then some n else none
  | none => none

def pairs : List String → List (String × String)
  | k :: v :: r => (k, v) :: pairs r
  | _ => []

/-- `local e = (#ARGV % 2 == 1) and table.remove(ARGV) or nil; HSET KEYS[1] unpack(ARGV);
if e then PEXPIREAT KEYS[1] e end` — `none` when `e` is not a canonical numeral -/
def splitE (argv : List String) : List String × Option String :=
  if argv.length % 2 = 1 then (argv.dropLast, argv.getLast?) else (argv, none)

def store (now : Int) (argv : List String) (st : Option Key) : Option (Option Key) :=
  let argv' := (splitE argv).1
  let e := (splitE argv).2
  let k : Key := match st with
    | some k => { k with h := hsetPairs k.h (pairs argv') }
    | none => { h := hsetPairs [] (pairs argv') }
  match e with
  | none => some (some k)
  | some es => match canonDec es with
    | none => none
    | some at_ => if at_ ≤ now then some none else some (some { k with exp := some at_ })

def verLimit : Int := 100000000000000

/-- `HGET KEYS[1] f` (false when the key or the field is missing) -/
def hfield (st : Option Key) (f : String) : Option String :=
  match st with
  | some k => hget k.h f
  | none => none

/-- hashSaveScript with ARGV = `argv`, executed at server time `now` -/
def hashSave (now : Int) (argv : List String) (st0 : Option Key) : Option Key × Reply :=
  let st := live now st0
  match argv with
  | a1 :: a2 :: rest =>
    if a1 = "" then
      match store now argv st with
      | some st' => (st', .str a2)
      | none => (st, .domain)
    else
      let v := hfield st a1
      if v = none ∨ v = some a2 then
        match canonDec a2 with
        | some n =>
          if n + 1 < verLimit ∧ -verLimit < n + 1 then
            match store now (a1 :: toString (n + 1) :: rest) st with
            | some st' => (st', .str (toString (n + 1)))
            | none => (st, .domain)
          else (st, .domain)
        | none => (st, .domain)
      else (st, .nil)
  | _ => (st, .err)

/-! ### field converters (om/conv.go) -/

inductive FV where
  | int (i : Int)
  | str (s : String)
  | bool (b : Bool)
  | pint (o : Option Int)
  | pstr (o : Option String)
  | pbool (o : Option Bool)
  | raw (s : String)
  | json (s : String)
  deriving Repr, DecidableEq

def int64Min : Int := -(2 ^ 63)
def int64Max : Int := 2 ^ 63 - 1

/-- `ValueToString`: `none` = the field is left out of the HSET (nil pointers) -/
def encodeField : FV → Option String
  | .int i => some (toString i)
  | .str s => some s
  | .bool b => some (if b then "t" else "f")
  | .pint none => none
  | .pint (some i) => some (toString i)
  | .pstr none => none
  | .pstr (some s) => some s
  | .pbool none => none
  | .pbool (some b) => some (if b then "t" else "f")
  | .raw s => some s
  | .json s => some s

/-- strconv.ParseInt(s, 10, 64) on the numerals the model covers -/
def parseInt64 (s : String) : Option Int :=
  match s.toInt? with
  | some n => if int64Min ≤ n ∧ n ≤ int64Max then some n else none
  | none => none

/-- `StringToValue` for the kind of the template value `k`; `none` = conversion error -/
def decodeField (k : FV) (s : String) : Option FV :=
  match k with
  | .int _ => (parseInt64 s).map .int
  | .str _ => some (.str s)
  | .bool _ => some (.bool (s = "t"))
  | .pint _ => (parseInt64 s).map (fun i => .pint (some i))
  | .pstr _ => some (.pstr (some s))
  | .pbool _ => some (.pbool (some (decide (s = "t"))))
  | .raw _ => some (.raw s)
  | .json _ => some (.json s)

/-- schema: names of the key and version fields (version name "" = no version field) and
the other fields with their zero values (the constructor is the kind) -/
structure Schema where
  kname : String
  vname : String
  fields : List (String × FV)

structure Entity where
  key : String
  ver : Int
  fields : List (String × FV)   -- same names / kinds / order as the schema
  exat : Option Int := none      -- `redis:",exat"` field in ms when non-zero
  deriving Repr, DecidableEq

def encodeFields : List (String × FV) → List String
  | [] => []
  | (n, v) :: r => match encodeField v with
    | some s => n :: s :: encodeFields r
    | none => encodeFields r

/-- the trailing PEXPIREAT argument: present iff the `exat` field is a non-zero time -/
def extArg (e : Entity) : List String :=
  match e.exat with
  | some t => [toString t]
  | none => []

/-- ARGV of `toExec` (Go iterates a map: the order of the pairs after the first is arbitrary;
the model uses schema order, the stored hash is the same function of field names) -/
def toArgs (sch : Schema) (e : Entity) : List String :=
  sch.vname :: (if sch.vname = "" then "" else toString e.ver) :: sch.kname :: e.key ::
    (encodeFields e.fields ++ extArg e)

inductive SaveRes where
  | ok (ver : Int)     -- the entity's version field afterwards
  | mismatch           -- ErrVersionMismatch
  | err
  deriving Repr, DecidableEq

def save (now : Int) (sch : Schema) (e : Entity) (st : Option Key) : Option Key × SaveRes :=
  match hashSave now (toArgs sch e) st with
  | (st', .str s) => (st', .ok (if sch.vname = "" then e.ver else (s.toInt?).getD 0))
  | (st', .nil) => (st', .mismatch)
  | (st', _) => (st', .err)

/-- `HashRepository.SaveMulti`: the script runs once per entity, in order (ExecMulti pipelines the
EVALSHAs); result i is the result of entity i's own script execution. The store maps redis keys
(the entity's key field) to hashes. -/
def saveMulti (now : Int) (sch : Schema) : List Entity → (String → Option Key) → (String → Option Key) × List SaveRes
  | [], st => (st, [])
  | e :: r, st =>
    let x := save now sch e (st e.key)
    let y := saveMulti now sch r (fun k => if k = e.key then x.1 else st k)
    (y.1, x.2 :: y.2)

inductive FetchRes where
  | ok (e : Entity)
  | notFound           -- ErrEmptyHashRecord
  | err                -- conversion error
  deriving Repr, DecidableEq

def decodeFields (h : Hash) : List (String × FV) → Option (List (String × FV))
  | [] => some []
  | (n, zero) :: r =>
    match decodeFields h r with
    | none => none
    | some r' =>
      match hget h n with
      | none => some ((n, zero) :: r')
      | some s => match decodeField zero s with
        | some v => some ((n, v) :: r')
        | none => none

def fetch (now : Int) (sch : Schema) (st : Option Key) : FetchRes :=
  match live now st with
  | none => .notFound
  | some k =>
    if k.h = [] then .notFound else
    let key := (hget k.h sch.kname).getD ""
    let ver : Option Int := if sch.vname = "" then some 0 else
      match hget k.h sch.vname with
      | none => some 0
      | some s => parseInt64 s
    match ver, decodeFields k.h sch.fields with
    | some v, some fs => .ok { key := key, ver := v, fields := fs }
    | _, _ => .err

/-! ### JSON repository over an abstract document -/

/-- a stored JSON document: its version field and everything else (canonical text) -/
structure JDoc where
  ver : Int
  body : String
  deriving Repr, DecidableEq

def jsonLimit : Int := 2 ^ 53

structure JKey where
  doc : JDoc
  exp : Option Int := none
  deriving Repr, DecidableEq

def jlive (now : Int) (st : Option JKey) : Option JKey :=
  match st with
  | some k => (match k.exp with
      | some e => if now > e then none else some k
      | none => some k)
  | none => none

/-- `JSON.SET KEYS[1] $ doc` (a fresh value: no TTL) followed by `if #ARGV == 4 then PEXPIREAT … end` -/
def jstore (now : Int) (doc : JDoc) (e : Option String) : Option (Option JKey) :=
  match e with
  | none => some (some { doc := doc })
  | some es => match canonDec es with
    | none => none
    | some at_ => if at_ ≤ now then some none else some (some { doc := doc, exp := some at_ })

/-- jsonSaveScript with ARGV = (vname, verStr, doc[, e]) at server time `now`; the document is
abstract: `JSON.GET key vname` prints its version, `JSON.NUMINCRBY key vname 1` increments it -/
def jsonSave (now : Int) (vname verStr : String) (doc : JDoc) (e : Option String) (st0 : Option JKey) :
    Option JKey × Reply :=
  let st := jlive now st0
  if vname = "" then
    match jstore now doc e with
    | some st' => (st', .str verStr)
    | none => (st, .domain)
  else
    let v := st.map (fun k => toString k.doc.ver)
    if v = none ∨ v = some verStr then
      if doc.ver + 1 < jsonLimit then
        match jstore now { doc with ver := doc.ver + 1 } e with
        | some st' => (st', .str (toString (doc.ver + 1)))
        | none => (st, .domain)
      else (st, .domain)
    else (st, .nil)

/-- `JSONRepository.Save` (the entity's version is in the document and in ARGV[2]) -/
def jsave (now : Int) (verless : Bool) (ver : Int) (body : String) (st : Option JKey) : Option JKey × SaveRes :=
  match jsonSave now (if verless then "" else "ver") (toString ver) ⟨ver, body⟩ none st with
  | (st', .str s) => (st', .ok (if verless then ver else (s.toInt?).getD 0))
  | (st', .nil) => (st', .mismatch)
  | (st', _) => (st', .err)

/-- `JSONRepository.Fetch` / `FetchCache`: the stored document -/
def jfetch (now : Int) (st : Option JKey) : Option JDoc := (jlive now st).map (·.doc)

end Rv.Om
