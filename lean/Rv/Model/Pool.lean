/-
Model of /repo/pool.go (the blocking pool behind blocking commands, dedicated
clients and streaming) and of the acquire/store discipline of its callers.

Two transition systems, both core Lean, both executable:

* `Rv.Pool` — the pool's data (`size`, `list`, `down`), the wires it made and who
  holds what. Every transition is one mutex-protected region of pool.go (or one
  lock-free thread-local step: the return of `makeFn`, a holder breaking its
  wire), so every interleaving of real goroutines is a sequence of these
  transitions. Waiting changes nothing in this state, so it does not appear here.

* `Rv.PoolWait` — the wait protocol of `Acquire` for one acquirer against the most
  general environment: the mutex, the `for … { cond.Wait() }` loop (condition check
  and enqueueing in the notify list are separate steps), the cancellation
  goroutine and its Broadcast, spurious wake-ups.

`Cfg` flags select the repaired code (what /repo contains now, tied by the
correspondence suites) or the code as it was before the `fix:` commits (kept to
prove the negations with their witnesses).
-/
namespace Rv.Pool

/-- Configuration of a pool and of the code variant. -/
structure Cfg where
  cap : Nat
  minSize : Nat
  /-- repaired `Store`: the dead pipe that `Acquire` hands out for a done context is
      recognised (`pipe.uncounted`) and not subtracted from `size`. -/
  skipUncounted : Bool := true
  deriving Repr, DecidableEq

/-- Pool state plus the ghost bookkeeping of who holds what. Wire ids are the
    order in which `makeFn` returned them. -/
structure St where
  /-- `pool.size` -/
  size : Int := 0
  /-- `pool.list`, head = top of the stack = last element of the Go slice -/
  list : List Nat := []
  /-- `pool.down` -/
  down : Bool := false
  /-- acquirers between `p.size++` and the return of `p.make(ctx)` (mutex released) -/
  making : Nat := 0
  /-- freshly made wires whose `StopTimer()` said false; their acquirer is about to
      re-lock, `p.size--`, `Close()` and `goto retry` -/
  fresh : List Nat := []
  /-- wires handed out to a holder and not yet stored -/
  out : List Nat := []
  /-- hand-outs of the shared dead wire that were counted (failed dial) -/
  outDead : Nat := 0
  /-- hand-outs of the shared dead wire by the `p.down` branch (never counted) -/
  outDeadU : Nat := 0
  /-- hand-outs of the dead pipe made for a done context (never counted) -/
  outCtx : Nat := 0
  /-- wires whose `Error()` is non-nil -/
  bad : List Nat := []
  /-- wires on which `Close()` was called -/
  closed : List Nat := []
  /-- next wire id -/
  next : Nat := 0
  /-- ghost: number of `p.size--` executed by `Store` for a wire that was never counted -/
  over : Nat := 0
  deriving Repr, DecidableEq

/-- One atomic transition. -/
inductive Op
  /-- `Acquire`, `ctx.Err() != nil` branch (at entry or after a wake-up) -/
  | acqCtxDead
  /-- `Acquire`, `p.down` branch -/
  | acqDown
  /-- `Acquire`, `len(p.list) == 0` branch: `p.size++`, unlock, call `makeFn` -/
  | acqNew
  /-- `Acquire`, pop the top idle wire; `timerOk` is its `StopTimer()`;
      a bad one is closed, `p.size--`, `goto retry` -/
  | acqPop (timerOk : Bool)
  /-- `makeFn` returns a new wire (`alive` = its `Error()` is nil), `StopTimer()` = `timerOk` -/
  | makeRet (alive timerOk : Bool)
  /-- `makeFn` failed to dial and returns the shared dead wire (its `StopTimer()` is true) -/
  | makeDead
  /-- re-lock after `!v.StopTimer()` on a fresh wire: `p.size--; v.Close(); goto retry` -/
  | dropFresh (w : Nat)
  /-- `Store` of a wire handed out earlier -/
  | store (w : Nat)
  /-- `Store` of a counted hand-out of the shared dead wire -/
  | storeDead
  /-- `Store` of an uncounted hand-out of the shared dead wire (pool is down) -/
  | storeDeadU
  /-- `Store` of the dead pipe made for a done context -/
  | storeCtx
  /-- `Close` -/
  | close
  /-- `removeIdleConns` -/
  | removeIdle
  /-- a wire starts reporting an error (connection broke, lifetime expired …) -/
  | breakWire (w : Nat)
  /-- the holder calls `Close()` on its wire (`mux.blocking` after a failed command, `WriteTo` on an unclean stream) -/
  | closeWire (w : Nat)
  deriving Repr, DecidableEq

/-- `Store`'s else-branch on a wire the pool made. -/
def discard (s : St) (w : Nat) : St :=
  { s with size := s.size - 1, closed := w :: s.closed, bad := w :: s.bad }

def step (c : Cfg) (s : St) : Op → Option St
  | .acqCtxDead => some { s with outCtx := s.outCtx + 1 }
  | .acqDown => if s.down then some { s with outDeadU := s.outDeadU + 1 } else none
  | .acqNew =>
      -- loop exit with a live context: ¬(len(list)==0 ∧ size==cap ∧ ¬down)
      if !s.down && s.list.isEmpty && s.size != (c.cap : Int) then
        some { s with size := s.size + 1, making := s.making + 1 }
      else none
  | .acqPop timerOk =>
      if s.down then none else
      match s.list with
      | [] => none
      | w :: rest =>
        if timerOk && !s.bad.contains w then
          some { s with list := rest, out := w :: s.out }
        else
          some (discard { s with list := rest } w)
  | .makeRet alive timerOk =>
      if s.making = 0 then none else
      let w := s.next
      let s1 := { s with making := s.making - 1, next := s.next + 1,
                         bad := if alive then s.bad else w :: s.bad }
      if timerOk then some { s1 with out := w :: s1.out }
      else some { s1 with fresh := w :: s1.fresh }
  | .makeDead =>
      if s.making = 0 then none else
      some { s with making := s.making - 1, outDead := s.outDead + 1 }
  | .dropFresh w =>
      if s.fresh.contains w then some (discard { s with fresh := s.fresh.erase w } w) else none
  | .store w =>
      if s.out.contains w then
        let s1 := { s with out := s.out.erase w }
        if !s.down && !s.bad.contains w then some { s1 with list := w :: s1.list }
        else some (discard s1 w)
      else none
  | .storeDead =>
      if s.outDead = 0 then none else
      some { s with outDead := s.outDead - 1, size := s.size - 1 }
  | .storeDeadU =>
      if s.outDeadU = 0 then none else
      some { s with outDeadU := s.outDeadU - 1, size := s.size - 1, over := s.over + 1 }
  | .storeCtx =>
      if s.outCtx = 0 then none else
      if c.skipUncounted then some { s with outCtx := s.outCtx - 1 }
      else some { s with outCtx := s.outCtx - 1, size := s.size - 1, over := s.over + 1 }
  | .close => some { s with down := true, closed := s.list ++ s.closed, bad := s.list ++ s.bad }
  | .removeIdle =>
      -- Go keeps list[:min(minSize,len)] (the oldest); here the oldest are at the tail
      let n := s.list.length - min c.minSize s.list.length
      some { s with list := s.list.drop n, size := s.size - n,
                    closed := s.list.take n ++ s.closed, bad := s.list.take n ++ s.bad }
  | .breakWire w => if w < s.next then some { s with bad := w :: s.bad } else none
  | .closeWire w =>
      if s.out.contains w then some { s with closed := w :: s.closed, bad := w :: s.bad } else none

/-- Run a sequence of transitions; `none` as soon as one is not enabled. -/
def run (c : Cfg) : St → List Op → Option St
  | s, [] => some s
  | s, op :: ops => match step c s op with
    | some s' => run c s' ops
    | none => none

/-- States reachable from the empty pool. -/
inductive Reach (c : Cfg) : St → Prop
  | init : Reach c {}
  | step {s s' : St} (op : Op) : Reach c s → step c s op = some s' → Reach c s'

/-- hand-outs and dials that `size` is meant to count -/
def inUse (s : St) : Nat := s.making + s.fresh.length + s.out.length + s.outDead
def idle (s : St) : Nat := s.list.length
/-- connections made by the pool (or being dialled) that are not closed and gone -/
def live (s : St) : Nat := s.making + s.fresh.length + s.out.length + s.list.length

/-- the wait condition of `Acquire`'s loop, pool part -/
def exhausted (c : Cfg) (s : St) : Bool := s.list.isEmpty && s.size == (c.cap : Int) && !s.down

/-! ### Callers (mux.go, pipe.go, client.go, cluster.go) as op sequences.
Each is one complete call during which the acquirer does not wait. -/

/-- `mux.blocking` / `blockingMulti` / `Dedicated`+`release` on a wire `w` handed out:
    `fail` = the command returned a non-Redis error, the caller closes the wire first. -/
def useAndStore (w : Nat) (fail : Bool) : List Op :=
  (if fail then [Op.closeWire w] else []) ++ [Op.store w]

/-- `pipe.DoStream` / `DoMultiStream` when the context turns out to be done after `Acquire`
    handed out `w`: the wire is stored untouched (repaired code; before the repair nothing
    was done and the wire stayed in `out` for ever). -/
def streamEarlyReturn (w : Nat) (repaired : Bool := true) : List Op :=
  if repaired then [Op.store w] else []

/-! ### Specification (what C24 demands), evaluated on numbers observed on the real pool. -/
namespace Spec

/-- never more than `cap` connections in use, being dialled, or idle -/
def boundedOk (cap live making : Int) : Bool := live + making ≤ cap

/-- while the pool is up its `size` is exactly: wires handed out (the placeholder for a
    done context is no wire) + dials in progress + idle wires -/
def accountingOk (size out making idle : Int) (down : Bool) : Bool := down || size == out + making + idle

/-- with nothing held, everything the pool counts is idle -/
def settledOk (size idle : Int) (down : Bool) : Bool := down || size == idle

end Spec

end Rv.Pool

/-! ## The wait protocol of `Acquire` -/
namespace Rv.PoolWait

structure Cfg where
  /-- repaired: the cancellation goroutine holds the pool mutex around `Broadcast` -/
  lockedBroadcast : Bool := true
  deriving Repr, DecidableEq

/-- the code in /repo now -/
def repaired : Cfg := { lockedBroadcast := true }

/-- Source shape the steps below transcribe (compared with pool.go by the `race` suite's
    `shape` lines, so that a restructured `Acquire` is noticed even where no test can
    schedule the difference). -/
def Shape.waitLoopCond : String := "len(p.list) == 0 && p.size == p.cap && !p.down && ctx.Err() == nil"
def Shape.waitLoopBody : String := "p.cond.Wait()"
def Shape.setupCond : String := Shape.waitLoopCond ++ " && ctx.Done() != nil"
def Shape.broadcastUnderMutex (c : Cfg) : String := toString c.lockedBroadcast

/-- Program counter of the acquirer. -/
inductive PC
  /-- before `p.cond.L.Lock()` at the top of `Acquire` -/
  | start
  /-- holds the mutex, about to evaluate the `for` condition (label `retry`) -/
  | atLoop
  /-- holds the mutex, the condition was true, about to call `p.cond.Wait()` -/
  | preWait
  /-- inside `cond.Wait`: enqueued in the notify list, mutex released, asleep -/
  | waiting
  /-- notified, about to re-lock inside `cond.Wait` -/
  | woken
  /-- left the loop, holds the mutex (the code after the loop) -/
  | post
  /-- released the mutex to call `makeFn` (`p.size++` done) -/
  | making
  /-- returned from `Acquire` -/
  | exited
  deriving Repr, DecidableEq

inductive Lock | free | me | env
  deriving Repr, DecidableEq

/-- state of the cancellation goroutine -/
inductive Watcher
  | none      -- not started
  | armed     -- blocked in `<-poolCtx.Done()`
  | fired     -- has broadcast
  deriving Repr, DecidableEq

structure St where
  pc : PC := .start
  lock : Lock := .free
  /-- pool part of the wait condition: `len(list)==0 && size==cap && !down` -/
  exhausted : Bool
  /-- `ctx.Err() != nil` -/
  ctxDone : Bool := false
  /-- `ctx.Done() != nil` -/
  cancellable : Bool
  watcher : Watcher := .none
  deriving Repr, DecidableEq

inductive Op
  /-- lock at the top of `Acquire`, start the cancellation goroutine if the set-up condition holds -/
  | enter
  /-- evaluate the loop condition -/
  | evalLoop
  /-- `cond.Wait()`: enqueue, unlock, sleep -/
  | wait
  /-- re-lock after a wake-up -/
  | relock
  /-- after the loop: the call returns (done context, pool down, good idle wire) -/
  | finish
  /-- after the loop: a bad idle wire was popped, `p.size--`, `goto retry` (mutex kept) -/
  | retryPop
  /-- after the loop: `p.size++`, unlock, call `makeFn` -/
  | dial
  /-- `makeFn` returned a usable wire: return without re-locking -/
  | dialOk
  /-- `makeFn` returned an expired wire: re-lock, `p.size--`, `goto retry` -/
  | dialRetry
  /-- the context is cancelled / its deadline passes -/
  | cancel
  /-- the cancellation goroutine wakes up and broadcasts -/
  | watcherFire
  /-- another goroutine takes the mutex -/
  | envLock
  /-- … changes the pool (Store, Close, another Acquire) -/
  | envSet (exhausted : Bool)
  /-- … releases it (unlock or its own `cond.Wait`) -/
  | envUnlock
  /-- Signal/Broadcast by another goroutine (Store, Close, somebody else's cancellation) -/
  | envNotify
  deriving Repr, DecidableEq

def step (c : Cfg) (s : St) : Op → Option St
  | .enter =>
      if s.pc = .start ∧ s.lock = .free then
        some { s with pc := .atLoop, lock := .me,
                      watcher := if s.exhausted && !s.ctxDone && s.cancellable then .armed else .none }
      else none
  | .evalLoop =>
      if s.pc = .atLoop then
        if s.exhausted && !s.ctxDone then some { s with pc := .preWait } else some { s with pc := .post }
      else none
  | .wait => if s.pc = .preWait then some { s with pc := .waiting, lock := .free } else none
  | .relock => if s.pc = .woken ∧ s.lock = .free then some { s with pc := .atLoop, lock := .me } else none
  | .finish => if s.pc = .post then some { s with pc := .exited, lock := .free } else none
  | .retryPop =>
      -- own `p.size--` under the mutex: size < cap afterwards (Rv.C24.size_le_cap), so not exhausted
      if s.pc = .post ∧ !s.ctxDone then some { s with pc := .atLoop, exhausted := false } else none
  | .dial => if s.pc = .post ∧ !s.ctxDone ∧ !s.exhausted then some { s with pc := .making, lock := .free } else none
  | .dialOk => if s.pc = .making then some { s with pc := .exited } else none
  | .dialRetry =>
      -- re-lock and `p.size--` in one locked region: not exhausted when the loop is evaluated
      if s.pc = .making ∧ s.lock = .free then some { s with pc := .atLoop, lock := .me, exhausted := false } else none
  | .cancel => if s.cancellable then some { s with ctxDone := true } else none
  | .watcherFire =>
      if s.watcher = .armed ∧ s.ctxDone ∧ s.pc ≠ .exited ∧ (!c.lockedBroadcast ∨ s.lock = .free) then
        some { s with watcher := .fired, pc := if s.pc = .waiting then .woken else s.pc }
      else none
  | .envLock => if s.lock = .free then some { s with lock := .env } else none
  | .envSet b => if s.lock = .env then some { s with exhausted := b } else none
  | .envUnlock => if s.lock = .env then some { s with lock := .free } else none
  | .envNotify => if s.pc = .waiting then some { s with pc := .woken } else some s

def run (c : Cfg) : St → List Op → Option St
  | s, [] => some s
  | s, op :: ops => match step c s op with
    | some s' => run c s' ops
    | none => none

inductive Reach (c : Cfg) (s0 : St) : St → Prop
  | init : Reach c s0 s0
  | step {s s' : St} (op : Op) : Reach c s0 s → step c s op = some s' → Reach c s0 s'

/-- initial states: any pool condition, any kind of context (possibly already done) -/
def initial (s : St) : Prop :=
  s.pc = .start ∧ s.lock = .free ∧ s.watcher = .none ∧ (s.ctxDone = true → s.cancellable = true)

/-- steps that do not need anybody's help: the acquirer's own steps (including the return
    of `makeFn`, which is given the context), its cancellation goroutine, and the current
    owner of the mutex releasing it (every locked region of pool.go ends, `cond.Wait`
    releases the mutex) -/
def helpful : Op → Bool
  | .enter | .evalLoop | .wait | .relock | .finish | .dialOk | .watcherFire | .envUnlock => true
  | _ => false

end Rv.PoolWait
