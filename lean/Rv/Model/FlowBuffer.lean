/-
Model of /repo/flowbuffer.go (the alternative `queue` of pipe.go): three buffered Go channels
of capacity `size` circulating `size` tokens (`queuedCmd`), each token carrying its own
unbuffered reply channel. Core Lean only.

Go code                                              model transition (`Label`)
---------------------------------------------------  -------------------------------
PutOne: `cmd := <-b.f`                               recv     (a new caller; blocks while f is empty)
PutOne: `cmd.one = m; b.w <- cmd; return cmd.ch`     send c   (blocks while w is full)
NextWriteCmd / WaitForWrite: `<-b.w` + `b.r <- cmd`  wTake    (one writer goroutine)
NextResultCh: `cmd := <-b.r; b.c = &cmd.ch`          rBegin
`ch <- result` in pipe.go                            rDeliver c
FinishResult: `b.f <- queuedCmd{ch: *b.c}`           rFinish
The empty-channel `default:` branches of NextWriteCmd/NextResultCh and FinishResult with
`b.c == nil` change nothing and are omitted. A blocking channel operation is a transition
that is not enabled; theorem `C02.flow_sends_never_block` shows that no send ever blocks.
ctx cancellation in PutOne (returns before taking a token) is a caller that never arrives.
-/
import Rv.Model.Ring
namespace Rv.Flow
open Rv.Ring (upd)

inductive Pc
  | idle                 -- not called yet, or between `<-b.f` and `b.w <- cmd` (then listed in `hold`)
  | filled (ch : Nat)    -- PutOne returned ch; blocked in `<-ch`
  | done (r : Nat)
deriving DecidableEq, Repr

structure State where
  size : Nat
  f : List Nat                 -- b.f: reply-channel ids of the free tokens
  w : List (Nat × Nat)         -- b.w: (channel, command)
  r : List (Nat × Nat)         -- b.r
  cur : Option (Nat × Nat)     -- b.c and the command it belongs to (reader between NextResultCh and FinishResult)
  delivered : Bool             -- the reply for `cur` has been sent
  pc : Nat → Pc
  ncalls : Nat
  hold : List (Nat × Nat)      -- (caller, channel): callers between `<-b.f` and `b.w <- cmd`
  wlog : List Nat              -- GHOST
  clog : List (Nat × Nat)      -- GHOST
  elog : List Nat              -- GHOST: commands in the order of `b.w <- cmd`

inductive Label
  | recv
  | send (c : Nat)
  | wTake
  | rBegin
  | rDeliver (c : Nat)
  | rFinish
deriving DecidableEq, Repr

def init (size : Nat) : State where
  size := size
  f := List.range size
  w := []
  r := []
  cur := none
  delivered := false
  pc := fun _ => .idle
  ncalls := 0
  hold := []
  wlog := []
  clog := []
  elog := []

def enabled : Label → State → Bool
  | .recv, σ => !σ.f.isEmpty
  | .send c, σ => match σ.hold.find? (fun p => p.1 == c) with
    | some _ => σ.w.length < σ.size
    | none => false
  | .wTake, σ => !σ.w.isEmpty && σ.r.length < σ.size
  | .rBegin, σ => σ.cur.isNone && !σ.r.isEmpty
  | .rDeliver c, σ => match σ.cur with
    | some (ch, _) => !σ.delivered && σ.pc c == .filled ch
    | none => false
  | .rFinish, σ => σ.cur.isSome && σ.delivered && σ.f.length < σ.size

def apply : Label → State → State
  | .recv, σ =>
    match σ.f with
    | ch :: rest => { σ with f := rest, hold := (σ.ncalls, ch) :: σ.hold, ncalls := σ.ncalls + 1 }
    | [] => σ
  | .send c, σ =>
    match σ.hold.find? (fun p => p.1 == c) with
    | some (c', ch) => { σ with w := σ.w ++ [(ch, c)], pc := upd σ.pc c (.filled ch),
                                hold := σ.hold.erase (c', ch), elog := σ.elog ++ [c] }
    | none => σ
  | .wTake, σ =>
    match σ.w with
    | t :: rest => { σ with w := rest, r := σ.r ++ [t], wlog := σ.wlog ++ [t.2] }
    | [] => σ
  | .rBegin, σ =>
    match σ.r with
    | t :: rest => { σ with r := rest, cur := some t, delivered := false }
    | [] => σ
  | .rDeliver c, σ =>
    match σ.cur with
    | some (_, cmd) => { σ with pc := upd σ.pc c (.done cmd), delivered := true, clog := σ.clog ++ [(cmd, c)] }
    | none => σ
  | .rFinish, σ =>
    match σ.cur with
    | some (ch, _) => { σ with f := σ.f ++ [ch], cur := none, delivered := false }
    | none => σ

inductive Reachable (size : Nat) : State → Prop
  | init : Reachable size (init size)
  | step {σ : State} (l : Label) : Reachable size σ → enabled l σ = true → Reachable size (apply l σ)

end Rv.Flow
