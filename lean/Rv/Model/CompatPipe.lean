/-
Model of rueidiscompat's Pipeline / TxPipeline (pipeline.go, tx.go), core Lean only.

State: the capture proxy's command list `cmds` and the pipeline's result list `rets`
(two *separate* Go slices; nothing in the code ties their lengths together — that is the
invariant `Aligned`, preserved by every method that satisfies its obligation `Call.ok`).

Transcribed functions (their source text is pinned in Rv.Gen.Compat.pinned and compared in
Rv.Props.C41.model_pinned_to_source): proxy.Do, newPipeline, Pipeline.Len/Do/Discard/Exec,
newTxPipeline, TxPipeline.Exec.
-/
import Rv.Gen.CompatTable
namespace Rv.CompatPipe

abbrev Bytes := List UInt8

/-- a queued command: a user command (identified by a label) or the transaction brackets -/
inductive Cmd
  | user (label : Nat)
  | multi
  | exec
  deriving DecidableEq, Repr

/-- errors a Cmder can carry -/
inductive Err
  | notExecuted            -- errPipelineNotExecuted (set by the capture proxy)
  | redis (m : Bytes)      -- redis error reply
  | nilReply               -- redis nil
  | net (m : Bytes)        -- non-redis error (connection, context, ...)
  | txFailed               -- TxFailedErr
  | notArray               -- EXEC answered with a non-array message (parse error of ToArray)
  deriving DecidableEq, Repr

/-- a non-array RESP message; `val t` is a value tagged `t` -/
inductive Msg
  | val (tag : Nat)
  | err (m : Bytes)
  | nil
  deriving DecidableEq, Repr

/-- rueidis.RedisResult of one command -/
inductive Res
  | msg (m : Msg)
  | net (e : Bytes)
  deriving DecidableEq, Repr

/-- rueidis.RedisResult of EXEC -/
inductive ExecRes
  | arr (xs : List Msg)
  | msg (m : Msg)
  | net (e : Bytes)
  deriving DecidableEq, Repr

/-- value/error of a Cmder (baseCmd.val / baseCmd.err) -/
structure CmdSt where
  val : Option Nat
  err : Option Err
  deriving DecidableEq, Repr

/-- a Cmder handed to the caller when the command was queued; `id` = label of the call -/
structure Cmder where
  id : Nat
  st : CmdSt
  deriving DecidableEq, Repr

/-- `cmd.from(res)` after `cmd.SetErr(nil)`: the reply or its error, nothing else -/
def fromRes : Res → CmdSt
  | .msg (.val t) => ⟨some t, none⟩
  | .msg (.err m) => ⟨none, some (.redis m)⟩
  | .msg .nil => ⟨none, some .nilReply⟩
  | .net e => ⟨none, some (.net e)⟩

/-- what the proxy hands back at queue time: `newXCmd(NewErrorResult(errPipelineNotExecuted))` -/
def notExec : CmdSt := ⟨none, some .notExecuted⟩

/-- `ret := &Cmd{}` of Pipeline.Do: no value and — unlike the wrappers — no error either -/
def blank : CmdSt := ⟨none, none⟩

structure Pipe where
  cmds : List Cmd     -- proxy.cmds
  rets : List Cmder   -- Pipeline.rets
  deriving DecidableEq, Repr

def Pipe.empty : Pipe := ⟨[], []⟩

/-- the invariant nothing in the Go code states -/
def Aligned (p : Pipe) : Prop := p.cmds.length = p.rets.length

instance (p : Pipe) : Decidable (Aligned p) := by unfold Aligned; infer_instance

/-- `Pipeline.Len` -/
def Pipe.len (p : Pipe) : Nat := p.cmds.length

/-- What one method call does, by the shape of the wrapper (regenerated table) and the number
    `d` of commands its Compat method sent through the capture proxy. -/
inductive Call
  | wrap1 (d : Nat)   -- ret := c.comp.M(..); c.rets = append(c.rets, ret); return ret
  | wrapq (d : Nat)   -- n := c.Len(); ret := c.comp.M(..); if c.Len() != n { append }; return ret
  | doArgs (n : Nat)  -- Pipeline.Do with n arguments
  | rejects           -- panics before anything is queued or appended
  deriving DecidableEq, Repr

def Pipe.call (p : Pipe) (label : Nat) : Call → Pipe
  | .wrap1 d => ⟨p.cmds ++ List.replicate d (.user label), p.rets ++ [⟨label, notExec⟩]⟩
  | .wrapq d => ⟨p.cmds ++ List.replicate d (.user label), if d ≠ 0 then p.rets ++ [⟨label, notExec⟩] else p.rets⟩
  | .doArgs 0 => p   -- error Cmd returned to the caller, nothing recorded
  | .doArgs (_ + 1) => ⟨p.cmds ++ [.user label], p.rets ++ [⟨label, blank⟩]⟩
  | .rejects => p

/-- the per-method obligation: "queues exactly one command and appends exactly one result"
    (or neither) -/
def Call.ok : Call → Prop
  | .wrap1 d => d = 1
  | .wrapq d => d ≤ 1
  | .doArgs _ => True
  | .rejects => True

instance (c : Call) : Decidable c.ok := by cases c <;> unfold Call.ok <;> infer_instance

/-- `Pipeline.Discard` -/
def Pipe.discard (_ : Pipe) : Pipe := Pipe.empty

/-- first error in result order: `if err == nil { err = rets[i].Err() }` -/
def orElse (e : Option Err) (c : CmdSt) : Option Err :=
  match e with
  | some x => some x
  | none => c.err

/-- the loop `for i, r := range results { rets[i].SetErr(nil); rets[i].from(r); ... }`:
    walks results and rets by index; `none` = index out of range (more results than rets);
    rets beyond the results are left untouched. -/
def fill : List Cmder → List Res → Option Err → Option (List Cmder × Option Err)
  | rets, [], e => some (rets, e)
  | [], _ :: _, _ => none
  | c :: rets, r :: rs, e =>
    let st := fromRes r
    match fill rets rs (orElse e st) with
    | some (t, e') => some (⟨c.id, st⟩ :: t, e')
    | none => none

structure Out where
  sent : Option (List Cmd)                      -- the batch handed to DoMulti (none: nothing sent)
  result : Option (List Cmder × Option Err)     -- (rets, err) returned; none = the Go code panics
  deriving DecidableEq, Repr

/-- `Pipeline.Exec`; `reply` = what the real client's DoMulti returns for the batch -/
def Pipe.exec (p : Pipe) (reply : List Res) : Pipe × Out :=
  if p.cmds.isEmpty then (p, ⟨none, some ([], none)⟩)   -- return nil, nil (state untouched)
  else (Pipe.empty, ⟨some p.cmds, fill p.rets reply none⟩)

/-! ### TxPipeline.Exec -/

/-- swap positions k and k+1 -/
def swapAt : Nat → List α → List α
  | 0, a :: b :: t => b :: a :: t
  | k + 1, a :: t => a :: swapAt k t
  | _, l => l

/-- `for i := len(cmds)-2; i >= 1; i-- { j := i-1; cmds[j], cmds[i] = cmds[i], cmds[j] }`
    run for the `k` iterations i = k, k-1, …, 1 -/
def bubble : Nat → List α → List α
  | 0, l => l
  | k + 1, l => bubble k (swapAt k l)

/-- the batch TxPipeline.Exec builds: append MULTI and EXEC at the end, then bubble MULTI forward -/
def txBatch (cmds : List Cmd) : List Cmd :=
  let l := cmds ++ [.multi, .exec]
  bubble (l.length - 2) l

/-- `resp[len(resp)-1].ToArray()` followed by `if IsRedisNil(err) { err = TxFailedErr }` -/
def toArray : ExecRes → List Msg × Option Err
  | .arr xs => (xs, none)
  | .msg (.val _) => ([], some .notArray)
  | .msg (.err m) => ([], some (.redis m))
  | .msg .nil => ([], some .txFailed)
  | .net e => ([], some (.net e))

/-- `resp[i].NonRedisError()` -/
def nonRedis : Res → Option Bytes
  | .net e => some e
  | .msg _ => none

/-- the loop over the EXEC array: element i goes to rets[i], combined with the non-redis error
    of resp[i+1] (`nr` = NonRedisError of resp[1..]); `none` = index out of range -/
def fillTx : List Cmder → List Msg → List (Option Bytes) → Option Err → Option (List Cmder × Option Err)
  | rets, [], _, e => some (rets, e)
  | [], _ :: _, _, _ => none
  | _ :: _, _ :: _, [], _ => none
  | c :: rets, m :: ms, q :: qs, e =>
    let st := match q with
      | some x => fromRes (.net x)
      | none => fromRes (.msg m)
    match fillTx rets ms qs (orElse e st) with
    | some (t, e') => some (⟨c.id, st⟩ :: t, e')
    | none => none

/-- `TxPipeline.Exec`; `qreply` = results for MULTI and the queued commands (batch positions
    0..n), `ex` = result of EXEC (last position) -/
def Pipe.txExec (p : Pipe) (qreply : List Res) (ex : ExecRes) : Pipe × Out :=
  if p.cmds.isEmpty then (p, ⟨none, some ([], none)⟩)
  else
    let (results, err) := toArray ex
    let exNr : Option Bytes := match ex with | .net e => some e | _ => none
    let nr := (qreply.drop 1).map nonRedis ++ [exNr]
    (Pipe.empty, ⟨some (txBatch p.cmds), fillTx p.rets results nr err⟩)

/-! ### Specification (used for `!` oracle lines; no cmds/rets bookkeeping, no index walking) -/
namespace Spec

/-- Pipeline.Exec as the property states it: the i-th queued command gets the i-th reply;
    the error is the first failed command's -/
def exec (labels : List Nat) (reply : List Res) : Option (List Cmd) × List Cmder × Option Err :=
  if labels.isEmpty then (none, [], none) else
  let rets := List.zipWith (fun l r => (⟨l, fromRes r⟩ : Cmder)) labels reply
  (some (labels.map .user), rets, rets.findSome? (·.st.err))

/-- TxPipeline.Exec as the property states it (EXEC answered with an array of one element per
    command, no connection errors on the way): MULTI, the commands, EXEC; element i to command i -/
def txExecArr (labels : List Nat) (xs : List Msg) : Option (List Cmd) × List Cmder × Option Err :=
  if labels.isEmpty then (none, [], none) else
  let rets := List.zipWith (fun l m => (⟨l, fromRes (.msg m)⟩ : Cmder)) labels xs
  (some (.multi :: labels.map .user ++ [.exec]), rets, rets.findSome? (·.st.err))

/-- WATCH aborted the transaction (EXEC answered nil): TxFailedErr, no command executed -/
def txExecNil (labels : List Nat) : Option (List Cmd) × List Cmder × Option Err :=
  if labels.isEmpty then (none, [], none) else
  (some (.multi :: labels.map .user ++ [.exec]), labels.map (fun l => ⟨l, notExec⟩), some .txFailed)

end Spec

/-! ### Source text the model was transcribed from -/

def seenSources : List (String × String) := [
  ("proxy.Do", "func (p *proxy) Do(_ context.Context, cmd rueidis.Completed) rueidis.RedisResult { p.cmds = append(p.cmds, cmd) return rueidis.NewErrorResult(errPipelineNotExecuted) }"),
  ("newPipeline", "func newPipeline(real rueidis.Client) *Pipeline { return &Pipeline{comp: Compat{client: &proxy{Client: real}, maxp: runtime.GOMAXPROCS(0), pOnly: true}} }"),
  ("Pipeline.Len", "func (c *Pipeline) Len() int { return len(c.comp.client.(*proxy).cmds) }"),
  ("Pipeline.Do", "func (c *Pipeline) Do(_ context.Context, args ...interface{}) *Cmd { ret := &Cmd{} if len(args) == 0 { ret.SetErr(errors.New(\"redis: please enter the command to be executed\")) return ret } p := c.comp.client.(*proxy) command := p.B().Arbitrary(str(args[0])) if len(args) > 1 { command = command.Keys(str(args[1])) for _, a := range args[2:] { command = command.Args(str(a)) } } p.cmds = append(p.cmds, command.Build()) c.rets = append(c.rets, ret) return ret }"),
  ("Pipeline.Discard", "func (c *Pipeline) Discard() { p := c.comp.client.(*proxy) p.cmds = nil c.rets = nil }"),
  ("Pipeline.Exec", "func (c *Pipeline) Exec(ctx context.Context) ([]Cmder, error) { p := c.comp.client.(*proxy) if len(p.cmds) == 0 { return nil, nil } rets := c.rets cmds := p.cmds c.rets = nil p.cmds = nil var err error for i, r := range p.DoMulti(ctx, cmds...) { rets[i].SetErr(nil) rets[i].from(r) if err == nil { err = rets[i].Err() } } return rets, err }"),
  ("newTxPipeline", "func newTxPipeline(real rueidis.Client) *TxPipeline { return &TxPipeline{rePipeline: newPipeline(real)} }"),
  ("TxPipeline.Exec", "func (c *TxPipeline) Exec(ctx context.Context) ([]Cmder, error) { p := c.comp.client.(*proxy) if len(p.cmds) == 0 { return nil, nil } rets := c.rets cmds := p.cmds c.rets = nil p.cmds = nil cmds = append(cmds, c.comp.client.B().Multi().Build(), c.comp.client.B().Exec().Build()) for i := len(cmds) - 2; i >= 1; i-- { j := i - 1 cmds[j], cmds[i] = cmds[i], cmds[j] } resp := p.DoMulti(ctx, cmds...) results, err := resp[len(resp)-1].ToArray() if rueidis.IsRedisNil(err) { err = TxFailedErr } for i, r := range results { rets[i].SetErr(nil) rets[i].from(rueidis.NewResult(r, resp[i+1].NonRedisError())) if err == nil { err = rets[i].Err() } } return rets, err }")
]

/-- SHA-256 (as numbers) of the texts in `seenSources`, in the order proxy.Do, newPipeline,
    Pipeline.Len, Pipeline.Do, Pipeline.Discard, Pipeline.Exec, newTxPipeline, TxPipeline.Exec —
    compared with the regenerated `Rv.Gen.Compat.pinnedHashes` (string comparison of the texts
    themselves is too slow in the kernel). When a hash changes, re-read the function, update the
    model and `seenSources`, then copy the new hash here. -/
def seenHashes : List Nat := [
  30045390534006729612036367292942680701299850111813527894581758804012841690019,
  27967544101510545112593245736909363522559741739803696686313774205225026885100,
  53680869563279704751605540919708885072939552097157488365471944514828970297826,
  15160408152442869585361427074018204548243069218330787356518192079630549871327,
  78574463072485055198136412987285580252586252381167161037932553574314189463007,
  22983511018248791222029085840389023004727470191392962806945915575341614295704,
  33803988977556622014490988235276166152827316107668423776889879770064525623696,
  16926454337612282658992426097743951047391427772548715707827328867077230497567
]

end Rv.CompatPipe
