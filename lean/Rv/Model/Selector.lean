/-
Model of the read-node selectors of helper.go:
`pickAZ`, `newAZSelector` (= `AZAffinityNodeSelector` with startIdx 1),
`AZAffinityReplicasAndPrimaryNodeSelector`, `PreferReplicaNodeSelector`.

A node list is the list of the nodes' AZ strings (index 0 = primary); the
`atomic.Uint32` counter is a natural number, every `counter.Add(1)` is
`(c + 1) % 2^32`, every `uint32(x)` conversion is `x % 2^32`, `uint8(i)` is
`i % 256`. A selector takes the node list and the counter value before the call
and returns the chosen index (an `Int`, `-1` = "use the default") and the
counter value after the call. Core Lean only.
-/
namespace Rv.Selector

def U32 : Nat := 4294967296

/-- marker for "the Go code would index out of range here" (proved unreachable in Props/C22) -/
def panicIdx : Int := -2

variable {α : Type} [DecidableEq α]

/-- The scan loop of `pickAZ`:
    `for i := startIdx; i < limit; i++ { if nodes[i].AZ == clientAZ { matches[count] = uint8(i); count++; if count == 8 { break } } }`
    `xs` is `nodes[i:]`, `ms` the filled prefix of `matches` (so `count = ms.length`). -/
def scanLoop (az : α) : List α → Nat → Nat → List Nat → List Nat
  | [], _, _, ms => ms
  | x :: xs, i, limit, ms =>
    if i < limit then
      if x = az then
        let ms' := ms ++ [i % 256]
        if ms'.length = 8 then ms' else scanLoop az xs (i + 1) limit ms'
      else scanLoop az xs (i + 1) limit ms
    else ms

/-- `pickAZ(nodes, clientAZ, startIdx, &counter)` -/
def pickAZ (nodes : List α) (az : α) (startIdx c : Nat) : Int × Nat :=
  let n := nodes.length
  if n ≤ startIdx then (-1, c) else
  let limit := min n 255
  let ms := scanLoop az (nodes.drop startIdx) startIdx limit []
  if ms.length = 0 then (-1, c) else
  let c' := (c + 1) % U32
  match ms[c' % ms.length]? with
  | some m => (Int.ofNat m, c')
  | none => (panicIdx, c')

/-- the closure returned by `newAZSelector(clientAZ, startIdx)` after the `fix:` commit:
    `count := uint32(max(len(nodes)-startIdx, 0))` — the truncated `Nat` subtraction is that `max`. -/
def azSelector (az : α) (startIdx : Nat) (nodes : List α) (c : Nat) : Int × Nat :=
  let r := pickAZ nodes az startIdx c
  if r.1 ≠ -1 then r else
  let count := (nodes.length - startIdx) % U32
  if count > 0 then
    let c' := (r.2 + 1) % U32
    (Int.ofNat (c' % count + startIdx), c')
  else (-1, r.2)

/-- `newAZSelector` as it was before the repair: `count := uint32(len(nodes) - startIdx)` on `int`. -/
def azSelectorOld (az : α) (startIdx : Nat) (nodes : List α) (c : Nat) : Int × Nat :=
  let r := pickAZ nodes az startIdx c
  if r.1 ≠ -1 then r else
  let count := (((nodes.length : Int) - (startIdx : Int)) % (U32 : Int)).toNat
  if count > 0 then
    let c' := (r.2 + 1) % U32
    (Int.ofNat (c' % count + startIdx), c')
  else (-1, r.2)

/-- the tail shared by `PreferReplicaNodeSelector` and the "Any Replica" step:
    `length := uint32(len(nodes)); if length > 1 { c := counter.Add(1); return int(c%(length-1)) + 1 }; return -1` -/
def anyReplica (nodes : List α) (c : Nat) : Int × Nat :=
  let length := nodes.length % U32
  if length > 1 then
    let c' := (c + 1) % U32
    (Int.ofNat (c' % (length - 1) + 1), c')
  else (-1, c)

/-- the closure returned by `PreferReplicaNodeSelector()` -/
def preferReplica (nodes : List α) (c : Nat) : Int × Nat := anyReplica nodes c

/-- the closure returned by `AZAffinityReplicasAndPrimaryNodeSelector(clientAZ)` -/
def azpSelector (az : α) (nodes : List α) (c : Nat) : Int × Nat :=
  let r := pickAZ nodes az 1 c
  if r.1 ≠ -1 then r else
  let length := nodes.length % U32
  if length > 0 ∧ nodes[0]? = some az then (0, r.2)
  else anyReplica nodes r.2

/-- `AZAffinityNodeSelector(clientAZ)` = `newAZSelector(clientAZ, 1)` -/
def azAffinity (az : α) (nodes : List α) (c : Nat) : Int × Nat := azSelector az 1 nodes c

/-- the state after `k` consecutive calls of a selector on the same node list
    (`.1` = index returned by the k-th call, `.2` = counter); `k = 0` is "no call yet". -/
def calls (sel : List α → Nat → Int × Nat) (nodes : List α) (c : Nat) : Nat → Int × Nat
  | 0 => (-1, c)
  | k + 1 => sel nodes (calls sel nodes c k).2

end Rv.Selector
