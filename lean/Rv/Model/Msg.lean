/-
The reply value tree shared by the RESP, accessor and cache-marshal models.
`Msg` mirrors the fields of Go's `RedisMessage` that are observable:
typ, string() bytes, intlen, values(), attrs. Core Lean only.
-/
import Rv.Model.Hex
namespace Rv

/-- `attr` is `[]` (no attributes) or `[a]` (the attribute map message) -/
inductive Msg where
  | mk (typ : UInt8) (str : List UInt8) (int : Int) (arr : List Msg) (attr : List Msg)
  deriving Repr, Inhabited

namespace Msg
def typ : Msg → UInt8 | mk t _ _ _ _ => t
def str : Msg → List UInt8 | mk _ s _ _ _ => s
def int : Msg → Int | mk _ _ i _ _ => i
def arr : Msg → List Msg | mk _ _ _ a _ => a
def attr : Msg → List Msg | mk _ _ _ _ a => a

def leafStr (t : UInt8) (s : List UInt8) : Msg := mk t s s.length [] []
def leafInt (t : UInt8) (i : Int) : Msg := mk t [] i [] []
def agg (t : UInt8) (xs : List Msg) : Msg := mk t [] xs.length xs []
def null : Msg := mk 95 [] 0 [] []
def withAttr (a : List Msg) : Msg → Msg | mk t s i xs _ => mk t s i xs a

mutual
/-- canonical text, identical to `VerifDump` in /repo/verif_export_resp.go -/
def dump : Msg → String
  | mk t s i xs a =>
    toString t.toNat ++ ":" ++ Hex.encode s ++ ":" ++ toString i ++
      ":[" ++ dumpL xs ++ "]:" ++ (match a with | [] => "-" | x :: _ => "{" ++ dump x ++ "}")
def dumpL : List Msg → String
  | [] => ""
  | [x] => dump x
  | x :: y :: r => dump x ++ "," ++ dumpL (y :: r)
end
end Msg

/-- Outcome of running a piece of Go code. `panic` and `oom` are first-class so that
    "never panics / never over-allocates" are honest theorems about the model. -/
inductive Res (α : Type) where
  | ok (a : α)
  | err (e : String)
  | panic
  | oom
  deriving Repr

namespace Res
def bind {α β} (r : Res α) (f : α → Res β) : Res β :=
  match r with
  | ok a => f a
  | err e => err e
  | panic => panic
  | oom => oom
instance : Monad Res where
  pure := ok
  bind := bind
def safe {α} : Res α → Bool
  | ok _ => true
  | err _ => true
  | _ => false
end Res
end Rv
