/-
Model of the typed reply accessors of /repo/message.go (part 2: the structured
helpers: streams, scores, scan, pops, FT.SEARCH / FT.AGGREGATE, GEOSEARCH,
ToAny) transcribed branch by branch from the repaired source. Core Lean only.
-/
import Rv.Model.Accessors
namespace Rv.Acc

/-! ## streams -/
/-- XRangeEntry: `fv = none` is the nil map (field list was a Redis nil) -/
structure XEntry where
  id : Bytes
  fv : Option (Log Bytes)
  deriving Repr

def asXRangeEntry (m : Msg) : Res XEntry :=
  match toArray m with
  | .ok values =>
    if values.length ≠ 2 then .err (eGot values.length "wanted")
    else
      match idx values 0 with
      | .ok v0 =>
        match toStr v0 with
        | .ok id =>
          match idx values 1 with
          | .ok v1 =>
            match asStrMap v1 with
            | .ok fv => .ok ⟨id, some fv⟩
            | .err e => if e = eNil then .ok ⟨id, none⟩ else .err e
            | .panic => .panic
            | .oom => .oom
          | .err e => .err e
          | .panic => .panic
          | .oom => .oom
        | .err e => .err e
        | .panic => .panic
        | .oom => .oom
      | .err e => .err e
      | .panic => .panic
      | .oom => .oom
  | .err e => .err e
  | .panic => .panic
  | .oom => .oom

def asXRange (m : Msg) : Res (List XEntry) :=
  match toArray m with
  | .ok values => mapR asXRangeEntry values
  | .err e => .err e
  | .panic => .panic
  | .oom => .oom

/-- map branch of AsXRead / AsXReadSlices: `ret[vs[i].string()], err = vs[i+1].f()` -/
def xreadPairs {α} (f : Msg → Res α) : List Msg → Res (Log α)
  | [] => .ok []
  | [_] => .panic
  | k :: v :: r =>
    match f v with
    | .ok x =>
      match xreadPairs f r with
      | .ok rest => .ok ((k.str, x) :: rest)
      | .err e => .err e
      | .panic => .panic
      | .oom => .oom
    | .err e => .err e
    | .panic => .panic
    | .oom => .oom

/-- array branch element of AsXRead / AsXReadSlices -/
def xreadElem {α} (f : Msg → Res α) (v : Msg) : Res (Bytes × α) :=
  if ¬ isArray v ∨ v.arr.length ≠ 2 then .err (eGot v.arr.length "wanted")
  else
    match idx v.arr 0 with
    | .ok k =>
      match idx v.arr 1 with
      | .ok x =>
        match f x with
        | .ok r => .ok (k.str, r)
        | .err e => .err e
        | .panic => .panic
        | .oom => .oom
      | .err e => .err e
      | .panic => .panic
      | .oom => .oom
    | .err e => .err e
    | .panic => .panic
    | .oom => .oom

def xreadWith {α} (f : Msg → Res α) (m : Msg) : Res (Log α) :=
  match errOf m with
  | some e => .err e
  | none =>
    if isMap m then
      if m.arr.length % 2 ≠ 0 then .err eParse else xreadPairs f m.arr
    else if isArray m then mapR (xreadElem f) m.arr
    else .err eParse

def asXRead (m : Msg) : Res (Log (List XEntry)) := xreadWith asXRange m

/-- XRangeSlice -/
structure XSlice where
  id : Bytes
  fv : List (Bytes × Bytes)
  deriving Repr

/-- `for i := 0; i < cap(fieldValues); i++ { fa[i*2], fa[i*2+1] }` with `n` iterations left -/
def fvLoop (fa : List Msg) : Nat → Nat → Res (List (Bytes × Bytes))
  | 0, _ => .ok []
  | n + 1, i =>
    match idx fa (i * 2) with
    | .ok f =>
      match idx fa (i * 2 + 1) with
      | .ok v =>
        match fvLoop fa n (i + 1) with
        | .ok r => .ok ((f.str, v.str) :: r)
        | .err e => .err e
        | .panic => .panic
        | .oom => .oom
      | .err e => .err e
      | .panic => .panic
      | .oom => .oom
    | .err e => .err e
    | .panic => .panic
    | .oom => .oom

def asXRangeSlice (m : Msg) : Res XSlice :=
  match toArray m with
  | .ok values =>
    if values.length ≠ 2 then .err (eGot values.length "wanted")
    else
      match idx values 0 with
      | .ok v0 =>
        match toStr v0 with
        | .ok id =>
          match idx values 1 with
          | .ok v1 =>
            match toArray v1 with
            | .ok fa =>
              match fvLoop fa (fa.length / 2) 0 with
              | .ok fv => .ok ⟨id, fv⟩
              | .err e => .err e
              | .panic => .panic
              | .oom => .oom
            | .err e => if e = eNil then .ok ⟨id, []⟩ else .err e
            | .panic => .panic
            | .oom => .oom
          | .err e => .err e
          | .panic => .panic
          | .oom => .oom
        | .err e => .err e
        | .panic => .panic
        | .oom => .oom
      | .err e => .err e
      | .panic => .panic
      | .oom => .oom
  | .err e => .err e
  | .panic => .panic
  | .oom => .oom

def asXRangeSlices (m : Msg) : Res (List XSlice) :=
  match toArray m with
  | .ok values => mapR asXRangeSlice values
  | .err e => .err e
  | .panic => .panic
  | .oom => .oom

def asXReadSlices (m : Msg) : Res (Log (List XSlice)) := xreadWith asXRangeSlices m

/-! ## scores -/
structure ZScore where
  member : Bytes
  score : F
  deriving Repr

def toZScore (fp : FP) (values : List Msg) : Res ZScore :=
  if values.length = 2 then
    match idx values 0 with
    | .ok v0 =>
      match toStr v0 with
      | .ok mem =>
        match idx values 1 with
        | .ok v1 =>
          match asFloat64 fp v1 with
          | .ok s => .ok ⟨mem, s⟩
          | .err e => .err e
          | .panic => .panic
          | .oom => .oom
        | .err e => .err e
        | .panic => .panic
        | .oom => .oom
      | .err e => .err e
      | .panic => .panic
      | .oom => .oom
    | .err e => .err e
    | .panic => .panic
    | .oom => .oom
  else .err eZScore

def asZScore (fp : FP) (m : Msg) : Res ZScore :=
  match toArray m with
  | .ok arr => toZScore fp arr
  | .err e => .err e
  | .panic => .panic
  | .oom => .oom

/-- `for i := range scores { j := i*2; toZScore(arr[j:j+2]) }` with `n` iterations left -/
def flatScores (fp : FP) (arr : List Msg) : Nat → Nat → Res (List ZScore)
  | 0, _ => .ok []
  | n + 1, i =>
    match slice2 arr (i * 2) with
    | .ok pair =>
      match toZScore fp pair with
      | .ok z =>
        match flatScores fp arr n (i + 1) with
        | .ok r => .ok (z :: r)
        | .err e => .err e
        | .panic => .panic
        | .oom => .oom
      | .err e => .err e
      | .panic => .panic
      | .oom => .oom
    | .err e => .err e
    | .panic => .panic
    | .oom => .oom

def asZScores (fp : FP) (m : Msg) : Res (List ZScore) :=
  match toArray m with
  | .ok arr =>
    if arr.length > 0 then
      match idx arr 0 with
      | .ok a0 =>
        if isArray a0 then mapR (fun v => toZScore fp v.arr) arr
        else flatScores fp arr (arr.length / 2) 0
      | .err e => .err e
      | .panic => .panic
      | .oom => .oom
    else flatScores fp arr (arr.length / 2) 0
  | .err e => .err e
  | .panic => .panic
  | .oom => .oom

/-! ## scan, pops -/
structure ScanEntry where
  elements : List Bytes
  cursor : Nat
  deriving Repr

def asScanEntry (m : Msg) : Res ScanEntry :=
  match toArray m with
  | .ok msgs =>
    if msgs.length ≥ 2 then
      match idx msgs 0 with
      | .ok m0 =>
        match asUint64 m0 with
        | .ok c =>
          match idx msgs 1 with
          | .ok m1 =>
            match asStrSlice m1 with
            | .ok es => .ok ⟨es, c⟩
            | .err e => .err e
            | .panic => .panic
            | .oom => .oom
          | .err e => .err e
          | .panic => .panic
          | .oom => .oom
        | .err e => .err e
        | .panic => .panic
        | .oom => .oom
      | .err e => .err e
      | .panic => .panic
      | .oom => .oom
    else .err eParse
  | .err e => .err e
  | .panic => .panic
  | .oom => .oom

/-- shared shape of AsLMPop / AsZMPop -/
def popWith {α} (f : Msg → Res α) (m : Msg) : Res (Bytes × α) :=
  match errOf m with
  | some e => .err e
  | none =>
    if m.arr.length ≥ 2 then
      match idx m.arr 0 with
      | .ok k =>
        match idx m.arr 1 with
        | .ok v =>
          match f v with
          | .ok x => .ok (k.str, x)
          | .err e => .err e
          | .panic => .panic
          | .oom => .oom
        | .err e => .err e
        | .panic => .panic
        | .oom => .oom
      | .err e => .err e
      | .panic => .panic
      | .oom => .oom
    else .err eParse

def asLMPop (m : Msg) : Res (Bytes × List Bytes) := popWith asStrSlice m
def asZMPop (fp : FP) (m : Msg) : Res (Bytes × List ZScore) := popWith (asZScores fp) m

/-! ## FT.SEARCH -/
structure FtDoc where
  doc : Option (Log Bytes)
  key : Bytes
  score : F
  deriving Repr

def FtDoc.zero : FtDoc := ⟨none, [], .int 0⟩

def sTotal : Bytes := [116, 111, 116, 97, 108, 95, 114, 101, 115, 117, 108, 116, 115]  -- "total_results"
def sResults : Bytes := [114, 101, 115, 117, 108, 116, 115]  -- "results"
def sError : Bytes := [101, 114, 114, 111, 114]  -- "error"
def sId : Bytes := [105, 100]  -- "id"
def sExtra : Bytes := [101, 120, 116, 114, 97, 95, 97, 116, 116, 114, 105, 98, 117, 116, 101, 115]  -- "extra_attributes"
def sScore : Bytes := [115, 99, 111, 114, 101]  -- "score"

/-- `(*RedisError)(&e)` for an arbitrary element: its Error() text -/
def rawRedisErr (e : Msg) : String :=
  if e.typ = tNull then eRedis "redis nil message".toUTF8.toList else eRedis e.str

/-- fields of one RESP3 FT.SEARCH record: `for j := 0; j < len; j += 2 { switch rec[j].string() … rec[j+1] }` -/
def ftRecord (fp : FP) : List Msg → FtDoc → Res FtDoc
  | [], d => .ok d
  | [_], _ => .panic
  | k :: v :: r, d =>
    if k.str = sId then ftRecord fp r { d with key := v.str }
    else if k.str = sExtra then
      match asStrMapOpt v with
      | .ok a => ftRecord fp r { d with doc := a }
      | .err e => .err e
      | .panic => .panic
      | .oom => .oom
    else if k.str = sScore then ftRecord fp r { d with score := .str v.str }
    else ftRecord fp r d

def ftRecords (fp : FP) (records : List Msg) : Res (List FtDoc) :=
  mapR (fun rec => if rec.arr.length % 2 ≠ 0 then .err eParse else ftRecord fp rec.arr FtDoc.zero) records

/-- top-level pairs of the RESP3 FT.SEARCH / FT.AGGREGATE map; `recs` converts the "results" value -/
def ftTop {α} (recs : List Msg → Res (List α)) : List Msg → Int → List α → Res (Int × List α)
  | [], total, docs => .ok (total, docs)
  | [_], _, _ => .panic
  | k :: v :: r, total, docs =>
    if k.str = sTotal then ftTop recs r v.int docs
    else if k.str = sResults then
      match recs v.arr with
      | .ok ds => ftTop recs r total ds
      | .err e => .err e
      | .panic => .panic
      | .oom => .oom
    else if k.str = sError then
      match v.arr with
      | e :: _ => .err (rawRedisErr e)
      | [] => ftTop recs r total docs
    else ftTop recs r total docs

/-- RESP2 document loop, per (wscore, wattrs) combination; the repaired code returns a
    parse error when the reply ends inside a document -/
def ftDocsK : List Msg → List FtDoc
  | [] => []
  | k :: r => ⟨none, k.str, .int 0⟩ :: ftDocsK r

def ftDocsKS : List Msg → Res (List FtDoc)
  | [] => .ok []
  | [_] => .err eParse
  | k :: s :: r =>
    match ftDocsKS r with
    | .ok ds => .ok (⟨none, k.str, .str s.str⟩ :: ds)
    | .err e => .err e
    | .panic => .panic
    | .oom => .oom

def ftDocsKA : List Msg → Res (List FtDoc)
  | [] => .ok []
  | [_] => .err eParse
  | k :: a :: r =>
    match asStrMapOpt a with
    | .ok am =>
      match ftDocsKA r with
      | .ok ds => .ok (⟨am, k.str, .int 0⟩ :: ds)
      | .err e => .err e
      | .panic => .panic
      | .oom => .oom
    | .err e => .err e
    | .panic => .panic
    | .oom => .oom

def ftDocsKSA : List Msg → Res (List FtDoc)
  | [] => .ok []
  | [_] => .err eParse
  | [_, _] => .err eParse
  | k :: s :: a :: r =>
    match asStrMapOpt a with
    | .ok am =>
      match ftDocsKSA r with
      | .ok ds => .ok (⟨am, k.str, .str s.str⟩ :: ds)
      | .err e => .err e
      | .panic => .panic
      | .oom => .oom
    | .err e => .err e
    | .panic => .panic
    | .oom => .oom

/-- the WITHSCORES / content detection of the RESP2 branch: (wscore, wattrs) -/
def ftDetect (fp : FP) (vs : List Msg) : Res (Bool × Bool) :=
  let first : Res (Bool × Bool) :=
    if vs.length > 2 then
      match idx vs 2 with
      | .ok v2 =>
        if v2.str = [] then .ok (false, true)
        else
          match idx vs 1 with
          | .ok v1 => .ok (!fp.ok v1.str && fp.ok v2.str, false)
          | .err e => .err e
          | .panic => .panic
          | .oom => .oom
      | .err e => .err e
      | .panic => .panic
      | .oom => .oom
    else .ok (false, false)
  match first with
  | .ok (ws, wa) =>
    if vs.length > 3 then
      match idx vs 3 with
      | .ok v3 => if v3.str = [] then .ok (ws, true) else .ok (ws, wa)
      | .err e => .err e
      | .panic => .panic
      | .oom => .oom
    else .ok (ws, wa)
  | .err e => .err e
  | .panic => .panic
  | .oom => .oom

def ftDocs2 (ws wa : Bool) (rest : List Msg) : Res (List FtDoc) :=
  match ws, wa with
  | false, false => .ok (ftDocsK rest)
  | true, false => ftDocsKS rest
  | false, true => ftDocsKA rest
  | true, true => ftDocsKSA rest

def asFtSearch (fp : FP) (m : Msg) : Res (Int × List FtDoc) :=
  match errOf m with
  | some e => .err e
  | none =>
    if isMap m then
      if m.arr.length % 2 ≠ 0 then .err eParse else ftTop (ftRecords fp) m.arr 0 []
    else if m.arr.length > 0 then
      match idx m.arr 0 with
      | .ok v0 =>
        match ftDetect fp m.arr with
        | .ok (ws, wa) =>
          match ftDocs2 ws wa (m.arr.drop 1) with
          | .ok ds => .ok (v0.int, ds)
          | .err e => .err e
          | .panic => .panic
          | .oom => .oom
        | .err e => .err e
        | .panic => .panic
        | .oom => .oom
      | .err e => .err e
      | .panic => .panic
      | .oom => .oom
    else .err eParse

/-! ## FT.AGGREGATE -/
/-- fields of one RESP3 FT.AGGREGATE record -/
def aggRecord : List Msg → Option (Log Bytes) → Res (Option (Log Bytes))
  | [], d => .ok d
  | [_], _ => .panic
  | k :: v :: r, d =>
    if k.str = sExtra then
      match asStrMapOpt v with
      | .ok a => aggRecord r a
      | .err e => .err e
      | .panic => .panic
      | .oom => .oom
    else aggRecord r d

def aggRecords (records : List Msg) : Res (List (Option (Log Bytes))) :=
  mapR (fun rec => if rec.arr.length % 2 ≠ 0 then .err eParse else aggRecord rec.arr none) records

/-- `m.values()[1:]` -/
def tail1 (xs : List Msg) : Res (List Msg) :=
  if 1 ≤ xs.length then .ok (xs.drop 1) else .panic

def asFtAggregate (m : Msg) : Res (Int × List (Option (Log Bytes))) :=
  match errOf m with
  | some e => .err e
  | none =>
    if isMap m then
      if m.arr.length % 2 ≠ 0 then .err eParse else ftTop aggRecords m.arr 0 []
    else if m.arr.length > 0 then
      match idx m.arr 0 with
      | .ok v0 =>
        match tail1 m.arr with
        | .ok rest =>
          match mapR asStrMapOpt rest with
          | .ok ds => .ok (v0.int, ds)
          | .err e => .err e
          | .panic => .panic
          | .oom => .oom
        | .err e => .err e
        | .panic => .panic
        | .oom => .oom
      | .err e => .err e
      | .panic => .panic
      | .oom => .oom
    else .err eParse

/-- (cursor, total, docs) -/
def asFtAggregateCursor (m : Msg) : Res (Int × Int × List (Option (Log Bytes))) :=
  if isArray m ∧ m.arr.length = 2 then
    match idx m.arr 0 with
    | .ok v0 =>
      if isArray v0 ∨ isMap v0 then
        match asFtAggregate v0 with
        | .ok (t, ds) =>
          match idx m.arr 1 with
          | .ok v1 => .ok (v1.int, t, ds)
          | .err e => .err e
          | .panic => .panic
          | .oom => .oom
        | .err e => .err e
        | .panic => .panic
        | .oom => .oom
      else
        match asFtAggregate m with
        | .ok (t, ds) => .ok (0, t, ds)
        | .err e => .err e
        | .panic => .panic
        | .oom => .oom
    | .err e => .err e
    | .panic => .panic
    | .oom => .oom
  else
    match asFtAggregate m with
    | .ok (t, ds) => .ok (0, t, ds)
    | .err e => .err e
    | .panic => .panic
    | .oom => .oom

/-! ## GEOSEARCH -/
structure GeoLoc where
  name : Bytes
  lon : F
  lat : F
  dist : F
  hash : Int
  deriving Repr

/-- coordinates step: `if i < len(info) && info[i].array != nil { … }` -/
def geoCoord (fp : FP) (info : List Msg) (i : Nat) (loc : GeoLoc) : Res GeoLoc :=
  if i < info.length then
    match idx info i with
    | .ok c =>
      if hasArray c then
        if c.arr.length < 2 then .err (eGot info.length "expected")
        else
          match idx c.arr 0 with
          | .ok c0 =>
            match asFloat64V fp c0 with
            | .ok lon =>
              match idx c.arr 1 with
              | .ok c1 =>
                match asFloat64V fp c1 with
                | .ok lat => .ok { loc with lon := lon, lat := lat }
                | .err e => .err e
                | .panic => .panic
                | .oom => .oom
              | .err e => .err e
              | .panic => .panic
              | .oom => .oom
            | .err e => .err e
            | .panic => .panic
            | .oom => .oom
          | .err e => .err e
          | .panic => .panic
          | .oom => .oom
      else .ok loc
    | .err e => .err e
    | .panic => .panic
    | .oom => .oom
  else .ok loc

/-- hash step: `if i < len(info) && info[i].IsInt64() { …; i++ }` -/
def geoHash (fp : FP) (info : List Msg) (i : Nat) (loc : GeoLoc) : Res GeoLoc :=
  if i < info.length then
    match idx info i with
    | .ok h =>
      if h.typ = tInt then geoCoord fp info (i + 1) { loc with hash := h.int }
      else geoCoord fp info i loc
    | .err e => .err e
    | .panic => .panic
    | .oom => .oom
  else geoCoord fp info i loc

/-- distance step: `if i < len(info) && info[i].string() != "" { …; i++ }` (i = 1) -/
def geoDist (fp : FP) (info : List Msg) (loc : GeoLoc) : Res GeoLoc :=
  if 1 < info.length then
    match idx info 1 with
    | .ok d =>
      if d.str ≠ [] then
        match utilFloat fp d.str with
        | .ok f => geoHash fp info 2 { loc with dist := f }
        | .err e => .err e
        | .panic => .panic
        | .oom => .oom
      else geoHash fp info 1 loc
    | .err e => .err e
    | .panic => .panic
    | .oom => .oom
  else geoHash fp info 1 loc

def geoElem (fp : FP) (v : Msg) : Res GeoLoc :=
  if isString v then .ok ⟨v.str, .int 0, .int 0, .int 0, 0⟩
  else if v.arr.length = 0 then .err eParse
  else
    match idx v.arr 0 with
    | .ok n => geoDist fp v.arr ⟨n.str, .int 0, .int 0, .int 0, 0⟩
    | .err e => .err e
    | .panic => .panic
    | .oom => .oom

def asGeosearch (fp : FP) (m : Msg) : Res (List GeoLoc) :=
  match toArray m with
  | .ok arr => mapR (geoElem fp) arr
  | .err e => .err e
  | .panic => .panic
  | .oom => .oom

/-- the code before the repair: `info[0]` without a length check -/
def geoElemOld (fp : FP) (v : Msg) : Res GeoLoc :=
  if isString v then .ok ⟨v.str, .int 0, .int 0, .int 0, 0⟩
  else
    match idx v.arr 0 with
    | .ok n => geoDist fp v.arr ⟨n.str, .int 0, .int 0, .int 0, 0⟩
    | .err e => .err e
    | .panic => .panic
    | .oom => .oom

/-! ## ToAny -/
inductive AnyV where
  | nil
  | err (e : String)
  | flt (f : F)
  | str (s : Bytes)
  | bool (b : Bool)
  | int (i : Int)
  | map (keys : List Bytes) (vals : List AnyV)
  | list (xs : List AnyV)
  deriving Repr

/-- `if v, err := x.ToAny(); err != nil && !IsRedisNil(err) { vs[i] = err } else { vs[i] = v }` -/
def anyElem : Res AnyV → Res AnyV
  | .ok v => .ok v
  | .err e => if e = eNil then .ok .nil else .ok (.err e)
  | .panic => .panic
  | .oom => .oom

mutual
def toAny (fp : FP) : Msg → Res AnyV
  | .mk t s i xs _ =>
    if t = tNull then .err eNil
    else if t = tErr ∨ t = tBlobErr then .err (eRedis (trimErr s))
    else if t = tFloat then
      match utilFloat fp s with
      | .ok f => .ok (.flt f)
      | .err e => .err e
      | .panic => .panic
      | .oom => .oom
    else if t = tBlob ∨ t = tSimple ∨ t = tVerbatim ∨ t = tBig then .ok (.str s)
    else if t = tBool then .ok (.bool (decide (i = 1)))
    else if t = tInt then .ok (.int i)
    else if t = tMap then
      if xs.length % 2 ≠ 0 then .err eParse
      else
        match toAnyPairs fp xs with
        | .ok (ks, vs) => .ok (.map ks vs)
        | .err e => .err e
        | .panic => .panic
        | .oom => .oom
    else if t = tSet ∨ t = tArray then
      match toAnyList fp xs with
      | .ok vs => .ok (.list vs)
      | .err e => .err e
      | .panic => .panic
      | .oom => .oom
    else .err eParse
def toAnyList (fp : FP) : List Msg → Res (List AnyV)
  | [] => .ok []
  | x :: r =>
    match anyElem (toAny fp x) with
    | .ok v =>
      match toAnyList fp r with
      | .ok vs => .ok (v :: vs)
      | .err e => .err e
      | .panic => .panic
      | .oom => .oom
    | .err e => .err e
    | .panic => .panic
    | .oom => .oom
def toAnyPairs (fp : FP) : List Msg → Res (List Bytes × List AnyV)
  | [] => .ok ([], [])
  | [_] => .panic
  | k :: v :: r =>
    match anyElem (toAny fp v) with
    | .ok x =>
      match toAnyPairs fp r with
      | .ok (ks, vs) => .ok (k.str :: ks, x :: vs)
      | .err e => .err e
      | .panic => .panic
      | .oom => .oom
    | .err e => .err e
    | .panic => .panic
    | .oom => .oom
end

/-! ## helper.go DecodeSliceOfJSON: per element the bytes handed to json (none: Redis nil, skipped) -/
structure JP where
  ok : Bytes → Bool   -- json.Unmarshal(bytes, &t) returns nil

def eJson : String := eOther "json"

def jsonElem (jp : JP) (v : Msg) : Res (Option Bytes) :=
  match decodeJSON v with
  | .ok b => if jp.ok b = true then .ok (some b) else .err eJson
  | .err e => if e = eNil then .ok none else .err e
  | .panic => .panic
  | .oom => .oom

def decodeSliceOfJSON (jp : JP) (rerr : Option String) (m : Msg) : Res (List (Option Bytes)) :=
  match wrap toArray rerr m with
  | .ok vs => mapR (jsonElem jp) vs
  | .err e => .err e
  | .panic => .panic
  | .oom => .oom

end Rv.Acc
