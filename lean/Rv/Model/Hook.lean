/-
Model of rueidishook/hook.go as an interpreter of the regenerated table
`Rv.Gen.Hook.rows` (one row per explicit method of hookclient / dedicated /
extended, classified by the shape of its body by tools/extract/hook.go).

A *wrapper* is named by its struct type.  Calling method `m` on a wrapper of
type `w` produces an invocation log (hook calls and calls on the inner client)
and says where the returned value comes from.  Derived clients (Dedicated
callback argument, Dedicate result, Nodes values) are again wrappers.
Core Lean only.
-/
import Rv.Gen.HookTable
namespace Rv.Hook
open Rv.Gen.Hook

/-- the request entry points named by the property statement (C43) -/
def entryPoints : List String :=
  ["Do", "DoMulti", "DoCache", "DoMultiCache", "Receive", "DoStream", "DoMultiStream"]

/-- methods deriving further clients -/
def derivers : List String := ["Dedicated", "Dedicate", "Nodes"]

def findRow (w m : String) : Option Row :=
  rows.find? fun r => r.recv == w && r.method == m

def structInfo (w : String) : Option (List (String × String) × List String) :=
  (structs.find? fun s => s.1 == w).map (·.2)

/-- type text of field `client` of wrapper struct `w` -/
def clientFieldType (w : String) : Option String :=
  match structInfo w with
  | some (fields, _) => (fields.find? fun f => f.1 == "client").map (·.2)
  | none => none

/-- interface a wrapper struct is used as (method set visible to the user) -/
def ifaceOf (w : String) : List String :=
  if w == "hookclient" then clientIface
  else if w == "dedicated" then dedicatedIface
  else if w == "extended" then clientIface
  else []

inductive Ev
  | hook (m : String) (client : String)   -- hook method m invoked; client ∈ {"inner","other"}
  | inner (m : String)                    -- method m of the innermost (real) client invoked
  | hookAt (lvl : Nat) (m : String) (client : String)  -- stacked hooks: hook of level lvl (1 = innermost)
  deriving DecidableEq, Repr

inductive Ret
  | fromHook          -- the value returned by the hook, unchanged
  | fromInner         -- the value returned by the inner client, unchanged
  | wrapped (w : String)  -- derived client(s), each wrapped as `w`
  | panics
  | unknown           -- table row outside the modelled fragment / no such method
  deriving DecidableEq, Repr

/-- Calling `m` on the adapter type `a` that stands between a wrapper and the real inner
    client (for `dedicated` this is `extended`): an explicit row wins, otherwise the method
    is promoted from the embedded interface and reaches the real client. -/
def adapterCall (a m : String) : List Ev × Ret :=
  match findRow a m with
  | some r => if r.kind == .panics then ([], .panics) else ([], .unknown)
  | none =>
    match structInfo a with
    | some (_, embeds) =>
      if embeds == ["rueidis.DedicatedClient"] && dedicatedIface.contains m then ([.inner m], .fromInner)
      else ([], .unknown)
    | none => ([], .unknown)

/-- Calling `m` on whatever the wrapper `w` keeps in its `client` field. -/
def innerCall (w m : String) : List Ev × Ret :=
  match clientFieldType w with
  | some t => if t == "rueidis.Client" then ([.inner m], .fromInner) else adapterCall t m
  | none => ([], .unknown)

def clientClass (w : String) : String :=
  match clientFieldType w with
  | some t => if t == "rueidis.Client" then "inner" else "other"
  | none => "?"

/-- One call of method `m` on a wrapper of struct type `w`.  `fwd` = the hook forwards the
    same call to the client it was given (and returns that result as its own). -/
def call (w m : String) (fwd : Bool) : List Ev × Ret :=
  match findRow w m with
  | none => ([], .unknown)
  | some r =>
    match r.kind with
    | .hook =>
      if r.clientArg == "inner" && r.argsFwd && r.retDirect then
        let once := [Ev.hook r.target (clientClass w)] ++ (if fwd then (innerCall w r.target).1 else [])
        let evs := (List.replicate r.calls once).flatten
        if fwd && (innerCall w r.target).2 == .panics then (evs, .panics) else (evs, .fromHook)
      else ([], .unknown)
    | .pass =>
      if r.argsFwd && r.retDirect && r.calls == 1 then
        let (evs, ret) := innerCall w r.target
        (evs, ret)
      else ([], .unknown)
    | .panics => ([], .panics)
    | .opaque => ([], .unknown)   -- body outside the shapes the translator understands
    | .wrapcb | .wrapret | .wrapmap =>
      if r.calls == 1 && r.hookKept then
        let (evs, ret) := innerCall w r.target
        match ret with
        | .fromInner =>
          -- the new wrapper's client field must hold the derived client, directly or through
          -- the adapter named in its struct declaration
          let okInner := match clientFieldType r.wrapper with
            | some t => if r.wrapInner == "" then t == "rueidis.Client" else t == r.wrapInner
            | none => false
          if okInner then (evs, .wrapped r.wrapper) else (evs, .unknown)
        | other => (evs, other)
      else ([], .unknown)

/-- derivation steps of a path: how a client is obtained from the previous one -/
def stepMethod (s : String) : Option String :=
  if s == "nodes" then some "Nodes"
  else if s == "dedicate" then some "Dedicate"
  else if s == "dedicated" then some "Dedicated"
  else none

/-- follow a derivation path from a wrapper; returns the log of the derivations and the
    wrapper type reached, or `none` if some step does not yield a wrapped client -/
def follow : String → List String → List Ev → Option (String × List Ev)
  | w, [], acc => some (w, acc)
  | w, s :: rest, acc =>
    match stepMethod s with
    | none => none
    | some m =>
      if (ifaceOf w).contains m then
        match call w m false with
        | (evs, .wrapped w') => follow w' rest (acc ++ evs)
        | _ => none
      else none

def evStr : Ev → String
  | .hook m c => "hook:" ++ m ++ "(" ++ c ++ ")"
  | .inner m => "inner:" ++ m
  | .hookAt l m c => "hook@" ++ toString l ++ ":" ++ m ++ "(" ++ c ++ ")"

def retStr : Ret → String
  | .fromHook => "hook"
  | .fromInner => "inner"
  | .wrapped w => "wrapped:" ++ w
  | .panics => "panic"
  | .unknown => "unknown"

def logStr (evs : List Ev) : String :=
  if evs.isEmpty then "-" else ",".intercalate (evs.map evStr)

/-- answer of the model to `call <path> <method> <fwd>` -/
def answer (path : List String) (m : String) (fwd : Bool) : String :=
  match follow withHook path [] with
  | none => "nopath"
  | some (w, pre) =>
    if (ifaceOf w).contains m then
      let (evs, ret) := call w m fwd
      "log=" ++ logStr (pre ++ evs) ++ " ret=" ++ retStr ret
    else "nomethod"

/-! ### Stacked hooks: WithHook(WithHook(… WithHook(base, h1) …, h_{d-1}), h_d), every hook forwarding

A wrapper of level d+1 keeps the level-d wrapper of the same kind in its `client` field (for
`dedicated`: behind the `extended` adapter), level 0 is the real client. -/

inductive LK
  | hooked (t : String)   -- calls hook method t once with the lower level as client, returns its result
  | passed (t : String)   -- forwards to method t of the lower level
  | refuses
  | other
  deriving DecidableEq, Repr

/-- calling `t` on the client field of `w` reaches method `t` of the lower level -/
def viaOK (w t : String) : Bool :=
  match clientFieldType w with
  | some ty => if ty == "rueidis.Client" then true else adapterCall ty t == ([.inner t], .fromInner)
  | none => false

/-- what one level of wrapper `w` does with method `m`, read from the table -/
def levelKind (w m : String) : LK :=
  match findRow w m with
  | none => .other
  | some r =>
    match r.kind with
    | .hook => if r.clientArg == "inner" && r.argsFwd && r.retDirect && r.calls == 1 && viaOK w r.target then .hooked r.target else .other
    | .pass => if r.argsFwd && r.retDirect && r.calls == 1 && viaOK w r.target then .passed r.target else .other
    | .panics => .refuses
    | _ => .other

/-- class of the client a hook of level d+1 is handed (as the harness can see it) -/
def levelClass (w : String) (d : Nat) : String := if d == 0 then clientClass w else "other"

/-- invocation log of method `m` on a depth-`d` stack of wrappers `w` when every hook forwards -/
def stackCall : Nat → String → String → List Ev
  | 0, _, m => [.inner m]
  | d + 1, w, m =>
    match levelKind w m with
    | .hooked t => .hookAt (d + 1) t (levelClass w d) :: stackCall d w t
    | .passed t => stackCall d w t
    | _ => []

/-- what the property demands of a depth-`d` stack: every level's hook of the same name exactly once,
    outer to inner, then the real client once -/
def expectLevels : Nat → String → String → List Ev
  | 0, _, m => [.inner m]
  | d + 1, w, m => .hookAt (d + 1) m (levelClass w d) :: expectLevels d w m

def stackAnswer (d : Nat) (path : List String) (m : String) : String :=
  match follow withHook path [] with
  | none => "nopath"
  | some (w, pre) =>
    if (ifaceOf w).contains m then
      let ret := match levelKind w m with
        | .hooked _ => "hook"
        | .passed _ => "inner"
        | .refuses => "panic"
        | .other => "unknown"
      "log=" ++ logStr (pre ++ stackCall d w m) ++ " ret=" ++ ret
    else "nomethod"

/-! ### Specification side (oracle lines): no reference to the table -/

/-- static interface of the client reached by a path, by the Go types alone:
    a Client yields Clients through Nodes and DedicatedClients through Dedicate/Dedicated -/
def specKind : String → List String → Option String
  | k, [] => some k
  | k, s :: rest =>
    if k == "client" then
      if s == "nodes" then specKind "client" rest
      else if s == "dedicate" || s == "dedicated" then specKind "dedicatedclient" rest
      else none
    else none

/-- what the property demands of an entry point reached through any path, for any number of
    commands: the hook method of the same name runs exactly once with the caller's arguments, no other
    hook runs, the wrapper itself never touches the inner client, the hook's result is returned unchanged -/
def specAnswer (path : List String) (m : String) : String :=
  match specKind "client" path with
  | none => "nopath"
  | some k =>
    let iface := if k == "client" then clientIface else dedicatedIface
    if iface.contains m then "hooks=" ++ m ++ ":1 inner=0 ret=hook" else "nomethod"

/-- stacked hooks, per level: "d:M,…,1:M" in outer-to-inner order, the caller's arguments at every
    level, the real client once (through the forwarding hooks), the outermost hook's result returned -/
def specStackAnswer (d : Nat) (path : List String) (m : String) : String :=
  match specKind "client" path with
  | none => "nopath"
  | some k =>
    let iface := if k == "client" then clientIface else dedicatedIface
    if iface.contains m then
      "order=" ++ ",".intercalate ((List.range d).reverse.map fun i => toString (i + 1) ++ ":" ++ m) ++ " args=ok inner=1 ret=hook"
    else "nomethod"

/-- projection of a model log to the oracle's vocabulary -/
def hookCount (evs : List Ev) (m : String) : Nat :=
  (evs.filter fun e => match e with | .hook m' _ => m' == m | _ => false).length

def otherHooks (evs : List Ev) (m : String) : Nat :=
  (evs.filter fun e => match e with | .hook m' _ => m' != m | _ => false).length

end Rv.Hook
