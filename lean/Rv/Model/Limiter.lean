/-
Model of rueidislimiter/limiter.go (core Lean only).

* `scriptF` — faithful hand transcription of `rateLimitScript` (text pinned in
  Rv/Props/C38.lean; trusted) including the server-side `PXAT next_expires_at + 1000`
  expiry of both keys, evaluated at the server clock `srv` (a key is gone iff `srv > exp`).
* `scriptS` — the same script with the server-side expiry abstracted away:
  state = `(count, expiresAt)` or nothing. `Rv.C38.faithful_refines_simple` shows the two
  agree whenever no caller's clock is more than 1000 ms behind the server clock and
  `cur ≤ next` (window ≥ 0).
* `allowN` — the Go admission rule of `AllowN` (`Check` = `AllowN 0`, `Allow` = `AllowN 1`).
Numbers are mathematical integers: Lua doubles are exact below 2^53 and Redis counters are
int64; the INCRBY overflow error is modelled, larger timestamps are not.
-/
namespace Rv.Limiter

structure Key where
  val : Int
  exp : Option Int       -- absolute expiry, server ms
  deriving Repr, DecidableEq

structure FSt where
  cnt : Option Key := none     -- rate_limit_key
  ex : Option Key := none      -- expires_at_key
  deriving Repr, DecidableEq

/-- a key as seen at server time `srv` -/
def live (k : Option Key) (srv : Int) : Option Key :=
  match k with
  | some key => (match key.exp with
      | some e => if srv > e then none else some key
      | none => some key)
  | none => none

def int64Max : Int := 2 ^ 63 - 1

/-- reply of the script: `{current, expires_at}` or a Redis error -/
inductive Reply where
  | ok (current expiresAt : Int)
  | err
  deriving Repr, DecidableEq

/-- `if not expires_at or expires_at < current_time` -/
def needReset (ex0 : Option Key) (cur : Int) : Bool :=
  match ex0 with
  | none => true
  | some k => decide (k.val < cur)

/-- rateLimitScript with ARGV = (inc, next, cur), executed at server time `srv` -/
def scriptF (inc next cur srv : Int) (s : FSt) : FSt × Reply :=
  let ex0 := live s.ex srv
  let cnt0 := live s.cnt srv
  let doReset := needReset ex0 cur
  if doReset = true ∧ next + 1000 ≤ 0 then ({ cnt := cnt0, ex := ex0 }, .err)   -- invalid expire time
  else
    let cnt1 := if doReset then some (Key.mk 0 (some (next + 1000))) else cnt0
    let ex1 := if doReset then some (Key.mk next (some (next + 1000))) else ex0
    let expiresAt := match ex1 with
      | some k => k.val
      | none => next
    -- INCRBY looks the key up again: a PXAT in the past means it is already gone
    let cnt2 := (live cnt1 srv).getD (Key.mk 0 none)
    if cnt2.val + inc > int64Max then ({ cnt := live cnt1 srv, ex := ex1 }, .err)
    else ({ cnt := some { cnt2 with val := cnt2.val + inc }, ex := ex1 }, .ok (cnt2.val + inc) expiresAt)

structure SSt where
  count : Int
  expiresAt : Int
  deriving Repr, DecidableEq

/-- the script over `(count, expiresAt)`: reset if there is no window or it ended before `cur` -/
def scriptS (inc next cur : Int) (s : Option SSt) : SSt :=
  match s with
  | some st => if st.expiresAt < cur then ⟨0 + inc, next⟩ else ⟨st.count + inc, st.expiresAt⟩
  | none => ⟨0 + inc, next⟩

structure Result where
  allowed : Bool
  remaining : Int
  resetAt : Int
  deriving Repr, DecidableEq

/-- the Go admission rule -/
def decide_ (n limit current resetAt : Int) : Result :=
  { allowed := decide (current ≤ limit) && (decide (n > 0) || decide (current < limit)),
    remaining := max (limit - current) 0, resetAt := resetAt }

/-- ARGV computed by `AllowN` from the caller's clock (ns) and the window (ns) -/
def argsOf (nowNs windowNs : Int) : Int × Int := ((nowNs + windowNs) / 1000000, nowNs / 1000000)

end Rv.Limiter
