/-
Model of url.go `ParseURL` (after the `fix:` commit for write_timeout).

Input: what `net/url.Parse` returned (`u.Scheme`, `u.Host`, `u.Path`, `u.User`, `u.Query()`);
`url.Parse` itself is not modelled. The option record is updated assignment by assignment
in the order of the Go code, with the early `return opt, err` as `Except.error`.
The standard-library value parsers are a parameter `P` (the theorems hold for every `P`);
`goParsers` at the end of the file are executable ports used by the driver.
Strings are Lean strings whose characters are the bytes of the Go string (code points < 256).
Core Lean only.
-/
namespace Rv.Url

structure UrlIn where
  scheme : String
  host : String
  path : String
  /-- `u.User`: `none` = nil, `some (name, some pw)` = password set -/
  user : Option (String × Option String)
  /-- `u.Query()`: key ↦ values in order of appearance (keys unique) -/
  query : List (String × List String)

structure Tls where
  /-- `MinVersion: tls.VersionTLS12` is the only other field the code sets -/
  serverName : String := ""
  insecure : Bool := false
  deriving DecidableEq, Repr

/-- the fields of `ClientOption` that `ParseURL` assigns -/
structure Opt where
  /-- `InitAddress`; `none` = nil slice -/
  initAddress : Option (List String) := none
  tls : Option Tls := none
  dialFn : Bool := false
  username : String := ""
  password : String := ""
  selectDB : Int := 0
  dialTimeout : Int := 0
  connWriteTimeout : Int := 0
  alwaysRESP2 : Bool := false
  disableCache : Bool := false
  disableRetry : Bool := false
  clientName : String := ""
  masterSet : String := ""
  deriving DecidableEq, Repr

inductive Err | scheme | dbnum | path | dial | write | skip
  deriving DecidableEq, Repr

/-- the standard-library functions `ParseURL` calls -/
structure Parsers where
  /-- `strconv.Atoi` (`none` = error) -/
  atoi : String → Option Int
  /-- `time.ParseDuration` in nanoseconds -/
  duration : String → Option Int
  /-- `strconv.ParseBool` -/
  bool : String → Option Bool
  /-- `net.SplitHostPort` with the error dropped: `("", "")` on error -/
  splitHostPort : String → String × String
  /-- `net.JoinHostPort` -/
  joinHostPort : String → String → String
  /-- `strings.TrimSpace` -/
  trimSpace : String → String
  /-- `strings.Split(·, "/")` -/
  splitSlash : String → List String

abbrev Query := List (String × List String)

/-- `q.Has(k)` -/
def has (q : Query) (k : String) : Bool := (q.lookup k).isSome
/-- `q[k]` -/
def vals (q : Query) (k : String) : List String := (q.lookup k).getD []
/-- `q.Get(k)` -/
def get (q : Query) (k : String) : String := (vals q k).head?.getD ""

/-- the closure `parseAddr` (captures `u.Host`) -/
def parseAddr (P : Parsers) (uhost : String) (hostport : String) : String × String :=
  let hp := P.splitHostPort hostport
  let host := if hp.1 = "" then uhost else hp.1
  let host := if host = "" then "localhost" else host
  let port := if hp.2 = "" then "6379" else hp.2
  (host, P.joinHostPort host port)

/-- `switch u.Scheme { … }` -/
def stScheme (P : Parsers) (u : UrlIn) (o : Opt) : Except Err Opt :=
  if u.scheme = "unix" then .ok { o with dialFn := true, initAddress := some [P.trimSpace u.path] }
  else if u.scheme = "rediss" ∨ u.scheme = "valkeys" then .ok { o with tls := some {} }
  else if u.scheme = "redis" ∨ u.scheme = "valkey" then .ok o
  else .error .scheme

/-- `if opt.InitAddress == nil { host, addr := parseAddr(u.Host); … }` -/
def stHost (P : Parsers) (u : UrlIn) (o : Opt) : Except Err Opt :=
  match o.initAddress with
  | some _ => .ok o
  | none =>
    let ha := parseAddr P u.host u.host
    .ok { o with initAddress := some [ha.2], tls := o.tls.map fun t => { t with serverName := ha.1 } }

/-- `if u.User != nil { opt.Username = …; opt.Password, _ = … }` -/
def stUser (u : UrlIn) (o : Opt) : Except Err Opt :=
  match u.user with
  | none => .ok o
  | some (n, p) => .ok { o with username := n, password := p.getD "" }

/-- `if u.Scheme != "unix" { if ps := strings.Split(u.Path, "/"); len(ps) == 2 {…} else if len(ps) > 2 {…} }` -/
def stPath (P : Parsers) (u : UrlIn) (o : Opt) : Except Err Opt :=
  if u.scheme = "unix" then .ok o else
  match P.splitSlash u.path with
  | [_, d] =>
    match P.atoi d with
    | some n => .ok { o with selectDB := n }
    | none => .error .dbnum
  | ps => if ps.length > 2 then .error .path else .ok o

/-- `if q.Has("db") { … }` -/
def stDb (P : Parsers) (q : Query) (o : Opt) : Except Err Opt :=
  if has q "db" then
    match P.atoi (get q "db") with
    | some n => .ok { o with selectDB := n }
    | none => .error .dbnum
  else .ok o

/-- `if q.Has("dial_timeout") { … }` -/
def stDial (P : Parsers) (q : Query) (o : Opt) : Except Err Opt :=
  if has q "dial_timeout" then
    match P.duration (get q "dial_timeout") with
    | some d => .ok { o with dialTimeout := d }
    | none => .error .dial
  else .ok o

/-- `if q.Has("write_timeout") { … }` — assigns `ConnWriteTimeout` since the `fix:` commit -/
def stWrite (P : Parsers) (q : Query) (o : Opt) : Except Err Opt :=
  if has q "write_timeout" then
    match P.duration (get q "write_timeout") with
    | some d => .ok { o with connWriteTimeout := d }
    | none => .error .write
  else .ok o

/-- the same statement before the repair: it assigned `Dialer.Timeout` -/
def stWriteOld (P : Parsers) (q : Query) (o : Opt) : Except Err Opt :=
  if has q "write_timeout" then
    match P.duration (get q "write_timeout") with
    | some d => .ok { o with dialTimeout := d }
    | none => .error .write
  else .ok o

/-- `for _, addr := range q["addr"] { _, addr = parseAddr(addr); opt.InitAddress = append(opt.InitAddress, addr) }` -/
def stAddr (P : Parsers) (u : UrlIn) (o : Opt) : Except Err Opt :=
  .ok { o with initAddress := some ((o.initAddress.getD []) ++ (vals u.query "addr").map fun a => (parseAddr P u.host a).2) }

/-- `if opt.TLSConfig != nil && q.Has("skip_verify") { … }` -/
def stSkip (P : Parsers) (q : Query) (o : Opt) : Except Err Opt :=
  match o.tls with
  | none => .ok o
  | some t =>
    if has q "skip_verify" then
      if get q "skip_verify" = "" then .ok { o with tls := some { t with insecure := true } }
      else match P.bool (get q "skip_verify") with
        | some b => .ok { o with tls := some { t with insecure := b } }
        | none => .error .skip
    else .ok o

/-- the five unconditional assignments at the end -/
def stFlags (q : Query) (o : Opt) : Except Err Opt :=
  .ok { o with
    alwaysRESP2 := get q "protocol" = "2",
    disableCache := get q "client_cache" = "0",
    disableRetry := get q "max_retries" = "0",
    clientName := get q "client_name",
    masterSet := get q "master_set" }

/-- `ParseURL` on the parsed URL -/
def parseURL (P : Parsers) (u : UrlIn) : Except Err Opt :=
  stScheme P u {} >>= stHost P u >>= stUser u >>= stPath P u >>= stDb P u.query >>= stDial P u.query
    >>= stWrite P u.query >>= stAddr P u >>= stSkip P u.query >>= stFlags u.query

/-- `ParseURL` as it was before the repair -/
def parseURLOld (P : Parsers) (u : UrlIn) : Except Err Opt :=
  stScheme P u {} >>= stHost P u >>= stUser u >>= stPath P u >>= stDb P u.query >>= stDial P u.query
    >>= stWriteOld P u.query >>= stAddr P u >>= stSkip P u.query >>= stFlags u.query

/-- which option each query parameter writes in this model (compared with the table regenerated from url.go) -/
def modelParams : List (String × String) :=
  [("db", "SelectDB"), ("dial_timeout", "Dialer.Timeout"), ("write_timeout", "ConnWriteTimeout"),
   ("addr", "InitAddress"), ("skip_verify", "TLSConfig.InsecureSkipVerify"), ("protocol", "AlwaysRESP2"),
   ("client_cache", "DisableCache"), ("max_retries", "DisableRetry"), ("client_name", "ClientName"),
   ("master_set", "Sentinel.MasterSet")]

/-! ### Specification: every option as a function of its own URL part only -/

def validScheme (s : String) : Bool := s = "unix" ∨ s = "rediss" ∨ s = "valkeys" ∨ s = "redis" ∨ s = "valkey"
def tlsScheme (s : String) : Bool := s = "rediss" ∨ s = "valkeys"

/-- the database number: `db=` wins over the path; the path counts only for non-unix schemes -/
def specDB (P : Parsers) (u : UrlIn) : Int :=
  if has u.query "db" then (P.atoi (get u.query "db")).getD 0
  else if u.scheme = "unix" then 0
  else match P.splitSlash u.path with
    | [_, d] => (P.atoi d).getD 0
    | _ => 0

/-- first reason to reject, in the order the code reports them -/
def specErr (P : Parsers) (u : UrlIn) : Option Err :=
  if ¬ validScheme u.scheme then some .scheme
  else if u.scheme ≠ "unix" ∧ (P.splitSlash u.path).length = 2 ∧ (P.atoi ((P.splitSlash u.path).getD 1 "")).isNone then some .dbnum
  else if u.scheme ≠ "unix" ∧ (P.splitSlash u.path).length > 2 then some .path
  else if has u.query "db" ∧ (P.atoi (get u.query "db")).isNone then some .dbnum
  else if has u.query "dial_timeout" ∧ (P.duration (get u.query "dial_timeout")).isNone then some .dial
  else if has u.query "write_timeout" ∧ (P.duration (get u.query "write_timeout")).isNone then some .write
  else if tlsScheme u.scheme ∧ has u.query "skip_verify" ∧ get u.query "skip_verify" ≠ "" ∧ (P.bool (get u.query "skip_verify")).isNone then some .skip
  else none

def specOpt (P : Parsers) (u : UrlIn) : Opt :=
  { initAddress := some ((if u.scheme = "unix" then [P.trimSpace u.path] else [(parseAddr P u.host u.host).2])
      ++ (vals u.query "addr").map fun a => (parseAddr P u.host a).2),
    tls := if tlsScheme u.scheme then some
      { serverName := (parseAddr P u.host u.host).1,
        insecure := has u.query "skip_verify" ∧ (get u.query "skip_verify" = "" ∨ P.bool (get u.query "skip_verify") = some true) }
      else none,
    dialFn := u.scheme = "unix",
    username := match u.user with | some (n, _) => n | none => "",
    password := match u.user with | some (_, some p) => p | _ => "",
    selectDB := specDB P u,
    dialTimeout := if has u.query "dial_timeout" then (P.duration (get u.query "dial_timeout")).getD 0 else 0,
    connWriteTimeout := if has u.query "write_timeout" then (P.duration (get u.query "write_timeout")).getD 0 else 0,
    alwaysRESP2 := get u.query "protocol" = "2",
    disableCache := get u.query "client_cache" = "0",
    disableRetry := get u.query "max_retries" = "0",
    clientName := get u.query "client_name",
    masterSet := get u.query "master_set" }

/-- the specification of `ParseURL` -/
def specURL (P : Parsers) (u : UrlIn) : Except Err Opt :=
  match specErr P u with
  | some e => .error e
  | none => .ok (specOpt P u)

/-! ### Executable ports of the Go standard-library parsers (driver only) -/

namespace Go

def isDigit (c : Char) : Bool := '0' ≤ c ∧ c ≤ '9'

def digitsVal (cs : List Char) : Nat := cs.foldl (fun a c => a * 10 + (c.toNat - 48)) 0

/-- `strconv.Atoi` on a 64-bit platform: `[+-]?[0-9]+` within int64 -/
def atoi (s : String) : Option Int :=
  let cs := s.toList
  let (neg, ds) := match cs with
    | '-' :: r => (true, r)
    | '+' :: r => (false, r)
    | r => (false, r)
  if ds.isEmpty ∨ ¬ ds.all isDigit then none else
  let n := digitsVal ds
  if neg then (if n > 9223372036854775808 then none else some (-(n : Int)))
  else (if n > 9223372036854775807 then none else some (n : Int))

/-- `strconv.ParseBool` -/
def parseBool (s : String) : Option Bool :=
  if s ∈ ["1", "t", "T", "TRUE", "true", "True"] then some true
  else if s ∈ ["0", "f", "F", "FALSE", "false", "False"] then some false
  else none

def lastIndexOf (c : Char) (cs : List Char) : Option Nat :=
  (List.range cs.length).foldl (fun acc i => if cs[i]? = some c then some i else acc) none

def indexOf (c : Char) (cs : List Char) : Option Nat := cs.findIdx? (· = c)

/-- `net.SplitHostPort`, `("", "")` on every error -/
def splitHostPort (hp : String) : String × String :=
  let cs := hp.toList
  match lastIndexOf ':' cs with
  | none => ("", "")
  | some i =>
    if cs.head? = some '[' then
      match indexOf ']' cs with
      | none => ("", "")
      | some e =>
        if e + 1 = cs.length then ("", "")
        else if e + 1 = i then
          if (cs.drop 1).contains '[' then ("", "")
          else if (cs.drop (e + 1)).contains ']' then ("", "")
          else (String.ofList ((cs.take e).drop 1), String.ofList (cs.drop (i + 1)))
        else ("", "")
    else
      let host := cs.take i
      if host.contains ':' then ("", "")
      else if cs.contains '[' then ("", "")
      else if cs.contains ']' then ("", "")
      else (String.ofList host, String.ofList (cs.drop (i + 1)))

/-- `net.JoinHostPort` -/
def joinHostPort (host port : String) : String :=
  if host.toList.contains ':' then "[" ++ host ++ "]:" ++ port else host ++ ":" ++ port

def isAsciiSpace (c : Char) : Bool := c = ' ' ∨ c = '\t' ∨ c = '\n' ∨ c = '\r' ∨ c.toNat = 11 ∨ c.toNat = 12

/-- `strings.TrimSpace` restricted to ASCII white space (plus the Latin-1 bytes 0x85/0xA0 never
    occur alone in valid UTF-8; multi-byte Unicode spaces are outside the generator) -/
def trimSpace (s : String) : String :=
  String.ofList ((s.toList.dropWhile isAsciiSpace).reverse.dropWhile isAsciiSpace).reverse

def pow63 : Nat := 9223372036854775808
def pow64 : Nat := 18446744073709551616

/-- `time.leadingInt`: value, rest; `none` = overflow -/
def leadingInt : List Char → Nat → Option (Nat × List Char)
  | [], x => some (x, [])
  | c :: cs, x =>
    if ¬ isDigit c then some (x, c :: cs)
    else if x > pow63 / 10 then none
    else
      let x' := x * 10 + (c.toNat - 48)
      if x' > pow63 then none else leadingInt cs x'

/-- `time.leadingFraction`: value, scale, rest -/
def leadingFraction : List Char → Nat → Float → Bool → Nat × Float × List Char
  | [], x, scale, _ => (x, scale, [])
  | c :: cs, x, scale, overflow =>
    if ¬ isDigit c then (x, scale, c :: cs)
    else if overflow then leadingFraction cs x scale true
    else if x > (pow63 - 1) / 10 then leadingFraction cs x scale true
    else
      let y := x * 10 + (c.toNat - 48)
      if y > pow63 then leadingFraction cs x scale true
      else leadingFraction cs y (scale * 10) false

/-- `time.unitMap` on byte strings ("µs" = c2 b5 73, "μs" = ce bc 73) -/
def unitOf (u : List Char) : Option Nat :=
  let b := u.map Char.toNat
  if b = [110, 115] then some 1
  else if b = [117, 115] ∨ b = [0xc2, 0xb5, 115] ∨ b = [0xce, 0xbc, 115] then some 1000
  else if b = [109, 115] then some 1000000
  else if b = [115] then some 1000000000
  else if b = [109] then some 60000000000
  else if b = [104] then some 3600000000000
  else none

/-- the main loop of `time.ParseDuration` (fuel = remaining input length) -/
def durLoop : Nat → List Char → Nat → Option Nat
  | 0, _, d => some d
  | fuel + 1, s, d =>
    match s with
    | [] => some d
    | c :: _ =>
      if ¬ (c = '.' ∨ isDigit c) then none else
      match leadingInt s 0 with
      | none => none
      | some (v, s1) =>
        let pre : Bool := s1.length != s.length
        let (f, scale, s2, post) : Nat × Float × List Char × Bool :=
          match s1 with
          | '.' :: r =>
            let (f, scale, s2) := leadingFraction r 0 1.0 false
            (f, scale, s2, s2.length != r.length)
          | _ => (0, 1.0, s1, false)
        if !pre && !post then none else
        let u := s2.takeWhile fun c => ¬ (c = '.' ∨ isDigit c)
        if u.isEmpty then none else
        let s3 := s2.drop u.length
        match unitOf u with
        | none => none
        | some unit =>
          if v > pow63 / unit then none else
          let v := v * unit
          let v := if f > 0 then v + (Float.ofNat f * (Float.ofNat unit / scale)).toUInt64.toNat else v
          if f > 0 ∧ v > pow63 then none else
          let d := (d + v) % pow64
          if d > pow63 then none else durLoop fuel s3 d

/-- `time.ParseDuration` in nanoseconds -/
def parseDuration (s : String) : Option Int :=
  let cs := s.toList
  let (neg, cs) := match cs with
    | '-' :: r => (true, r)
    | '+' :: r => (false, r)
    | r => (false, r)
  if cs = ['0'] then some 0
  else if cs.isEmpty then none
  else match durLoop (cs.length + 1) cs 0 with
    | none => none
    | some d =>
      if neg then some (-(d : Int))
      else if d > pow63 - 1 then none else some (d : Int)

end Go

def goParsers : Parsers where
  atoi := Go.atoi
  duration := Go.parseDuration
  bool := Go.parseBool
  splitHostPort := Go.splitHostPort
  joinHostPort := Go.joinHostPort
  trimSpace := Go.trimSpace
  splitSlash := fun s => s.splitOn "/"

end Rv.Url
