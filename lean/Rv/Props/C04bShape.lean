/-
The interleaving model Rv/Model/PipeLife.lean is the code: statement-level facts re-extracted from pipe.go
on every run. Kept apart from Rv/Props/C04b.lean so that a change of pipe.go (a regenerated
Rv/Gen/PipeShape.lean) rebuilds only this file, not the lemma stack.
-/
import Rv.Gen.PipeShape
namespace Rv.C04.Life

/-! ### the model is the code: facts re-extracted from pipe.go on every run -/

open Rv.Gen.PipeShape in
/-- **pipelife_shape_pinned.** The statements the model transcribes, re-extracted from pipe.go on every
    run: the values ever written to `p.state` (0→1 in `background`, 1→2 in `_exit`, 0→2/1→2 in `Close`,
    the final store 4, the static dead pipes 3); `background()` and `_exit` statement by statement (error
    latch, then state CAS, then `conn.Close`); the exit path of `_background` in order (writer exit closes
    `p.close`, `_exit(rerr)`, the wake-up PING, `p.Error()`, the loop `for p.loadWaits() != 0`, `<-p.close`,
    the store); the drain loop body; the deferred handler of the reader; `Close` statement by statement;
    in Do/DoMulti the order ctx check, `incrWaits`, state load, reject branch, tail, put, select, abort
    goroutine (with the verif scheduling point `verifYieldAfterIncrWaits(waits)` between `incrWaits` and the
    state load), and the tail condition `waits == 1 && left != 0` (the model's `fix = true`, fix eac8ecc). -/
theorem pipelife_shape_pinned :
    stateWrites =
      ["background: atomic.CompareAndSwapInt32(&p.state, 0, 1)", "_exit: atomic.CompareAndSwapInt32(&p.state, 1, 2)",
       "_background: atomic.StoreInt32(&p.state, 4)", "Close: atomic.CompareAndSwapInt32(&p.state, 0, 2)",
       "Close: atomic.CompareAndSwapInt32(&p.state, 1, 2)", "deadFn: pipe{state: 3}", "epipeFn: pipe{state: 3}"] ∧
    background_inner =
      ["atomic.CompareAndSwapInt32(&p.state, 0, 1)",
       "if atomic.CompareAndSwapInt32(&p.bgState, 0, 1) { go p._background() }"] ∧
    body__exit =
      ["p.error.CompareAndSwap(nil, &errs{error: err})", "atomic.CompareAndSwapInt32(&p.state, 1, 2)",
       "_ = p.conn.Close()", "p.clhks.Load().(func(error))(err)"] ∧
    backgroundOrder =
      ["writerExit", "readerExit", "wakeupPing", "loadError", "drainLoop", "awaitWriter", "storeClosed"] ∧
    backgroundEndsWithStore = true ∧ wakeupPingDecrements = true ∧ readDeferCompletesInflight = true ∧
    drainLoopBody =
      ["select { case <-p.close: closed = true _, _, _ = p.queue.NextWriteCmd() default: }",
       "if _, _, ch, resps = p.queue.NextResultCh(); ch != nil { resp := resp if !closed || p.rcnt < p.wcnt { resp = sent } p.rcnt++ for i := range resps { resps[i] = resp } ch <- resp p.queue.FinishResult() } else { p.queue.FinishResult() runtime.Gosched() }"] ∧
    closeStmts =
      ["p.error.CompareAndSwap(nil, errClosing)", "block := atomic.AddInt32(&p.blcksig, 1)", "waits := p.incrWaits()",
       "stopping1 := atomic.CompareAndSwapInt32(&p.state, 0, 2)", "stopping2 := atomic.CompareAndSwapInt32(&p.state, 1, 2)",
       "if p.queue != nil { if stopping1 && waits == 1 { p.background() } if block == 1 && (stopping1 || stopping2) { p.incrWaits() ch, _ := p.queue.PutOne(context.Background(), cmds.PingCmd) select { case <-ch: p.decrWaits() case <-time.After(time.Second): go func(ch chan RedisResult) { <-ch p.decrWaits() }(ch) } } }",
       "p.decrWaits()", "atomic.AddInt32(&p.blcksig, -1)", "if p.pingTimer != nil { p.pingTimer.Stop() }",
       "if p.authTimer != nil { p.authTimer.Stop() }", "if p.conn != nil { p.conn.Close() }",
       "if p.r2p != nil { p.r2p.Close() }"] ∧
    expiredStmts = ["p.error.CompareAndSwap(nil, errExpired)", "p.Close()"] ∧
    stateLoadAfterIncr_Do = true ∧ stateLoadAfterIncr_DoMulti = true ∧ yieldOffIsEmpty = true ∧
    admissionOrder_Do = ["ctxCheck", "incrWaits", "loadState", "reject", "tail", "put", "select", "abort"] ∧
    admissionOrder_DoMulti = ["ctxCheck", "incrWaits", "loadState", "reject", "tail", "put", "select", "abort"] ∧
    tail_Do = "left := p.decrWaitsAndIncrRecvs(); waits == 1 && left != 0 { p.background() }" ∧
    tail_DoMulti = "left := p.decrWaitsAndIncrRecvs(); waits == 1 && left != 0 { p.background() }" ∧
    ctxCheckFirst_Do = true ∧ ctxCheckFirst_DoMulti = true ∧ selectOnDone_Do = true ∧ selectOnDone_DoMulti = true ∧
    drainLoopsOnWaits = true ∧ drainChoosesByCounters = true ∧ drainSentGuard = true ∧
    writerCountsBatches = true ∧ readerCountsFetches = true := by
  refine ⟨rfl, rfl, rfl, rfl, rfl, rfl, rfl, rfl, rfl, rfl, rfl, rfl, rfl, rfl, rfl, rfl, rfl, rfl, rfl, rfl,
    rfl, rfl, rfl, rfl, rfl, rfl⟩

end Rv.C04.Life
