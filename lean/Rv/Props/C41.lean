/-
C41 — go-redis adapter pipelines keep order and wrap transactions exactly.
-/
import Rv.Model.CompatPipe
namespace Rv.C41
open Rv.CompatPipe Rv.Gen.Compat

/-! ### Tie to the source: wrapper table and pinned control methods -/

/-- the hand model of proxy.Do / Pipeline.Len, Do, Discard, Exec / TxPipeline.Exec was transcribed
    from exactly the source text /repo has now -/
theorem model_pinned_to_source : pinnedHashes = seenHashes := by
  decide +kernel

/-- every method of *Pipeline is a plain wrapper, the guarded wrapper, a refusal, or one of the nine
    pipeline-control methods; TxPipeline adds only the control methods and embeds the pipeline -/
theorem table_kinds :
    rows.all (fun r =>
      match r.kind with
      | .wrap1 | .wrapq => r.sameName && r.argsFwd
      | .panics => ["Cache", "Subscribe", "PSubscribe", "SSubscribe", "Watch", "ForEachMaster"].contains r.method
      | .control => ["Client", "Len", "Do", "Discard", "Exec", "Pipelined", "Pipeline", "TxPipelined", "TxPipeline"].contains r.method) = true
    ∧ txOwn.all (["Exec", "Pipelined", "Pipeline", "TxPipelined", "TxPipeline"].contains ·) = true
    ∧ txEmbeds = "*rePipeline" := by
  decide +kernel

/-- how a table row acts on the pipeline state when its Compat method sent `d` commands through the
    capture proxy -/
def rowCall (r : Row) (d : Nat) : Call :=
  match r.kind with
  | .wrap1 => .wrap1 d
  | .wrapq => .wrapq d
  | .panics => .rejects
  | .control => .rejects

/-- **per-method obligation, wrapper half**: every command wrapper of the table appends exactly one
    result when its Compat method queued exactly one command — and the guarded wrapper appends none
    when none was queued -/
theorem every_wrapper_appends_one :
    ∀ r ∈ rows, (rowCall r 1).ok ∧ (r.kind = .wrapq → (rowCall r 0).ok) := by
  decide +kernel

/-! ### The invariant -/

theorem call_preserves_aligned (p : Pipe) (l : Nat) (c : Call) (h : Aligned p) (hc : c.ok) :
    Aligned (p.call l c) := by
  unfold Aligned at *
  cases c with
  | wrap1 d => simp [Call.ok] at hc; subst hc; simp [Pipe.call, h]
  | wrapq d =>
    simp [Call.ok] at hc
    have : d = 0 ∨ d = 1 := by omega
    rcases this with rfl | rfl <;> simp [Pipe.call, h]
  | doArgs n => cases n <;> simp [Pipe.call, h]
  | rejects => simpa [Pipe.call] using h

/-- operations of a pipeline program -/
inductive Op
  | call (label : Nat) (c : Call)
  | discard
  | exec (reply : List Res)
  | txExec (qreply : List Res) (ex : ExecRes)

def Op.ok : Op → Prop
  | .call _ c => c.ok
  | _ => True

def step (p : Pipe) : Op → Pipe
  | .call l c => p.call l c
  | .discard => p.discard
  | .exec r => (p.exec r).1
  | .txExec q e => (p.txExec q e).1

private theorem step_aligned (p : Pipe) (o : Op) (h : Aligned p) (ho : o.ok) : Aligned (step p o) := by
  cases o with
  | call l c => exact call_preserves_aligned p l c h ho
  | discard => simp [step, Pipe.discard, Pipe.empty, Aligned]
  | exec r =>
    simp only [step, Pipe.exec]
    split
    · exact h
    · simp [Pipe.empty, Aligned]
  | txExec q e =>
    simp only [step, Pipe.txExec]
    split
    · exact h
    · simp [Pipe.empty, Aligned]

/-- **Invariant**: in every program (any interleaving of method calls, Discard, Exec, TxPipeline.Exec
    with any server replies) whose method calls meet their obligation, the command list and the
    result list stay aligned -/
theorem reachable_aligned (ops : List Op) (h : ∀ o ∈ ops, o.ok) :
    Aligned (ops.foldl step Pipe.empty) := by
  suffices ∀ p, Aligned p → Aligned (ops.foldl step p) from this _ (by simp [Pipe.empty, Aligned])
  induction ops with
  | nil => intro p hp; simpa using hp
  | cons o rest ih =>
    intro p hp
    simp only [List.foldl_cons]
    exact ih (fun o' ho' => h o' (List.mem_cons_of_mem _ ho')) _ (step_aligned p o hp (h o (List.mem_cons_self ..)))

/-! ### Pipeline.Exec -/

private theorem fill_eq : ∀ (rets : List Cmder) (rs : List Res) (e : Option Err), rets.length = rs.length →
    fill rets rs e = some (List.zipWith (fun c r => (⟨c.id, fromRes r⟩ : Cmder)) rets rs,
      match e with | some x => some x | none => (rs.map fromRes).findSome? (·.err)) := by
  intro rets
  induction rets with
  | nil => intro rs e h; cases rs <;> simp_all [fill]; cases e <;> rfl
  | cons c t ih =>
    intro rs e h
    cases rs with
    | nil => simp at h
    | cons r rs =>
      simp only [List.length_cons, Nat.add_right_cancel_iff] at h
      simp only [fill, ih rs _ h, List.zipWith_cons_cons, List.map_cons, List.findSome?_cons]
      cases e with
      | some x => simp [orElse]
      | none =>
        simp only [orElse]
        cases hh : (fromRes r).err <;> simp

/-- **exec_positional**: with aligned lists and one reply per command (the client's DoMulti contract),
    Exec sends the queued commands in queue order as one batch, returns exactly the Cmders handed out
    at queue time, in queue order, and the i-th one carries the i-th reply — nothing else -/
theorem exec_positional (p : Pipe) (reply : List Res) (ha : Aligned p) (hne : p.cmds ≠ [])
    (hr : reply.length = p.cmds.length) :
    (p.exec reply).2.sent = some p.cmds ∧
    ∃ out e, (p.exec reply).2.result = some (out, e) ∧ out.length = p.rets.length ∧
      ∀ i (h1 : i < out.length) (h2 : i < p.rets.length) (h3 : i < reply.length),
        out[i].id = p.rets[i].id ∧ out[i].st = fromRes reply[i] := by
  have hemp : p.cmds.isEmpty = false := by cases h : p.cmds <;> simp_all
  have hlen : p.rets.length = reply.length := by unfold Aligned at ha; omega
  simp only [Pipe.exec, hemp]
  refine ⟨rfl, ?_⟩
  rw [fill_eq _ _ _ hlen]
  refine ⟨_, _, rfl, ?_, ?_⟩
  · simp [hlen]
  · intro i h1 h2 h3
    simp

/-- **first_error**: the error Exec returns is the error of the first failed command in queue order,
    and nil iff no command failed -/
theorem first_error (p : Pipe) (reply : List Res) (ha : Aligned p) (hne : p.cmds ≠ [])
    (hr : reply.length = p.cmds.length) :
    ∃ out, (p.exec reply).2.result = some (out, (reply.map fromRes).findSome? (·.err)) := by
  have hemp : p.cmds.isEmpty = false := by cases h : p.cmds <;> simp_all
  have hlen : p.rets.length = reply.length := by unfold Aligned at ha; omega
  simp only [Pipe.exec, hemp]
  rw [fill_eq _ _ _ hlen]
  exact ⟨_, rfl⟩

/-- the model of Exec coincides with the specification used on `!` oracle lines -/
theorem exec_meets_spec (p : Pipe) (reply : List Res) (ha : Aligned p)
    (hr : reply.length = p.cmds.length) (labels : List Nat)
    (hc : p.cmds = labels.map .user) (hi : p.rets.map (·.id) = labels) :
    ((p.exec reply).2.sent, (p.exec reply).2.result) =
      ((Spec.exec labels reply).1, some ((Spec.exec labels reply).2.1, (Spec.exec labels reply).2.2)) := by
  have hlen : p.rets.length = reply.length := by unfold Aligned at ha; omega
  cases labels with
  | nil =>
    have h1 : p.cmds = [] := by simpa using hc
    simp [Pipe.exec, Spec.exec, h1]
  | cons l ls =>
    have hemp : p.cmds.isEmpty = false := by rw [hc]; simp
    simp only [Pipe.exec, hemp, Spec.exec, List.isEmpty_cons]
    rw [fill_eq _ _ _ hlen, hc]
    have hz : List.zipWith (fun c r => (⟨c.id, fromRes r⟩ : Cmder)) p.rets reply
        = List.zipWith (fun l r => (⟨l, fromRes r⟩ : Cmder)) (l :: ls) reply := by
      rw [← hi, List.zipWith_map_left]
    simp only [hz, Bool.false_eq_true, if_false]
    congr 2
    have : ∀ (ls : List Nat) (rs : List Res), ls.length = rs.length →
        (List.zipWith (fun l r => (⟨l, fromRes r⟩ : Cmder)) ls rs).findSome? (·.st.err)
          = (rs.map fromRes).findSome? (·.err) := by
      intro ls
      induction ls with
      | nil => intro rs h; cases rs <;> simp_all
      | cons a t ih =>
        intro rs h
        cases rs with
        | nil => simp at h
        | cons r rs =>
          simp only [List.length_cons, Nat.add_right_cancel_iff] at h
          simp [List.findSome?_cons, ih rs h]
    rw [this]
    have hl := congrArg List.length hi
    simp at hl
    simp; omega

/-- Exec on an empty pipeline sends nothing and returns (nil, nil); after a non-empty Exec the
    pipeline is empty again -/
theorem exec_resets (p : Pipe) (reply : List Res) :
    (p.cmds = [] → (p.exec reply).2 = ⟨none, some ([], none)⟩) ∧
    (p.cmds ≠ [] → (p.exec reply).1 = Pipe.empty ∧ (p.exec reply).1.len = 0) := by
  constructor
  · intro h; simp [Pipe.exec, h]
  · intro h
    have hemp : p.cmds.isEmpty = false := by cases h' : p.cmds <;> simp_all
    simp [Pipe.exec, hemp, Pipe.empty, Pipe.len]

/-! ### TxPipeline.Exec -/

private theorem swapAt_append (xs : List α) (a b : α) (t : List α) :
    swapAt xs.length (xs ++ a :: b :: t) = xs ++ b :: a :: t := by
  induction xs with
  | nil => rfl
  | cons x xs ih => simp [swapAt, ih]

private theorem bubble_append : ∀ (n : Nat) (xs : List α) (m : α) (t : List α), xs.length = n →
    bubble n (xs ++ m :: t) = m :: xs ++ t := by
  intro n
  induction n with
  | zero => intro xs m t h; have : xs = [] := List.eq_nil_of_length_eq_zero h; subst this; rfl
  | succ n ih =>
    intro xs m t h
    have hne : xs ≠ [] := by intro hx; subst hx; simp at h
    obtain ⟨ys, y, rfl⟩ : ∃ ys y, xs = ys ++ [y] := ⟨xs.dropLast, xs.getLast hne, (List.dropLast_concat_getLast hne).symm⟩
    have hy : ys.length = n := by simpa using h
    simp only [bubble]
    have : (ys ++ [y]) ++ m :: t = ys ++ y :: m :: t := by simp
    rw [this, ← hy, swapAt_append, hy, ih ys m (y :: t) hy]
    simp

/-- **tx_shape**: the swap loop of TxPipeline.Exec turns `cmds ++ [MULTI, EXEC]` into
    MULTI, the queued commands in queue order, EXEC — for every queue -/
theorem tx_shape (cmds : List Cmd) : txBatch cmds = .multi :: cmds ++ [.exec] := by
  unfold txBatch
  have : (cmds ++ [Cmd.multi, Cmd.exec]).length - 2 = cmds.length := by simp
  simp only [this]
  exact bubble_append cmds.length cmds .multi [.exec] rfl

/-- TxPipeline.Exec sends that batch, as one batch -/
theorem tx_sends_one_batch (p : Pipe) (q : List Res) (ex : ExecRes) (hne : p.cmds ≠ []) :
    (p.txExec q ex).2.sent = some (.multi :: p.cmds ++ [.exec]) := by
  have hemp : p.cmds.isEmpty = false := by cases h : p.cmds <;> simp_all
  simp [Pipe.txExec, hemp, tx_shape]

private theorem fillTx_eq : ∀ (rets : List Cmder) (xs : List Msg) (nr : List (Option Bytes)) (e : Option Err),
    rets.length = xs.length → xs.length ≤ nr.length → (∀ q ∈ nr.take xs.length, q = none) →
    fillTx rets xs nr e = some (List.zipWith (fun c m => (⟨c.id, fromRes (.msg m)⟩ : Cmder)) rets xs,
      match e with | some x => some x | none => (xs.map (fun m => fromRes (.msg m))).findSome? (·.err)) := by
  intro rets
  induction rets with
  | nil => intro xs nr e h; cases xs <;> simp_all [fillTx]; cases e <;> rfl
  | cons c t ih =>
    intro xs nr e h hn hq
    cases xs with
    | nil => simp at h
    | cons m ms =>
      cases nr with
      | nil => simp at hn
      | cons q qs =>
        simp only [List.length_cons, Nat.add_right_cancel_iff, Nat.add_le_add_iff_right] at h hn
        have hq0 : q = none := hq q (by simp)
        subst hq0
        have hq' : ∀ q ∈ qs.take ms.length, q = none := fun q hqm => hq q (by simp [hqm])
        simp only [fillTx, ih ms qs _ h hn hq', List.zipWith_cons_cons, List.map_cons, List.findSome?_cons]
        cases e with
        | some x => simp [orElse]
        | none =>
          simp only [orElse]
          cases hh : (fromRes (.msg m)).err <;> simp

/-- **tx_maps_exec_elements**: when EXEC answers with an array of one element per queued command
    (and no connection error hit the batch), the i-th element goes to the i-th queued command's
    Cmder — the ones handed out at queue time, in order — and the returned error is the first error
    inside the array -/
theorem tx_maps_exec_elements (p : Pipe) (q : List Res) (xs : List Msg) (ha : Aligned p) (hne : p.cmds ≠ [])
    (hq : q.length = p.cmds.length + 1) (hx : xs.length = p.cmds.length) (hnet : ∀ r ∈ q, nonRedis r = none) :
    (p.txExec q (.arr xs)).2.result =
      some (List.zipWith (fun c m => (⟨c.id, fromRes (.msg m)⟩ : Cmder)) p.rets xs,
            (xs.map (fun m => fromRes (.msg m))).findSome? (·.err)) := by
  have hemp : p.cmds.isEmpty = false := by cases h : p.cmds <;> simp_all
  have hlen : p.rets.length = xs.length := by unfold Aligned at ha; omega
  have h2 : xs.length ≤ ((q.drop 1).map nonRedis ++ [none]).length := by simp; omega
  have h3 : ∀ r ∈ ((q.drop 1).map nonRedis ++ [none]).take xs.length, r = none := by
    intro r hr
    have : r ∈ (q.drop 1).map nonRedis ++ [none] := List.mem_of_mem_take hr
    simp only [List.mem_append, List.mem_map, List.mem_singleton] at this
    rcases this with ⟨a, ha', rfl⟩ | rfl
    · exact hnet a (List.mem_of_mem_drop ha')
    · rfl
  simp only [Pipe.txExec, hemp, toArray]
  rw [fillTx_eq _ _ _ _ hlen h2 h3]
  simp

/-- **txfailed_on_nil**: when EXEC answers nil (a WATCHed key changed), Exec reports TxFailedErr and
    no queued command receives a result -/
theorem txfailed_on_nil (p : Pipe) (q : List Res) (hne : p.cmds ≠ []) :
    (p.txExec q (.msg .nil)).2.result = some (p.rets, some .txFailed) := by
  have hemp : p.cmds.isEmpty = false := by cases h : p.cmds <;> simp_all
  simp [Pipe.txExec, hemp, toArray, fillTx]

/-- an error reply to EXEC (e.g. EXECABORT) or a connection error is returned as the error -/
theorem tx_exec_error (p : Pipe) (q : List Res) (hne : p.cmds ≠ []) (m e : Bytes) :
    (p.txExec q (.msg (.err m))).2.result = some (p.rets, some (.redis m)) ∧
    (p.txExec q (.net e)).2.result = some (p.rets, some (.net e)) := by
  have hemp : p.cmds.isEmpty = false := by cases h : p.cmds <;> simp_all
  simp [Pipe.txExec, hemp, toArray, fillTx]

/-- the transaction model coincides with the specification used on `!` oracle lines -/
theorem tx_meets_spec (p : Pipe) (q : List Res) (xs : List Msg) (labels : List Nat) (ha : Aligned p)
    (hne : labels ≠ []) (hc : p.cmds = labels.map .user) (hi : p.rets.map (·.id) = labels)
    (hq : q.length = p.cmds.length + 1) (hx : xs.length = p.cmds.length) (hnet : ∀ r ∈ q, nonRedis r = none) :
    (p.txExec q (.arr xs)).2.sent = (Spec.txExecArr labels xs).1 ∧
    (p.txExec q (.arr xs)).2.result = some ((Spec.txExecArr labels xs).2.1,
      (xs.map (fun m => fromRes (.msg m))).findSome? (·.err)) := by
  have hne' : p.cmds ≠ [] := by rw [hc]; cases labels <;> simp_all
  have hl : labels.isEmpty = false := by cases labels <;> simp_all
  refine ⟨?_, ?_⟩
  · rw [tx_sends_one_batch p q _ hne', hc]; simp [Spec.txExecArr, hl]
  · rw [tx_maps_exec_elements p q xs ha hne' hq hx hnet]
    simp only [Spec.txExecArr, hl, Bool.false_eq_true, if_false]
    rw [← hi, List.zipWith_map_left]

/-! ### Discard, Len -/

/-- **discard_empties**: Discard drops every queued command and result; Len is 0 and the next Exec
    sends nothing -/
theorem discard_empties (p : Pipe) (reply : List Res) (q : List Res) (ex : ExecRes) :
    p.discard = Pipe.empty ∧ p.discard.len = 0 ∧
    (p.discard.exec reply).2 = ⟨none, some ([], none)⟩ ∧ (p.discard.txExec q ex).2 = ⟨none, some ([], none)⟩ := by
  simp [Pipe.discard, Pipe.empty, Pipe.len, Pipe.exec, Pipe.txExec]

/-- Len counts the queued commands: it grows by one per accepted call -/
theorem len_counts (p : Pipe) (l : Nat) :
    (p.call l (.wrap1 1)).len = p.len + 1 ∧ (p.call l .rejects).len = p.len ∧
    (p.call l (.wrapq 0)).len = p.len ∧ (p.call l (.doArgs 0)).len = p.len := by
  simp [Pipe.call, Pipe.len]

/-! ### Why the obligation matters (the defect repaired by the `fix:` commit) -/

/-- A plain wrapper whose Compat method sends no command (the former `BitCount` with an unknown
    Unit: `wrap1 0`) breaks alignment: the rejected call's Cmder receives the NEXT command's reply and
    the last Cmder stays "not executed". With the guarded wrapper (`wrapq 0`) results stay positional. -/
theorem unguarded_wrapper_shifts :
    let bad := ((Pipe.empty.call 1 (.wrap1 1)).call 2 (.wrap1 0)).call 3 (.wrap1 1)
    let good := ((Pipe.empty.call 1 (.wrap1 1)).call 2 (.wrapq 0)).call 3 (.wrap1 1)
    ¬ Aligned bad ∧
    (bad.exec [.msg (.val 1), .msg (.val 3)]).2.result =
      some ([⟨1, ⟨some 1, none⟩⟩, ⟨2, ⟨some 3, none⟩⟩, ⟨3, notExec⟩], none) ∧
    Aligned good ∧
    (good.exec [.msg (.val 1), .msg (.val 3)]).2.result =
      some ([⟨1, ⟨some 1, none⟩⟩, ⟨3, ⟨some 3, none⟩⟩], none) := by
  decide

/-! ### Non-vacuity -/

example : (rows.filter (fun r => r.kind == .wrap1 || r.kind == .wrapq)).length ≥ 500 := by decide +kernel
example : txBatch [.user 1, .user 2, .user 3] = [.multi, .user 1, .user 2, .user 3, .exec] := by decide
example : ((Pipe.empty.call 1 (.wrap1 1)).call 2 (.doArgs 3)).txExec
    [.msg (.val 0), .msg (.val 0), .msg (.val 0)] (.arr [.val 1, .err [1]]) =
    (Pipe.empty, ⟨some [.multi, .user 1, .user 2, .exec],
      some ([⟨1, ⟨some 1, none⟩⟩, ⟨2, ⟨none, some (.redis [1])⟩⟩], some (.redis [1]))⟩) := by decide

end Rv.C41
