/-
C28 — retries happen only when safe and within policy.
Theorems over the model Rv.RetryPolicy of the retry loops in /repo/client.go, /repo/sentinel.go,
/repo/standalone.go (delegates to client.go), /repo/cluster.go and the policy in /repo/retry.go, for
every reply script (the server is an arbitrary sequence of answers), every RetryDelay function, every
moment at which the ctx is cancelled or the client is closed, and every flag combination.

Not counted as retries (excluded explicitly in every statement): re-sends after a MOVED / ASK reply
(the server redirected the command) and after errConnExpired (the connection refused the command
before writing it).
-/
import Rv.Model.RetryPolicy
namespace Rv.C28
open Rv.RetryPolicy

set_option linter.unusedVariables false
set_option linter.unusedSimpArgs false

/-! ### retry.go: the delay policy -/

/-- WaitOrSkipRetry retries exactly when the delay is 0, or positive and the ctx deadline (if any) is
    further away than the delay. -/
theorem wait_or_skip (d : Int) (dl : Option Int) :
    waitOrSkip d dl = true ↔ (d = 0 ∨ (d > 0 ∧ (dl = none ∨ ∃ rem, dl = some rem ∧ rem > d))) := by
  unfold waitOrSkip
  by_cases h0 : d = 0
  · simp [h0]
  · by_cases h1 : d > 0
    · cases dl with
      | none => simp [h0, h1]
      | some rem => simp [h0, h1]
    · simp [h0, h1]

/-- a negative delay never retries -/
theorem wait_or_skip_negative (d : Int) (dl : Option Int) (h : d < 0) : waitOrSkip d dl = false := by
  unfold waitOrSkip
  have h0 : ¬ d = 0 := by omega
  have h1 : ¬ d > 0 := by omega
  simp [h0, h1]

/-- WaitOrSkipRetry skips when the ctx deadline is not further away than the delay -/
theorem wait_or_skip_deadline (d rem : Int) (h : d > 0) (hr : rem ≤ d) : waitOrSkip d (some rem) = false := by
  unfold waitOrSkip
  have h0 : ¬ d = 0 := by omega
  have h2 : ¬ rem > d := by omega
  simp [h0, h, h2]

/-- whenever WaitOrSkipRetry says "retry", RetryDelay returned a non-negative delay -/
theorem wait_or_skip_nonneg (d : Int) (dl : Option Int) (h : waitOrSkip d dl = true) : d ≥ 0 := by
  rcases (wait_or_skip d dl).1 h with h | ⟨h, _⟩ <;> omega

/-- WaitForRetry honours ctx.Done: it never waits longer than the delay, and not longer than the time
    until the ctx is cancelled -/
theorem wait_for_honours_ctx (d : Int) (c : Option Int) :
    0 ≤ waitFor d c ∧ waitFor d c ≤ max d 0 ∧ (∀ t, c = some t → 0 ≤ t → waitFor d c ≤ t) := by
  unfold waitFor
  by_cases h : d > 0
  · cases c with
    | none => simp [h]; omega
    | some t =>
      simp only [h, if_true]
      refine ⟨?_, ?_, ?_⟩
      · split <;> (try split) <;> omega
      · split <;> (try split) <;> omega
      · intro t' ht ht0
        simp only [Option.some.injEq] at ht; subst ht
        split <;> (try split) <;> omega
  · simp [h]; omega

/-- the default policy (exponential backoff with jitter, capped at 1 s) never returns "do not retry" -/
theorem default_delay_bounds (attempts jitter : Nat) :
    1 ≤ defaultDelayUs attempts jitter ∧ defaultDelayUs attempts jitter ≤ 1000000 := by
  unfold defaultDelayUs
  have hb : 2 ^ (min 20 attempts) ≥ 1 := Nat.one_le_two_pow
  show 1 ≤ min 1000000 (2 ^ min 20 attempts + jitter % 2 ^ min 20 attempts) ∧
    min 1000000 (2 ^ min 20 attempts + jitter % 2 ^ min 20 attempts) ≤ 1000000
  generalize 2 ^ min 20 attempts = b at *
  generalize jitter % b = m
  constructor <;> omega

/-! ### the retryability predicates -/

/-- singleClient.isRetryable / sentinelClient.isRetryable: true exactly for a transport error
    (errConnExpired is one) or a LOADING reply, while the client is open and the ctx is live -/
theorem is_retryable_iff (r : Err) (closed ctxDone : Bool) :
    isRetryable r closed ctxDone = true ↔
      ((r = .transport ∨ r = .connExpired ∨ r = .loading) ∧ closed = false ∧ ctxDone = false) := by
  cases r <;> cases closed <;> cases ctxDone <;> simp [isRetryable, Err.isRedis]

/-- clusterClient.shouldRefreshRetry says "retry" exactly for LOADING / TRYAGAIN / CLUSTERDOWN replies, or
    a transport error on a live ctx — and only while the client is open. (For the three error
    replies the code does not look at the ctx.) -/
theorem refresh_retry_iff (r : Err) (closed ctxDone : Bool) :
    refreshMode r closed ctxDone = .retry ↔
      (closed = false ∧ (r = .loading ∨ r = .tryAgain ∨ r = .clusterDown ∨
        ((r = .transport ∨ r = .connExpired) ∧ ctxDone = false))) := by
  cases r <;> cases closed <;> cases ctxDone <;> simp [refreshMode]

/-- …and "redirect" exactly for MOVED / ASK while open -/
theorem refresh_redirect_iff (r : Err) (closed ctxDone : Bool) :
    (refreshMode r closed ctxDone = .move ∨ refreshMode r closed ctxDone = .ask) ↔
      (closed = false ∧ (r = .moved ∨ r = .ask)) := by
  cases r <;> cases closed <;> cases ctxDone <;> simp [refreshMode]

/-! ### single / standalone / sentinel: Do and DoCache -/

/-- the replies after which `seqDo` hands the command to the connection again, with the attempt
    number and the number of connection calls made at that moment -/
def seqResends (e : Env) (checkCmd retryable : Bool) : List Err → (attempts calls : Nat) → List (Err × Nat × Nat)
  | [], _, _ => []
  | r :: rest, attempts, calls =>
    let calls := calls + 1
    if r = .connExpired then (r, attempts, calls) :: seqResends e checkCmd retryable rest attempts calls
    else if r ≠ .ok && e.retry && (!checkCmd || retryable) && isRetryable r (e.closed calls) (e.ctxDone calls) then
      if waitOrSkip (e.delay attempts 0) e.deadline then
        (r, attempts, calls) :: seqResends e checkCmd retryable rest (attempts + 1) calls
      else []
    else []

/-- `seqResends` is the re-send log of the model function the correspondence suite runs -/
theorem seq_sends_eq (e : Env) (cc rt : Bool) (script : List Err) (a c : Nat) :
    (seqDo e cc rt script a c).sends = 1 + (seqResends e cc rt script a c).length := by
  induction script generalizing a c with
  | nil => simp [seqDo, seqResends]
  | cons r rest ih =>
    unfold seqDo seqResends
    by_cases h1 : r = .connExpired
    · simp [h1, Out.resend, ih]; omega
    · simp only [h1, if_false]
      split
      · split
        · simp [Out.resend, ih]; omega
        · simp
      · simp

/-- **retry_requires, single / standalone / sentinel Do (checkCmd) and DoCache.** Every re-send that is
    not caused by errConnExpired happens only if retries are enabled, the command is read-only or
    marked retryable (Do), the reply was a transport error or LOADING, the client was not closed, the
    ctx was not done, and RetryDelay(attempts, cmd) was non-negative and passed the deadline check. -/
theorem seq_retry_requires (e : Env) (cc rt : Bool) (script : List Err) (a c : Nat)
    (r : Err) (a' c' : Nat) (h : (r, a', c') ∈ seqResends e cc rt script a c) (hx : r ≠ .connExpired) :
    e.retry = true ∧ (cc = true → rt = true) ∧ (r = .transport ∨ r = .loading) ∧
    e.closed c' = false ∧ e.ctxDone c' = false ∧ e.delay a' 0 ≥ 0 ∧
    waitOrSkip (e.delay a' 0) e.deadline = true := by
  induction script generalizing a c with
  | nil => simp [seqResends] at h
  | cons r0 rest ih =>
    unfold seqResends at h
    by_cases h1 : r0 = .connExpired
    · simp only [h1, if_true, List.mem_cons] at h
      rcases h with h | h
      · simp only [Prod.mk.injEq] at h; exact absurd h.1 hx
      · exact ih _ _ h
    · simp only [h1, if_false] at h
      split at h
      · rename_i hc
        split at h
        · rename_i hw
          simp only [List.mem_cons] at h
          rcases h with h | h
          · simp only [Prod.mk.injEq] at h
            obtain ⟨rfl, rfl, rfl⟩ := h
            simp only [Bool.and_eq_true, Bool.or_eq_true, Bool.not_eq_true', bne_iff_ne, ne_eq,
              decide_eq_true_eq] at hc
            obtain ⟨⟨⟨_, hre⟩, hcr⟩, hir⟩ := hc
            have := (is_retryable_iff _ _ _).1 hir
            refine ⟨hre, ?_, ?_, this.2.1, this.2.2, wait_or_skip_nonneg _ _ hw, hw⟩
            · intro hcc; rcases hcr with h | h
              · simp [hcc] at h
              · exact h
            · rcases this.1 with h | h | h
              · exact Or.inl h
              · exact absurd h hx
              · exact Or.inr h
          · exact ih _ _ h
        · simp at h
      · simp at h

/-- **disable_retry_disables** (single / standalone / sentinel Do, DoCache): with DisableRetry the only
    re-sends left are those after errConnExpired. -/
theorem seq_disable_retry_disables (e : Env) (cc rt : Bool) (script : List Err) (a c : Nat)
    (hd : e.retry = false) : ∀ t ∈ seqResends e cc rt script a c, t.1 = .connExpired := by
  intro ⟨r, a', c'⟩ ht
  by_cases hx : r = .connExpired
  · exact hx
  · have := (seq_retry_requires e cc rt script a c r a' c' ht hx).1
    simp [hd] at this

/-- a non-retryable command is never re-sent by Do except after errConnExpired -/
theorem seq_non_retryable_never_resent (e : Env) (script : List Err) (a c : Nat) :
    ∀ t ∈ seqResends e true false script a c, t.1 = .connExpired := by
  intro ⟨r, a', c'⟩ ht
  by_cases hx : r = .connExpired
  · exact hx
  · have := (seq_retry_requires e true false script a c r a' c' ht hx).2.1 rfl
    simp at this

/-- **plain_errors_returned** (Do / DoCache): an ordinary reply, a nil, an ordinary error reply or
    ErrDoCacheAborted is returned as it is after exactly one send, without asking RetryDelay. -/
theorem seq_plain_errors_returned (e : Env) (cc rt : Bool) (r : Err) (rest : List Err) (a c : Nat)
    (h : r = .ok ∨ r = .nil_ ∨ r = .plain ∨ r = .cacheAborted ∨ r = .tryAgain ∨ r = .clusterDown ∨
         r = .moved ∨ r = .ask) :
    seqDo e cc rt (r :: rest) a c = ⟨1, [], r⟩ := by
  unfold seqDo
  rcases h with h | h | h | h | h | h | h | h <;> subst h <;> simp [isRetryable, Err.isRedis]

/-! ### single / standalone / sentinel: DoMulti and DoMultiCache -/

/-- if the scan decides to retry, some member had a retryable error and its own RetryDelay passed -/
theorem scan_retry (e : Env) (attempts : Nat) (closed ctxDone : Bool) (rs : List Err) (i : Nat)
    (h : (scan e attempts closed ctxDone rs i).2 = true) :
    ∃ k r, rs[k]? = some r ∧ isRetryable r closed ctxDone = true ∧
      waitOrSkip (e.delay attempts (i + k)) e.deadline = true := by
  induction rs generalizing i with
  | nil => simp [scan] at h
  | cons r rest ih =>
    unfold scan at h
    by_cases h1 : isRetryable r closed ctxDone = true
    · simp only [h1, if_true] at h
      by_cases h2 : waitOrSkip (e.delay attempts i) e.deadline = true
      · exact ⟨0, r, by simp, h1, by simpa using h2⟩
      · simp only [h2] at h
        obtain ⟨k, r', hk, hr, hw⟩ := ih (i + 1) h
        exact ⟨k + 1, r', by simpa using hk, hr, by rw [show i + (k + 1) = i + 1 + k by omega]; exact hw⟩
    · simp only [h1] at h
      obtain ⟨k, r', hk, hr, hw⟩ := ih (i + 1) h
      exact ⟨k + 1, r', by simpa using hk, hr, by rw [show i + (k + 1) = i + 1 + k by omega]; exact hw⟩

/-- **retry_requires, single / standalone / sentinel DoMulti (checkCmd) and DoMultiCache.** The batch is
    handed to the connection a second time only if retries are enabled, EVERY member is read-only or
    marked retryable (DoMulti), and some member's reply was a transport error or LOADING for which
    RetryDelay(attempts, that member) was non-negative and passed the deadline check, with the client
    open and the ctx live. (The whole batch is re-sent, including members that succeeded.) -/
theorem seq_multi_retry_requires (e : Env) (cc allR : Bool) (fuel : Nat) (scripts : List (List Err)) (a c : Nat)
    (h : (seqMulti e cc allR (fuel + 1) scripts a c).rounds ≥ 2) :
    e.retry = true ∧ (cc = true → allR = true) ∧
    ∃ k r, (heads scripts)[k]? = some r ∧ (r = .transport ∨ r = .connExpired ∨ r = .loading) ∧
      e.closed (c + 1) = false ∧ e.ctxDone (c + 1) = false ∧ e.delay a k ≥ 0 ∧
      waitOrSkip (e.delay a k) e.deadline = true := by
  unfold seqMulti at h
  by_cases hc : (e.retry && (!cc || allR)) = true
  · simp only [hc, if_true] at h
    by_cases hs : (scan e a (e.closed (c + 1)) (e.ctxDone (c + 1)) (heads scripts) 0).2 = true
    · obtain ⟨k, r, hk, hr, hw⟩ := scan_retry e a _ _ _ 0 hs
      simp only [Bool.and_eq_true, Bool.or_eq_true, Bool.not_eq_true'] at hc
      have hi := (is_retryable_iff _ _ _).1 hr
      refine ⟨hc.1, ?_, k, r, hk, hi.1, hi.2.1, hi.2.2, ?_, ?_⟩
      · intro hcc; rcases hc.2 with h | h
        · simp [hcc] at h
        · exact h
      · simpa using wait_or_skip_nonneg _ _ hw
      · simpa using hw
    · have hs' : (scan e a (e.closed (c + 1)) (e.ctxDone (c + 1)) (heads scripts) 0).2 = false := by
        simpa using hs
      rw [show scan e a (e.closed (c + 1)) (e.ctxDone (c + 1)) (heads scripts) 0 =
        ((scan e a (e.closed (c + 1)) (e.ctxDone (c + 1)) (heads scripts) 0).1, false) from by
          rw [← hs']] at h
      simp at h
  · simp only [hc] at h
    simp at h

/-- **disable_retry_disables** (DoMulti / DoMultiCache): one round, replies returned as they are -/
theorem seq_multi_disable_retry_disables (e : Env) (cc allR : Bool) (fuel : Nat) (scripts : List (List Err))
    (a c : Nat) (hd : e.retry = false) :
    seqMulti e cc allR (fuel + 1) scripts a c = ⟨1, [], heads scripts⟩ := by
  unfold seqMulti; simp [hd]

/-- one non-retryable member keeps DoMulti from ever re-sending the batch -/
theorem seq_multi_needs_all_retryable (e : Env) (fuel : Nat) (scripts : List (List Err)) (a c : Nat) :
    seqMulti e true false (fuel + 1) scripts a c = ⟨1, [], heads scripts⟩ := by
  unfold seqMulti; simp

private theorem scan_plain (e : Env) (attempts : Nat) (closed ctxDone : Bool) (rs : List Err) (i : Nat)
    (h : ∀ r ∈ rs, isRetryable r closed ctxDone = false) : scan e attempts closed ctxDone rs i = ([], false) := by
  induction rs generalizing i with
  | nil => simp [scan]
  | cons r rest ih =>
    unfold scan
    have := h r (by simp)
    simp only [this]
    exact ih (i + 1) (fun r' hr' => h r' (by simp [hr']))

/-- **plain_errors_returned** (DoMulti / DoMultiCache): if no member's reply is a transport error or
    LOADING, the replies are returned as they are after one round, without asking RetryDelay. -/
theorem seq_multi_plain_errors_returned (e : Env) (cc allR : Bool) (fuel : Nat) (scripts : List (List Err))
    (a c : Nat) (h : ∀ r ∈ heads scripts, r ≠ .transport ∧ r ≠ .connExpired ∧ r ≠ .loading) :
    seqMulti e cc allR (fuel + 1) scripts a c = ⟨1, [], heads scripts⟩ := by
  unfold seqMulti
  have hs := scan_plain e a (e.closed (c + 1)) (e.ctxDone (c + 1)) (heads scripts) 0 (by
    intro r hr
    have := h r hr
    cases hb : isRetryable r (e.closed (c + 1)) (e.ctxDone (c + 1))
    · rfl
    · have := (is_retryable_iff _ _ _).1 hb; simp_all)
  split
  · simp [hs]
  · rfl

/-! ### cluster: do and doCache -/

/-- the replies after which `clDo` hands the command to a connection again -/
def clResends (e : Env) (checkCmd retryable : Bool) : List Err → (attempts calls : Nat) → List (Err × Nat × Nat)
  | [], _, _ => []
  | r :: rest, attempts, calls =>
    let calls := calls + 1
    if r = .connExpired then (r, attempts, calls) :: clResends e checkCmd retryable rest attempts calls
    else match refreshMode r (e.closed calls) (e.ctxDone calls) with
      | .move | .ask => (r, attempts, calls) :: clResends e checkCmd retryable rest attempts calls
      | .retry =>
        if e.retry && (!checkCmd || retryable) then
          if waitOrSkip (e.delay attempts 0) e.deadline then
            (r, attempts, calls) :: clResends e checkCmd retryable rest (attempts + 1) calls
          else []
        else []
      | .none => []

/-- `clResends` is the re-send log of the model function the correspondence suite runs -/
theorem cl_sends_eq (e : Env) (cc rt : Bool) (script : List Err) (a c : Nat) (node : Bool) :
    (clDo e cc rt script a c node).sends.length = 1 + (clResends e cc rt script a c).length := by
  induction script generalizing a c node with
  | nil => simp [clDo, clResends]
  | cons r rest ih =>
    unfold clDo clResends
    by_cases h1 : r = .connExpired
    · simp [h1, COut.cons, ih]; omega
    · simp only [h1, if_false]
      cases hm : refreshMode r (e.closed (c + 1)) (e.ctxDone (c + 1)) <;> simp only []
      · simp
      · simp [COut.cons, ih]; omega
      · simp [COut.cons, ih]; omega
      · split
        · split
          · simp [COut.cons, ih]; omega
          · simp
        · simp

/-- **retry_requires, cluster do (checkCmd) and doCache.** Every re-send that is neither a MOVED/ASK
    redirect nor caused by errConnExpired happens only if retries are enabled, the command is read-only
    or marked retryable (do), the client is open, the reply was LOADING / TRYAGAIN / CLUSTERDOWN or a
    transport error on a live ctx, and RetryDelay was non-negative and passed the deadline check.

    MISSING (as the code is): for the three error replies the loop does not look at the ctx — see
    `cluster_error_reply_retry_ignores_ctx`; the re-issued call then reaches pipe.Do, which returns
    ctx.Err() before writing (assumption of this property, pipe.go). -/
theorem cluster_retry_requires (e : Env) (cc rt : Bool) (script : List Err) (a c : Nat)
    (r : Err) (a' c' : Nat) (h : (r, a', c') ∈ clResends e cc rt script a c)
    (hx : r ≠ .connExpired) (hm : r ≠ .moved) (hk : r ≠ .ask) :
    e.retry = true ∧ (cc = true → rt = true) ∧ e.closed c' = false ∧
    (r = .loading ∨ r = .tryAgain ∨ r = .clusterDown ∨ (r = .transport ∧ e.ctxDone c' = false)) ∧
    e.delay a' 0 ≥ 0 ∧ waitOrSkip (e.delay a' 0) e.deadline = true := by
  induction script generalizing a c with
  | nil => simp [clResends] at h
  | cons r0 rest ih =>
    unfold clResends at h
    by_cases h1 : r0 = .connExpired
    · simp only [h1, if_true, List.mem_cons] at h
      rcases h with h | h
      · simp only [Prod.mk.injEq] at h; exact absurd h.1 hx
      · exact ih _ _ h
    · simp only [h1, if_false] at h
      cases hmode : refreshMode r0 (e.closed (c + 1)) (e.ctxDone (c + 1)) <;> simp only [hmode] at h
      · simp at h
      · simp only [List.mem_cons] at h
        rcases h with h | h
        · simp only [Prod.mk.injEq] at h
          obtain ⟨rfl, _, _⟩ := h
          have := (refresh_redirect_iff r _ _).1 (Or.inl hmode)
          rcases this.2 with h | h
          · exact absurd h hm
          · exact absurd h hk
        · exact ih _ _ h
      · simp only [List.mem_cons] at h
        rcases h with h | h
        · simp only [Prod.mk.injEq] at h
          obtain ⟨rfl, _, _⟩ := h
          have := (refresh_redirect_iff r _ _).1 (Or.inr hmode)
          rcases this.2 with h | h
          · exact absurd h hm
          · exact absurd h hk
        · exact ih _ _ h
      · split at h
        · rename_i hc
          split at h
          · rename_i hw
            simp only [List.mem_cons] at h
            rcases h with h | h
            · simp only [Prod.mk.injEq] at h
              obtain ⟨rfl, rfl, rfl⟩ := h
              simp only [Bool.and_eq_true, Bool.or_eq_true, Bool.not_eq_true'] at hc
              have hr := (refresh_retry_iff _ _ _).1 hmode
              refine ⟨hc.1, ?_, hr.1, ?_, wait_or_skip_nonneg _ _ hw, hw⟩
              · intro hcc; rcases hc.2 with h | h
                · simp [hcc] at h
                · exact h
              · rcases hr.2 with h | h | h | ⟨h | h, h2⟩
                · exact Or.inl h
                · exact Or.inr (Or.inl h)
                · exact Or.inr (Or.inr (Or.inl h))
                · exact Or.inr (Or.inr (Or.inr ⟨h, h2⟩))
                · exact absurd h hx
            · exact ih _ _ h
          · simp at h
        · simp at h

/-- as the code is: a LOADING reply is retried by the cluster loop although the ctx is already done
    (single/sentinel clients return it). The second call is made with the done ctx. -/
theorem cluster_error_reply_retry_ignores_ctx :
    let e : Env := ⟨true, fun _ _ => 0, none, some 1, none⟩
    (clDo e true true [.loading] 1 0 false).sends.length = 2 ∧
    (seqDo e true true [.loading] 1 0).sends = 1 := by decide

/-- **disable_retry_disables** (cluster do / doCache): only redirects and errConnExpired re-send -/
theorem cluster_disable_retry_disables (e : Env) (cc rt : Bool) (script : List Err) (a c : Nat)
    (hd : e.retry = false) :
    ∀ t ∈ clResends e cc rt script a c, t.1 = .connExpired ∨ t.1 = .moved ∨ t.1 = .ask := by
  intro ⟨r, a', c'⟩ ht
  by_cases hx : r = .connExpired
  · exact Or.inl hx
  · by_cases hm : r = .moved
    · exact Or.inr (Or.inl hm)
    · by_cases hk : r = .ask
      · exact Or.inr (Or.inr hk)
      · have := (cluster_retry_requires e cc rt script a c r a' c' ht hx hm hk).1
        simp [hd] at this

/-- **plain_errors_returned** (cluster do / doCache) -/
theorem cluster_plain_errors_returned (e : Env) (cc rt : Bool) (r : Err) (rest : List Err) (a c : Nat)
    (node : Bool) (h : r = .ok ∨ r = .nil_ ∨ r = .plain ∨ r = .cacheAborted) :
    clDo e cc rt (r :: rest) a c node = ⟨[node], [], r⟩ := by
  unfold clDo
  rcases h with h | h | h | h <;> subst h <;> simp [refreshMode]

/-- a command that is neither read-only nor marked retryable is never re-sent by cluster `do`,
    except after MOVED / ASK / errConnExpired -/
theorem cluster_non_retryable_never_resent (e : Env) (script : List Err) (a c : Nat) :
    ∀ t ∈ clResends e true false script a c, t.1 = .connExpired ∨ t.1 = .moved ∨ t.1 = .ask := by
  intro ⟨r, a', c'⟩ ht
  by_cases hx : r = .connExpired
  · exact Or.inl hx
  · by_cases hm : r = .moved
    · exact Or.inr (Or.inl hm)
    · by_cases hk : r = .ask
      · exact Or.inr (Or.inr hk)
      · have := (cluster_retry_requires e true false script a c r a' c' ht hx hm hk).2.1 rfl
        simp at this

private theorem clLabels_length (r : Option Nat) (l : List Bool) (i : Nat) (b : Bool) :
    (clLabels r l i b).length = l.length := by
  induction l generalizing i b with
  | nil => simp [clLabels]
  | cons x rest ih => simp [clLabels, ih]

/-- **the connection's membership in the topology never justifies a re-send.** Whatever connection call a
    topology refresh removes the command's node at (`retireAt`, any or none), the retry decisions of
    cluster `do` are the same: a refresh only changes WHERE a justified re-send goes (`N` instead of `H`),
    the number of sends stays 1 + the justified re-sends, and for a non-retryable command these are only
    MOVED / ASK / errConnExpired re-sends. (In particular a transport / ErrClosing error on a connection
    that a refresh retired does not make a write eligible for a second send.) -/
theorem cluster_retired_conn_gives_no_extra_send (e : Env) (retireAt : Option Nat) (cc rt : Bool)
    (script : List Err) (a c : Nat) :
    (clLabels retireAt (clDo e cc rt script a c false).sends 1 false).length =
      1 + (clResends e cc rt script a c).length ∧
    (cc = true → rt = false → ∀ t ∈ clResends e cc rt script a c,
      t.1 = .connExpired ∨ t.1 = .moved ∨ t.1 = .ask) := by
  refine ⟨by rw [clLabels_length, cl_sends_eq], ?_⟩
  intro hcc hrt
  subst hcc; subst hrt
  exact cluster_non_retryable_never_resent e script a c

/-- `clusterClient.Nodes()`: the per-node client retries iff the cluster client does (`!DisableRetry`),
    and carries `DisableCache` unchanged — the two flags are not interchangeable -/
theorem node_client_flags (disableRetry disableCache : Bool) :
    nodeClientFlags disableRetry disableCache = (!disableRetry, disableCache) ∧
    nodeClientUsesCacheCalls disableRetry disableCache = !disableCache := ⟨rfl, rfl⟩

/-- **disable_retry_disables for per-node clients**: with DisableRetry, whatever DisableCache is, a command
    sent through `Nodes()[addr]` is never re-sent except after errConnExpired -/
theorem node_client_disable_retry_disables (e : Env) (dc cc rt : Bool) (script : List Err) (a c : Nat)
    (he : e.retry = (nodeClientFlags true dc).1) :
    ∀ t ∈ seqResends e cc rt script a c, t.1 = .connExpired :=
  seq_disable_retry_disables e cc rt script a c (by rw [he]; rfl)

/-! ### cluster: DoMulti and DoMultiCache -/

/-- why member `p'` is in the map of the next round: it was there already, or member `p` got reply `r`
    which was a redirect, or a retryable failure of a retryable command with retries enabled and a
    NON-NEGATIVE RetryDelay -/
def Requeued (e : Env) (checkCmd : Bool) (retryable : Nat → Bool) (attempts : Nat) (closed ctxDone : Bool)
    (p' p : Pending) (r : Err) : Prop :=
  p'.idx = p.idx ∧
  (((r = .moved ∨ r = .ask) ∧ closed = false ∧ p'.node = !p.node) ∨
   (refreshMode r closed ctxDone = .retry ∧ e.retry = true ∧ (checkCmd = true → retryable p.idx = true) ∧
    e.delay attempts p.idx ≥ 0 ∧ p'.node = p.node))

/-- **retry_requires, cluster DoMulti (checkCmd) / DoMultiCache, per member, repaired code.** -/
theorem cluster_multi_member_retry_requires (e : Env) (cc : Bool) (rt : Nat → Bool) (a : Nat)
    (closed cd : Bool) (st : Round) (p : Pending) (r : Err) (p' : Pending)
    (h : p' ∈ (resultOne true e cc rt a closed cd st p r).next) :
    p' ∈ st.next ∨ Requeued e cc rt a closed cd p' p r := by
  unfold resultOne at h
  cases hm : refreshMode r closed cd <;> simp only [hm] at h
  · exact Or.inl h
  · simp only [List.mem_append, List.mem_singleton] at h
    rcases h with h | h
    · exact Or.inl h
    · right
      have := (refresh_redirect_iff r closed cd).1 (Or.inl hm)
      subst h
      exact ⟨rfl, Or.inl ⟨this.2, this.1, rfl⟩⟩
  · simp only [List.mem_append, List.mem_singleton] at h
    rcases h with h | h
    · exact Or.inl h
    · right
      have := (refresh_redirect_iff r closed cd).1 (Or.inr hm)
      subst h
      exact ⟨rfl, Or.inl ⟨this.2, this.1, rfl⟩⟩
  · split at h
    · exact Or.inl h
    · rename_i hc
      simp only [Bool.or_eq_true, Bool.not_eq_true', Bool.and_eq_true, not_or, not_and,
        Bool.not_eq_false] at hc
      split at h
      · exact Or.inl h
      · rename_i hd
        simp only [Bool.true_and, decide_eq_true_eq] at hd
        simp only [List.mem_append, List.mem_singleton] at h
        rcases h with h | h
        · exact Or.inl h
        · right
          subst h
          refine ⟨rfl, Or.inr ⟨hm, by simpa using hc.1, ?_, by omega, rfl⟩⟩
          intro hcc
          have := hc.2 hcc
          simpa using this

/-- …lifted to a whole round: every member queued for the next round is justified by the reply some
    member of this round received -/
theorem cluster_multi_round_retry_requires (e : Env) (cc : Bool) (rt : Nat → Bool) (a : Nat)
    (closed cd : Bool) (pend : List Pending) (scripts : List (List Err)) (st : Round) (p' : Pending)
    (h : p' ∈ (roundFold true e cc rt a closed cd pend scripts st).1.next) :
    p' ∈ st.next ∨ ∃ p ∈ pend, ∃ r, Requeued e cc rt a closed cd p' p r := by
  induction pend generalizing scripts st with
  | nil => exact Or.inl (by simpa [roundFold] using h)
  | cons p ps ih =>
    unfold roundFold at h
    rcases ih _ _ h with h1 | ⟨q, hq, r, hr⟩
    · rcases cluster_multi_member_retry_requires e cc rt a closed cd st p _ p' h1 with h2 | h2
      · exact Or.inl h2
      · exact Or.inr ⟨p, by simp, _, h2⟩
    · exact Or.inr ⟨q, by simp [hq], r, hr⟩

/-- the code BEFORE the repair (`fixed = false`): the per-member statement is false. Witness: a
    two-command batch, command 0 answers MOVED, command 1 (read-only) fails with a transport error and
    its RetryDelay is −1 — command 1 is queued again and sent a second time in the redirect round. -/
theorem cluster_multi_unrepaired_resends_negative_delay :
    let e : Env := ⟨true, fun _ i => if i = 1 then -1 else 0, none, none, none⟩
    (((clMulti false e true (fun _ => true) false false 5 [⟨0, false⟩, ⟨1, false⟩]
        [[.moved], [.transport]] 1).flatten.filter fun ev => ev.1 == 1).length = 2) ∧
    ¬ (∀ (st : Round) (p : Pending) (r : Err) (p' : Pending),
        p' ∈ (resultOne false e true (fun _ => true) 1 false false st p r).next →
        p' ∈ st.next ∨ Requeued e true (fun _ => true) 1 false false p' p r) := by
  refine ⟨by decide, ?_⟩
  intro h
  rcases h {} ⟨1, false⟩ .transport ⟨1, false⟩ (by decide) with h | ⟨_, h | h⟩
  · simp at h
  · simp at h
  · simp at h

/-- the repaired code on the same witness: command 1 is sent once, its transport error is returned -/
theorem cluster_multi_repaired_witness :
    let e : Env := ⟨true, fun _ i => if i = 1 then -1 else 0, none, none, none⟩
    let run := clMulti true e true (fun _ => true) false false 5 [⟨0, false⟩, ⟨1, false⟩]
      [[.moved], [.transport]] 1
    (run.flatten.filter fun ev => ev.1 == 1).length = 1 ∧
    (run.flatten.filter fun ev => ev.1 == 0).length = 2 := by decide

/-- **disable_retry_disables** (cluster DoMulti / DoMultiCache): only redirects queue a member again -/
theorem cluster_multi_disable_retry_disables (e : Env) (cc : Bool) (rt : Nat → Bool) (a : Nat)
    (closed cd : Bool) (st : Round) (p : Pending) (r : Err) (p' : Pending) (fixed : Bool)
    (hd : e.retry = false) (h : p' ∈ (resultOne fixed e cc rt a closed cd st p r).next) :
    p' ∈ st.next ∨ ((r = .moved ∨ r = .ask) ∧ p' = ⟨p.idx, !p.node⟩) := by
  unfold resultOne at h
  cases hm : refreshMode r closed cd <;> simp only [hm, hd] at h
  · exact Or.inl h
  · simp only [List.mem_append, List.mem_singleton] at h
    rcases h with h | h
    · exact Or.inl h
    · exact Or.inr ⟨((refresh_redirect_iff r closed cd).1 (Or.inl hm)).2, h⟩
  · simp only [List.mem_append, List.mem_singleton] at h
    rcases h with h | h
    · exact Or.inl h
    · exact Or.inr ⟨((refresh_redirect_iff r closed cd).1 (Or.inr hm)).2, h⟩
  · simp at h; exact Or.inl h

/-- **plain_errors_returned** (cluster DoMulti / DoMultiCache): an ordinary reply, nil, ordinary error or
    ErrDoCacheAborted queues nothing and asks no RetryDelay -/
theorem cluster_multi_plain_errors_returned (e : Env) (cc : Bool) (rt : Nat → Bool) (a : Nat)
    (closed cd : Bool) (st : Round) (p : Pending) (r : Err) (fixed : Bool)
    (h : r = .ok ∨ r = .nil_ ∨ r = .plain ∨ r = .cacheAborted) :
    resultOne fixed e cc rt a closed cd st p r = { st with events := st.events ++ [(p.idx, p.node, r, none)] } := by
  unfold resultOne
  rcases h with h | h | h | h <;> subst h <;> simp [refreshMode]

/-! ### non-vacuity -/

example : (seqDo ⟨true, fun _ _ => 0, none, none, none⟩ true true [.transport, .loading, .plain] 1 0) =
    ⟨3, [1, 2], .plain⟩ := by decide
example : (seqDo ⟨true, fun a _ => if a = 2 then -1 else 0, none, none, none⟩ true true
    [.transport, .loading, .plain] 1 0) = ⟨2, [1, 2], .loading⟩ := by decide
example : (seqDo ⟨true, fun _ _ => 0, none, none, none⟩ true false [.transport] 1 0) = ⟨1, [], .transport⟩ := by
  decide
example : (seqDo ⟨true, fun _ _ => 0, none, some 1, none⟩ true true [.transport, .ok] 1 0) =
    ⟨1, [], .transport⟩ := by decide
example : (seqDo ⟨true, fun _ _ => 7200, some 3600, none, none⟩ true true [.transport] 1 0) =
    ⟨1, [1], .transport⟩ := by decide
example : (clDo ⟨true, fun _ _ => 0, none, none, none⟩ true true [.moved, .tryAgain, .ok] 1 0 false).sends =
    [false, true, false] := by decide
example : (seqMulti ⟨true, fun _ i => if i = 0 then -1 else 0, none, none, none⟩ true true 4
    [[.transport], [.transport]] 1 0).rounds = 2 := by decide

end Rv.C28
