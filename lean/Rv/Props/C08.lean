/-
C08 — distinct cacheable commands never share a cache entry.
Model: Rv/Model/CacheKey.lean (cmds.CacheKey / MGetCacheCmd / MGetCacheKey, adapter address key++cmd).

The full statement is FALSE on the unchanged tree (the derived command is the plain concatenation
of the tokens, without separators or lengths): the negations are proved below with concrete
witnesses; what does hold is proved as `…_partial` theorems.
-/
import Rv.Model.CacheKey
namespace Rv.C08
open Rv Rv.CacheKey

abbrev Argv := List (List UInt8)

/-- position of the key the code uses for an argv -/
def kpOf (scrRo : Bool) (s : Argv) : Nat := if s.length = 2 then 1 else if scrRo then 3 else 1

/-- whenever `CacheKey` returns, it returns the token at `kpOf` and the concatenation of the others -/
theorem cacheKey_ok (scrRo : Bool) (s : Argv) (r : List UInt8 × List UInt8) (h : cacheKey scrRo s = .ok r) :
    r = (keyOf (kpOf scrRo s) s, cmdOf (kpOf scrRo s) s) := by
  match s, h with
  | [], h => cases scrRo <;> simp [cacheKey] at h; simp [kpOf, h]
  | [a], h => cases scrRo <;> simp [cacheKey] at h; simp [kpOf, h]
  | [a, c], h =>
    simp only [cacheKey, Res.ok.injEq] at h
    subst h; simp [kpOf, keyOf, cmdOf]
  | a :: c :: d :: t, h =>
    cases scrRo
    · simp only [cacheKey, Bool.false_eq_true, if_false, Res.ok.injEq] at h
      subst h; simp [kpOf]
    · simp only [cacheKey, if_true] at h
      simp only [List.getElem?_cons_succ, List.getElem?_cons_zero] at h
      split at h
      · simp only [Res.ok.injEq] at h; subst h; simp [kpOf]
      · cases h

/-! ### the full statement, and why it is false -/

/-- **full statement** for the built-in store (entries addressed by the pair `CacheKey` returns):
    two cacheable commands (at least a command token and a key) with the same cache identity are the
    same command -/
def CacheKeyInjective : Prop :=
  ∀ (scr scr' : Bool) (s s' : Argv) (r : List UInt8 × List UInt8), 2 ≤ s.length → 2 ≤ s'.length →
    cacheKey scr s = .ok r → cacheKey scr' s' = .ok r → s = s'

/-- **full statement** for NewSimpleCacheAdapter stores (entries addressed by `key ++ cmd`) -/
def AdapterAddrInjective : Prop :=
  ∀ (scr scr' : Bool) (s s' : Argv) (k c k' c' : List UInt8), 2 ≤ s.length → 2 ≤ s'.length →
    cacheKey scr s = .ok (k, c) → cacheKey scr' s' = .ok (k', c') → adapterAddr k c = adapterAddr k' c' → s = s'

/-- witness 1 (digit/boundary split between adjacent arguments):
    `GETRANGE k 1 23` and `GETRANGE k 12 3` are both ("k", "GETRANGE123") -/
theorem collision_getrange :
    cacheKey false [b "GETRANGE", b "k", b "1", b "23"] = .ok (b "k", b "GETRANGE123") ∧
    cacheKey false [b "GETRANGE", b "k", b "12", b "3"] = .ok (b "k", b "GETRANGE123") ∧
    [b "GETRANGE", b "k", b "1", b "23"] ≠ [b "GETRANGE", b "k", b "12", b "3"] := by
  refine ⟨rfl, rfl, by decide⟩

/-- witness 2 (command token / argument merge): `HGET k ALL` and `HGETALL k` are both ("k", "HGETALL") -/
theorem collision_hget_all :
    cacheKey false [b "HGET", b "k", b "ALL"] = .ok (b "k", b "HGETALL") ∧
    cacheKey false [b "HGETALL", b "k"] = .ok (b "k", b "HGETALL") ∧
    [b "HGET", b "k", b "ALL"] ≠ [b "HGETALL", b "k"] := by
  refine ⟨rfl, rfl, by decide⟩

/-- witness 3 (adapter key/command boundary): `HGET x GET` is ("x", "HGETGET"), `GET xHGET` is
    ("xHGET", "GET") — different identities, the same adapter address "xHGETGET" -/
theorem collision_adapter :
    cacheKey false [b "HGET", b "x", b "GET"] = .ok (b "x", b "HGETGET") ∧
    cacheKey false [b "GET", b "xHGET"] = .ok (b "xHGET", b "GET") ∧
    (b "x", b "HGETGET") ≠ (b "xHGET", b "GET") ∧
    adapterAddr (b "x") (b "HGETGET") = adapterAddr (b "xHGET") (b "GET") := by
  refine ⟨rfl, rfl, by decide, by decide⟩

/-- witness 4: the same boundary split exists for read-only scripts (key at position 3):
    `EVAL_RO x1 1 k` and `EVAL_RO x 1 k 1` are both ("k", "EVAL_ROx11") -/
theorem collision_script :
    cacheKey true [b "EVAL_RO", b "x1", b "1", b "k"] = .ok (b "k", b "EVAL_ROx11") ∧
    cacheKey true [b "EVAL_RO", b "x", b "1", b "k", b "1"] = .ok (b "k", b "EVAL_ROx11") := by
  exact ⟨rfl, rfl⟩

/-- the full statement does not hold for the code as it is -/
theorem cacheKey_not_injective : ¬ CacheKeyInjective := by
  intro h
  obtain ⟨h1, h2, hne⟩ := collision_getrange
  exact hne (h false false _ _ _ (by decide) (by decide) h1 h2)

/-- … and neither does it for adapter stores, even for commands whose identities differ -/
theorem adapter_not_injective : ¬ AdapterAddrInjective := by
  intro h
  obtain ⟨h1, h2, _, ha⟩ := collision_adapter
  have := h false false _ _ _ _ _ _ (by decide) (by decide) h1 h2 ha
  revert this; decide

/-! ### what does hold -/

private theorem flatten_inj (xs ys : Argv) (hl : xs.map List.length = ys.map List.length)
    (hf : xs.flatten = ys.flatten) : xs = ys := by
  induction xs generalizing ys with
  | nil => cases ys with
    | nil => rfl
    | cons y ys => simp at hl
  | cons x xs ih => cases ys with
    | nil => simp at hl
    | cons y ys =>
      simp only [List.map_cons, List.cons.injEq] at hl
      simp only [List.flatten_cons] at hf
      obtain ⟨h1, h2⟩ := List.append_inj hf hl.1
      rw [h1, ih ys hl.2 h2]

private theorem eraseIdx_getD_inj (k : Nat) : ∀ (s s' : Argv), s.length = s'.length →
    s.eraseIdx k = s'.eraseIdx k → s.getD k [] = s'.getD k [] → s = s' := by
  induction k with
  | zero =>
    intro s s' hl he hg
    cases s <;> cases s' <;> simp_all
  | succ k ih =>
    intro s s' hl he hg
    cases s with
    | nil => cases s' with
      | nil => rfl
      | cons y ys => simp at hl
    | cons x xs => cases s' with
      | nil => simp at hl
      | cons y ys =>
        simp only [List.eraseIdx_cons_succ, List.cons.injEq] at he
        simp only [List.getD_cons_succ] at hg
        simp only [List.length_cons, Nat.add_right_cancel_iff] at hl
        rw [he.1, ih xs ys hl he.2 hg]

private theorem map_length_eraseIdx (k : Nat) (s s' : Argv) (h : s.map List.length = s'.map List.length) :
    (s.eraseIdx k).map List.length = (s'.eraseIdx k).map List.length := by
  induction k generalizing s s' with
  | zero => cases s <;> cases s' <;> simp_all
  | succ k ih =>
    cases s with
    | nil => cases s' with
      | nil => rfl
      | cons y ys => simp at h
    | cons x xs => cases s' with
      | nil => simp at h
      | cons y ys =>
        simp only [List.map_cons, List.cons.injEq] at h
        simp only [List.eraseIdx_cons_succ, List.map_cons, h.1, ih xs ys h.2]

/-- **partial 1 (fixed-width arguments).** Two commands of the same kind whose corresponding tokens
    have equal lengths (e.g. the same command with fixed-width arguments, or any two commands that
    differ only in the *content* of tokens) never share a cache identity: no token boundary can move. -/
theorem cacheKey_injective_partial (scr : Bool) (s s' : Argv) (r : List UInt8 × List UInt8)
    (hl : s.map List.length = s'.map List.length)
    (h : cacheKey scr s = .ok r) (h' : cacheKey scr s' = .ok r) : s = s' := by
  have hlen : s.length = s'.length := by simpa using congrArg List.length hl
  have e := cacheKey_ok scr s r h
  have e' := cacheKey_ok scr s' r h'
  have hkp : kpOf scr s' = kpOf scr s := by simp [kpOf, hlen]
  rw [hkp] at e'
  rw [e] at e'
  simp only [Prod.mk.injEq, keyOf, cmdOf] at e'
  exact eraseIdx_getD_inj _ s s' hlen
    (flatten_inj _ _ (map_length_eraseIdx _ s s' hl) e'.2) e'.1

/-- **partial 2 (single differing token).** Two commands of the same kind that differ in at most one
    token — command name, key, or any one argument, of any lengths — never share a cache identity. -/
theorem cacheKey_injective_one_token_partial (scr : Bool) (pre post : Argv) (x y : List UInt8)
    (r : List UInt8 × List UInt8)
    (h : cacheKey scr (pre ++ x :: post) = .ok r) (h' : cacheKey scr (pre ++ y :: post) = .ok r) : x = y := by
  have e := cacheKey_ok scr _ r h
  have e' := cacheKey_ok scr _ r h'
  have hkp : kpOf scr (pre ++ y :: post) = kpOf scr (pre ++ x :: post) := by simp [kpOf]
  rw [hkp, e] at e'
  generalize kpOf scr (pre ++ x :: post) = kp at e'
  simp only [Prod.mk.injEq, keyOf, cmdOf] at e'
  obtain ⟨hk, hc⟩ := e'
  rcases Nat.lt_trichotomy kp pre.length with hlt | heq | hgt
  · rw [List.eraseIdx_append_of_lt_length hlt, List.eraseIdx_append_of_lt_length hlt] at hc
    simp only [List.flatten_append, List.flatten_cons] at hc
    exact List.append_cancel_right (List.append_cancel_left hc)
  · subst heq
    simpa using hk
  · rw [List.eraseIdx_append_of_length_le (by omega), List.eraseIdx_append_of_length_le (by omega)] at hc
    obtain ⟨j, hj⟩ : ∃ j, kp - pre.length = j + 1 := ⟨kp - pre.length - 1, by omega⟩
    rw [hj] at hc
    simp only [List.eraseIdx_cons_succ, List.flatten_append, List.flatten_cons] at hc
    exact List.append_cancel_right (List.append_cancel_left hc)

/-- **partial 3 (two-token commands).** Among commands of the form `CMD key` the identity is exact. -/
theorem cacheKey_injective_two_token_partial (scr scr' : Bool) (c k c' k' : List UInt8)
    (h : cacheKey scr [c, k] = cacheKey scr' [c', k']) : [c, k] = [c', k'] := by
  simp only [cacheKey, Res.ok.injEq, Prod.mk.injEq] at h
  rw [h.1, h.2]

/-- **partial 4 (keys are kept apart in the built-in store).** Plain commands with different keys
    never share an LRU entry: the key component of the identity is the key token itself. -/
theorem cacheKey_key_exact_partial (s s' : Argv) (r : List UInt8 × List UInt8) (h2 : 2 ≤ s.length) (h2' : 2 ≤ s'.length)
    (h : cacheKey false s = .ok r) (h' : cacheKey false s' = .ok r) : s[1]? = s'[1]? := by
  have e := cacheKey_ok false s r h
  have e' := cacheKey_ok false s' r h'
  rw [e] at e'
  have k1 : kpOf false s = 1 := by simp [kpOf]
  have k1' : kpOf false s' = 1 := by simp [kpOf]
  rw [k1, k1'] at e'
  simp only [Prod.mk.injEq, keyOf] at e'
  match s, s', h2, h2', e'.1 with
  | _ :: k :: _, _ :: k' :: _, _, _, hk => simpa using hk

/-- **partial 5 (adapter, same key length).** For adapter stores, two identities whose keys have the
    same length (in particular: the same key) address different entries unless they are equal. -/
theorem adapter_addr_injective_partial (k c k' c' : List UInt8) (hl : k.length = k'.length)
    (h : adapterAddr k c = adapterAddr k' c') : (k, c) = (k', c') := by
  obtain ⟨h1, h2⟩ := List.append_inj h hl
  rw [h1, h2]

/-! ### MGET / JSON.MGET: per-key entries -/

private theorem mgetCacheCmd_json (rest : Argv) :
    mgetCacheCmd (b "JSON.MGET" :: rest) = .ok (b "JSON.GET" ++ (b "JSON.MGET" :: rest).getLast?.getD []) := rfl

private theorem getLast_snoc (x : List UInt8) (keys : Argv) (p : List UInt8) :
    (x :: (keys ++ [p])).getLast?.getD [] = p := by
  rw [← List.cons_append, List.getLast?_concat]; rfl

/-- the entry of key `i` of `MGET k₀ … kₙ` is exactly the entry of `GET kᵢ` (shared on purpose) -/
theorem mget_entry_is_get_entry (keys : Argv) (i : Nat) (hi : i < keys.length) :
    mgetCacheCmd (b "MGET" :: keys) = .ok (b "GET") ∧
    mgetCacheKey (b "MGET" :: keys) i = .ok keys[i] ∧
    cacheKey false [b "GET", keys[i]] = .ok (keys[i], b "GET") := by
  refine ⟨rfl, ?_, rfl⟩
  simp [mgetCacheKey, List.getElem?_eq_getElem hi]

/-- the entry of key `i` of `JSON.MGET k₀ … kₙ path` is exactly the entry of `JSON.GET kᵢ path` -/
theorem json_mget_entry_is_json_get_entry (keys : Argv) (path : List UInt8) (i : Nat) (hi : i < keys.length) :
    mgetCacheCmd (b "JSON.MGET" :: (keys ++ [path])) = .ok (b "JSON.GET" ++ path) ∧
    mgetCacheKey (b "JSON.MGET" :: (keys ++ [path])) i = .ok keys[i] ∧
    cacheKey false [b "JSON.GET", keys[i], path] = .ok (keys[i], b "JSON.GET" ++ path) := by
  refine ⟨?_, ?_, ?_⟩
  · rw [mgetCacheCmd_json, getLast_snoc]
  · simp [mgetCacheKey, List.getElem?_append_left hi, List.getElem?_eq_getElem hi]
  · simp [cacheKey, keyOf, cmdOf]

/-- different JSON paths give different per-key commands, and MGET entries are never JSON.MGET entries -/
theorem mget_cache_cmd_injective (keys keys' : Argv) (p p' : List UInt8)
    (h : mgetCacheCmd (b "JSON.MGET" :: (keys ++ [p])) = mgetCacheCmd (b "JSON.MGET" :: (keys' ++ [p']))) : p = p' := by
  rw [mgetCacheCmd_json, mgetCacheCmd_json, getLast_snoc, getLast_snoc] at h
  simpa using h

theorem mget_cmd_ne_json_mget_cmd (p : List UInt8) : b "GET" ≠ b "JSON.GET" ++ p := by
  have h1 : b "GET" = 71 :: b "ET" := by decide
  have h2 : b "JSON.GET" = 74 :: b "SON.GET" := by decide
  rw [h1, h2]; simp

end Rv.C08
