/-
C09 — concurrent cache misses on one connection share one request (store-level part).
Model: Rv/Model/Lru.lean. A caller is "told to send" iff `Flight`/`Flights` answers `send`;
"the same pending entry" is the entry id (`nextId` at creation); what waiters receive is the
log `done` of closed channels (`Wait` returns `e.val, e.err` once `e.ch` is closed).
The pipe-level part (DoCache abort paths, reader commit order) lives in other suites.
-/
import Rv.Lemmas.LruPending
import Rv.Lemmas.AdapterPending
import Rv.Lemmas.CachePipeFlight
namespace Rv.C09
open Rv.Lru

/-- the pending entry of (k, c) in an invariant state is what every lookup of (k, c) waits on -/
private theorem wait_on_pending {s : State} (hi : Inv s) {x : Entry} (hx : x ∈ s.list) (hp : x.pend = true)
    (ttl now : Int) : (flight s x.key x.cmd ttl now).2 = .wait x.id ∧
      (locked s x.key x.cmd ttl now).2 = .wait x.id := by
  have hfind := find?_of_mem hi.nodup hx
  have key : ∀ s' r, Outcome4 s x.key x.cmd ttl now s' r → r = .wait x.id := by
    intro s' r o
    cases o with
    | closed hc hs hr => have := hi.closedNil hc; rw [this] at hx; cases hx
    | found e hc hf hv hr hl hsz hn fr =>
      rw [hf] at hfind; cases hfind; rw [hr]; simp [resOf, hp]
    | expired e hc hf hv hr hl hsz hn fr =>
      rw [hf] at hfind; cases hfind; simp [valid, hp] at hv
    | absent hc hf hr hl hsz hn fr => rw [hf] at hfind; cases hfind
  exact ⟨key _ _ (flight_cases _ _ _ _ _), key _ _ (locked_cases _ _ _ _ _)⟩

private theorem send_creates {s : State} (hopen : s.closed = false) (k c : Bytes) (ttl t0 : Int)
    (hsend : (flight s k c ttl t0).2 = .send) : newEntry s k c ttl t0 ∈ (flight s k c ttl t0).1.list := by
  have o := flight_cases s k c ttl t0
  cases o with
  | closed hc hs hr => rw [hc] at hopen; cases hopen
  | found e hc hf hv hr hl hsz hn fr =>
    rw [hr] at hsend; unfold resOf at hsend; split at hsend <;> cases hsend
  | expired e hc hf hv hr hl hsz hn fr => rw [hl]; simp
  | absent hc hf hr hl hsz hn fr => rw [hl]; simp

/-- **Single flight.** If a `Flight` of (k, c) on an open store was told to send (this creates the pending entry
    with id `s.nextId`), then after any operations that are not the `Update`/`Cancel` of (k, c) nor `Close`, every
    further `Flight` of (k, c) — with any TTL, at any time — is answered "wait on that same entry": it is not told
    to send and gets no hit. -/
theorem single_flight {s : State} (hi : Inv s) (hopen : s.closed = false) (k c : Bytes) (ttl t0 : Int)
    (hsend : (flight s k c ttl t0).2 = .send) (ops : List Op) (hno : ∀ op ∈ ops, op.resolves k c = false)
    (ttl' now' : Int) :
    (flight (run (flight s k c ttl t0).1 ops) k c ttl' now').2 = .wait s.nextId := by
  have hi1 := inv_flight hi k c ttl t0
  have hmem := pending_persists_run hi1 (send_creates hopen k c ttl t0 hsend) rfl ops (by simpa [newEntry] using hno)
  have := (wait_on_pending (inv_run hi1 ops) hmem rfl ttl' now').1
  simpa [newEntry] using this

/-- the same for a lookup made through one round of the second loop of `Flights` (`locked`), e.g. a duplicate of
    (k, c) later in the same batch or in a later `DoMultiCache` -/
theorem single_flight_batch {s : State} (hi : Inv s) (hopen : s.closed = false) (k c : Bytes) (ttl t0 : Int)
    (hsend : (flight s k c ttl t0).2 = .send) (ops : List Op) (hno : ∀ op ∈ ops, op.resolves k c = false)
    (ttl' now' : Int) :
    (locked (run (flight s k c ttl t0).1 ops) k c ttl' now').2 = .wait s.nextId := by
  have hi1 := inv_flight hi k c ttl t0
  have hmem := pending_persists_run hi1 (send_creates hopen k c ttl t0 hsend) rfl ops (by simpa [newEntry] using hno)
  have := (wait_on_pending (inv_run hi1 ops) hmem rfl ttl' now').2
  simpa [newEntry] using this

/-- in any state reached from a fresh store: at most one entry per (key, cmd), so at most one request in flight -/
theorem at_most_one_pending (mx base : Int) (ops : List Op) (x y : Entry)
    (hx : x ∈ (run (Lru.init mx base) ops).list) (hy : y ∈ (run (Lru.init mx base) ops).list)
    (hk : x.key = y.key) (hc : x.cmd = y.cmd) : x = y :=
  (inv_run (inv_init mx base) ops).nodup.eq_of_sameKC hx hy ⟨hk, hc⟩

/-- **Waiters get the result.** The `Update` of a pending entry closes its channel with exactly the reply and the
    expiry that `Update` returns (what later hits will see as well). -/
theorem waiters_get_result {s : State} (k c : Bytes) (v : Nat) (vsz raw : Int) (e : Entry)
    (hopen : s.closed = false) (hf : find? s.list k c = some e) (hp : e.pend = true) :
    (update s k c v vsz raw).1.done = s.done ++ [(e.id, .val v (update s k c v vsz raw).2)] := by
  have u := update_cases s k c v vsz raw
  cases u with
  | closed hc hs hp' => rw [hc] at hopen; cases hopen
  | absent hc hf' hs hp' => rw [hf'] at hf; cases hf
  | fill e' hc hf' hpend hp' hl hsz hd hcl hmx hn => rw [hf'] at hf; cases hf; exact hd
  | stale e' hc hf' hpend hp' hl hsz hd hcl hmx hn => rw [hf'] at hf; cases hf; rw [hp] at hpend; cases hpend

/-- `Cancel` of a pending entry wakes its waiters with the error -/
theorem waiters_get_error_cancel {s : State} (k c : Bytes) (err : Nat) (e : Entry)
    (hopen : s.closed = false) (hf : find? s.list k c = some e) (hp : e.pend = true) :
    (cancel s k c err).done = s.done ++ [(e.id, .err err)] := by
  simp [cancel, hopen, hf, hp, gcHits]

/-- `Close` wakes the waiters of every pending entry with the error, and only those -/
theorem waiters_get_error_close (s : State) (err : Nat) :
    (close s err).done = s.done ++ ((s.list.filter (·.pend)).map fun e => (e.id, Outcome.err err)) := rfl

/-- a completed or absent entry is not touched by `Cancel` (no waiter is woken twice) -/
theorem cancel_only_pending {s : State} (k c : Bytes) (err : Nat)
    (h : ∀ e, find? s.list k c = some e → e.pend = false) : cancel s k c err = s := by
  unfold cancel
  split
  · rfl
  · split
    · rfl
    · rename_i e hf; simp [h e hf]

/-- **Errors are not cached.** After the `Cancel` of a pending (k, c) nothing is stored for it: the next `Flight`
    is told to send again, whatever the time and TTL. -/
theorem error_not_cached {s : State} (hi : Inv s) (k c : Bytes) (err : Nat) (e : Entry)
    (hopen : s.closed = false) (hf : find? s.list k c = some e) (hp : e.pend = true) (ttl now : Int) :
    (flight (cancel s k c err) k c ttl now).2 = .send := by
  have hf' := find?_some hf
  have hnone : find? (cancel s k c err).list k c = none := by
    have hl : (cancel s k c err).list = s.list.erase e := by simp [cancel, hopen, hf, hp, gcHits]
    rw [hl]
    cases hx : find? (s.list.erase e) k c with
    | none => rfl
    | some x =>
      have := find?_some hx
      exact absurd ⟨this.2.1.trans hf'.2.1.symm, this.2.2.trans hf'.2.2.symm⟩
        (mem_erase_not_sameKC hi.nodup hf'.1 this.1)
  have o := flight_cases (cancel s k c err) k c ttl now
  cases o with
  | closed hc hs hr => exact hr
  | found e' hc hf'' hv hr hl hsz hn fr => rw [hnone] at hf''; cases hf''
  | expired e' hc hf'' hv hr hl hsz hn fr => exact hr
  | absent hc hf'' hr hl hsz hn fr => exact hr

/-- after `Close` nothing is served and nobody is made to wait: every lookup is told to send (the pipe is dead and
    fails the request), for ever -/
theorem closed_store_only_sends (s : State) (err : Nat) (ops : List Op) (k c : Bytes) (ttl now : Int) :
    (flight (run (close s err) ops) k c ttl now).2 = .send := by
  have hcl : ∀ (s : State), s.closed = true → ∀ op, (step s op).1.closed = true := by
    intro s hc op
    cases op with
    | flight k c ttl now =>
      have o := flight_cases s k c ttl now
      cases o with
      | closed hc' hs hr => simp only [step]; rw [hs]; exact hc
      | found e hc' hf hv hr hl hsz hn fr => rw [hc] at hc'; cases hc'
      | expired e hc' hf hv hr hl hsz hn fr => rw [hc] at hc'; cases hc'
      | absent hc' hf hr hl hsz hn fr => rw [hc] at hc'; cases hc'
    | flights now multi =>
      simp only [step]
      unfold flights
      have h1 := flights1_list (unixMilli now) multi 0 { s := s, res := [], moves := [], missed := [] }
      generalize flights1 (unixMilli now) multi 0 { s := s, res := [], moves := [], missed := [] } = a at h1
      simp only at h1 ⊢
      have hac : a.s.closed = true := by rw [h1.2.2.1]; exact hc
      split
      · exact hac
      · simp [hac]
    | update k c v vsz raw => simp [step, update, hc]
    | cancel k c err => simp [step, cancel, hc]
    | delete keys =>
      cases keys with
      | none => simp only [step, delete]; rw [foldl_purge_closed]; exact hc
      | some ks => simp only [step, delete]; rw [foldl_purge_closed]; exact hc
    | close err => rfl
    | sethits k n => exact hc
  have hrun : ∀ (ops : List Op) (s : State), s.closed = true → (run s ops).closed = true := by
    intro ops
    induction ops with
    | nil => intro s h; exact h
    | cons op rest ih => intro s h; exact ih _ (hcl s h op)
  have hc := hrun ops (close s err) rfl
  have o := flight_cases (run (close s err) ops) k c ttl now
  cases o with
  | closed hc' hs hr => exact hr
  | found e hc' hf hv hr hl hsz hn fr => rw [hc] at hc'; cases hc'
  | expired e hc' hf hv hr hl hsz hn fr => exact hr
  | absent hc' hf hr hl hsz hn fr => exact hr

/-! ### the store built by `NewSimpleCacheAdapter` -/

/-- **Single flight (adapter).** If a `Flight` of (k, c) on an open adapter was told to send, then after any
    operations that are not the `Update`/`Cancel` of (k, c) nor `Close`, no further `Flight` of (k, c) is told to
    send, and whenever it is told to wait it waits on the entry created by that first call. -/
theorem adapter_single_flight (s : Adapter.State) (hopen : s.flights ≠ none) (k c : Bytes) (ttl t0 : Int)
    (hsend : (Adapter.flight s k c ttl t0).2 = .send) (ops : List Adapter.Op)
    (hno : ∀ op ∈ ops, op.resolves k c = false) (ttl' now' : Int) :
    (Adapter.flight (Adapter.run (Adapter.flight s k c ttl t0).1 ops) k c ttl' now').2 ≠ .send ∧
    ∀ i, (Adapter.flight (Adapter.run (Adapter.flight s k c ttl t0).1 ops) k c ttl' now').2 = .wait i → i = s.nextId :=
  Adapter.flight_of_pending
    (Adapter.pending_persists_run (Adapter.send_creates_pending k c ttl t0 hopen hsend) ops hno) ttl' now'

/-- `Update` of a pending adapter entry wakes its waiters with the stored reply; `Cancel` with the error; neither
    touches the user store on the error path -/
theorem adapter_waiters {s : Adapter.State} {fl : List (Adapter.KC × Option Adapter.AEntry)} (hfl : s.flights = some fl)
    (k c : Bytes) (e : Adapter.AEntry) (hs : Adapter.slot s k c = some (some e)) (v : Nat) (raw : Int) (err : Nat) :
    (∃ exp, (Adapter.update s k c v raw).1.done = s.done ++ [(e.id, .val v exp)] ∧
            Adapter.get (Adapter.update s k c v raw).1.store (k ++ c) = some (v, exp)) ∧
    (Adapter.cancel s k c err).done = s.done ++ [(e.id, .err err)] ∧
    (Adapter.cancel s k c err).store = s.store := by
  refine ⟨?_, ?_, ?_⟩
  · simp only [Adapter.update, hfl, hs]
    exact ⟨_, rfl, by simp [Adapter.get_put]⟩
  · simp only [Adapter.cancel, hfl, hs]
  · simp only [Adapter.cancel, hfl, hs]

/-! ### one connection: fetches on the wire and pending entries (`Rv.CachePipe`)

`inFlight st` lists the fetches of the connection that were sent and are not yet answered, or answered and not yet
handled by the reader loop. All statements are for arbitrary event lists (every interleaving that respects wire
order); in the model a failed fetch is cancelled in the same step in which its failure is handled, i.e. before
anybody can wait on it again — the order the real DoCache/DoMultiCache code must keep (tied by the `flightdup`
and `cachee2e` suites). -/

open Rv.CachePipe in
/-- **Pending iff in flight.** At every moment the pending entries of the store and the fetches on the wire
    correspond one to one: every pending entry has exactly one request on the wire that will resolve it (nobody
    waits on a dead flight), every request on the wire has its pending entry, and no command is on the wire twice. -/
theorem pending_iff_in_flight (mx base : Int) (evs : List Ev) :
    let st := CachePipe.run (CachePipe.init mx base) evs
    (inFlight st).Nodup ∧
    (∀ e ∈ st.store.list, e.pend = true → (e.key, e.cmd) ∈ inFlight st) ∧
    (∀ kc ∈ inFlight st, ∃ e ∈ st.store.list, e.key = kc.1 ∧ e.cmd = kc.2 ∧ e.pend = true) := by
  intro st
  have h := sf_run (pinv_init mx base) (sf_init mx base) evs
  exact ⟨h.nodup, h.flight_of, h.pend_of⟩

open Rv.CachePipe in
/-- while a fetch of (k, c) is on the wire, every further DoCache of (k, c) waits on its entry: no second request -/
theorem no_second_fetch_while_in_flight (mx base : Int) (evs : List Ev) (k c : Bytes)
    (hin : (k, c) ∈ inFlight (CachePipe.run (CachePipe.init mx base) evs)) (ttl now : Int) :
    ∃ id, lookupRes (CachePipe.run (CachePipe.init mx base) evs) k c ttl now = .wait id := by
  have h := sf_run (pinv_init mx base) (sf_init mx base) evs
  have hp := pinv_run (pinv_init mx base) evs
  obtain ⟨e, he, hk, hc, hpe⟩ := h.pend_of _ hin
  have := (wait_on_pending hp.store he hpe ttl now).1
  rw [hk, hc] at this
  exact ⟨e.id, this⟩

open Rv.CachePipe in
/-- **A failed fetch releases all its waiters.** When the failure of the fetch of (k, c) is handled, its pending
    entry exists, every caller waiting on it is woken with that error, nothing is cached, the command is no longer in
    flight, and the next DoCache of (k, c) fetches again. -/
theorem failed_fetch_releases_all_waiters (mx base : Int) (evs : List Ev) (k c : Bytes) (err : Nat) (rest : List Msg)
    (hq : (CachePipe.run (CachePipe.init mx base) evs).respQ = .fail k c err :: rest) (t : Int) :
    let st := CachePipe.run (CachePipe.init mx base) evs
    let st' := CachePipe.step st (.deliver t)
    ∃ e ∈ st.store.list, e.key = k ∧ e.cmd = c ∧ e.pend = true ∧
      st'.store.done = st.store.done ++ [(e.id, .err err)] ∧
      (k, c) ∉ inFlight st' ∧
      (∀ x ∈ st'.store.list, ¬ (x.key = k ∧ x.cmd = c)) ∧
      ∀ ttl now, lookupRes st' k c ttl now = .send := by
  intro st st'
  have h := sf_run (pinv_init mx base) (sf_init mx base) evs
  have hp := pinv_run (pinv_init mx base) evs
  have hin : (k, c) ∈ inFlight st := by
    show (k, c) ∈ st.reqQ ++ st.respQ.filterMap cmdOf
    rw [show st.respQ = .fail k c err :: rest from hq]; simp [cmdOf]
  obtain ⟨e, he, hk, hc, hpe⟩ := h.pend_of _ hin
  have hopen : st.store.closed = false := by
    cases hcl : st.store.closed
    · rfl
    · have := hp.store.closedNil hcl; rw [this] at he; cases he
  have hfind : find? st.store.list k c = some e := by
    have := find?_of_mem hp.store.nodup he; rw [hk, hc] at this; exact this
  have hst' : st'.store = cancel st.store k c err := by
    show (CachePipe.step st (.deliver t)).store = _
    simp only [CachePipe.step, show st.respQ = .fail k c err :: rest from hq, handle]
  have h' := sf_step hp h (.deliver t)
  have hnot : (k, c) ∉ inFlight st' := by
    intro hin'
    obtain ⟨e', he', hk', hc', hpe'⟩ := h'.pend_of _ hin'
    have he' : e' ∈ (cancel st.store k c err).list := by rw [← hst']; exact he'
    exact (cancel_pending_sub st.store hp.store k c err e' he' hpe').2 ⟨hk', hc'⟩
  refine ⟨e, he, hk, hc, hpe, ?_, hnot, ?_, ?_⟩
  · rw [hst']; exact waiters_get_error_cancel k c err e hopen hfind hpe
  · intro x hx hkc
    rw [hst'] at hx
    have hl : (cancel st.store k c err).list = st.store.list.erase e := by
      simp [cancel, hopen, hfind, hpe, gcHits]
    rw [hl] at hx
    exact mem_erase_not_sameKC hp.store.nodup he hx ⟨hkc.1.trans hk.symm, hkc.2.trans hc.symm⟩
  · intro ttl now
    show (flight st'.store k c ttl now).2 = .send
    rw [hst']; exact error_not_cached hp.store k c err e hopen hfind hpe ttl now

/-! ### Close releases every waiter, whatever the order of the recency list -/

/-- **`Close` releases every pending waiter.** For every store state — in particular whatever the order of the
    recency list, also when completed entries sit behind pending ones after a promotion — `Close(err)` wakes the
    waiters of every pending entry with `err`, wakes nobody else, and leaves nothing behind. -/
theorem close_releases_every_pending_waiter (s : State) (err : Nat) :
    (∀ e ∈ s.list, e.pend = true → (e.id, Outcome.err err) ∈ (close s err).done) ∧
    (∀ p ∈ (close s err).done, p ∈ s.done ∨ ∃ e ∈ s.list, e.pend = true ∧ p = (e.id, Outcome.err err)) ∧
    (close s err).list = [] := by
  refine ⟨?_, ?_, rfl⟩
  · intro e he hp
    show (e.id, Outcome.err err) ∈ s.done ++ ((s.list.filter (·.pend)).map fun e => (e.id, Outcome.err err))
    exact List.mem_append_right _ (List.mem_map.2 ⟨e, List.mem_filter.2 ⟨he, hp⟩, rfl⟩)
  · intro p hp
    have hp : p ∈ s.done ++ ((s.list.filter (·.pend)).map fun e => (e.id, Outcome.err err)) := hp
    rcases List.mem_append.1 hp with h | h
    · exact Or.inl h
    · obtain ⟨e, he, rfl⟩ := List.mem_map.1 h
      have := List.mem_filter.1 he
      exact Or.inr ⟨e, this.1, this.2, rfl⟩

/-- the same for the store built by `NewSimpleCacheAdapter`: every pending slot is failed by `Close` -/
theorem adapter_close_releases_every_pending_waiter (s : Adapter.State) (err : Nat) (k c : Bytes) (e : Adapter.AEntry)
    (h : Adapter.slot s k c = some (some e)) : (e.id, Outcome.err err) ∈ (Adapter.close s err).done := by
  have hmem : ∀ (m : List (Adapter.KC × Option Adapter.AEntry)) (kc : Adapter.KC) (x : Option Adapter.AEntry),
      Adapter.get m kc = some x → (kc, x) ∈ m := by
    intro m kc x
    induction m with
    | nil => intro h; simp [Adapter.get] at h
    | cons a m ih =>
      obtain ⟨ak, av⟩ := a
      intro h
      simp only [Adapter.get] at h
      by_cases hk : ak = kc
      · subst hk; simp at h; subst h; exact List.mem_cons_self
      · simp only [hk, if_false] at h; exact List.mem_cons_of_mem _ (ih h)
  have := hmem _ _ _ h
  show (e.id, Outcome.err err) ∈ s.done ++ _
  apply List.mem_append_right
  rw [List.mem_filterMap]
  exact ⟨((k, c), some e), this, rfl⟩

open Rv.CachePipe in
/-- **A failing fetch cancels only its own flight.** Handling the failure of the fetch of (k, c) leaves every other
    pending entry in the store, still with its own request on the wire, and wakes only the waiters of (k, c). -/
theorem cancel_only_own_flights (mx base : Int) (evs : List Ev) (k c : Bytes) (err : Nat) (rest : List Msg)
    (hq : (CachePipe.run (CachePipe.init mx base) evs).respQ = .fail k c err :: rest) (t : Int)
    (e : Entry) (he : e ∈ (CachePipe.run (CachePipe.init mx base) evs).store.list) (hp : e.pend = true)
    (hne : ¬ (e.key = k ∧ e.cmd = c)) :
    let st := CachePipe.run (CachePipe.init mx base) evs
    let st' := CachePipe.step st (.deliver t)
    e ∈ st'.store.list ∧ (e.key, e.cmd) ∈ inFlight st' ∧
    ∃ e0 ∈ st.store.list, e0.key = k ∧ e0.cmd = c ∧ st'.store.done = st.store.done ++ [(e0.id, .err err)] := by
  intro st st'
  have h := sf_run (pinv_init mx base) (sf_init mx base) evs
  have hpi := pinv_run (pinv_init mx base) evs
  have hst' : st'.store = cancel st.store k c err := by
    show (CachePipe.step st (.deliver t)).store = _
    simp only [CachePipe.step, show st.respQ = .fail k c err :: rest from hq, handle]
  have hmem : e ∈ st'.store.list := by
    rw [hst']
    exact pending_persists hpi.store he hp (.cancel k c err)
      (by simp only [Op.resolves]; simpa using (fun (h1 : k = e.key) (h2 : c = e.cmd) => hne ⟨h1.symm, h2.symm⟩))
  have h' := sf_step hpi h (.deliver t)
  obtain ⟨e0, he0, hk0, hc0, _, hd, _⟩ := failed_fetch_releases_all_waiters mx base evs k c err rest hq t
  exact ⟨hmem, h'.flight_of e hmem hp, e0, he0, hk0, hc0, hd⟩

open Rv.CachePipe in
/-- **A caller whose context is already done leaves no dead flight.** A DoCache call that finds its context done
    (`startDone`: the request is never written, the caller cancels the flight it has just created) changes neither
    the fetches on the wire nor — through `pending_iff_in_flight`, which covers this event — the one-to-one
    correspondence with the pending entries: afterwards the command is pending only if a request for it really is on
    the wire, so no later read can wait on an entry that nothing will ever resolve. -/
theorem ctx_done_at_entry_leaves_no_dead_flight (mx base : Int) (evs : List Ev) (k c : Bytes) (ttl now : Int) (err : Nat) :
    let st := CachePipe.run (CachePipe.init mx base) evs
    let st' := CachePipe.step st (.startDone k c ttl now err)
    inFlight st' = inFlight st ∧
    (∀ e ∈ st'.store.list, e.pend = true → (e.key, e.cmd) ∈ inFlight st') ∧
    ((k, c) ∉ inFlight st → ∀ ttl' now', lookupRes st' k c ttl' now' ≠ .wait 0 ∧
        ∀ id, lookupRes st' k c ttl' now' ≠ .wait id) := by
  intro st st'
  have h := sf_run (pinv_init mx base) (sf_init mx base) evs
  have hp := pinv_run (pinv_init mx base) evs
  have h' : SF st' := sf_step hp h _
  have hp' : PInv st' := pinv_step hp _
  have hin : inFlight st' = inFlight st := by
    show inFlight (CachePipe.step st (.startDone k c ttl now err)) = inFlight st
    simp only [CachePipe.step]
    split
    · rfl
    · split <;> rfl
  refine ⟨hin, h'.flight_of, ?_⟩
  intro hnot ttl' now'
  have key : ∀ id, lookupRes st' k c ttl' now' ≠ .wait id := by
    intro id hw
    have o := flight_cases st'.store k c ttl' now'
    have hw : (flight st'.store k c ttl' now').2 = .wait id := hw
    cases o with
    | closed hc hs hr => rw [hr] at hw; cases hw
    | expired e hc hf hv hr hl hsz hn fr => rw [hr] at hw; cases hw
    | absent hc hf hr hl hsz hn fr => rw [hr] at hw; cases hw
    | found e hc hf hv hr hl hsz hn fr =>
      have hf' := find?_some hf
      rw [hr] at hw
      unfold resOf at hw
      split at hw
      · rename_i hpe
        have := h'.flight_of e hf'.1 hpe
        rw [hf'.2.1, hf'.2.2, hin] at this
        exact hnot this
      · cases hw
  exact ⟨key 0, key⟩

/-! ### non-vacuity -/

example : (flight (Lru.init 1000 336) [1] [2] 5 0).2 = .send ∧
    (flight (flight (Lru.init 1000 336) [1] [2] 5 0).1 [1] [2] 7 9).2 = .wait 0 := by decide

end Rv.C09
