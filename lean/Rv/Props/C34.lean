/-
C34 — distributed locks are mutually exclusive and notice loss.

Chain: the six script texts of rueidislock/lock.go are regenerated (`Rv.Gen.LuaScripts`) and
pinned here ⇒ `Rv.Lock.acqScript/forceScript/extendScript/delScript` are their hand
transcriptions on one register (trusted; differentially tested against the Go fake on the
`s.*` lines) ⇒ `Rv.Lock.next` transcribes try / acquire / monitoring / WithContext as events
(trusted; the real Locker runs end-to-end against the fake with OPTOUT tracking and
invalidation pushes and is compared with the model run to quiescence).
All theorems quantify over every event list = every interleaving of script executions and
client steps of any number of holders, for every KeyMajority m ≥ 1.
-/
import Rv.Gen.LuaScripts
import Rv.Model.Lock
import Rv.Lemmas.AddonCount

namespace Rv.C34
open Rv.Lock Rv.AddonCount

/-! ### 1. pins -/
theorem acqms_pinned : Rv.Gen.rueidislock_acqms =
  "local r = redis.call(\"SET\",KEYS[1],ARGV[1],\"NX\",\"PX\",ARGV[2]);redis.call(\"GET\",KEYS[1]);return r" := rfl
theorem acqat_pinned : Rv.Gen.rueidislock_acqat =
  "local r = redis.call(\"SET\",KEYS[1],ARGV[1],\"NX\",\"PXAT\",ARGV[2]);redis.call(\"GET\",KEYS[1]);return r" := rfl
theorem fcqms_pinned : Rv.Gen.rueidislock_fcqms =
  "local r = redis.call(\"SET\",KEYS[1],ARGV[1],\"PX\",ARGV[2]);redis.call(\"GET\",KEYS[1]);return r" := rfl
theorem fcqat_pinned : Rv.Gen.rueidislock_fcqat =
  "local r = redis.call(\"SET\",KEYS[1],ARGV[1],\"PXAT\",ARGV[2]);redis.call(\"GET\",KEYS[1]);return r" := rfl
theorem extend_pinned : Rv.Gen.rueidislock_extend =
  "if redis.call(\"GET\",KEYS[1]) == ARGV[1] then local r = redis.call(\"PEXPIREAT\",KEYS[1],ARGV[2]);redis.call(\"GET\",KEYS[1]);return r end;return 0" := rfl
theorem delkey_pinned : Rv.Gen.rueidislock_delkey =
  "if redis.call(\"GET\",KEYS[1]) == ARGV[1] then return redis.call(\"DEL\",KEYS[1]) end;return 0" := rfl

/-! ### 2. quorum intersection -/

/-- two sets of at least `m` of the `2m−1` keys have a key in common — for every `m ≥ 1` -/
theorem quorum_intersection (m : Nat) (hm : 1 ≤ m) (a b : Nat → Bool)
    (ha : m ≤ cnt (2 * m - 1) a) (hb : m ≤ cnt (2 * m - 1) b) :
    ∃ i, i < 2 * m - 1 ∧ a i = true ∧ b i = true := quorum m a b ha hb hm

/-! ### 3. invariant of clean runs -/

structure Inv (s : Sys) : Prop where
  /-- a running monitor's key is owned by its holder -/
  J : ∀ v i, (s.hs v).mons i = .running → s.regs i = some v ∧ i < s.n
  /-- while the context is not cancelled no acquired key has been given up -/
  K : ∀ v, (s.hs v).cancelled = false → cnt s.n (isRunning (s.hs v)) = (s.hs v).acquired
  /-- `try` hands out the context only with a majority -/
  R : ∀ v, (s.hs v).returned = true → s.m ≤ (s.hs v).acquired

@[simp] private theorem exitMon_mons (m n : Nat) (h : Holder) (i : Nat) : (exitMon m n h i).mons = upd h.mons i .exited := by
  unfold exitMon; simp only; split <;> rfl
@[simp] private theorem exitMon_acquired (m n : Nat) (h : Holder) (i : Nat) : (exitMon m n h i).acquired = h.acquired := by
  unfold exitMon; simp only; split <;> rfl
@[simp] private theorem exitMon_returned (m n : Nat) (h : Holder) (i : Nat) : (exitMon m n h i).returned = h.returned := by
  unfold exitMon; simp only; split <;> rfl
private theorem exitMon_cancelled (m n : Nat) (h : Holder) (i : Nat) (hc : (exitMon m n h i).cancelled = false) :
    h.cancelled = false := by
  unfold exitMon at hc; simp only at hc; split at hc
  · simp at hc
  · exact hc
private theorem exitMon_cancelled_of (m n : Nat) (h : Holder) (i : Nat) (hc : h.cancelled = true) :
    (exitMon m n h i).cancelled = true := by
  unfold exitMon; simp only; split
  · rfl
  · exact hc

private theorem hs_same (s : Sys) (v : Nat) (h' : Holder) : (setH s v h').hs v = h' := by simp [setH, upd]
private theorem hs_other (s : Sys) (v w : Nat) (h' : Holder) (hw : w ≠ v) : (setH s v h').hs w = s.hs w := by
  simp [setH, upd, hw]

/-- replacing holder `v` by `h'` and the registers by `regs'`, given the three clauses for `v`
and that other holders' running keys are untouched -/
private theorem inv_replace (s : Sys) (v : Nat) (h' : Holder) (regs' : Nat → Option Nat) (ws' : Nat → Waiter)
    (inv : Inv s)
    (hJ : ∀ i, h'.mons i = .running → regs' i = some v ∧ i < s.n)
    (hK : h'.cancelled = false → cnt s.n (isRunning h') = h'.acquired)
    (hR : h'.returned = true → s.m ≤ h'.acquired)
    (hothers : ∀ w i, w ≠ v → (s.hs w).mons i = .running → regs' i = s.regs i) :
    Inv { s with regs := regs', hs := upd s.hs v h', ws := ws' } := by
  constructor
  · intro w i hr
    by_cases hw : w = v
    · subst hw
      have : (upd s.hs w h') w = h' := by simp [upd]
      simp only [this] at hr
      exact hJ i hr
    · have : (upd s.hs v h') w = s.hs w := by simp [upd, hw]
      simp only [this] at hr
      have := inv.J w i hr
      exact ⟨(hothers w i hw hr).trans this.1, this.2⟩
  · intro w hc
    by_cases hw : w = v
    · subst hw
      have : (upd s.hs w h') w = h' := by simp [upd]
      simp only [this] at hc ⊢
      exact hK hc
    · have : (upd s.hs v h') w = s.hs w := by simp [upd, hw]
      simp only [this] at hc ⊢
      exact inv.K w hc
  · intro w hr
    by_cases hw : w = v
    · subst hw
      have : (upd s.hs w h') w = h' := by simp [upd]
      simp only [this] at hr ⊢
      exact hR hr
    · have : (upd s.hs v h') w = s.hs w := by simp [upd, hw]
      simp only [this] at hr ⊢
      exact inv.R w hr

/-- a monitor that was not running ends: the running set of the holder is unchanged -/
private theorem running_exit (n : Nat) (h : Holder) (i : Nat) (hi : h.mons i ≠ .running) :
    cnt n (fun j => upd h.mons i Mon.exited j == Mon.running) = cnt n (isRunning h) := by
  apply cnt_congr
  intro j _
  simp only [upd, isRunning]
  by_cases hj : j = i
  · subst hj
    simp only [if_true]
    cases hm : h.mons j
    · rfl
    · exact absurd hm hi
    · rfl
  · simp only [if_neg hj]

private theorem inv_exit_idle (s : Sys) (v i : Nat) (inv : Inv s) (hidle : (s.hs v).mons i = .idle) :
    Inv (setH s v (exitMon s.m s.n (s.hs v) i)) := by
  have := inv_replace s v (exitMon s.m s.n (s.hs v) i) s.regs s.ws inv ?_ ?_ ?_ (fun _ _ _ _ => rfl)
  · exact this
  · intro j hr
    simp only [exitMon_mons, upd] at hr
    by_cases hj : j = i
    · simp [hj] at hr
    · simp only [if_neg hj] at hr; exact inv.J v j hr
  · intro hc
    have hc0 := exitMon_cancelled _ _ _ _ hc
    rw [exitMon_acquired, ← inv.K v hc0]
    have : isRunning (exitMon s.m s.n (s.hs v) i) = fun j => upd (s.hs v).mons i Mon.exited j == Mon.running := by
      funext j; simp [isRunning]
    rw [this]
    exact running_exit _ _ _ (by rw [hidle]; simp)
  · intro hr
    rw [exitMon_returned] at hr; rw [exitMon_acquired]; exact inv.R v hr

private theorem inv_ws (s : Sys) (ws' : Nat → Waiter) (inv : Inv s) : Inv { s with ws := ws' } :=
  ⟨inv.J, inv.K, inv.R⟩

theorem inv_next (s : Sys) (e : Ev) (inv : Inv s) (hc : clean e = true) : Inv (next s e) := by
  cases e with
  | force v i => simp [clean] at hc
  | extdel i => simp [clean] at hc
  | expire i => simp [clean] at hc
  | monErr v i => simp [clean] at hc
  | extset i x => simp [clean] at hc
  | acqErr v i =>
    simp only [next]
    by_cases hpre : (s.hs v).mons i = .idle ∧ i < s.n
    · rw [if_pos hpre]
      have hbase := inv_exit_idle s v i inv hpre.1
      apply inv_replace s v _ _ _ inv
      · intro j hr
        have := hbase.J v j (by rw [hs_same]; exact hr)
        refine ⟨?_, this.2⟩
        simp only [upd]
        by_cases hj : j = i
        · subst hj; simp only [exitMon_mons, upd, if_true] at hr; cases hr
        · simp only [if_neg hj]; exact this.1
      · intro hcv
        have := hbase.K v (by rw [hs_same]; exact hcv)
        rw [hs_same] at this; exact this
      · intro hr
        have := hbase.R v (by rw [hs_same]; exact hr)
        rw [hs_same] at this; exact this
      · intro w j hw hr
        simp only [upd]
        by_cases hj : j = i
        · subst hj
          have hown := (inv.J w j hr).1
          have : delScript v (s.regs j) = (s.regs j, false) := by
            simp only [delScript, hown]
            rw [if_neg]; intro e; exact hw (Option.some.inj e)
          simp [this]
        · simp only [if_neg hj]
    · rw [if_neg hpre]; exact inv
  | acq v i =>
    simp only [next]
    by_cases hpre : (s.hs v).mons i = .idle ∧ i < s.n
    · rw [if_pos hpre]
      obtain ⟨hidle, hin⟩ := hpre
      cases hreg : s.regs i with
      | some w => simp only [acqScript]; exact inv_exit_idle s v i inv hidle
      | none =>
        simp only [acqScript]
        have := inv_replace s v { s.hs v with mons := upd (s.hs v).mons i .running, acquired := (s.hs v).acquired + 1,
                                              csc := upd (s.hs v).csc i false }
          (upd s.regs i (some v)) s.ws inv ?_ ?_ ?_ ?_
        · exact this
        · intro j hr
          simp only [upd] at hr ⊢
          by_cases hj : j = i
          · subst hj; simp [hin]
          · simp only [if_neg hj] at hr ⊢; exact inv.J v j hr
        · intro hcv
          simp only at hcv ⊢
          rw [← inv.K v hcv]
          apply cnt_upd_succ s.n i _ _ hin
          · simp [isRunning, hidle]
          · simp [isRunning, upd]
          · intro j hj; simp [isRunning, upd, hj]
        · intro hr
          simp only at hr ⊢
          have := inv.R v hr; omega
        · intro w j hw hr
          simp only [upd]
          by_cases hj : j = i
          · subst hj
            have := (inv.J w j hr).1
            rw [hreg] at this; cases this
          · simp only [if_neg hj]
    · rw [if_neg hpre]; exact inv
  | skip v i =>
    simp only [next]
    by_cases hpre : (s.hs v).mons i = .idle ∧ i < s.n
    · rw [if_pos hpre]; exact inv_exit_idle s v i inv hpre.1
    · rw [if_neg hpre]; exact inv
  | ret v =>
    simp only [next]
    by_cases hpre : (s.hs v).acquired ≥ s.m ∧ (s.hs v).cancelled = false
    · rw [if_pos hpre]
      exact inv_replace s v { s.hs v with returned := true } s.regs s.ws inv (fun j hr => inv.J v j hr)
        (fun hcv => inv.K v hcv) (fun _ => hpre.1) (fun _ _ _ _ => rfl)
    · rw [if_neg hpre]; exact inv
  | release v =>
    simp only [next]
    exact inv_replace s v { s.hs v with cancelled := true } s.regs s.ws inv (fun j hr => inv.J v j hr)
      (fun hcv => by simp at hcv) (fun hr => inv.R v hr) (fun _ _ _ _ => rfl)
  | mon v i =>
    simp only [next]
    by_cases hrun : (s.hs v).mons i = .running
    · rw [if_pos hrun]
      have hown := inv.J v i hrun
      by_cases hcan : (s.hs v).cancelled = true
      · rw [if_pos hcan]
        have hdel : delScript v (s.regs i) = (none, true) := by simp [delScript, hown.1]
        simp only [hdel]
        apply inv_replace s v _ _ _ inv
        · intro j hr
          simp only [exitMon_mons, upd] at hr ⊢
          by_cases hj : j = i
          · simp [hj] at hr
          · simp only [if_neg hj] at hr ⊢; exact inv.J v j hr
        · intro hcv
          rw [exitMon_cancelled_of _ _ _ _ hcan] at hcv; cases hcv
        · intro hr
          rw [exitMon_returned] at hr; rw [exitMon_acquired]; exact inv.R v hr
        · intro w j hw hr
          simp only [upd]
          by_cases hj : j = i
          · subst hj
            have := (inv.J w j hr).1
            rw [hown.1] at this
            exact absurd (Option.some.inj this).symm hw
          · simp only [if_neg hj]
      · rw [if_neg hcan]
        have hext : (extendScript v (s.regs i)).2 = true := by simp [extendScript, hown.1]
        rw [if_pos hext]; exact inv
    · rw [if_neg hrun]; exact inv
  | park w i =>
    simp only [next]
    by_cases h : s.regs i ≠ none
    · rw [if_pos h]; exact inv_ws s _ inv
    · rw [if_neg h]; exact inv
  | wake w =>
    simp only [next]
    by_cases h : (s.ws w).parked = true ∧ (s.ws w).token = true
    · rw [if_pos h]; exact inv_ws s _ inv
    · rw [if_neg h]; exact inv
  | parkErr w => exact inv_ws s _ inv
  | gate w => exact inv_ws s _ inv

def init (m : Nat) : Sys := { m := m }

private theorem inv_init (m : Nat) : Inv (init m) := by
  constructor
  · intro v i h; simp [init] at h
  · intro v _
    simp only [init]
    have : ∀ n, cnt n (isRunning ({} : Holder)) = 0 := by
      intro n; induction n with
      | zero => rfl
      | succ k ih => simp [cnt, ih, isRunning]
    exact this _
  · intro v h; simp [init] at h

theorem inv_run (s : Sys) (es : List Ev) (inv : Inv s) (hc : ∀ e ∈ es, clean e = true) : Inv (run s es) := by
  induction es generalizing s with
  | nil => exact inv
  | cons e r ih =>
    exact ih _ (inv_next s e inv (hc e (List.mem_cons_self ..))) (fun e' he' => hc e' (List.mem_cons_of_mem _ he'))

private theorem run_m (s : Sys) (es : List Ev) : (run s es).m = s.m := by
  induction es generalizing s with
  | nil => rfl
  | cons e r ih =>
    rw [run, ih]
    cases e <;> simp only [next, setH] <;> (repeat' split) <;> rfl

/-- under the property's hypotheses a live lock context owns (running monitors on) at least a
majority of the keys -/
theorem live_ctx_implies_majority (m : Nat) (es : List Ev) (hc : ∀ e ∈ es, clean e = true) (v : Nat)
    (hl : live (run (init m) es) v = true) :
    m ≤ cnt (2 * m - 1) (isRunning ((run (init m) es).hs v)) ∧
    ∀ i, isRunning ((run (init m) es).hs v) i = true → (run (init m) es).regs i = some v := by
  have inv := inv_run (init m) es (inv_init m) hc
  have hm : (run (init m) es).m = m := run_m _ _
  simp only [live, Bool.and_eq_true, Bool.not_eq_true'] at hl
  have hk := inv.K v hl.2
  have hr := inv.R v hl.1
  simp only [Sys.n, hm] at hk hr
  refine ⟨by omega, fun i hi => (inv.J v i (by simpa [isRunning] using hi)).1⟩

/-- MUTUAL EXCLUSION: for every m ≥ 1 and every interleaving of script executions and client
steps in which nobody forces, no key expires or is deleted by a third party and no extend fails
with a server error, at most one holder's lock context is live -/
theorem mutual_exclusion (m : Nat) (hm : 1 ≤ m) (es : List Ev) (hc : ∀ e ∈ es, clean e = true) (v w : Nat)
    (hv : live (run (init m) es) v = true) (hw : live (run (init m) es) w = true) : v = w := by
  obtain ⟨hcv, hov⟩ := live_ctx_implies_majority m es hc v hv
  obtain ⟨hcw, how⟩ := live_ctx_implies_majority m es hc w hw
  obtain ⟨i, _, hiv, hiw⟩ := quorum_intersection m hm _ _ hcv hcw
  have h1 := hov i hiv
  have h2 := how i hiw
  rw [h1] at h2
  exact Option.some.inj h2

/-! ### 4. order of cancel() and DEL -/

/-- which events delete a key with the holder's own delkey script -/
def deletesOwn (s : Sys) (v i : Nat) (e : Ev) : Prop :=
  s.regs i = some v ∧ (next s e).regs i = none ∧ (e = .mon v i ∨ e = .monErr v i)

/-- on the release path (cancel(), parent context done, lock lost) a holder's context is already
cancelled when its delkey script runs: `mon` deletes only under `cancelled` -/
theorem ctx_done_before_release_partial (s : Sys) (v i : Nat)
    (hd : s.regs i = some v) (hn : (next s (.mon v i)).regs i = none) : (s.hs v).cancelled = true := by
  simp only [next] at hn
  by_cases hrun : (s.hs v).mons i = .running
  · rw [if_pos hrun] at hn
    by_cases hcan : (s.hs v).cancelled = true
    · exact hcan
    · rw [if_neg hcan] at hn
      have hext : (extendScript v (s.regs i)).2 = true := by simp [extendScript, hd]
      rw [if_pos hext, hd] at hn; cases hn
  · rw [if_neg hrun, hd] at hn; cases hn

/-- the monitor's early decision does not change where `monErr` ends -/
theorem exitMon_preExit (m n : Nat) (h : Holder) (i : Nat) : exitMon m n (preExit m n h i) i = exitMon m n h i := by
  unfold exitMon preExit
  by_cases hc : cnt n (isExited { h with mons := upd h.mons i .exited }) ≥ m
  · simp only [hc, if_true]
    split <;> rfl
  · simp only [hc, if_false]

/-- ERROR PATH, repaired order (fix 04be27c): when an extend fails with a server/network error
the monitor decides `leaving++ >= majority → cancel()` before it issues its DEL. So in the state
in which the DEL is issued (`delState`) the holder's context is done whenever this monitor is
the `m`-th one to end, i.e. whenever giving up this key costs the holder its majority. What the
clause means under partial loss: a key given up after an extend error while fewer than `m`
monitors have ended is a LOSS the holder notices and survives with a majority of running
monitors, not a release of the lock. -/
theorem ctx_done_before_release (s : Sys) (v i : Nat)
    (hmaj : s.m ≤ cnt s.n (isExited { s.hs v with mons := upd (s.hs v).mons i .exited })) :
    ((delState s v i).hs v).cancelled = true := by
  simp only [delState, setH, upd, if_true, preExit]
  rw [if_pos hmaj]

/-- both deletion paths together: a holder's own delkey removes a key only when its context is
already done, or (error path) while fewer than `m` of its monitors have ended -/
theorem delkey_when_done_or_minor_loss (s : Sys) (v i : Nat) (hd : s.regs i = some v) :
    ((next s (.mon v i)).regs i = none → (s.hs v).cancelled = true) ∧
    (((delState s v i).hs v).cancelled = true ∨
      cnt s.n (isExited { s.hs v with mons := upd (s.hs v).mons i .exited }) < s.m) := by
  refine ⟨ctx_done_before_release_partial s v i hd, ?_⟩
  by_cases hmaj : s.m ≤ cnt s.n (isExited { s.hs v with mons := upd (s.hs v).mons i .exited })
  · exact Or.inl (ctx_done_before_release s v i hmaj)
  · exact Or.inr (by omega)

/-- the UNREPAIRED order (before fix 04be27c: delkey, then `released++ … cancel()`): the DEL was
issued in the state `s` itself. Witness for m = 1: the holder's only key is deleted while its
context is live; with the repaired order the context is done in the state of the DEL. -/
def wPre : Sys := run (init 1) [.acq 7 0, .ret 7]

theorem ctx_done_before_release_fails_on_error :
    live wPre 7 = true ∧ wPre.regs 0 = some 7 ∧
    (delScript 7 (wPre.regs 0)).1 = none ∧        -- the DEL the monitor issued first
    (next wPre (.monErr 7 0)).regs 0 = none ∧ live (next wPre (.monErr 7 0)) 7 = false := by
  decide

theorem ctx_done_before_release_witness_repaired :
    live (delState wPre 7 0) 7 = false ∧ (delState wPre 7 0).regs 0 = some 7 := by
  decide

/-- a monitor that never acquired its key counts when it leaves: after a refused or failed
acquisition (`acq` on a held key, `acqErr`, `skip`) the holder has one more exited monitor -/
theorem never_acquired_counts (m n : Nat) (h : Holder) (i : Nat) (hi : i < n) (hidle : h.mons i = .idle) :
    cnt n (isExited (exitMon m n h i)) = cnt n (isExited h) + 1 := by
  have : isExited (exitMon m n h i) = fun j => upd h.mons i Mon.exited j == Mon.exited := by
    funext j; simp [isExited]
  rw [this]
  apply cnt_upd_succ n i _ _ hi
  · simp [isExited, hidle]
  · simp [upd]
  · intro j hj; simp [isExited, upd, hj]

/-- BARE MAJORITY (m = 2): keys 0 and 1 acquired, the acquisition of key 2 failed with an error.
The holder is live. When the extend of key 0 then fails, the context is already done in the
state in which the DEL of key 0 is issued — because the never-acquired monitor of key 2 is
counted (`leaving` = 2 = majority). A counter that ignored never-acquired monitors would see 1
and the DEL would leave the holder one key of three with a live context. -/
def wBare : Sys := run (init 2) [.acq 7 0, .acq 7 1, .acqErr 7 2, .ret 7]

theorem bare_majority_error_cancels_first :
    live wBare 7 = true ∧ cnt wBare.n (isExited (wBare.hs 7)) = 1 ∧
    live (delState wBare 7 0) 7 = false ∧ (delState wBare 7 0).regs 0 = some 7 ∧
    owned (next wBare (.monErr 7 0)) 7 = 1 := by
  decide

/-! ### 5. loss is noticed -/

/-- once every monitor has been started and each one whose key is no longer owned has taken its
step (no running monitor sits on a foreign key), a holder that owns fewer than `m` keys has a
cancelled context: `released ≥ m` -/
theorem loss_cancels (m n : Nat) (hn : n = 2 * m - 1) (hm : 1 ≤ m) (h : Holder)
    (hstarted : ∀ i, i < n → h.mons i ≠ .idle)
    (hfew : cnt n (isRunning h) < m) : m ≤ cnt n (isExited h) := by
  have hsum : cnt n (isRunning h) + cnt n (isExited h) = n := by
    clear hfew hn
    induction n with
    | zero => rfl
    | succ k ih =>
      have := ih (fun i hi => hstarted i (by omega))
      have hk := hstarted k (by omega)
      simp only [cnt]
      rw [show cnt k (isRunning h) + (if isRunning h k = true then 1 else 0) + (cnt k (isExited h) + (if isExited h k = true then 1 else 0))
          = (cnt k (isRunning h) + cnt k (isExited h)) + ((if isRunning h k = true then 1 else 0) + (if isExited h k = true then 1 else 0)) by omega, this]
      have : ((if isRunning h k = true then 1 else 0) + (if isExited h k = true then 1 else 0) : Nat) = 1 := by
        have hor : (isRunning h k = true ∧ isExited h k = false) ∨ (isRunning h k = false ∧ isExited h k = true) := by
          simp only [isRunning, isExited]
          cases hmk : h.mons k
          · exact absurd hmk hk
          · exact Or.inl ⟨rfl, rfl⟩
          · exact Or.inr ⟨rfl, rfl⟩
        rcases hor with ⟨e1, e2⟩ | ⟨e1, e2⟩ <;> simp [e1, e2]
      omega
  omega

/-- … and `exitMon` cancels the context as soon as the count reaches `m` -/
theorem exit_cancels (m n : Nat) (h : Holder) (i : Nat)
    (hc : m ≤ cnt n (isExited { h with mons := upd h.mons i .exited })) : (exitMon m n h i).cancelled = true := by
  unfold exitMon; simp only; rw [if_pos hc]

/-! ### 6. waiters do not miss the wake-up -/

/-- a parked waiter without a pending gate token is blocked on a key that is still held: there
is no reachable state with a registered waiter, a free lock and no pending token -/
def WInv (s : Sys) : Prop :=
  ∀ w, (s.ws w).parked = true → (s.ws w).token = false → s.regs (s.ws w).blocked ≠ none

private theorem notify_cases (ws : Nat → Waiter) (i w : Nat)
    (hp : (notify ws i w).parked = true) (ht : (notify ws i w).token = false) :
    (ws w).parked = true ∧ (ws w).token = false ∧ (notify ws i w).blocked = (ws w).blocked ∧ (ws w).blocked ≠ i := by
  unfold notify at hp ht ⊢
  by_cases c : (ws w).parked = true ∧ (ws w).blocked = i
  · simp [c] at ht
  · simp only [if_neg c] at hp ht ⊢
    exact ⟨hp, ht, trivial, fun hb => c ⟨hp, hb⟩⟩

private theorem winv_del (s : Sys) (i : Nat) (hs' : Nat → Holder) (inv : WInv s) :
    WInv { s with regs := upd s.regs i none, ws := notify s.ws i, hs := hs' } := by
  intro w hp ht
  obtain ⟨hp0, ht0, hb, hne⟩ := notify_cases s.ws i w hp ht
  show upd s.regs i none ((notify s.ws i w).blocked) ≠ none
  rw [hb]; simp only [upd, if_neg hne]
  exact inv w hp0 ht0

private theorem winv_set (s : Sys) (i x : Nat) (hs' : Nat → Holder) (inv : WInv s) :
    WInv { s with regs := upd s.regs i (some x), hs := hs' } := by
  intro w hp ht
  show upd s.regs i (some x) ((s.ws w).blocked) ≠ none
  simp only [upd]
  by_cases hb : (s.ws w).blocked = i
  · simp [hb]
  · simp only [if_neg hb]; exact inv w hp ht

private theorem winv_set_notify (s : Sys) (i x : Nat) (hs' : Nat → Holder) (inv : WInv s) :
    WInv { s with regs := upd s.regs i (some x), ws := notify s.ws i, hs := hs' } := by
  intro w hp ht
  obtain ⟨hp0, ht0, hb, hne⟩ := notify_cases s.ws i w hp ht
  show upd s.regs i (some x) ((notify s.ws i w).blocked) ≠ none
  rw [hb]; simp only [upd, if_neg hne]
  exact inv w hp0 ht0

private theorem winv_same (s : Sys) (i : Nat) (hs' : Nat → Holder) (inv : WInv s) :
    WInv { s with regs := upd s.regs i (s.regs i), hs := hs' } := by
  intro w hp ht
  show upd s.regs i (s.regs i) ((s.ws w).blocked) ≠ none
  simp only [upd]
  by_cases hb : (s.ws w).blocked = i
  · simp only [hb, if_true]; have := inv w hp ht; rwa [hb] at this
  · simp only [if_neg hb]; exact inv w hp ht

private theorem winv_delscript (s : Sys) (v i : Nat) (hs' : Nat → Holder) (inv : WInv s) :
    WInv { s with regs := upd s.regs i (delScript v (s.regs i)).1,
                  ws := if (delScript v (s.regs i)).2 = true then notify s.ws i else s.ws, hs := hs' } := by
  by_cases h : s.regs i = some v
  · have : delScript v (s.regs i) = (none, true) := by simp [delScript, h]
    rw [this]; exact winv_del s i hs' inv
  · have : delScript v (s.regs i) = (s.regs i, false) := by simp [delScript, h]
    rw [this]; exact winv_same s i hs' inv

private theorem winv_none (s : Sys) (i : Nat) (inv : WInv s) :
    WInv { s with regs := upd s.regs i none, ws := if s.regs i = none then s.ws else notify s.ws i } := by
  by_cases h : s.regs i = none
  · rw [if_pos h]
    have := winv_same s i s.hs inv
    rw [h] at this; exact this
  · rw [if_neg h]; exact winv_del s i s.hs inv

/-- WAITERS: the invariant holds initially and is preserved by EVERY event (clean or not): each
event that frees a key leaves a token for the waiters blocked on it, and since the gate channel
has capacity 1 a token that is already pending is enough -/
theorem waiter_not_lost (s : Sys) (e : Ev) (inv : WInv s) (hf : faultPark e = false) : WInv (next s e) := by
  cases e with
  | parkErr w => simp [faultPark] at hf
  | gate w =>
    intro x hp ht
    by_cases hx : x = w
    · subst hx
      have ht' : (upd s.ws x { s.ws x with token := true } x).token = false := ht
      simp [upd] at ht'
    · have e : (upd s.ws w { s.ws w with token := true }) x = s.ws x := by simp [upd, hx]
      show s.regs ((upd s.ws w { s.ws w with token := true } x).blocked) ≠ none
      have hp' : (upd s.ws w { s.ws w with token := true } x).parked = true := hp
      have ht' : (upd s.ws w { s.ws w with token := true } x).token = false := ht
      rw [e] at hp' ht' ⊢; exact inv x hp' ht'
  | acq v i =>
    simp only [next]
    by_cases hpre : (s.hs v).mons i = .idle ∧ i < s.n
    · rw [if_pos hpre]
      cases hreg : s.regs i with
      | some w => simp only [acqScript]; exact inv
      | none => simp only [acqScript]; exact winv_set s i v _ inv
    · rw [if_neg hpre]; exact inv
  | skip v i =>
    simp only [next]
    by_cases hpre : (s.hs v).mons i = .idle ∧ i < s.n
    · rw [if_pos hpre]; exact inv
    · rw [if_neg hpre]; exact inv
  | ret v =>
    simp only [next]
    by_cases hpre : (s.hs v).acquired ≥ s.m ∧ (s.hs v).cancelled = false
    · rw [if_pos hpre]; exact inv
    · rw [if_neg hpre]; exact inv
  | release v => exact inv
  | mon v i =>
    simp only [next]
    by_cases hrun : (s.hs v).mons i = .running
    · rw [if_pos hrun]
      by_cases hcan : (s.hs v).cancelled = true
      · rw [if_pos hcan]; exact winv_delscript s v i _ inv
      · rw [if_neg hcan]
        by_cases hext : (extendScript v (s.regs i)).2 = true
        · rw [if_pos hext]; exact inv
        · rw [if_neg hext]; exact inv
    · rw [if_neg hrun]; exact inv
  | monErr v i =>
    simp only [next]
    by_cases hrun : (s.hs v).mons i = .running
    · rw [if_pos hrun]; exact winv_delscript s v i _ inv
    · rw [if_neg hrun]; exact inv
  | force v i =>
    simp only [next]
    by_cases hpre : (s.hs v).mons i = .idle ∧ i < s.n
    · rw [if_pos hpre]; exact winv_set_notify s i v _ inv
    · rw [if_neg hpre]; exact inv
  | extdel i => exact winv_none s i inv
  | expire i => exact winv_none s i inv
  | extset i x => exact winv_set_notify s i x _ inv
  | acqErr v i =>
    simp only [next]
    by_cases hpre : (s.hs v).mons i = .idle ∧ i < s.n
    · rw [if_pos hpre]; exact winv_delscript s v i _ inv
    · rw [if_neg hpre]; exact inv
  | park w i =>
    simp only [next]
    by_cases h : s.regs i ≠ none
    · rw [if_pos h]
      intro x hp ht
      by_cases hx : x = w
      · subst hx
        show s.regs ((upd s.ws x { s.ws x with parked := true, blocked := i } x).blocked) ≠ none
        simp only [upd, if_true]; exact h
      · have e : (upd s.ws w { s.ws w with parked := true, blocked := i }) x = s.ws x := by simp [upd, hx]
        show s.regs ((upd s.ws w { s.ws w with parked := true, blocked := i } x).blocked) ≠ none
        have hp' : (upd s.ws w { s.ws w with parked := true, blocked := i } x).parked = true := hp
        have ht' : (upd s.ws w { s.ws w with parked := true, blocked := i } x).token = false := ht
        rw [e] at hp' ht' ⊢; exact inv x hp' ht'
    · rw [if_neg h]; exact inv
  | wake w =>
    simp only [next]
    by_cases h : (s.ws w).parked = true ∧ (s.ws w).token = true
    · rw [if_pos h]
      intro x hp ht
      by_cases hx : x = w
      · subst hx
        have hp' : (upd s.ws x { s.ws x with parked := false, token := false } x).parked = true := hp
        simp [upd] at hp'
      · have e : (upd s.ws w { s.ws w with parked := false, token := false }) x = s.ws x := by simp [upd, hx]
        show s.regs ((upd s.ws w { s.ws w with parked := false, token := false } x).blocked) ≠ none
        have hp' : (upd s.ws w { s.ws w with parked := false, token := false } x).parked = true := hp
        have ht' : (upd s.ws w { s.ws w with parked := false, token := false } x).token = false := ht
        rw [e] at hp' ht' ⊢; exact inv x hp' ht'
    · rw [if_neg h]; exact inv

theorem waiter_not_lost_run (m : Nat) (es : List Ev) (hf : ∀ e ∈ es, faultPark e = false) :
    WInv (run (init m) es) := by
  have h0 : WInv (init m) := by intro w hp; simp [init] at hp
  generalize init m = s at h0
  induction es generalizing s with
  | nil => exact h0
  | cons e r ih =>
    exact ih (fun e' he' => hf e' (List.mem_cons_of_mem _ he')) (next s e)
      (waiter_not_lost s e h0 (hf e (List.mem_cons_self ..)))

/-- OBSERVATION (not a missed wake-up): a waiter whose attempt ends with a server error instead
of a refusal — here KeyMajority 1, the acquire script of its only key fails — goes back to the
gate having read no key: the lock is free, it is parked, no token is pending and nothing it
tracks will ever be written. The wake-up it had received was consumed by the failed attempt; the
next one comes only with the next invalidation or gate send. `waiter_not_lost` excludes exactly
this event (`faultPark`). -/
theorem waiter_parked_after_failed_attempt_witness :
    let s := run (init 1) [.acqErr 5 0, .parkErr 0]
    s.regs 0 = none ∧ (s.ws 0).parked = true ∧ (s.ws 0).token = false ∧ ¬ WInv s := by
  refine ⟨by decide, by decide, by decide, ?_⟩
  intro h
  exact h 0 (by decide) (by decide) (by decide)

/-! ### 6a. an invalidation that arrives after the acquire script ran reaches the monitor -/

/-- try() drains the key's notification channel BEFORE it sends the acquire script. So when a third
party deletes (or overwrites, or the key expires) right after the script ran on the server — even
before the reply reaches the client — the notification is in `g.csc[i]` when the key's monitor
starts, and the monitor's step on it ends the monitor (extend answers 0): the loss is noticed
without waiting for the ExtendInterval timer. (Draining after the script would throw it away.) -/
theorem invalidation_after_acquire_script_reaches_monitor (s : Sys) (v i : Nat)
    (hidle : (s.hs v).mons i = .idle) (hi : i < s.n) (hfree : s.regs i = none) :
    ((next s (.acq v i)).hs v).csc i = false ∧
    ((next (next s (.acq v i)) (.extdel i)).hs v).csc i = true ∧
    ((next (next s (.acq v i)) (.extdel i)).hs v).mons i = .running ∧
    ((next (next (next s (.acq v i)) (.extdel i)) (.mon v i)).hs v).mons i = .exited := by
  have hg : (s.hs v).mons i = Mon.idle ∧ i < s.n := ⟨hidle, hi⟩
  by_cases hc : (s.hs v).cancelled = true
  · simp [next, hg, hfree, acqScript, signalCsc, upd, delScript, extendScript, hc]
  · simp [next, hg, hfree, acqScript, signalCsc, upd, delScript, extendScript, hc, setH]

/-! ### 6b. key names round-trip for ALL names -/
open Rv.Lock.KeyName in
private theorem splitFirst_append (d n : List Char) (hd : ∀ c ∈ d, c ≠ ':') :
    splitFirst (d ++ ':' :: n) = some (d, n) := by
  induction d with
  | nil => simp [splitFirst]
  | cons c r ih =>
    have hc : c ≠ ':' := hd c (List.mem_cons_self ..)
    have := ih (fun x hx => hd x (List.mem_cons_of_mem _ hx))
    simp [splitFirst, hc, this]

open Rv.Lock.KeyName in
private theorem digits_ok (i : Nat) : (∀ c ∈ Nat.toDigits 10 i, c ≠ ':') ∧ allDigits (Nat.toDigits 10 i) = true ∧
    (Nat.toDigits 10 i).head? ≠ some '-' ∧ (Nat.toDigits 10 i).head? ≠ some '+' := by
  have hdig : ∀ c ∈ Nat.toDigits 10 i, c.isDigit = true :=
    fun c hc => Nat.isDigit_of_mem_toDigits (by decide) (by decide) hc
  have hne : Nat.toDigits 10 i ≠ [] := Nat.toDigits_ne_nil
  refine ⟨fun c hc e => by have := hdig c hc; rw [e] at this; exact absurd this (by decide), ?_, ?_, ?_⟩
  · simp only [allDigits, Bool.and_eq_true, Bool.not_eq_true', List.all_eq_true]
    exact ⟨by cases h : Nat.toDigits 10 i <;> simp_all, hdig⟩
  · intro h
    cases hl : Nat.toDigits 10 i with
    | nil => exact hne hl
    | cons c r =>
      rw [hl] at h; simp at h
      have := hdig c (by rw [hl]; exact List.mem_cons_self ..)
      rw [h] at this; exact absurd this (by decide)
  · intro h
    cases hl : Nat.toDigits 10 i with
    | nil => exact hne hl
    | cons c r =>
      rw [hl] at h; simp at h
      have := hdig c (by rw [hl]; exact List.mem_cons_self ..)
      rw [h] at this; exact absurd this (by decide)

/-- KEY NAMES: what onInvalidations parses out of the key `keyname` built is the index and the
name again — for every prefix, every index and EVERY name, colons included. This is what
`SplitN(…, ":", 2)` (split at the first colon only) provides and a full `Split` does not. -/
theorem parseKey_keyname (p n : List Char) (i : Nat) :
    KeyName.parseKey p (KeyName.keyname p i n) = .hit i n := by
  obtain ⟨hcol, hall, hm, hp⟩ := digits_ok i
  have hpre : p.isPrefixOf (KeyName.keyname p i n) = true := by
    simp [KeyName.keyname, List.isPrefixOf_iff_prefix]
  have hlen : ¬ (KeyName.keyname p i n).length < p.length + 1 := by
    simp [KeyName.keyname]
  have hdrop : (KeyName.keyname p i n).drop (p.length + 1) = Nat.toDigits 10 i ++ ':' :: n := by
    have : KeyName.keyname p i n = (p ++ [':']) ++ (Nat.toDigits 10 i ++ ':' :: n) := by simp [KeyName.keyname]
    rw [this, List.drop_left' (by simp)]
  have hat : KeyName.atoi (Nat.toDigits 10 i) = (i : Int) := by
    simp only [KeyName.atoi, if_neg hm, if_neg hp, hall, if_true, Nat.ofDigitChars_ten_toDigits]
  simp only [KeyName.parseKey, hpre, if_true, if_neg hlen, hdrop, splitFirst_append _ _ hcol, hat]

/-- hence the gate of the lock's own name is signalled at the right per-key channel -/
theorem signal_keyname (p n : List Char) (i total : Nat) (hi : i < total) :
    KeyName.signal p n total (KeyName.keyname p i n) = .gate i := by
  simp [KeyName.signal, parseKey_keyname, hi]

/-- a parser that splits at EVERY colon and insists on two parts drops the push for a name with a
colon: `job:42` -/
example : KeyName.splitFirst "0:job:42".toList = some ("0".toList, "job:42".toList) := by decide

/-! ### 7. waiters of ONE Locker under NoLoopTracking: the wake-up CAN be lost

`waiter_not_lost` above is about waiters whose connection is told about every write of the key
they track. For two WithContext callers of one Locker with NoLoopTracking the real code loses
the wake-up on the schedule below (reproduced end-to-end with gates on the delkey calls, witness
key `lock:lost-wakeup:noloop-sibling-failed-attempt`, known finding). -/

/-- NOLOOP: at the end of the schedule every key is free, both waiters are parked, the gate
channel is empty and the connection tracks nothing: nothing is pending that could wake them -/
theorem noloop_sibling_lost_wakeup_witness :
    let s := Sib.run { noloop := true } Sib.schedule
    s.regs = [none, none, none] ∧ s.parked = 2 ∧ s.token = false ∧ s.tracked = [] ∧ s.live = 0 := by
  decide

/-- the same schedule without NOLOOP: the waiter's own deletion of key 0 is notified, a token is
pending, and the next attempt takes the lock -/
theorem sibling_control_without_noloop :
    let s := Sib.run { noloop := false } Sib.schedule
    s.token = true ∧ s.parked = 2 ∧ (Sib.settle s 4 8).live = 1 ∧ (Sib.settle s 4 8).parked = 1 := by
  decide

/-! ### 8. non-vacuity -/
example : live (run (init 2) [.acq 5 0, .acq 5 1, .ret 5, .acq 5 2]) 5 = true := by decide
example : live (run (init 2) [.acq 5 0, .acq 5 1, .ret 5, .acq 6 0, .skip 6 1, .skip 6 2, .park 1 0]) 6 = false := by decide

end Rv.C34
