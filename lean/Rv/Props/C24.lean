import Rv.Model.Pool
/-!
# C24 — Blocking pool bounds, isolates and releases connections
(with the pool part of C05: waiters whose context is done return)

Theorems over `Rv.Pool` (the pool's data and who holds what; every transition is one
locked region of pool.go) and `Rv.PoolWait` (the wait protocol of `Acquire` against the
most general environment). All statements are for every reachable state, i.e. for all
interleavings of acquisitions (live / done / cancelled contexts), returns, failed
dials, expired fresh wires, idle cleanup and Close.
-/
set_option linter.unusedVariables false
set_option linter.unusedSimpArgs false

namespace Rv.C24
open Rv.Pool

/-- The inductive invariant of the repaired pool. -/
structure Inv (c : Cfg) (s : St) : Prop where
  acct : s.size + s.over = (s.making + s.fresh.length + s.out.length + s.outDead + s.list.length : Nat)
  up : s.down = false → s.over = 0 ∧ s.outDeadU = 0
  total : s.making + s.fresh.length + s.out.length + s.outDead + s.list.length ≤ c.cap
  ndList : s.list.Nodup
  ndFresh : s.fresh.Nodup
  ndOut : s.out.Nodup
  djLO : ∀ w, w ∈ s.list → w ∉ s.out
  djLF : ∀ w, w ∈ s.list → w ∉ s.fresh
  djFO : ∀ w, w ∈ s.fresh → w ∉ s.out
  lt : ∀ w, (w ∈ s.list ∨ w ∈ s.fresh ∨ w ∈ s.out) → w < s.next
  cons : ∀ w, w < s.next → w ∈ s.list ∨ w ∈ s.fresh ∨ w ∈ s.out ∨ w ∈ s.closed
  closedBad : ∀ w, w ∈ s.closed → w ∈ s.bad
  downClosed : s.down = true → ∀ w, w ∈ s.list → w ∈ s.closed
  idleOpen : s.down = false → ∀ w, w ∈ s.list → w ∉ s.closed

private theorem inv_acqCtxDead {c : Cfg} {s s' : St}  (hc : c.skipUncounted = true) (h : Inv c s)
    (hs : step c s (.acqCtxDead) = some s') : Inv c s' := by
  obtain ⟨h1,h2,h3,h4,h5,h6,h7,h8,h9,h10,h11,h12,h13,h14⟩ := h
  simp only [step, hc, Rv.Pool.discard] at hs
  (repeat' (split at hs)) <;> (first | (simp at hs; done) | skip) <;>
    (simp only [Option.some.injEq] at hs; subst hs) <;>
    (constructor <;> simp_all <;> grind)

private theorem inv_acqDown {c : Cfg} {s s' : St}  (hc : c.skipUncounted = true) (h : Inv c s)
    (hs : step c s (.acqDown) = some s') : Inv c s' := by
  obtain ⟨h1,h2,h3,h4,h5,h6,h7,h8,h9,h10,h11,h12,h13,h14⟩ := h
  simp only [step, hc, Rv.Pool.discard] at hs
  (repeat' (split at hs)) <;> (first | (simp at hs; done) | skip) <;>
    (simp only [Option.some.injEq] at hs; subst hs) <;>
    (constructor <;> simp_all <;> grind)

private theorem inv_acqPop {c : Cfg} {s s' : St} {ok : Bool} (hc : c.skipUncounted = true) (h : Inv c s)
    (hs : step c s (.acqPop ok) = some s') : Inv c s' := by
  obtain ⟨h1,h2,h3,h4,h5,h6,h7,h8,h9,h10,h11,h12,h13,h14⟩ := h
  simp only [step, hc, Rv.Pool.discard] at hs
  (repeat' (split at hs)) <;> (first | (simp at hs; done) | skip) <;>
    (simp only [Option.some.injEq] at hs; subst hs) <;>
    (constructor <;> simp_all <;> grind)

private theorem inv_makeRet {c : Cfg} {s s' : St} {alive : Bool} {ok : Bool} (hc : c.skipUncounted = true) (h : Inv c s)
    (hs : step c s (.makeRet alive ok) = some s') : Inv c s' := by
  obtain ⟨h1,h2,h3,h4,h5,h6,h7,h8,h9,h10,h11,h12,h13,h14⟩ := h
  simp only [step, hc, Rv.Pool.discard] at hs
  (repeat' (split at hs)) <;> (first | (simp at hs; done) | skip) <;>
    (simp only [Option.some.injEq] at hs; subst hs) <;>
    (constructor <;> simp_all <;> grind)

private theorem inv_makeDead {c : Cfg} {s s' : St}  (hc : c.skipUncounted = true) (h : Inv c s)
    (hs : step c s (.makeDead) = some s') : Inv c s' := by
  obtain ⟨h1,h2,h3,h4,h5,h6,h7,h8,h9,h10,h11,h12,h13,h14⟩ := h
  simp only [step, hc, Rv.Pool.discard] at hs
  (repeat' (split at hs)) <;> (first | (simp at hs; done) | skip) <;>
    (simp only [Option.some.injEq] at hs; subst hs) <;>
    (constructor <;> simp_all <;> grind)

private theorem inv_dropFresh {c : Cfg} {s s' : St} {w : Nat} (hc : c.skipUncounted = true) (h : Inv c s)
    (hs : step c s (.dropFresh w) = some s') : Inv c s' := by
  obtain ⟨h1,h2,h3,h4,h5,h6,h7,h8,h9,h10,h11,h12,h13,h14⟩ := h
  simp only [step, hc, Rv.Pool.discard] at hs
  (repeat' (split at hs)) <;> (first | (simp at hs; done) | skip) <;>
    (simp only [Option.some.injEq] at hs; subst hs) <;>
    (constructor <;> simp_all <;> grind)

private theorem inv_store {c : Cfg} {s s' : St} {w : Nat} (hc : c.skipUncounted = true) (h : Inv c s)
    (hs : step c s (.store w) = some s') : Inv c s' := by
  obtain ⟨h1,h2,h3,h4,h5,h6,h7,h8,h9,h10,h11,h12,h13,h14⟩ := h
  simp only [step, hc, Rv.Pool.discard] at hs
  (repeat' (split at hs)) <;> (first | (simp at hs; done) | skip) <;>
    (simp only [Option.some.injEq] at hs; subst hs) <;>
    (constructor <;> simp_all <;> grind)

private theorem inv_storeDead {c : Cfg} {s s' : St}  (hc : c.skipUncounted = true) (h : Inv c s)
    (hs : step c s (.storeDead) = some s') : Inv c s' := by
  obtain ⟨h1,h2,h3,h4,h5,h6,h7,h8,h9,h10,h11,h12,h13,h14⟩ := h
  simp only [step, hc, Rv.Pool.discard] at hs
  (repeat' (split at hs)) <;> (first | (simp at hs; done) | skip) <;>
    (simp only [Option.some.injEq] at hs; subst hs) <;>
    (constructor <;> simp_all <;> grind)

private theorem inv_storeDeadU {c : Cfg} {s s' : St}  (hc : c.skipUncounted = true) (h : Inv c s)
    (hs : step c s (.storeDeadU) = some s') : Inv c s' := by
  obtain ⟨h1,h2,h3,h4,h5,h6,h7,h8,h9,h10,h11,h12,h13,h14⟩ := h
  simp only [step, hc, Rv.Pool.discard] at hs
  (repeat' (split at hs)) <;> (first | (simp at hs; done) | skip) <;>
    (simp only [Option.some.injEq] at hs; subst hs) <;>
    (constructor <;> simp_all <;> grind)

private theorem inv_storeCtx {c : Cfg} {s s' : St}  (hc : c.skipUncounted = true) (h : Inv c s)
    (hs : step c s (.storeCtx) = some s') : Inv c s' := by
  obtain ⟨h1,h2,h3,h4,h5,h6,h7,h8,h9,h10,h11,h12,h13,h14⟩ := h
  simp only [step, hc, Rv.Pool.discard] at hs
  (repeat' (split at hs)) <;> (first | (simp at hs; done) | skip) <;>
    (simp only [Option.some.injEq] at hs; subst hs) <;>
    (constructor <;> simp_all <;> grind)

private theorem inv_close {c : Cfg} {s s' : St}  (hc : c.skipUncounted = true) (h : Inv c s)
    (hs : step c s (.close) = some s') : Inv c s' := by
  obtain ⟨h1,h2,h3,h4,h5,h6,h7,h8,h9,h10,h11,h12,h13,h14⟩ := h
  simp only [step, hc, Rv.Pool.discard] at hs
  (repeat' (split at hs)) <;> (first | (simp at hs; done) | skip) <;>
    (simp only [Option.some.injEq] at hs; subst hs) <;>
    (constructor <;> simp_all <;> grind)

private theorem inv_breakWire {c : Cfg} {s s' : St} {w : Nat} (hc : c.skipUncounted = true) (h : Inv c s)
    (hs : step c s (.breakWire w) = some s') : Inv c s' := by
  obtain ⟨h1,h2,h3,h4,h5,h6,h7,h8,h9,h10,h11,h12,h13,h14⟩ := h
  simp only [step, hc, Rv.Pool.discard] at hs
  (repeat' (split at hs)) <;> (first | (simp at hs; done) | skip) <;>
    (simp only [Option.some.injEq] at hs; subst hs) <;>
    (constructor <;> simp_all <;> grind)

private theorem inv_closeWire {c : Cfg} {s s' : St} {w : Nat} (hc : c.skipUncounted = true) (h : Inv c s)
    (hs : step c s (.closeWire w) = some s') : Inv c s' := by
  obtain ⟨h1,h2,h3,h4,h5,h6,h7,h8,h9,h10,h11,h12,h13,h14⟩ := h
  simp only [step, hc, Rv.Pool.discard] at hs
  (repeat' (split at hs)) <;> (first | (simp at hs; done) | skip) <;>
    (simp only [Option.some.injEq] at hs; subst hs) <;>
    (constructor <;> simp_all <;> grind)

private theorem inv_acqNew {c : Cfg} {s s' : St} (h : Inv c s)
    (hs : step c s (.acqNew) = some s') : Inv c s' := by
  obtain ⟨h1,h2,h3,h4,h5,h6,h7,h8,h9,h10,h11,h12,h13,h14⟩ := h
  simp only [step] at hs
  split at hs
  · rename_i hg
    simp only [Option.some.injEq] at hs; subst hs
    simp only [Bool.and_eq_true, Bool.not_eq_true', List.isEmpty_iff, bne_iff_ne, ne_eq] at hg
    obtain ⟨⟨hd, hl⟩, hne⟩ := hg
    have := h2 hd
    constructor <;> simp_all <;> omega
  · simp at hs

private theorem inv_removeIdle {c : Cfg} {s s' : St} (h : Inv c s)
    (hs : step c s (.removeIdle) = some s') : Inv c s' := by
  obtain ⟨h1,h2,h3,h4,h5,h6,h7,h8,h9,h10,h11,h12,h13,h14⟩ := h
  simp only [step, Option.some.injEq] at hs; subst hs
  have hmem : ∀ n w, w ∈ s.list ↔ (w ∈ s.list.take n ∨ w ∈ s.list.drop n) := by
    intro n w; rw [← List.mem_append, List.take_append_drop]
  constructor <;> simp only [List.length_drop, List.mem_append]
  case acct => omega
  case up => exact h2
  case total => omega
  case ndList => exact h4.sublist (List.drop_sublist _ _)
  case ndFresh => exact h5
  case ndOut => exact h6
  case djLO => intro w hw; exact h7 w (List.mem_of_mem_drop hw)
  case djLF => intro w hw; exact h8 w (List.mem_of_mem_drop hw)
  case djFO => exact h9
  case lt =>
    intro w hw; rcases hw with hw | hw | hw
    · exact h10 w (Or.inl (List.mem_of_mem_drop hw))
    · exact h10 w (Or.inr (Or.inl hw))
    · exact h10 w (Or.inr (Or.inr hw))
  case cons =>
    intro w hw
    rcases h11 w hw with h | h | h | h
    · rcases (hmem _ w).1 h with h | h
      · exact Or.inr (Or.inr (Or.inr (Or.inl h)))
      · exact Or.inl h
    · exact Or.inr (Or.inl h)
    · exact Or.inr (Or.inr (Or.inl h))
    · exact Or.inr (Or.inr (Or.inr (Or.inr h)))
  case closedBad =>
    intro w hw; rcases hw with hw | hw
    · exact Or.inl hw
    · exact Or.inr (h12 w hw)
  case downClosed =>
    intro hd w hw; exact Or.inr (h13 hd w (List.mem_of_mem_drop hw))
  case idleOpen =>
    intro hd w hw hb
    have hnd : (s.list.take (s.list.length - min c.minSize s.list.length) ++
        s.list.drop (s.list.length - min c.minSize s.list.length)).Nodup := by
      rw [List.take_append_drop]; exact h4
    rcases hb with hb | hb
    · exact (List.nodup_append.1 hnd).2.2 w hb w hw rfl
    · exact h14 hd w (List.mem_of_mem_drop hw) hb


theorem inv_step {c : Cfg} {s s' : St} {op : Op} (hc : c.skipUncounted = true) (h : Inv c s)
    (hs : step c s op = some s') : Inv c s' := by
  cases op with
  | acqCtxDead => exact inv_acqCtxDead hc h hs
  | acqDown => exact inv_acqDown hc h hs
  | acqNew => exact inv_acqNew h hs
  | acqPop ok => exact inv_acqPop hc h hs
  | makeRet a ok => exact inv_makeRet hc h hs
  | makeDead => exact inv_makeDead hc h hs
  | dropFresh w => exact inv_dropFresh hc h hs
  | store w => exact inv_store hc h hs
  | storeDead => exact inv_storeDead hc h hs
  | storeDeadU => exact inv_storeDeadU hc h hs
  | storeCtx => exact inv_storeCtx hc h hs
  | close => exact inv_close hc h hs
  | removeIdle => exact inv_removeIdle h hs
  | breakWire w => exact inv_breakWire hc h hs
  | closeWire w => exact inv_closeWire hc h hs

theorem inv_init (c : Cfg) : Inv c {} := by
  constructor <;> simp

/-- Every state reachable by the repaired pool satisfies the invariant. -/
theorem inv_reach {c : Cfg} {s : St} (hc : c.skipUncounted = true) (h : Reach c s) : Inv c s := by
  induction h with
  | init => exact inv_init c
  | step op _ hs ih => exact inv_step hc ih hs

/-! ## The clauses of the property -/

/-- **size accounting**: while the pool is up, `size` is exactly the number of wires handed
    out or being dialled plus the idle ones (the placeholder given for a done context is
    neither counted nor subtracted). -/
theorem size_accounting {c : Cfg} {s : St} (hc : c.skipUncounted = true) (h : Reach c s)
    (hup : s.down = false) : s.size = (inUse s + idle s : Nat) := by
  have hi := inv_reach hc h
  have := hi.acct; have := (hi.up hup).1
  simp only [inUse, idle]; omega

/-- **bounded**: at all times (before and after Close) the connections in use, being
    dialled and idle — even together with the counted dead hand-outs — never exceed `cap`. -/
theorem bounded {c : Cfg} {s : St} (hc : c.skipUncounted = true) (h : Reach c s) :
    live s ≤ c.cap ∧ inUse s + idle s ≤ c.cap := by
  have hi := (inv_reach hc h).total
  simp only [live, inUse, idle]; omega

/-- while the pool is up, `size ≤ cap` (so the `size == cap` test of the wait loop means "full"). -/
theorem size_le_cap {c : Cfg} {s : St} (hc : c.skipUncounted = true) (h : Reach c s)
    (hup : s.down = false) : s.size ≤ c.cap := by
  have := size_accounting hc h hup; have := (bounded hc h).2; omega

/-- after an own `p.size--` under the mutex the pool is not exhausted: the `goto retry`
    paths of `Acquire` never enter `cond.Wait` (used by `Rv.PoolWait.step`). -/
theorem retry_not_exhausted {c : Cfg} {s s' : St} (hc : c.skipUncounted = true) (h : Reach c s) :
    (∀ w, step c s (.dropFresh w) = some s' → exhausted c s' = false) ∧
    (∀ ok, step c s (.acqPop ok) = some s' → s'.size < s.size → exhausted c s' = false) := by
  constructor
  · intro w hs
    have h' := Reach.step _ h hs
    cases hd : s'.down
    · have h1 := size_le_cap hc h (by
        simp only [step, Rv.Pool.discard] at hs; split at hs <;> simp at hs; subst hs; simpa using hd)
      have : s'.size = s.size - 1 := by
        simp only [step, Rv.Pool.discard] at hs; split at hs <;> simp at hs; subst hs; rfl
      simp only [exhausted, hd]
      have : ¬ (s'.size = (c.cap : Int)) := by omega
      simp [this]
    · simp [exhausted, hd]
  · intro ok hs hlt
    cases hd : s'.down
    · have hdn : s.down = false := by
        simp only [step] at hs; split at hs; · simp at hs
        rename_i hx; simpa using hx
      have h1 := size_le_cap hc h hdn
      simp only [exhausted, hd]
      have : ¬ (s'.size = (c.cap : Int)) := by omega
      simp [this]
    · simp [exhausted, hd]

/-- **exclusive**: no wire is handed to two holders at the same time, and a wire that is
    held is neither idle in the pool (from where it could be handed out again) nor pending. -/
theorem exclusive {c : Cfg} {s : St} (hc : c.skipUncounted = true) (h : Reach c s) :
    s.out.Nodup ∧ s.list.Nodup ∧ (∀ w, w ∈ s.out → w ∉ s.list ∧ w ∉ s.fresh) := by
  have hi := inv_reach hc h
  refine ⟨hi.ndOut, hi.ndList, fun w hw => ⟨fun hl => hi.djLO w hl hw, fun hf => hi.djFO w hf hw⟩⟩

/-- every hand-out of an idle wire goes to a new holder: it was held by nobody, and it
    reports no error and was never closed. -/
theorem handout_is_exclusive_and_healthy {c : Cfg} {s s' : St} {ok : Bool}
    (hc : c.skipUncounted = true) (h : Reach c s) (hs : step c s (.acqPop ok) = some s')
    {w : Nat} (hw : w ∈ s'.out) (hnew : w ∉ s.out) :
    w ∉ s.fresh ∧ w ∉ s.bad ∧ w ∉ s.closed ∧ w ∉ s'.list := by
  have hi := inv_reach hc h
  have hi' := inv_step hc hi hs
  simp only [step] at hs
  split at hs; · simp at hs
  split at hs; · simp at hs
  rename_i w0 rest hl
  split at hs
  · rename_i hg
    simp only [Option.some.injEq] at hs; subst hs
    simp only [List.mem_cons] at hw
    rcases hw with rfl | hw
    · simp only [Bool.and_eq_true, Bool.not_eq_true', List.contains_eq_mem, decide_eq_false_iff_not] at hg
      have hin : w ∈ s.list := by rw [hl]; simp
      refine ⟨hi.djLF w hin, hg.2, fun hc' => hg.2 (hi.closedBad w hc'), ?_⟩
      have := hi.ndList; rw [hl] at this
      simpa using (List.nodup_cons.1 this).1
    · exact absurd hw hnew
  · simp only [Option.some.injEq, Rv.Pool.discard] at hs; subst hs
    exact absurd hw hnew

/-- **returned or closed (no wire is lost)**: every wire the pool ever made is, at all
    times, held by somebody who will store it, pending in its acquirer's retry, idle in
    the pool, or closed. -/
theorem returned_or_closed {c : Cfg} {s : St} (hc : c.skipUncounted = true) (h : Reach c s) :
    ∀ w, w < s.next → w ∈ s.out ∨ w ∈ s.fresh ∨ w ∈ s.list ∨ w ∈ s.closed := by
  intro w hw
  rcases (inv_reach hc h).cons w hw with h | h | h | h <;> simp [h]

/-- `Store` of a held wire always succeeds and puts it back into the list or closes it;
    a wire with an error and any wire stored after Close is closed. -/
theorem store_returns {c : Cfg} {s : St} {w : Nat} (hc : c.skipUncounted = true) (h : Reach c s)
    (hw : w ∈ s.out) :
    ∃ s', step c s (.store w) = some s' ∧ w ∉ s'.out ∧ (w ∈ s'.list ∨ w ∈ s'.closed) ∧
      ((s.down = true ∨ w ∈ s.bad) → w ∈ s'.closed) ∧ s'.out.length + 1 = s.out.length := by
  have hi := inv_reach hc h
  have hne : w ∉ s.out.erase w := fun hm => by
    have := (List.Nodup.mem_erase_iff hi.ndOut).1 hm; exact this.1 rfl
  have hlen : (s.out.erase w).length + 1 = s.out.length := by
    have := List.length_erase_of_mem hw; have := List.length_pos_of_mem hw; omega
  simp only [step, List.contains_eq_mem, hw, decide_true, if_true]
  split
  · rename_i hg
    refine ⟨_, rfl, hne, Or.inl (by simp), ?_, hlen⟩
    simp only [Bool.and_eq_true, Bool.not_eq_true', decide_eq_false_iff_not] at hg
    intro hx; rcases hx with hx | hx
    · simp [hg.1] at hx
    · exact absurd hx hg.2
  · refine ⟨_, rfl, hne, Or.inr (by simp [Rv.Pool.discard]), fun _ => by simp [Rv.Pool.discard], hlen⟩

/-- the acquirer of an expired fresh wire closes it. -/
theorem fresh_is_closed {c : Cfg} {s s' : St} {w : Nat} (hs : step c s (.dropFresh w) = some s') :
    w ∈ s'.closed := by
  simp only [step, Rv.Pool.discard] at hs
  split at hs <;> simp at hs
  subst hs; simp

/-- caller discipline (`mux.blocking`, `blockingMulti`, `DoStream`/`WriteTo`,
    `Dedicated`+`release`): use the wire, close it if the command failed, store it. The
    wire ends up idle or closed — closed whenever the command failed. -/
theorem caller_returns {c : Cfg} {s : St} {w : Nat} (fail : Bool) (hc : c.skipUncounted = true)
    (h : Reach c s) (hw : w ∈ s.out) :
    ∃ s', run c s (useAndStore w fail) = some s' ∧ Reach c s' ∧ w ∉ s'.out ∧
      (w ∈ s'.list ∨ w ∈ s'.closed) ∧ (fail = true → w ∈ s'.closed) ∧
      s'.out.length + 1 = s.out.length := by
  cases fail
  · obtain ⟨s', h1, h2, h3, _, h5⟩ := store_returns hc h hw
    exact ⟨s', by simp [useAndStore, run, h1], Reach.step _ h h1, h2, h3, by simp, h5⟩
  · have hcw : step c s (.closeWire w) = some { s with closed := w :: s.closed, bad := w :: s.bad } := by
      simp [step, hw]
    have hr := Reach.step _ h hcw
    obtain ⟨s', h1, h2, h3, h4, h5⟩ := store_returns (w := w) hc hr (by simpa using hw)
    refine ⟨s', by simp [useAndStore, run, hcw, h1], Reach.step _ hr h1, h2, h3, fun _ => h4 (Or.inr (by simp)), ?_⟩
    simpa using h5

/-- when nobody holds or dials anything the pool is settled: `size` is the number of idle
    wires and every wire ever made is idle or closed (what the `callers` suite observes
    after each complete call). -/
theorem settled {c : Cfg} {s : St} (hc : c.skipUncounted = true) (h : Reach c s) (hup : s.down = false)
    (h0 : s.out = [] ∧ s.fresh = [] ∧ s.making = 0 ∧ s.outDead = 0) :
    s.size = s.list.length ∧ ∀ w, w < s.next → w ∈ s.list ∨ w ∈ s.closed := by
  obtain ⟨ho, hf, hm, hd⟩ := h0
  refine ⟨?_, fun w hw => ?_⟩
  · have := size_accounting hc h hup; simp [inUse, idle, ho, hf, hm, hd] at this; exact this
  · have := returned_or_closed hc h w hw; simpa [ho, hf] using this

/-- while the pool is up, no idle wire has been closed: whatever the pool closes (idle
    cleanup, broken wires, `Store` of a bad wire) has left the list in the same locked region,
    so a wire stored meanwhile can never be the one that gets closed (what `!race-cleanup`
    observes on the real pool). -/
theorem idle_not_closed {c : Cfg} {s : St} (hc : c.skipUncounted = true) (h : Reach c s)
    (hup : s.down = false) : ∀ w, w ∈ s.list → w ∉ s.closed :=
  (inv_reach hc h).idleOpen hup

/-- `down` is never reset. -/
theorem down_stable {c : Cfg} {s s' : St} {op : Op} (hs : step c s op = some s') (hd : s.down = true) :
    s'.down = true := by
  cases op <;> simp only [step, Rv.Pool.discard] at hs <;> (repeat' (split at hs)) <;>
    (first | (simp at hs; done) | skip) <;> (simp only [Option.some.injEq] at hs; subst hs) <;> simp_all

/-- **after Close only dead wires are handed out**: once `down` is set, the only enabled
    decisions of `Acquire` are the two that hand out a dead wire (`ctx` done / pool down);
    no idle wire is handed out and nothing is dialled. (An acquirer that was already inside
    `makeFn` when Close ran still gets the wire it dialled — `makeRet` — and `Store` then
    closes it, see `store_returns`.) -/
theorem down_hands_only_dead {c : Cfg} {s : St} (hd : s.down = true) :
    step c s .acqNew = none ∧ (∀ ok, step c s (.acqPop ok) = none) ∧
    (∀ op s', step c s op = some s' → (∀ a ok, op ≠ .makeRet a ok) → ∀ w, w ∈ s'.out → w ∈ s.out) := by
  refine ⟨by simp [step, hd], fun ok => by simp [step, hd], ?_⟩
  intro op s' hs hne w hw
  cases op <;> simp only [step, Rv.Pool.discard, hd] at hs <;> (repeat' (split at hs)) <;>
    (first | (simp at hs; done) | skip) <;> (simp only [Option.some.injEq] at hs; subst hs) <;>
    (first | exact hw | exact List.mem_of_mem_erase hw | exact absurd rfl (hne _ _) | skip)
  all_goals simp_all

/-- after Close every idle wire is closed, and every wire still held is closed by its `Store`. -/
theorem down_closes_idle {c : Cfg} {s : St} (hc : c.skipUncounted = true) (h : Reach c s)
    (hd : s.down = true) : ∀ w, w ∈ s.list → w ∈ s.closed :=
  (inv_reach hc h).downClosed hd

private theorem nodup_subset_length {L : List Nat} : ∀ {M : List Nat}, L.Nodup → (∀ x, x ∈ L → x ∈ M) → L.length ≤ M.length := by
  induction L with
  | nil => intro M _ _; simp
  | cons a L ih =>
    intro M hn hs
    have ha : a ∈ M := hs a (by simp)
    have hn' := List.nodup_cons.1 hn
    have : L.length ≤ (M.erase a).length := ih hn'.2 (fun x hx => by
      have hxm := hs x (by simp [hx])
      have hne : x ≠ a := fun h => hn'.1 (h ▸ hx)
      exact (List.mem_erase_of_ne hne).2 hxm)
    have h1 := List.length_erase_of_mem ha
    have h2 := List.length_pos_of_mem ha
    simp only [List.length_cons]; omega

/-- wires the pool made and nobody closed yet (what the `pool` suite counts as live) -/
def unclosed (s : St) : List Nat := (List.range s.next).filter (fun w => !s.closed.contains w)

/-- **bounded, as observed from outside**: the connections that were dialled and not closed,
    plus the dials in progress, never exceed `cap`. -/
theorem unclosed_bounded {c : Cfg} {s : St} (hc : c.skipUncounted = true) (h : Reach c s) :
    (unclosed s).length + s.making ≤ c.cap := by
  have hi := inv_reach hc h
  have hnd : (unclosed s).Nodup := List.Nodup.sublist List.filter_sublist List.nodup_range
  have hsub : ∀ x, x ∈ unclosed s → x ∈ s.list ++ s.fresh ++ s.out := by
    intro x hx
    simp only [unclosed, List.mem_filter, List.mem_range, List.contains_eq_mem, Bool.not_eq_true',
      decide_eq_false_iff_not] at hx
    rcases hi.cons x hx.1 with h | h | h | h
    · simp [h]
    · simp [h]
    · simp [h]
    · exact absurd h hx.2
  have := nodup_subset_length hnd hsub
  have := hi.total
  simp only [List.length_append] at *
  omega

/-! ## The tree as it was before the `fix:` commits (negations with witnesses) -/

/-- the code before the repair of `Store` -/
def asIs (cap : Nat) : Cfg := { cap := cap, minSize := 0, skipUncounted := false }

/-- witness (a): `Acquire` with a done context, then `Store` of what it returned: `size = -1`. -/
theorem asis_size_negative :
    (run (asIs 1) {} [.acqCtxDead, .storeCtx]).map (·.size) = some (-1) := by decide

/-- … after which a pool of capacity 1 dials two connections and hands both out:
    `bounded` and `size_accounting` are false for the code as it was. -/
theorem asis_exceeds_cap :
    ∃ s, Reach (asIs 1) s ∧ s.down = false ∧ live s = 2 ∧ s.size ≠ (inUse s + idle s : Nat) := by
  have hr : ∀ (ops : List Op) (s0 s : St), Reach (asIs 1) s0 → run (asIs 1) s0 ops = some s → Reach (asIs 1) s := by
    intro ops; induction ops with
    | nil => intro s0 s h0 hs; simp [run] at hs; subst hs; exact h0
    | cons op ops ih =>
      intro s0 s h0 hs
      simp only [run] at hs
      split at hs
      · rename_i s1 h1; exact ih s1 s (Reach.step _ h0 h1) hs
      · simp at hs
  refine ⟨{ size := 1, out := [1, 0], next := 2, over := 1 }, ?_, rfl, by decide, by decide⟩
  exact hr [.acqCtxDead, .storeCtx, .acqNew, .makeRet true true, .acqNew, .makeRet true true] {} _ Reach.init (by decide)

/-- the same schedule on the repaired code is stopped by the wait condition. -/
theorem repaired_blocks_witness :
    run { cap := 1, minSize := 0 } {} [.acqCtxDead, .storeCtx, .acqNew, .makeRet true true, .acqNew] = none := by
  decide

end Rv.C24

/-! ## The wait protocol: waiters whose context is done return (C24, pool part of C05) -/
namespace Rv.C24
open Rv.PoolWait


/-- the repaired code: Broadcast under the mutex -/
abbrev fixedW : Cfg := repaired
/-- the code as it was: Broadcast without the mutex -/
def asIsW : Cfg := { lockedBroadcast := false }

/-- invariant of the wait protocol (repaired code) -/
def WInv (s : St) : Prop :=
  (s.lock = .me ↔ (s.pc = .atLoop ∨ s.pc = .preWait ∨ s.pc = .post)) ∧
  (s.ctxDone = true → s.cancellable = true) ∧
  (s.watcher = .fired → s.ctxDone = true) ∧
  (s.pc = .atLoop → s.exhausted = true → s.ctxDone = false → s.cancellable = true → s.watcher = .armed) ∧
  ((s.pc = .preWait ∨ s.pc = .waiting) → s.cancellable = true → s.watcher = .armed) ∧
  (s.pc = .woken → s.cancellable = true → s.watcher ≠ .none)

private theorem winv_step {s s' : St} {op : Op} (h : WInv s) (hs : step fixedW s op = some s') : WInv s' := by
  obtain ⟨pc, lock, ex, cd, cc, wa⟩ := s
  cases op <;> simp only [step, fixedW, repaired] at hs <;> (repeat' (split at hs)) <;>
    (first | (simp at hs; done) | skip) <;> (simp only [Option.some.injEq] at hs; subst hs) <;>
    simp only [WInv] at h ⊢ <;> simp_all
  all_goals (cases wa <;> simp_all)


private theorem winv_init {s : St} (h : initial s) : WInv s := by
  obtain ⟨pc, lock, ex, cd, cc, wa⟩ := s
  simp only [initial] at h
  obtain ⟨h1, h2, h3, h4⟩ := h
  subst h1 h2 h3
  simp [WInv]; exact h4

theorem winv_reach {s0 s : St} (h0 : initial s0) (h : Reach fixedW s0 s) : WInv s := by
  induction h with
  | init => exact winv_init h0
  | step op _ hs ih => exact winv_step ih hs

/-- a path of steps that need nobody's help -/
def HelpfulPath (c : Cfg) (s : St) (ops : List Op) (s' : St) : Prop :=
  (∀ op, op ∈ ops → helpful op = true) ∧ run c s ops = some s'

private theorem path_of_run {c : Cfg} {s : St} (ops : List Op) (hh : ∀ op, op ∈ ops → helpful op = true)
    (hr : (run c s ops).map (·.pc) = some .exited) (hl : ops.length ≤ 6) :
    ∃ ops s', HelpfulPath c s ops s' ∧ s'.pc = .exited ∧ ops.length ≤ 6 := by
  cases hrun : run c s ops with
  | none => simp [hrun] at hr
  | some s' => simp [hrun] at hr; exact ⟨ops, s', ⟨hh, hrun⟩, hr, hl⟩

/-- **no lost wake-up** (repaired code): whenever the acquirer sleeps in `cond.Wait` with a
    done context, its cancellation goroutine has not broadcast yet — the wake-up is still
    to come, it cannot have fallen between the condition check and the `Wait`. -/
theorem no_lost_wakeup {s0 s : St} (h0 : initial s0) (h : Reach fixedW s0 s)
    (hw : s.pc = .waiting) (hd : s.ctxDone = true) : s.watcher = .armed ∧ s.lock ≠ .me := by
  obtain ⟨h1, h2, h3, h4, h5, h6⟩ := winv_reach h0 h
  refine ⟨h5 (Or.inr hw) (h2 hd), fun hl => ?_⟩
  have := h1.1 hl; simp [hw] at this

/-- **done context ⇒ enabled exit** (C24 "waiters whose context is done return promptly",
    pool part of C05; repaired code). In every reachable state — whatever the interleaving
    of the cancellation with the wait loop, the broadcast, stores, Close and other
    acquirers — an acquirer whose context is done and that has not returned yet can reach
    the return of `Acquire` by steps that need nobody's help: its own steps, its
    cancellation goroutine's broadcast, and the current owner of the mutex releasing it.
    (From `making` the assumption is that `makeFn`, which is given the context, returns.) -/
theorem done_ctx_returns {s0 s : St} (h0 : initial s0) (h : Reach fixedW s0 s)
    (hd : s.ctxDone = true) (hne : s.pc ≠ .exited) :
    ∃ ops s', HelpfulPath fixedW s ops s' ∧ s'.pc = .exited ∧ ops.length ≤ 6 := by
  have hi := winv_reach h0 h
  obtain ⟨pc, lock, ex, cd, cc, wa⟩ := s
  simp only [WInv] at hi
  simp only at hd hne
  subst hd
  obtain ⟨h1, h2, h3, h4, h5, h6⟩ := hi
  have hcc : cc = true := h2 rfl
  subst hcc
  cases pc
  case exited => exact absurd rfl hne
  case start =>
    cases lock
    case me => simp at h1
    case free => exact path_of_run [.enter, .evalLoop, .finish] (by simp [helpful]) (by simp [run, step, fixedW, repaired]) (by simp)
    case env => exact path_of_run [.envUnlock, .enter, .evalLoop, .finish] (by simp [helpful]) (by simp [run, step, fixedW, repaired]) (by simp)
  case atLoop => exact path_of_run [.evalLoop, .finish] (by simp [helpful]) (by simp [run, step, fixedW, repaired]) (by simp)
  case preWait =>
    have hw : wa = .armed := h5 (Or.inl rfl) rfl
    subst hw
    exact path_of_run [.wait, .watcherFire, .relock, .evalLoop, .finish] (by simp [helpful]) (by simp [run, step, fixedW, repaired]) (by simp)
  case waiting =>
    have hw : wa = .armed := h5 (Or.inr rfl) rfl
    subst hw
    cases lock
    case me => simp at h1
    case free => exact path_of_run [.watcherFire, .relock, .evalLoop, .finish] (by simp [helpful]) (by simp [run, step, fixedW, repaired]) (by simp)
    case env => exact path_of_run [.envUnlock, .watcherFire, .relock, .evalLoop, .finish] (by simp [helpful]) (by simp [run, step, fixedW, repaired]) (by simp)
  case woken =>
    cases lock
    case me => simp at h1
    case free => exact path_of_run [.relock, .evalLoop, .finish] (by simp [helpful]) (by simp [run, step, fixedW, repaired]) (by simp)
    case env => exact path_of_run [.envUnlock, .relock, .evalLoop, .finish] (by simp [helpful]) (by simp [run, step, fixedW, repaired]) (by simp)
  case post => exact path_of_run [.finish] (by simp [helpful]) (by simp [run, step, fixedW, repaired]) (by simp)
  case making => exact path_of_run [.dialOk] (by simp [helpful]) (by simp [run, step, fixedW, repaired]) (by simp)

theorem reach_of_run {c : Cfg} {s0 : St} : ∀ (ops : List Op) (s s' : St), Reach c s0 s → run c s ops = some s' → Reach c s0 s' := by
  intro ops; induction ops with
  | nil => intro s s' h hs; simp [run] at hs; subst hs; exact h
  | cons op ops ih =>
    intro s s' h hs
    simp only [run] at hs
    split at hs
    · rename_i s1 h1; exact ih s1 s' (Reach.step _ h h1) hs
    · simp at hs

/-- the lost wake-up state: asleep in `cond.Wait`, context done, the broadcast already spent -/
def lostState : St :=
  { pc := .waiting, lock := .free, exhausted := true, ctxDone := true, cancellable := true, watcher := .fired }

/-- **witness (c)**: with the Broadcast issued without the mutex (the code as it was) the
    schedule `enter; evalLoop` (condition true) `; cancel; watcherFire` (nobody waits yet)
    `; wait` reaches a state in which the acquirer sleeps although its context is done,
    and no step that needs nobody's help is enabled: only somebody else's Store/Close (or
    another cancellation) would ever wake it. -/
theorem lost_wakeup_asis :
    Reach asIsW { exhausted := true, cancellable := true } lostState ∧
    initial { exhausted := true, cancellable := true } ∧
    lostState.ctxDone = true ∧ lostState.pc = .waiting ∧
    ∀ op, helpful op = true → step asIsW lostState op = none := by
  refine ⟨?_, by simp [initial], rfl, rfl, ?_⟩
  · exact reach_of_run [.enter, .evalLoop, .cancel, .watcherFire, .wait] _ _ Reach.init (by decide)
  · intro op hop
    cases op <;> simp [helpful] at hop <;> simp [step, lostState, asIsW]

/-- the same schedule is not executable on the repaired code: the cancellation goroutine
    cannot broadcast while the acquirer holds the mutex between its check and its `Wait`. -/
theorem lost_wakeup_schedule_blocked :
    run fixedW { exhausted := true, cancellable := true } [.enter, .evalLoop, .cancel, .watcherFire] = none := by
  decide

/-- … and `lostState` is unreachable for the repaired code. -/
theorem lost_state_unreachable {s0 : St} (h0 : initial s0) : ¬ Reach fixedW s0 lostState := by
  intro h
  have := (no_lost_wakeup h0 h rfl rfl).1
  simp [lostState] at this

/-- non-vacuity: a waiter with a done context is reachable in the repaired code
    (cancel while asleep), and `done_ctx_returns` gives its exit. -/
example : Reach fixedW { exhausted := true, cancellable := true }
    { pc := .waiting, lock := .free, exhausted := true, ctxDone := true, cancellable := true, watcher := .armed } :=
  reach_of_run [.enter, .evalLoop, .wait, .cancel] _ _ Reach.init (by decide)

end Rv.C24
