/-
C14 — commands are written as RESP arrays that decode to the same argv.
Model: Rv/Model/WriteCmd.lean (writeN/writeB/writeCmd of /repo/resp.go); the decoder is
the RESP reader model of C12 (what a RESP-conforming server does with the bytes).
-/
import Rv.Lemmas.CodecDigits
import Rv.Props.C12
namespace Rv.C14
open Rv Rv.Resp Rv.Spec Rv.WriteCmd Rv.CodecL

/-- the hypothesis about the floating point expression in `writeN`: for `n ≥ 10` it
    yields the exact leading power of ten, `10 ^ (number of digits − 1)` -/
def LeadOK (lead : Nat → Nat) (n : Nat) : Prop := 10 ≤ n → lead n = exactLead n

/-- non-vacuity: the exact function satisfies the hypothesis everywhere -/
theorem exactLead_ok (n : Nat) : LeadOK exactLead n := fun _ => rfl

/-- `exactLead n` is the largest power of ten not exceeding `n` -/
theorem exactLead_spec (n : Nat) (h : 10 ≤ n) :
    exactLead n = 10 ^ ((digits n).length - 1) ∧ exactLead n ≤ n ∧ n < 10 * exactLead n := by
  obtain ⟨h1, h2⟩ := numDigits_bounds n
  have hp := numDigits_pos n
  refine ⟨by rw [exactLead, numDigits_eq_len], h2 h, ?_⟩
  unfold exactLead
  have e : numDigits n = (numDigits n - 1) + 1 := by omega
  rw [e, Nat.pow_succ] at h1; omega

/-- under the hypothesis, `writeN` emits the type byte, the decimal digits of `n`
    (no sign, no leading zeros, exact for every `n`) and CRLF -/
theorem writeN_digits (lead : Nat → Nat) (id : UInt8) (n : Nat) (h : LeadOK lead n) :
    writeN lead id n = id :: digits n ++ crlf := by
  unfold writeN
  by_cases h10 : n < 10
  · rw [if_pos h10, digits, dif_pos h10]; rfl
  · rw [if_neg h10, h (by omega), loop_exact n (by omega)]; rfl

/-- `writeB` emits exactly the RESP bulk string frame of its argument -/
theorem writeB_blob (lead : Nat → Nat) (id : UInt8) (s : List UInt8) (h : LeadOK lead s.length) :
    writeB lead id s = bytes (.blob id s) := by
  unfold writeB
  rw [writeN_digits lead id _ h]
  simp [bytes, crlf]

private theorem writeArgs_bytesL (lead : Nat → Nat) (args : List (List UInt8))
    (h : ∀ a ∈ args, LeadOK lead a.length) :
    writeArgs lead args = bytesL (args.map (Wire.blob 36)) := by
  induction args with
  | nil => simp [writeArgs, bytesL]
  | cons a as ih =>
    simp only [writeArgs, List.map_cons, bytesL]
    rw [writeB_blob lead 36 a (h a (by simp)), ih (fun x hx => h x (by simp [hx]))]

/-- `writeCmd` emits exactly the RESP array of bulk strings of its argument vector -/
theorem writeCmd_eq_bytes (lead : Nat → Nat) (args : List (List UInt8))
    (hn : LeadOK lead args.length) (h : ∀ a ∈ args, LeadOK lead a.length) :
    writeCmd lead args = bytes (.arr 42 (args.map (Wire.blob 36))) := by
  unfold writeCmd
  rw [writeN_digits lead 42 _ hn, writeArgs_bytesL lead args h]
  simp [bytes, crlf]

/-- the argument vector a decoded message stands for: an array (`*`) whose elements are all
    bulk strings (`$`) -/
def argvOf (m : Msg) : Option (List (List UInt8)) :=
  if m.typ = 42 ∧ m.arr.all (fun x => x.typ == 36 && x.arr.isEmpty) then some (m.arr.map Msg.str) else none

/-- decode one command frame with the RESP reader model of C12 (what a server does) -/
def decodeArgv (B : Nat) (bs : List UInt8) : Option (List (List UInt8) × List UInt8) :=
  match decode B bs with
  | .ok (m, rest) => (argvOf m).map (fun a => (a, rest))
  | _ => none

/-- Go lengths are `int`s -/
def GoSized (args : List (List UInt8)) : Prop :=
  args.length < 9223372036854775808 ∧ ∀ a ∈ args, a.length < 9223372036854775808

private theorem wf_cmd (args : List (List UInt8)) (h : GoSized args) :
    WF (.arr 42 (args.map (Wire.blob 36))) = true := by
  obtain ⟨h1, h2⟩ := h
  have hl : ∀ (as : List (List UInt8)), (∀ a ∈ as, a.length < 9223372036854775808) → WFL (as.map (Wire.blob 36)) = true := by
    intro as
    induction as with
    | nil => intro _; simp [WFL]
    | cons a as ih =>
      intro h
      simp only [List.map_cons, WFL, WF, Bool.and_eq_true]
      exact ⟨⟨by decide, decide_eq_true (h a (by simp))⟩, ih (fun x hx => h x (by simp [hx]))⟩
  simp only [WF, Bool.and_eq_true, List.length_map]
  exact ⟨⟨by decide, decide_eq_true h1⟩, hl args h2⟩

private theorem argv_value (args : List (List UInt8)) :
    argvOf (value (.arr 42 (args.map (Wire.blob 36))) []) = some args := by
  have hv : ∀ as : List (List UInt8), valueL (as.map (Wire.blob 36)) = as.map (fun s => Msg.mk 36 s s.length [] []) := by
    intro as; induction as with
    | nil => simp [valueL]
    | cons a as ih => simp [valueL, value, ih]
  simp only [value, hv, argvOf, Msg.typ, Msg.arr]
  simp [List.map_map, Function.comp_def, Msg.str]

/-- **C14 main theorem.** For every argument vector (any number of arguments incl. none, any
    bytes incl. empty strings, binary, CR/LF), what `writeCmd` puts on the wire, followed by
    anything, decodes to exactly that argument vector and leaves the rest unread. -/
theorem decode_writeCmd (B : Nat) (hb : 32 ≤ B) (lead : Nat → Nat) (args : List (List UInt8))
    (hs : GoSized args) (hn : LeadOK lead args.length) (h : ∀ a ∈ args, LeadOK lead a.length)
    (rest : List UInt8) :
    decodeArgv B (writeCmd lead args ++ rest) = some (args, rest) := by
  unfold decodeArgv
  rw [writeCmd_eq_bytes lead args hn h, Rv.C12.decode_encode B hb _ (wf_cmd args hs) rest]
  simp [argv_value]

/-- consecutive commands are framed independently: the concatenation of two written commands
    decodes to the first argv, and what is left decodes to the second argv -/
theorem frames_independent (B : Nat) (hb : 32 ≤ B) (lead : Nat → Nat) (a1 a2 : List (List UInt8))
    (hs1 : GoSized a1) (hs2 : GoSized a2)
    (hn1 : LeadOK lead a1.length) (h1 : ∀ a ∈ a1, LeadOK lead a.length)
    (hn2 : LeadOK lead a2.length) (h2 : ∀ a ∈ a2, LeadOK lead a.length) (rest : List UInt8) :
    decodeArgv B (writeCmd lead a1 ++ writeCmd lead a2 ++ rest) = some (a1, writeCmd lead a2 ++ rest) ∧
    decodeArgv B (writeCmd lead a2 ++ rest) = some (a2, rest) := by
  rw [List.append_assoc]
  exact ⟨decode_writeCmd B hb lead a1 hs1 hn1 h1 _, decode_writeCmd B hb lead a2 hs2 hn2 h2 rest⟩

/-- a whole pipeline: any number of commands written back to back decode, in order, to their argvs -/
def decodeAll (B : Nat) : Nat → List UInt8 → Option (List (List (List UInt8)))
  | 0, bs => if bs.isEmpty then some [] else none
  | n + 1, bs => match decodeArgv B bs with
    | some (a, rest) => (decodeAll B n rest).map (a :: ·)
    | none => none

theorem pipeline_decodes (B : Nat) (hb : 32 ≤ B) (lead : Nat → Nat) (cmds : List (List (List UInt8)))
    (h : ∀ c ∈ cmds, GoSized c ∧ LeadOK lead c.length ∧ ∀ a ∈ c, LeadOK lead a.length) :
    decodeAll B cmds.length ((cmds.map (writeCmd lead)).flatten) = some cmds := by
  induction cmds with
  | nil => simp [decodeAll]
  | cons c cs ih =>
    obtain ⟨hs, hn, ha⟩ := h c (by simp)
    simp only [List.map_cons, List.flatten_cons, List.length_cons, decodeAll]
    rw [decode_writeCmd B hb lead c hs hn ha]
    simp [ih (fun x hx => h x (by simp [hx]))]

/-- the hypothesis-free corollary for the exact leading power -/
theorem decode_writeCmd_exact (B : Nat) (hb : 32 ≤ B) (args : List (List UInt8)) (hs : GoSized args)
    (rest : List UInt8) : decodeArgv B (writeCmd exactLead args ++ rest) = some (args, rest) :=
  decode_writeCmd B hb exactLead args hs (exactLead_ok _) (fun _ _ => exactLead_ok _) rest

/-! ### the caller's argv is left alone: a second write of the same command is the same frame -/

private theorem writeArgsSt_eq (lead : Nat → Nat) (args : List (List UInt8)) :
    writeArgsSt lead args = (writeArgs lead args, args) := by
  induction args with
  | nil => rfl
  | cons a as ih => simp only [writeArgsSt, ih, writeArgs]

/-- `writeCmd` is a function of the argv only, and the argv (the caller's slice, which belongs to the
    `Completed` command) is exactly what it was before the call -/
theorem writeCmd_leaves_argv (lead : Nat → Nat) (cmd : List (List UInt8)) :
    writeCmdSt lead cmd = (writeCmd lead cmd, cmd) := by
  simp only [writeCmdSt, writeArgsSt_eq, writeCmd]

/-- writing the same command again (retry of a read-only command, MOVED/ASK redirect, reuse of a pinned
    command) emits the same frame again and still leaves the argv unchanged -/
theorem writeCmd_idempotent (lead : Nat → Nat) (cmd : List (List UInt8)) :
    writeTwice lead cmd = (writeCmd lead cmd ++ writeCmd lead cmd, cmd) := by
  simp only [writeTwice, writeCmd_leaves_argv]

/-- … so both frames of a command written twice decode to the argv -/
theorem rewrite_decodes (B : Nat) (hb : 32 ≤ B) (lead : Nat → Nat) (args : List (List UInt8))
    (hs : GoSized args) (hn : LeadOK lead args.length) (h : ∀ a ∈ args, LeadOK lead a.length) :
    decodeAll B 2 (writeTwice lead args).1 = some [args, args] ∧ (writeTwice lead args).2 = args := by
  rw [writeCmd_idempotent]
  refine ⟨?_, rfl⟩
  have := pipeline_decodes B hb lead [args, args] (by
    intro c hc; simp only [List.mem_cons, List.not_mem_nil, or_false, or_self] at hc; subst hc; exact ⟨hs, hn, h⟩)
  simpa using this

/-- a wrong leading power is visible: one power too small at `n = 100` writes `:0` for `100` -/
example : writeN (fun _ => 10) 42 100 = [42, 58, 48, 13, 10] := by
  simp [writeN, loop]

/-! non-vacuity / concrete frames: the empty command, empty and binary arguments -/
example : writeCmd exactLead [] = [42, 48, 13, 10] := by simp [writeCmd, writeN, writeArgs]
example : writeCmd exactLead [[], [13, 10, 0, 255]] =
    [42, 50, 13, 10, 36, 48, 13, 10, 13, 10, 36, 52, 13, 10, 13, 10, 0, 255, 13, 10] := by
  simp [writeCmd, writeN, writeArgs, writeB]
example : GoSized [[], [13, 10, 0, 255]] := by simp [GoSized]

end Rv.C14
