/-
C32 — builder tags match command semantics.

Tables: Rv.Gen.Builders.allCmds (every root constructor and method of
/repo/internal/cmds/gen_*.go, regenerated on every run), Rv.Gen.Flags (flag constants and
predicate masks of cmds.go), Rv.Gen.Classify (lists of hack/cmds/gen.go, JSON flags).
Oracle: Rv.Spec.RedisCommands (hand-written, trusted).
Model: Rv.Model.Builder (`run`/`build`: flags only ever gain bits along a path).
-/
import Rv.Model.BuilderCheck
import Rv.Gen.Builders
namespace Rv.C32
open Rv.Bld Rv.Gen Rv.Gen.Builders Rv.Spec.RedisCommands

set_option maxRecDepth 1000000

/-! ### flag words (uint16) -/

private theorem and_or_keep (a x t : Nat) (h : a &&& t = t) : (a ||| x) &&& t = t := by
  apply Nat.eq_of_testBit_eq
  intro i
  have hi := congrArg (fun n => n.testBit i) h
  simp only [Nat.testBit_and, Nat.testBit_or] at hi ⊢
  cases ha : a.testBit i <;> cases hx : x.testBit i <;> cases ht : t.testBit i <;> simp_all

private theorem and_or_self (a t : Nat) : (a ||| t) &&& t = t := by
  apply Nat.eq_of_testBit_eq
  intro i
  simp only [Nat.testBit_and, Nat.testBit_or]
  cases a.testBit i <;> cases t.testBit i <;> rfl

/-- a flag that is set stays set when more bits are OR-ed in -/
theorem hasFlag_or (cf x mask : Nat) (h : hasFlag cf mask = true) : hasFlag (cf ||| x) mask = true := by
  simp only [hasFlag, beq_iff_eq] at h ⊢
  exact and_or_keep _ _ _ h

theorem hasFlag_or_self (cf mask : Nat) : hasFlag (cf ||| mask) mask = true := by
  simp only [hasFlag, beq_iff_eq]
  exact and_or_self _ _

/-- the nine single bits used by cmds.go are pairwise distinct powers of two, and each
    composite constant is exactly the union its definition names -/
theorem flag_constants :
    Flags.optInTag = 2^15 ∧ Flags.blockTag = 2^14 ∧ Flags.pipeTag = 2^8 ∧ Flags.retryableTag = 2^7 ∧
    Flags.staticTTLTag = 2^6 ∧
    Flags.readonly = 2^13 ||| Flags.retryableTag ∧
    Flags.noRetTag = 2^12 ||| Flags.readonly ||| Flags.pipeTag ∧
    Flags.mtGetTag = 2^11 ||| Flags.readonly ∧
    Flags.scrRoTag = 2^10 ||| Flags.readonly ∧
    Flags.unsubTag = 2^9 ||| Flags.noRetTag := by decide

private theorem hasFlag_mono (cf a b : Nat) (hab : b &&& a = a) (h : hasFlag cf b = true) :
    hasFlag cf a = true := by
  simp only [hasFlag, beq_iff_eq] at h ⊢
  apply Nat.eq_of_testBit_eq
  intro i
  have h1 := congrArg (fun n => n.testBit i) h
  have h2 := congrArg (fun n => n.testBit i) hab
  simp only [Nat.testBit_and] at h1 h2 ⊢
  cases hc : cf.testBit i <;> cases ha : a.testBit i <;> cases hb : b.testBit i <;> simp_all

private theorem hasFlag_indep (cf t m : Nat) (h : t &&& m = 0) : hasFlag (cf ||| t) m = hasFlag cf m := by
  have : (cf ||| t) &&& m = cf &&& m := by
    apply Nat.eq_of_testBit_eq
    intro i
    have h2 := congrArg (fun n => n.testBit i) h
    simp only [Nat.testBit_and, Nat.testBit_or, Nat.zero_testBit] at h2 ⊢
    cases hc : cf.testBit i <;> cases ha : t.testBit i <;> cases hb : m.testBit i <;> simp_all
  simp only [hasFlag, this]

/-- **flag lattice**, for every flag word: what the predicates of cmds.go imply.
    `IsUnsub → NoReply → IsReadOnly → IsRetryable`, `NoReply → IsPipe`, `IsMGet → IsReadOnly`
    (each predicate is `cf&X == X` with the regenerated X). -/
theorem flag_lattice (cf : Nat) :
    (isUnsub cf = true → noReply cf = true) ∧ (noReply cf = true → isReadOnly cf = true) ∧
    (isReadOnly cf = true → isRetryable cf = true) ∧
    (noReply cf = true → isPipe cf = true) ∧ (isMGet cf = true → isReadOnly cf = true) :=
  ⟨hasFlag_mono cf _ _ (by decide), hasFlag_mono cf _ _ (by decide), hasFlag_mono cf _ _ (by decide),
   hasFlag_mono cf _ _ (by decide), hasFlag_mono cf _ _ (by decide)⟩

/-- the strict direction fails, i.e. the lattice does not collapse: there are flag words
    that are retryable but not read-only, read-only but not no-reply, no-reply but not unsub -/
theorem flag_lattice_strict :
    (isRetryable Flags.retryableTag ∧ ¬ isReadOnly Flags.retryableTag) ∧
    (isReadOnly Flags.readonly ∧ ¬ noReply Flags.readonly) ∧
    (noReply Flags.noRetTag ∧ ¬ isUnsub Flags.noRetTag) := by decide

/-- the static-TTL, block and opt-in bits are independent of every other predicate: OR-ing
    one of them into any flag word changes no other predicate's answer -/
theorem independent_bits (cf : Nat) :
    ∀ t ∈ [Flags.staticTTLTag, Flags.blockTag, Flags.optInTag],
    ∀ m ∈ [Flags.maskIsReadOnly, Flags.maskNoReply, Flags.maskIsUnsub, Flags.maskIsRetryable,
           Flags.maskIsPipe, Flags.maskIsMGet, Flags.scrRoTag,
           Flags.maskIsStaticTTL, Flags.maskIsBlock, Flags.maskIsOptIn],
      m ≠ t → hasFlag (cf ||| t) m = hasFlag cf m := by
  intro t ht m hm hne
  apply hasFlag_indep
  revert t m
  decide

/-! ### tables: size sanity (a translator that silently drops records is caught here and by
    the thorough correspondence tier, which reaches every method of the real package) -/

theorem table_counts :
    allCmds.length = nRoots ∧ (allCmds.map (·.methods.length)).sum = nMethods ∧
    (allCmds.map (·.builds.length)).sum = nBuilds ∧ (allCmds.map (·.caches.length)).sum = nCaches := by
  decide +kernel

/-! ### clause 1: read-only ⊆ reads -/

/-- the full-strength statement -/
def ReadonlySubsetReads : Prop := ∀ c ∈ allCmds, readonlyOk c.nm c.cf = true

/-- what holds on the current tree: every root constructor whose flag word passes
    `IsReadOnly` is a side-effect-free read of the oracle (or a Pub/Sub command, clause 4),
    **except** the commands of `knownWriters`.
    MISSING: AI.MODELEXECUTE is marked read-only (and cacheable) but stores its OUTPUTS
    tensors — see `readonly_subset_reads_fails`. -/
theorem readonly_subset_reads_partial :
    ∀ c ∈ allCmds, readonlyOk c.nm c.cf = true ∨ knownWriters.contains c.nm = true := by
  decide +kernel

/-- the negation with its witness: AI.MODELEXECUTE is flagged read-only, the oracle says it writes -/
theorem readonly_subset_reads_fails : ¬ ReadonlySubsetReads := by
  intro h
  have hw : ∃ c ∈ allCmds, c.nm = nm! "AI.MODELEXECUTE" ∧ isReadOnly c.cf = true ∧
      readonlyOk c.nm c.cf = false := by decide +kernel
  obtain ⟨c, hc, _, _, hbad⟩ := hw
  have := h c hc
  simp [hbad] at this

/-- exactly the listed writers are the exceptions (nothing else hides behind the list) -/
theorem known_writers_exact :
    ∀ w ∈ knownWriters, ∃ c ∈ allCmds, c.nm = w ∧ isReadOnly c.cf = true ∧ isRead w = false := by
  decide +kernel

/-- agreement of one root with Redis' own flags where the repository's JSON carries them -/
def jsonAgree (c : Cmd) : Bool :=
  match jsonFlagsOf c.nm with
  | some (ro, wr) => isReadOnly c.cf == (ro && !wr)
  | none => true

/-- JSON-flagged commands (array family): READONLY/WRITE of the repository's own command
    description agree with the builder's read-only flag in both directions -/
theorem json_flags_agree : ∀ c ∈ allCmds, jsonAgree c = true := by decide +kernel

/-- … and the JSON does flag commands of both kinds that the builders know (non-vacuity) -/
theorem json_flags_present :
    (∃ c ∈ allCmds, jsonFlagsOf c.nm = some (true, false) ∧ isReadOnly c.cf = true) ∧
    (∃ c ∈ allCmds, jsonFlagsOf c.nm = some (false, true) ∧ isReadOnly c.cf = false) := by
  decide +kernel

/-! ### clause 2: Cache() ⊆ read-only -/

/-- every command with a type offering `Cache()` has a read-only root flag -/
theorem cacheable_subset_readonly :
    ∀ c ∈ allCmds, c.caches ≠ [] → isReadOnly c.cf = true := by decide +kernel

/-! ### the flag word along a path only gains bits -/

private theorem apply_cf (bt : Nat) (m : Method) (s s' : St) (args : List Val)
    (h : apply bt m s args = .ok s') : s'.cf = if m.block then s.cf ||| bt else s.cf := by
  unfold apply at h
  split at h
  · cases h
  · split at h
    · cases h
    · split at h
      · cases h
      · cases h; rfl

theorem step_keeps_flag (bt : Nat) (ms : List Method) (s s' : St) (call : Call) (mask : Nat)
    (h : step bt ms s call = .ok s') (hf : hasFlag s.cf mask = true) : hasFlag s'.cf mask = true := by
  unfold step at h
  split at h
  · cases h
  · rename_i m _
    rw [apply_cf bt m s s' call.args h]
    split
    · exact hasFlag_or _ _ _ hf
    · exact hf

theorem run_keeps_flag (bt : Nat) (ms : List Method) (path : List Call) (s s' : St) (mask : Nat)
    (h : run bt ms s path = .ok s') (hf : hasFlag s.cf mask = true) : hasFlag s'.cf mask = true := by
  induction path generalizing s with
  | nil => simp only [run] at h; cases h; exact hf
  | cons call rest ih =>
    simp only [run] at h
    split at h
    · rename_i s1 h1
      exact ih s1 h (step_keeps_flag bt ms s s1 call mask h1 hf)
    · cases h

private theorem run_append (bt : Nat) (ms : List Method) (p q : List Call) (s s' : St)
    (h : run bt ms s (p ++ q) = .ok s') : ∃ s1, run bt ms s p = .ok s1 ∧ run bt ms s1 q = .ok s' := by
  induction p generalizing s with
  | nil => exact ⟨s, rfl, h⟩
  | cons call rest ih =>
    simp only [List.cons_append, run] at h ⊢
    split at h
    · rename_i s1 h1
      obtain ⟨s2, h2, h3⟩ := ih s1 h
      exact ⟨s2, by simp only [h2], h3⟩
    · cases h

private theorem finish_ok (c : Cmd) (s s' : St) (cache : Bool) (h : finish c s cache = .ok s') :
    s' = s ∧ (if cache = true then c.caches else c.builds).contains s.ty = true := by
  unfold finish at h
  by_cases hm : (if cache = true then c.caches else c.builds).contains s.ty = true
  · rw [if_pos hm] at h; cases h; exact ⟨rfl, hm⟩
  · rw [if_neg hm] at h; cases h

private theorem build_ok (bt : Nat) (c : Cmd) (ks0 : Nat) (path : List Call) (cache : Bool) (s : St)
    (h : build bt c ks0 path cache = .ok s) :
    run bt c.methods (start c ks0) path = .ok s ∧
      (if cache = true then c.caches else c.builds).contains s.ty = true := by
  unfold build at h
  split at h
  · rename_i s1 h1
    obtain ⟨rfl, hm⟩ := finish_ok c s1 s cache h
    exact ⟨h1, hm⟩
  · cases h

/-- every flag of the root constructor survives to the built command -/
theorem build_keeps_root_flag (c : Cmd) (ks0 : Nat) (path : List Call) (cache : Bool) (s : St) (mask : Nat)
    (h : build Flags.blockTag c ks0 path cache = .ok s) (hf : hasFlag c.cf mask = true) :
    hasFlag s.cf mask = true :=
  run_keeps_flag _ _ _ _ _ _ (build_ok _ _ _ _ _ _ h).1 hf

/-- **clause 2 for every path**: whatever path of whatever table command ends in `Cache()`,
    the resulting `Cacheable` passes `IsReadOnly` (hence `IsRetryable`) -/
theorem cache_result_readonly (c : Cmd) (hc : c ∈ allCmds) (ks0 : Nat) (path : List Call) (s : St)
    (h : build Flags.blockTag c ks0 path true = .ok s) : isReadOnly s.cf = true := by
  have hne : c.caches ≠ [] := by
    have hm := (build_ok _ _ _ _ _ _ h).2
    intro he
    simp [he] at hm
  exact build_keeps_root_flag c ks0 path true s _ h (cacheable_subset_readonly c hc hne)

/-! ### clause 3: blocking commands -/

/-- every always-blocking command of the oracle has a root constructor carrying blockTag … -/
theorem blocking_roots_tagged : ∀ c ∈ allCmds, blockingOk c.nm c.cf = true := by decide +kernel

/-- … and none of them is missing from the builders (the clause is not vacuous) -/
theorem blocking_roots_present : ∀ n ∈ alwaysBlocking, ∃ c ∈ allCmds, c.nm = n ∧ isBlock c.cf = true := by
  decide +kernel

/-- every completion path of an always-blocking command yields a command passing `IsBlock` -/
theorem blocking_path_blocking (c : Cmd) (hc : c ∈ allCmds) (hn : alwaysBlocking.contains c.nm = true)
    (ks0 : Nat) (path : List Call) (cache : Bool) (s : St)
    (h : build Flags.blockTag c ks0 path cache = .ok s) : isBlock s.cf = true := by
  have := blocking_roots_tagged c hc
  simp only [blockingOk, hn, Bool.not_true, Bool.false_or] at this
  exact build_keeps_root_flag c ks0 path cache s _ h this

/-- in XREAD / XREADGROUP every method that appends the literal token BLOCK also executes
    `c.cf |= int16(blockTag)` -/
theorem block_option_methods_tagged :
    ∀ c ∈ allCmds, ∀ m ∈ c.methods, blockOptionOk c.nm m = true := by
  have h : allCmds.all blockOptionsOk = true := by decide +kernel
  intro c hc m hm
  have hc' := List.all_eq_true.mp h c hc
  unfold blockOptionsOk at hc'
  by_cases hany : blockingWithOption.any (·.1 == c.nm) = true
  · simp only [hany, Bool.not_true, Bool.false_or] at hc'
    exact List.all_eq_true.mp hc' m hm
  · simp only [blockOptionOk, List.all_eq_true]
    intro p hp
    have : (p.1 == c.nm) = false := by
      simp only [List.any_eq_true, not_exists, not_and, Bool.not_eq_true] at hany
      exact hany p hp
    simp [this]

/-- both commands do have such a method, named `Block` (non-vacuity) -/
theorem block_option_methods_present :
    ∀ p ∈ blockingWithOption, ∃ c ∈ allCmds, c.nm = p.1 ∧
      ∃ m ∈ c.methods, m.name = "Block" ∧ m.items.contains (.lit p.2) = true ∧ m.block = true := by
  decide +kernel

/-- **every path through a Block method ends blocking**: if a path of XREAD / XREADGROUP
    (any table command whose name is in `blockingWithOption`) calls, at any position, a
    method that appends the BLOCK option token, the built command passes `IsBlock`,
    whatever is called before and after -/
theorem block_option_path_blocking (c : Cmd) (hc : c ∈ allCmds) (tok : String)
    (hn : (c.nm, tok) ∈ blockingWithOption)
    (ks0 : Nat) (before after : List Call) (call : Call) (cache : Bool) (s1 s : St) (m : Method)
    (h1 : run Flags.blockTag c.methods (start c ks0) before = .ok s1)
    (hm : findMethod c.methods s1.ty call.name = some m)
    (htok : Item.lit tok ∈ m.items)
    (h : build Flags.blockTag c ks0 (before ++ call :: after) cache = .ok s) : isBlock s.cf = true := by
  have hmem : m ∈ c.methods := by
    unfold findMethod at hm
    exact List.mem_of_find?_eq_some hm
  have hblock : m.block = true := by
    have hb := block_option_methods_tagged c hc m hmem
    simp only [blockOptionOk, List.all_eq_true] at hb
    have h0 := hb (c.nm, tok) hn
    have h0' : ¬ Item.lit tok ∈ m.items ∨ m.block = true := by simpa using h0
    rcases h0' with h0' | h0'
    · exact absurd htok h0'
    · exact h0'
  obtain ⟨h2, _⟩ := build_ok _ _ _ _ _ _ h
  obtain ⟨s1', h1', h3⟩ := run_append _ _ _ _ _ _ h2
  rw [h1] at h1'
  cases h1'
  simp only [run] at h3
  split at h3
  · rename_i s3 hs3
    have hcf : isBlock s3.cf = true := by
      unfold step at hs3
      rw [hm] at hs3
      simp only at hs3
      rw [apply_cf _ m s1 s3 call.args hs3, hblock]
      exact hasFlag_or_self _ _
    exact run_keeps_flag _ _ _ _ _ _ h3 hcf
  · cases h3

/-! ### clause 4: Pub/Sub families -/

theorem pubsub_tagged : ∀ c ∈ allCmds, pubsubOk c.nm c.cf = true := by decide +kernel

theorem pubsub_present :
    (∀ n ∈ subscribeFamily, ∃ c ∈ allCmds, c.nm = n ∧ noReply c.cf = true ∧ isUnsub c.cf = false) ∧
    (∀ n ∈ unsubscribeFamily, ∃ c ∈ allCmds, c.nm = n ∧ isUnsub c.cf = true ∧ noReply c.cf = true) := by
  decide +kernel

/-- every completion path of a (un)subscribe command keeps its Pub/Sub marking -/
theorem pubsub_path_tagged (c : Cmd) (hc : c ∈ allCmds) (ks0 : Nat) (path : List Call) (cache : Bool) (s : St)
    (h : build Flags.blockTag c ks0 path cache = .ok s) :
    (subscribeFamily.contains c.nm = true → noReply s.cf = true) ∧
    (unsubscribeFamily.contains c.nm = true → isUnsub s.cf = true) := by
  have := pubsub_tagged c hc
  simp only [pubsubOk, Bool.and_eq_true, Bool.or_eq_true, Bool.not_eq_true'] at this
  constructor
  · intro hn
    rcases this.1 with h0 | h0
    · rw [hn] at h0; cases h0
    · exact build_keeps_root_flag c ks0 path cache s _ h h0
  · intro hn
    rcases this.2 with h0 | h0
    · rw [hn] at h0; cases h0
    · exact build_keeps_root_flag c ks0 path cache s _ h h0

/-! ### non-vacuity -/
example : ∃ c ∈ allCmds, c.nm = nm! "GET" ∧ isReadOnly c.cf = true ∧ c.caches ≠ [] := by decide +kernel
example : ∃ c ∈ allCmds, c.nm = nm! "SET" ∧ isReadOnly c.cf = false ∧ c.caches = [] := by decide +kernel
example : isRead (nm! "AI.MODELEXECUTE") = false ∧ isRead (nm! "ARGET") = true ∧ isRead (nm! "ARSET") = false := by decide +kernel
example : code "GET" = nm! "GET" ∧ code "OBJECT ENCODING" = nm! "OBJECT ENCODING" := by decide +kernel

end Rv.C32
