import Rv.Model.Dedicated
/-!
C25 — dedicated clients are isolated and single-use.
-/
namespace Rv.C25
open Rv.Dedicated

/-- **recycled_rejects_all.** After release/Close every method leaves the wire alone: the checked
    methods answer ErrDedicatedClientRecycled, `release` and `Close` (void) do nothing, `DoMulti()`
    with no commands returns the nil slice before the check.
    (Before `fix:` d3f54a6 `Close` called `wire.Close()` without looking at the mark: Dedicate,
    release, Close closed a connection already back in the pool or acquired by somebody else; the
    harness still reports that under key `dedicated:close-after-release-closes-recycled-wire`.) -/
theorem recycled_rejects_all (st : St) (hm : st.mark = true) (op : Op) :
    (step st op).1 = st ∧ (step st op).2.1 = [] ∧
    ((step st op).2.2 = .recycled ∨ ((op = .release ∨ op = .close) ∧ (step st op).2.2 = .void) ∨
      (op = .doMulti 0 ∧ (step st op).2.2 = .nilEmpty)) := by
  cases op with
  | doMulti n =>
    by_cases hn : n = 0
    · subst hn; simp [step]
    · simp [step, hm, hn]
  | _ => simp [step, release, hm]

/-- over all method sequences: once the mark is set it stays set and no call reaches the wire -/
theorem recycled_stays_recycled (st : St) (hm : st.mark = true) (ops : List Op) :
    stateAfter st ops = st ∧ ∀ r ∈ run st ops, r.1 = [] := by
  induction ops with
  | nil => simp [stateAfter, run]
  | cons op r ih =>
    have h1 := recycled_rejects_all st hm op
    simp only [stateAfter, run, h1.1]
    exact ⟨ih.1, by
      intro x hx
      simp only [List.mem_cons] at hx
      rcases hx with hx | hx
      · subst hx; exact h1.2.1
      · exact ih.2 x hx⟩

/-! ### the retry loops re-check the mark on every pass -/

private theorem retryLoop_marked (m : Meth) (st : St) (hm : st.mark = true) (ds : List Between) :
    retryLoop m st ds = (st, [], .recycled) := by
  cases ds <;> simp [retryLoop, hm]

/-- **released_client_sends_nothing.** A Do / DoMulti / Receive that is inside its retry loop when
    the client is released or closed (by another goroutine, during a retry delay) makes no further
    call on the wire and returns ErrDedicatedClientRecycled — whatever the remaining passes would
    have been (`rest` is any number of further retry delays with anything happening in them). The
    wire calls are exactly: the passes before the release, the release's own hand-back sequence. -/
theorem released_client_sends_nothing (m : Meth) (st : St) (hm : st.mark = false) (k : Nat) (b : Between)
    (hb : b ≠ .nothing) (rest : List Between) :
    retryLoop m st (List.replicate k .nothing ++ b :: rest) =
      ((between st b).1, List.replicate (k + 1) m.call ++ (between st b).2, .recycled) ∧
    (between st b).1.mark = true := by
  have hmark : (between st b).1.mark = true := by
    cases b with
    | nothing => exact absurd rfl hb
    | release => simp [between, release, hm]
    | close => simp [between, step, hm]
  refine ⟨?_, hmark⟩
  induction k with
  | zero =>
    simp only [List.replicate, List.nil_append, retryLoop, hm, Bool.false_eq_true, if_false]
    rw [retryLoop_marked m _ hmark rest]
    simp
  | succ k ih =>
    have hn : between st .nothing = (st, []) := rfl
    simp only [List.replicate_succ, List.cons_append, retryLoop, hm, Bool.false_eq_true, if_false, hn,
      List.nil_append]
    rw [ih]
    simp [List.replicate_succ]

/-- a call that starts on a recycled client never reaches the wire, for any retry script -/
theorem recycled_retry_sends_nothing (m : Meth) (st : St) (hm : st.mark = true) (ds : List Between) :
    retryLoop m st ds = (st, [], .recycled) := retryLoop_marked m st hm ds

/-- non-vacuity: two LOADING answers, released during the second delay, a third pass never happens -/
example : retryLoop .do_ {} [.nothing, .release, .nothing] =
    ({ mark := true }, [.wDo, .wDo, .wGetHooks, .wSetHooks {}, .wClean, .poolStore], .recycled) := by decide
/-- and an undisturbed loop does retry -/
example : (retryLoop .do_ {} [.nothing, .nothing]).2 = ([.wDo, .wDo, .wDo], .ok) := by decide

/-- **abandoned_blocking_wire_never_reused.** A shared-client blocking command that returns early
    with a non-Redis error (its caller's context was cancelled, a deadline, a transport error) has
    its wire closed BEFORE it is stored, and the pool discards it; only a wire whose command was
    answered stays in the pool. So the pool never hands a connection with somebody's command still
    pending to the next Dedicate() — the precondition of `exclusive_wire`. -/
theorem abandoned_blocking_wire_never_reused :
    blockingCalls true = [.wDo, .wClose, .poolStore, .poolDiscard] ∧ blockingKeepsWire true = false ∧
    blockingCalls false = [.wDo, .poolStore] ∧ blockingKeepsWire false = true := by decide

/-! ### the cluster client's dedicated client -/

/-- **released_cluster_client_rejects_every_method.** A released or closed cluster dedicated client —
    also one that had already acquired its wire, which it keeps a pointer to — leaves the wire
    alone in every method: Do / DoMulti / Receive / SetPubSubHooks / SetOnInvalidations answer
    ErrDedicatedClientRecycled, Close and the release func do nothing, and the only call that may
    still reach the wire is the read of its hooks by SetOnInvalidations. -/
theorem released_cluster_client_rejects_every_method (st : CSt) (hm : st.mark = true) (op : Op) :
    (cstep st op).1 = st ∧ (∀ c ∈ (cstep st op).2.1, c.mutates = false) ∧
    ((cstep st op).2.2 = .recycled ∨ ((op = .release ∨ op = .close) ∧ (cstep st op).2.2 = .void) ∨
      (op = .doMulti 0 ∧ (cstep st op).2.2 = .nilEmpty)) := by
  cases op with
  | doMulti n =>
    by_cases hn : n = 0
    · subst hn; simp [cstep]
    · simp [cstep, cacquire, hm, hn]
  | setInv on => cases hw : st.hasWire <;> simp [cstep, csetHooks, hm, hw, Call.mutates]
  | _ => simp [cstep, cacquire, crelease, csetHooks, hm]

/-- releasing hands a wire back only if one was acquired, through `mux.Store`'s sequence -/
theorem cluster_release_stores (st : CSt) (hm : st.mark = false) :
    (cstep st .release).2.1 = (if st.hasWire then storeSeq st.hooks else []) ∧ (cstep st .release).1.mark = true := by
  simp [cstep, crelease, hm]

/-- hooks set before the first command are installed when the wire is acquired -/
example : (cstep (cstep {} (.setHooks { msg := true })).1 .do_).2.1 = [.wSetHooks { msg := true }, .wDo] := by decide
/-- the seeded scenario: a used, released handle that calls SetPubSubHooks touches nothing -/
example : (cstep (cstep (cstep {} .do_).1 .release).1 (.setHooks { msg := true })).2 = ([], .recycled) := by decide

/-- release and Close both recycle the client -/
theorem release_marks (st : St) : (step st .release).1.mark = true ∧ (step st .close).1.mark = true := by
  cases hm : st.mark <;> simp [step, release, hm]

/-- Dedicate, release, Close: the second call is a no-op -/
example : (run {} [.release, .close]).map (·.1) = [[.wGetHooks, .wSetHooks {}, .wClean, .poolStore], []] := by decide

/-- **store_cleans.** The first release (or Close) of a client hands the wire back through exactly
    `mux.Store`'s sequence: hooks reset, then CleanSubscriptions, then CLIENT TRACKING OFF iff an
    invalidation callback was installed, then the pool — and a later release does nothing. -/
theorem store_cleans (st : St) (hm : st.mark = false) :
    (step st .release).2.1 = [.wGetHooks, .wSetHooks {}, .wClean] ++ (if st.hooks.inv then [.wTrackingOff] else []) ++ [.poolStore] ∧
    (step st .close).2.1 = .wClose :: ([.wGetHooks, .wSetHooks {}, .wClean] ++ (if st.hooks.inv then [.wTrackingOff] else []) ++ [.poolStore, .poolDiscard]) ∧
    (step (step st .release).1 .release).2.1 = [] := by
  simp [step, release, hm, storeSeq]

/-- the hooks the wire has at release are the ones the session installed last -/
theorem hooks_tracked (st : St) (hm : st.mark = false) (h : Hooks) (on : Bool) :
    (step st (.setHooks h)).1.hooks = h ∧ (step st (.setInv on)).1.hooks = { st.hooks with inv := on } := by
  simp [step, hm]

/-- `CleanSubscriptions` as coded: the unsubscribe family + DISCARD on a pipe in background mode
    (SUNSUBSCRIBE from version 7 on), a pipe that ran a blocking command is closed instead, a pipe
    still in synchronous mode gets nothing (observation `dedicated:open-multi-leaks-to-next-user`). -/
theorem clean_subscriptions_cmds :
    cleanSubscriptions false 1 7 = .cmds ["UNSUBSCRIBE", "PUNSUBSCRIBE", "SUNSUBSCRIBE", "DISCARD"] ∧
    cleanSubscriptions false 1 6 = .cmds ["UNSUBSCRIBE", "PUNSUBSCRIBE", "DISCARD"] ∧
    (∀ s v, cleanSubscriptions true s v = .closePipe) ∧
    (∀ v, cleanSubscriptions false 0 v = .nothing) := by
  refine ⟨by decide, by decide, fun _ _ => rfl, fun v => ?_⟩
  simp [cleanSubscriptions]

private theorem holder_keeps (a w : Nat) (post pre : List Ev) (hwf : wf (post ++ .acq a w :: pre))
    (hns : ∀ b, Ev.store b w ∉ post) : holder (post ++ .acq a w :: pre) w = some a := by
  induction post with
  | nil => simp [holder]
  | cons e r ih =>
    have hw : wf (r ++ .acq a w :: pre) := hwf.1
    have ih' := ih hw (fun b hb => hns b (List.mem_cons_of_mem _ hb))
    have he := hwf.2
    cases e with
    | acq b w' =>
      by_cases hww : w' = w
      · subst hww
        have he' : holder (r ++ .acq a w' :: pre) w' = none := he
        rw [ih'] at he'
        cases he'
      · simp [holder, hww, ih']
    | store b w' =>
      by_cases hww : w' = w
      · subst hww
        exact absurd (List.mem_cons_self) (hns b)
      · simp [holder, hww, ih']
    | cmd b w' => simp [holder, ih']

/-- **exclusive_wire.** In every trace in which the pool hands out a wire only when nobody holds it
    (pool exclusivity: C24, a hypothesis here) and callers write only on wires they hold
    (`recycled_rejects_all`): between the acquisition of wire `w` by `a` and its hand-back,
    every command on `w` is `a`'s. (Traces are newest-first.) -/
theorem exclusive_wire (a w : Nat) (post pre : List Ev) (hwf : wf (post ++ .acq a w :: pre))
    (hns : ∀ b, Ev.store b w ∉ post) : ∀ b, Ev.cmd b w ∈ post → b = a := by
  induction post with
  | nil => intro b hb; simp at hb
  | cons e r ih =>
    intro b hb
    have hw : wf (r ++ .acq a w :: pre) := hwf.1
    have hns' : ∀ b, Ev.store b w ∉ r := fun b hb => hns b (List.mem_cons_of_mem _ hb)
    simp only [List.mem_cons] at hb
    rcases hb with hb | hb
    · subst hb
      have he := hwf.2
      have he' : holder (r ++ .acq a w :: pre) w = some b := he
      rw [holder_keeps a w r pre hw hns'] at he'
      exact (Option.some.inj he').symm
    · exact ih hw hns' b hb

/-- non-vacuity: a well-formed trace with two sessions on one wire -/
example : wf [.store 2 7, .cmd 2 7, .acq 2 7, .store 1 7, .cmd 1 7, .cmd 1 7, .acq 1 7] := by
  simp [wf, holder]

/-- a command by 1 while 2 holds the wire (what Close-after-release did before fix d3f54a6) is not well-formed -/
example : ¬ wf [.cmd 1 7, .acq 2 7, .store 1 7, .acq 1 7] := by
  simp [wf, holder]

end Rv.C25
