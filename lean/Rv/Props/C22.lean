/-
C22 — read-node selectors follow their documented priorities.
Model: Rv/Model/Selector.lean (helper.go after the `fix:` commit for the empty list).
-/
import Rv.Model.Selector
import Rv.Spec.Selector
namespace Rv.C22
open Rv.Selector Rv.Spec.Selector

variable {α : Type} [DecidableEq α]
set_option linter.unusedSectionVars false

/-! ### helper lemmas -/

private theorem mem_matchIdx (az : α) (xs : List α) (i limit j : Nat) :
    j ∈ matchIdx az xs i limit ↔ i ≤ j ∧ j < limit ∧ xs[j - i]? = some az := by
  induction xs generalizing i with
  | nil => simp [matchIdx]
  | cons x xs ih =>
    unfold matchIdx
    by_cases hl : i < limit
    · by_cases hx : x = az
      · simp only [hl, hx, if_true, List.mem_cons, ih]
        constructor
        · rintro (rfl | ⟨h1, h2, h3⟩)
          · simp [hl]
          · refine ⟨by omega, h2, ?_⟩
            have : j - i = (j - (i + 1)) + 1 := by omega
            rw [this, List.getElem?_cons_succ]; exact h3
        · rintro ⟨h1, h2, h3⟩
          by_cases hj : j = i
          · exact Or.inl hj
          · right
            refine ⟨by omega, h2, ?_⟩
            have : j - i = (j - (i + 1)) + 1 := by omega
            rw [this, List.getElem?_cons_succ] at h3; exact h3
      · simp only [hl, hx, if_true, if_false, ih]
        constructor
        · rintro ⟨h1, h2, h3⟩
          refine ⟨by omega, h2, ?_⟩
          have : j - i = (j - (i + 1)) + 1 := by omega
          rw [this, List.getElem?_cons_succ]; exact h3
        · rintro ⟨h1, h2, h3⟩
          have hj : j ≠ i := by
            rintro rfl
            simp at h3; exact hx h3
          refine ⟨by omega, h2, ?_⟩
          have : j - i = (j - (i + 1)) + 1 := by omega
          rw [this, List.getElem?_cons_succ] at h3; exact h3
    · simp only [hl, if_false, List.not_mem_nil, false_iff]
      omega

/-- membership in the candidate list, in terms of the node list -/
private theorem mem_sameAZ (nodes : List α) (az : α) (s j : Nat) :
    j ∈ sameAZ nodes az s ↔ s ≤ j ∧ j < 255 ∧ nodes[j]? = some az := by
  unfold sameAZ
  rw [mem_matchIdx, List.getElem?_drop]
  constructor
  · rintro ⟨h1, h2, h3⟩
    have : s + (j - s) = j := by omega
    rw [this] at h3
    exact ⟨h1, by omega, h3⟩
  · rintro ⟨h1, h2, h3⟩
    have : s + (j - s) = j := by omega
    rw [this]
    have hlt : j < nodes.length := by
      rcases Nat.lt_or_ge j nodes.length with h | h
      · exact h
      · rw [List.getElem?_eq_none h] at h3; cases h3
    exact ⟨h1, by omega, h3⟩

private theorem matchIdx_lt (az : α) (xs : List α) (i limit : Nat) :
    ∀ j ∈ matchIdx az xs i limit, j < limit := fun j h => ((mem_matchIdx az xs i limit j).1 h).2.1

private theorem map_mod_id (l : List Nat) (h : ∀ j ∈ l, j < 256) : l.map (· % 256) = l := by
  induction l with
  | nil => rfl
  | cons a l ih =>
    simp only [List.map_cons]
    rw [ih (fun j hj => h j (List.mem_cons_of_mem _ hj)), Nat.mod_eq_of_lt (h a (List.mem_cons_self ..))]

/-- the Go loop computes the first 8 matches (as `uint8`s) -/
private theorem scanLoop_eq (az : α) (xs : List α) (i limit : Nat) (ms : List Nat) (hms : ms.length < 8) :
    scanLoop az xs i limit ms = (ms ++ (matchIdx az xs i limit).map (· % 256)).take 8 := by
  induction xs generalizing i ms with
  | nil => simp [scanLoop, matchIdx, List.take_of_length_le (Nat.le_of_lt hms)]
  | cons x xs ih =>
    unfold scanLoop matchIdx
    by_cases hl : i < limit
    · by_cases hx : x = az
      · simp only [hl, hx, if_true, List.map_cons]
        by_cases h8 : (ms ++ [i % 256]).length = 8
        · simp only [h8, if_true]
          have : ms ++ i % 256 :: List.map (· % 256) (matchIdx az xs (i + 1) limit)
              = (ms ++ [i % 256]) ++ List.map (· % 256) (matchIdx az xs (i + 1) limit) := by simp
          rw [this, List.take_append_of_le_length (by omega), List.take_of_length_le (by omega)]
        · simp only [h8, if_false]
          rw [ih (i + 1) (ms ++ [i % 256]) (by simp at h8 ⊢; omega)]
          simp
      · simp only [hl, hx, if_true, if_false]
        exact ih (i + 1) ms hms
    · simp [hl, List.take_of_length_le (Nat.le_of_lt hms)]

private theorem scanLoop_cands (nodes : List α) (az : α) (s : Nat) :
    scanLoop az (nodes.drop s) s (min nodes.length 255) [] = cands nodes az s := by
  rw [scanLoop_eq _ _ _ _ _ (by simp)]
  unfold cands sameAZ
  rw [map_mod_id]
  · simp
  · intro j hj
    have := matchIdx_lt _ _ _ _ j hj
    omega

private theorem cands_sub (nodes : List α) (az : α) (s j : Nat) (h : j ∈ cands nodes az s) :
    s ≤ j ∧ j < 255 ∧ nodes[j]? = some az :=
  (mem_sameAZ nodes az s j).1 (List.mem_of_mem_take h)

private theorem cands_nil_iff (nodes : List α) (az : α) (s : Nat) :
    cands nodes az s = [] ↔ ¬ ∃ j, s ≤ j ∧ j < 255 ∧ nodes[j]? = some az := by
  unfold cands
  constructor
  · intro h ⟨j, hj⟩
    have hm := (mem_sameAZ nodes az s j).2 hj
    cases hs : sameAZ nodes az s with
    | nil => rw [hs] at hm; cases hm
    | cons a l => rw [hs] at h; simp at h
  · intro h
    cases hs : sameAZ nodes az s with
    | nil => rfl
    | cons a l =>
      exfalso; apply h
      exact ⟨a, (mem_sameAZ nodes az s a).1 (by rw [hs]; exact List.mem_cons_self ..)⟩

/-! ### `pickAZ` in closed form -/

/-- `pickAZ` returns -1 without touching the counter when there is no candidate, otherwise
    advances the counter once and returns candidate number `counter mod count`. -/
theorem pickAZ_eq (nodes : List α) (az : α) (s c : Nat) :
    (cands nodes az s = [] ∧ pickAZ nodes az s c = (-1, c)) ∨
    (∃ m, (cands nodes az s)[((c + 1) % U32) % (cands nodes az s).length]? = some m ∧
          pickAZ nodes az s c = (Int.ofNat m, (c + 1) % U32)) := by
  unfold pickAZ
  by_cases hn : nodes.length ≤ s
  · left
    refine ⟨?_, by simp [hn]⟩
    unfold cands sameAZ
    rw [List.drop_eq_nil_of_le hn]; rfl
  · simp only [hn, if_false, scanLoop_cands]
    cases hc : cands nodes az s with
    | nil => left; simp
    | cons a l =>
      right
      have hlt : ((c + 1) % U32) % (a :: l).length < (a :: l).length := Nat.mod_lt _ (by simp)
      refine ⟨(a :: l)[((c + 1) % U32) % (a :: l).length], by simp, ?_⟩
      have hne : ¬ ((a :: l).length = 0) := by simp
      simp only [hne, if_false]
      rw [List.getElem?_eq_getElem hlt]

/-! ### Property theorems -/

/-- `pickAZ` returns -1 or the index of a node of `nodes[startIdx:]` in the client's AZ -/
theorem pickAZ_valid (nodes : List α) (az : α) (s c : Nat) :
    (pickAZ nodes az s c).1 = -1 ∨
    ∃ j : Nat, (pickAZ nodes az s c).1 = Int.ofNat j ∧ s ≤ j ∧ j < nodes.length ∧ j < 255 ∧ nodes[j]? = some az := by
  rcases pickAZ_eq nodes az s c with ⟨_, h⟩ | ⟨m, hm, h⟩
  · left; rw [h]
  · right
    refine ⟨m, by rw [h], ?_⟩
    have hmem : m ∈ cands nodes az s := List.mem_of_getElem? hm
    obtain ⟨h1, h2, h3⟩ := cands_sub nodes az s m hmem
    refine ⟨h1, ?_, h2, h3⟩
    rcases Nat.lt_or_ge m nodes.length with h | h
    · exact h
    · rw [List.getElem?_eq_none h] at h3; cases h3

/-- a result is acceptable to the caller: -1 or an index into the node list -/
def Valid (nodes : List α) (r : Int) : Prop := r = -1 ∨ (0 ≤ r ∧ r < (nodes.length : Int))

/-- PreferReplicaNodeSelector: -1 or a valid index, for every node list (any length) and counter value -/
theorem prefer_valid (nodes : List α) (c : Nat) : Valid nodes (preferReplica nodes c).1 := by
  unfold preferReplica anyReplica Valid
  have : nodes.length % U32 ≤ nodes.length := Nat.mod_le _ _
  by_cases h : nodes.length % U32 > 1
  · right
    simp only [h, if_true]
    have := Nat.mod_lt ((c + 1) % U32) (show nodes.length % U32 - 1 > 0 by omega)
    constructor
    · exact Int.natCast_nonneg _
    · show ((((c + 1) % U32) % (nodes.length % U32 - 1) + 1 : Nat) : Int) < _
      omega
  · left; simp [h]

/-- AZAffinityNodeSelector (and `newAZSelector` with any start index ≥ 0): -1 or a valid index,
    for every node list — including the empty one — and every counter value -/
theorem az_valid (az : α) (s : Nat) (nodes : List α) (c : Nat) : Valid nodes (azSelector az s nodes c).1 := by
  unfold azSelector
  rcases pickAZ_valid nodes az s c with h | ⟨j, hj, _, hlt, _, _⟩
  · simp only [h, ne_eq, not_true_eq_false, if_false]
    have : (nodes.length - s) % U32 ≤ nodes.length - s := Nat.mod_le _ _
    by_cases hc : (nodes.length - s) % U32 > 0
    · simp only [hc, if_true]
      right
      have := Nat.mod_lt (((pickAZ nodes az s c).2 + 1) % U32) hc
      constructor
      · exact Int.natCast_nonneg _
      · show (((((pickAZ nodes az s c).2 + 1) % U32) % ((nodes.length - s) % U32) + s : Nat) : Int) < _
        omega
    · simp only [hc, if_false]; left; trivial
  · have hne : (pickAZ nodes az s c).1 ≠ -1 := by rw [hj]; simp
    simp only [hne, ne_eq, not_false_eq_true, if_true]
    right; rw [hj]
    exact ⟨Int.natCast_nonneg _, by simp; omega⟩

/-- AZAffinityReplicasAndPrimaryNodeSelector: -1 or a valid index for every node list and counter value -/
theorem azp_valid (az : α) (nodes : List α) (c : Nat) : Valid nodes (azpSelector az nodes c).1 := by
  unfold azpSelector
  rcases pickAZ_valid nodes az 1 c with h | ⟨j, hj, _, hlt, _, _⟩
  · simp only [h, ne_eq, not_true_eq_false, if_false]
    by_cases h0 : nodes.length % U32 > 0 ∧ nodes[0]? = some az
    · simp only [h0, and_self, if_true]
      right
      have : nodes.length % U32 ≤ nodes.length := Nat.mod_le _ _
      exact ⟨by simp, by simp; omega⟩
    · simp only [h0, if_false]
      exact prefer_valid nodes _
  · have hne : (pickAZ nodes az 1 c).1 ≠ -1 := by rw [hj]; simp
    simp only [hne, ne_eq, not_false_eq_true, if_true]
    right; rw [hj]
    exact ⟨Int.natCast_nonneg _, by simp; omega⟩

/-! ### same-AZ replica preferred -/

/-- AZAffinityNodeSelector: whenever a replica (index ≥ 1) in the client's AZ exists among the first
    255 nodes, the chosen node is a replica in the client's AZ -/
theorem az_same_az_replica_preferred (az : α) (nodes : List α) (c : Nat)
    (h : ∃ j, 1 ≤ j ∧ j < 255 ∧ nodes[j]? = some az) :
    ∃ j : Nat, (azAffinity az nodes c).1 = Int.ofNat j ∧ 1 ≤ j ∧ j < 255 ∧ nodes[j]? = some az := by
  unfold azAffinity azSelector
  rcases pickAZ_eq nodes az 1 c with ⟨hnil, _⟩ | ⟨m, hm, hp⟩
  · exact absurd h ((cands_nil_iff nodes az 1).1 hnil)
  · have hne : (pickAZ nodes az 1 c).1 ≠ -1 := by rw [hp]; simp
    simp only [hne, ne_eq, not_false_eq_true, if_true]
    exact ⟨m, by rw [hp], cands_sub nodes az 1 m (List.mem_of_getElem? hm)⟩

/-- AZAffinityReplicasAndPrimaryNodeSelector: same statement -/
theorem azp_same_az_replica_preferred (az : α) (nodes : List α) (c : Nat)
    (h : ∃ j, 1 ≤ j ∧ j < 255 ∧ nodes[j]? = some az) :
    ∃ j : Nat, (azpSelector az nodes c).1 = Int.ofNat j ∧ 1 ≤ j ∧ j < 255 ∧ nodes[j]? = some az := by
  unfold azpSelector
  rcases pickAZ_eq nodes az 1 c with ⟨hnil, _⟩ | ⟨m, hm, hp⟩
  · exact absurd h ((cands_nil_iff nodes az 1).1 hnil)
  · have hne : (pickAZ nodes az 1 c).1 ≠ -1 := by rw [hp]; simp
    simp only [hne, ne_eq, not_false_eq_true, if_true]
    exact ⟨m, by rw [hp], cands_sub nodes az 1 m (List.mem_of_getElem? hm)⟩

/-! ### documented fallback order (no same-AZ replica among the first 255 nodes) -/

/-- AZAffinityNodeSelector falls back to round robin over all replicas `1 … n-1`, and to -1
    when there is no replica (empty list or primary only) -/
theorem az_fallback (az : α) (nodes : List α) (c : Nat)
    (h : ¬ ∃ j, 1 ≤ j ∧ j < 255 ∧ nodes[j]? = some az) (hn : nodes.length ≤ U32) :
    azAffinity az nodes c =
      if nodes.length > 1 then (Int.ofNat (((c + 1) % U32) % (nodes.length - 1) + 1), (c + 1) % U32)
      else (-1, c) := by
  unfold azAffinity azSelector
  rcases pickAZ_eq nodes az 1 c with ⟨_, hp⟩ | ⟨m, hm, _⟩
  · simp only [hp, ne_eq, not_true_eq_false, if_false]
    have hmod : (nodes.length - 1) % U32 = nodes.length - 1 := by
      apply Nat.mod_eq_of_lt; unfold U32 at *; omega
    rw [hmod]
    by_cases h1 : nodes.length > 1
    · have : nodes.length - 1 > 0 := by omega
      simp [h1, this]
    · have : ¬ nodes.length - 1 > 0 := by omega
      simp [h1, this]
  · exact absurd ⟨m, cands_sub nodes az 1 m (List.mem_of_getElem? hm)⟩ h

/-- AZAffinityReplicasAndPrimaryNodeSelector: 2. same-AZ primary (counter untouched),
    3. any replica in round robin, 4. -1 (primary) -/
theorem azp_fallback (az : α) (nodes : List α) (c : Nat)
    (h : ¬ ∃ j, 1 ≤ j ∧ j < 255 ∧ nodes[j]? = some az) (hn : nodes.length < U32) :
    azpSelector az nodes c =
      if nodes[0]? = some az then (0, c)
      else if nodes.length > 1 then (Int.ofNat (((c + 1) % U32) % (nodes.length - 1) + 1), (c + 1) % U32)
      else (-1, c) := by
  unfold azpSelector anyReplica
  rcases pickAZ_eq nodes az 1 c with ⟨_, hp⟩ | ⟨m, hm, _⟩
  · simp only [hp, ne_eq, not_true_eq_false, if_false]
    rw [Nat.mod_eq_of_lt hn]
    by_cases h0 : nodes[0]? = some az
    · have : nodes.length > 0 := by
        rcases Nat.lt_or_ge 0 nodes.length with h | h
        · exact h
        · rw [List.getElem?_eq_none h] at h0; cases h0
      simp [this]
    · simp [h0]
  · exact absurd ⟨m, cands_sub nodes az 1 m (List.mem_of_getElem? hm)⟩ h

/-- PreferReplicaNodeSelector: round robin over the replicas `1 … n-1`, -1 when there is none -/
theorem prefer_eq (nodes : List α) (c : Nat) (hn : nodes.length < U32) :
    preferReplica nodes c =
      if nodes.length > 1 then (Int.ofNat (((c + 1) % U32) % (nodes.length - 1) + 1), (c + 1) % U32)
      else (-1, c) := by
  unfold preferReplica anyReplica
  rw [Nat.mod_eq_of_lt hn]

/-! ### rotation over equally ranked candidates -/

private theorem calls_of_form (sel : List α → Nat → Int × Nat) (nodes : List α) (f : Nat → Int)
    (h : ∀ c, sel nodes c = (f ((c + 1) % U32), (c + 1) % U32)) (c k : Nat) :
    calls sel nodes c (k + 1) = (f ((c + k + 1) % U32), (c + k + 1) % U32) := by
  induction k with
  | zero => simp [calls, h]
  | succ k ih =>
    show sel nodes (calls sel nodes c (k + 1)).2 = _
    rw [ih, h]
    have : ((c + k + 1) % U32 + 1) % U32 = (c + (k + 1) + 1) % U32 := by unfold U32; omega
    rw [this]

/-- the (k+1)-th consecutive call on a node list with same-AZ replicas returns candidate number
    `((c₀ + k + 1) mod 2^32) mod count` of the (at most 8) candidates, in ascending index order -/
theorem az_rotation (az : α) (nodes : List α) (c k : Nat) (hne : cands nodes az 1 ≠ []) :
    ∃ m, (cands nodes az 1)[((c + k + 1) % U32) % (cands nodes az 1).length]? = some m ∧
      calls (azAffinity az) nodes c (k + 1) = (Int.ofNat m, (c + k + 1) % U32) := by
  have hform : ∀ c', azAffinity az nodes c' =
      (Int.ofNat ((cands nodes az 1)[((c' + 1) % U32) % (cands nodes az 1).length]?.getD 0), (c' + 1) % U32) := by
    intro c'
    unfold azAffinity azSelector
    rcases pickAZ_eq nodes az 1 c' with ⟨hnil, _⟩ | ⟨m, hm, hp⟩
    · exact absurd hnil hne
    · have hne' : (pickAZ nodes az 1 c').1 ≠ -1 := by rw [hp]; simp
      simp only [hne', ne_eq, not_false_eq_true, if_true]
      rw [hp, hm]; rfl
  rw [calls_of_form (azAffinity az) nodes (fun x => Int.ofNat ((cands nodes az 1)[x % (cands nodes az 1).length]?.getD 0)) hform c k]
  have hlt : ((c + k + 1) % U32) % (cands nodes az 1).length < (cands nodes az 1).length :=
    Nat.mod_lt _ (List.length_pos_iff.2 hne)
  exact ⟨_, List.getElem?_eq_getElem hlt, by rw [List.getElem?_eq_getElem hlt]; rfl⟩

/-- same for AZAffinityReplicasAndPrimaryNodeSelector -/
theorem azp_rotation (az : α) (nodes : List α) (c k : Nat) (hne : cands nodes az 1 ≠ []) :
    ∃ m, (cands nodes az 1)[((c + k + 1) % U32) % (cands nodes az 1).length]? = some m ∧
      calls (azpSelector az) nodes c (k + 1) = (Int.ofNat m, (c + k + 1) % U32) := by
  have hform : ∀ c', azpSelector az nodes c' =
      (Int.ofNat ((cands nodes az 1)[((c' + 1) % U32) % (cands nodes az 1).length]?.getD 0), (c' + 1) % U32) := by
    intro c'
    unfold azpSelector
    rcases pickAZ_eq nodes az 1 c' with ⟨hnil, _⟩ | ⟨m, hm, hp⟩
    · exact absurd hnil hne
    · have hne' : (pickAZ nodes az 1 c').1 ≠ -1 := by rw [hp]; simp
      simp only [hne', ne_eq, not_false_eq_true, if_true]
      rw [hp, hm]; rfl
  rw [calls_of_form (azpSelector az) nodes (fun x => Int.ofNat ((cands nodes az 1)[x % (cands nodes az 1).length]?.getD 0)) hform c k]
  have hlt : ((c + k + 1) % U32) % (cands nodes az 1).length < (cands nodes az 1).length :=
    Nat.mod_lt _ (List.length_pos_iff.2 hne)
  exact ⟨_, List.getElem?_eq_getElem hlt, by rw [List.getElem?_eq_getElem hlt]; rfl⟩

/-- the candidates are exactly the first (at most 8) replicas in the client's AZ among the
    first 255 nodes: every candidate is one, and if such a replica exists the list is not empty -/
theorem cands_spec (az : α) (nodes : List α) :
    (∀ j ∈ cands nodes az 1, 1 ≤ j ∧ j < 255 ∧ nodes[j]? = some az) ∧
    ((∃ j, 1 ≤ j ∧ j < 255 ∧ nodes[j]? = some az) → cands nodes az 1 ≠ []) ∧
    (cands nodes az 1).length ≤ 8 := by
  refine ⟨fun j hj => cands_sub nodes az 1 j hj, fun h hnil => (cands_nil_iff nodes az 1).1 hnil h, ?_⟩
  unfold cands; simp [List.length_take]; omega

/-- without same-AZ candidates the replicas `1 … n-1` are visited cyclically, one step per call
    (PreferReplicaNodeSelector always; the AZ selectors in their "any replica" fallback) -/
theorem prefer_rotation (nodes : List α) (c k : Nat) (h1 : nodes.length > 1) (hn : nodes.length < U32) :
    calls preferReplica nodes c (k + 1) =
      (Int.ofNat (((c + k + 1) % U32) % (nodes.length - 1) + 1), (c + k + 1) % U32) := by
  have hform : ∀ c', preferReplica nodes c' =
      ((fun x => Int.ofNat (x % (nodes.length - 1) + 1)) ((c' + 1) % U32), (c' + 1) % U32) := by
    intro c'; rw [prefer_eq nodes c' hn]; simp [h1]
  rw [calls_of_form preferReplica nodes (fun x => Int.ofNat (x % (nodes.length - 1) + 1)) hform c k]

theorem az_fallback_rotation (az : α) (nodes : List α) (c k : Nat)
    (h : ¬ ∃ j, 1 ≤ j ∧ j < 255 ∧ nodes[j]? = some az) (h1 : nodes.length > 1) (hn : nodes.length < U32) :
    calls (azAffinity az) nodes c (k + 1) =
      (Int.ofNat (((c + k + 1) % U32) % (nodes.length - 1) + 1), (c + k + 1) % U32) := by
  have hform : ∀ c', azAffinity az nodes c' =
      ((fun x => Int.ofNat (x % (nodes.length - 1) + 1)) ((c' + 1) % U32), (c' + 1) % U32) := by
    intro c'; rw [az_fallback az nodes c' h (Nat.le_of_lt hn)]; simp [h1]
  rw [calls_of_form (azAffinity az) nodes (fun x => Int.ofNat (x % (nodes.length - 1) + 1)) hform c k]

/-! ### the repaired defect, kept as a witness -/

/-- before the `fix:` commit `uint32(len(nodes) - startIdx)` wrapped on the empty list and the
    selector answered index 2 for a list without nodes -/
theorem old_az_empty_invalid : azSelectorOld "a" 1 ([] : List String) 0 = (2, 1) := by decide

theorem old_az_empty_not_valid : ¬ Valid ([] : List String) (azSelectorOld "a" 1 [] 0).1 := by
  rw [old_az_empty_invalid]; unfold Valid; simp

/-! ### non-vacuity -/

example : cands ["a", "b", "a", "b", "b"] "b" 1 = [1, 3, 4] := by decide
example : calls (azAffinity "b") ["a", "b", "a", "b", "b"] 0 1 = (3, 1) := by decide
example : calls (azAffinity "b") ["a", "b", "a", "b", "b"] 0 2 = (4, 2) := by decide
example : calls (azAffinity "b") ["a", "b", "a", "b", "b"] 0 3 = (1, 3) := by decide
example : azpSelector "z" ["z", "b"] 7 = (0, 7) := by decide
example : azpSelector "z" ["y", "b", "c"] 7 = (1, 8) := by decide
example : azAffinity "z" ([] : List String) 0 = (-1, 0) := by decide
example : azAffinity "z" ["z"] 0 = (-1, 0) := by decide

end Rv.C22
