/-
C33 — built commands carry exactly the caller's arguments (builder part).

Model: Rv.Model.Builder (`run`/`build` over method records). Tables: Rv.Gen.Builders.allCmds
(regenerated from /repo/internal/cmds/gen_*.go on every run).

What is proved here
* for the interpreter, over ANY table and ANY path: argv = root tokens ++ what each call
  appends, in call order; nothing already appended is touched (`argv_exact`, `build_argv`)
* for every regenerated record (kernel evaluation): every appended item is a literal or a
  parameter through a *named* formatting kind, every parameter is appended exactly once and
  in parameter order, formatting kinds fit the Go parameter types, key-slot updates are
  over string parameters, duration/time conversions follow the option token of their unit
* formatting: FormatInt/FormatUint base 10 invert decimal parsing; Duration → seconds /
  milliseconds truncates toward zero; Time → Unix seconds / milliseconds
* key-slot update shapes: single key = `Rv.Slot.keyStep`; variadic keys = `Rv.Slot.keyFold`
  on a cluster builder, first key only on a NoSlot builder
TRUSTED: floats (`strconv.FormatFloat(x,'f',-1,64)` is the shortest round-trip decimal —
a property of strconv, see Rv/Model/Builder.lean).
NOT HERE (added later as further suites of props/C33.json): the client never recycles a
command before it is written.
-/
import Rv.Model.BuilderCheck
import Rv.Gen.Builders
import Rv.Props.C18
namespace Rv.C33
open Rv.Bld Rv.Gen Rv.Gen.Builders

set_option maxRecDepth 1000000

/-! ### argv = tokens ++ arguments in call order (any table, any path) -/

/-- `outs` lists, call by call, what the path appended: the i-th entry belongs to the i-th
    call, was produced by a method record of the table with that name on the type reached
    so far, and is exactly `callOut` of that record on the call's arguments -/
inductive Trace (ms : List Method) : String → List Call → List (List Bytes) → String → Prop
  | nil (ty : String) : Trace ms ty [] [] ty
  | cons (ty : String) (call : Call) (m : Method) (out : List Bytes) (rest : List Call)
      (outs : List (List Bytes)) (ty' : String)
      (hfind : findMethod ms ty call.name = some m)
      (hout : callOut m call.args = some out)
      (hrest : Trace ms m.result rest outs ty') : Trace ms ty (call :: rest) (out :: outs) ty'

private theorem apply_argv (bt : Nat) (m : Method) (s s' : St) (args : List Val)
    (h : apply bt m s args = .ok s') :
    ∃ out, callOut m args = some out ∧ s'.argv = s.argv ++ out ∧ s'.ty = m.result := by
  unfold apply at h
  split at h
  · cases h
  · split at h
    · cases h
    · split at h
      · cases h
      · rename_i out hout
        cases h
        exact ⟨out, hout, rfl, rfl⟩

/-- **C33 main theorem (builder part)**: a successful run appends, call by call and in call
    order, exactly the outputs of the called method records — the earlier argv is a prefix
    of the later one and nothing else is added -/
theorem argv_exact (bt : Nat) (ms : List Method) (path : List Call) (s s' : St)
    (h : run bt ms s path = .ok s') :
    ∃ outs, Trace ms s.ty path outs s'.ty ∧ s'.argv = s.argv ++ outs.flatten := by
  induction path generalizing s with
  | nil =>
    simp only [run] at h
    cases h
    exact ⟨[], Trace.nil _, by simp⟩
  | cons call rest ih =>
    simp only [run] at h
    split at h
    · rename_i s1 h1
      unfold step at h1
      split at h1
      · cases h1
      · rename_i m hm
        obtain ⟨out, hout, hargv, hty⟩ := apply_argv bt m s s1 call.args h1
        obtain ⟨outs, htr, hfin⟩ := ih s1 h
        refine ⟨out :: outs, Trace.cons _ call m out rest outs _ hm hout (hty ▸ htr), ?_⟩
        rw [hfin, hargv]
        simp
    · cases h

/-- a complete builder expression: argv of the built command is the root constructor's
    tokens followed by the per-call outputs; `Build()`/`Cache()` add nothing -/
theorem build_argv (bt : Nat) (c : Cmd) (ks0 : Nat) (path : List Call) (cache : Bool) (s : St)
    (h : build bt c ks0 path cache = .ok s) :
    ∃ outs, Trace c.methods c.ty path outs s.ty ∧ s.argv = c.tokens.map bytes ++ outs.flatten := by
  unfold build at h
  split at h
  · rename_i s1 h1
    have hs : s = s1 := by
      unfold finish at h
      by_cases hm : (if cache = true then c.caches else c.builds).contains s1.ty = true
      · rw [if_pos hm] at h; cases h; rfl
      · rw [if_neg hm] at h; cases h
    subst hs
    exact argv_exact bt c.methods path (start c ks0) s h1
  · cases h

private theorem sequence_eq_some {α : Type} (l : List (Option α)) (r : List α)
    (h : sequence l = some r) : l = r.map some := by
  induction l generalizing r with
  | nil => simp only [sequence] at h; cases h; rfl
  | cons a rest ih =>
    cases a with
    | none => simp [sequence] at h
    | some a =>
      simp only [sequence] at h
      split at h
      · rename_i l hl
        cases h
        simp [ih l hl]
      · cases h

/-- what one call appends is the concatenation of its items' contributions, item by item in
    statement order: a literal contributes itself, `par i f` the formatted i-th argument,
    a spread the strings of the i-th argument, a loop its formatted elements -/
theorem callOut_items (m : Method) (args : List Val) (out : List Bytes)
    (h : callOut m args = some out) :
    ∃ parts : List (List Bytes), parts.length = m.items.length ∧ out = parts.flatten ∧
      ∀ i (hi : i < m.items.length), itemOut args m.items[i] = parts[i]? := by
  unfold callOut at h
  cases hs : sequence (m.items.map (itemOut args)) with
  | none => simp [hs] at h
  | some parts =>
    simp only [hs, Option.map_some, Option.some.injEq] at h
    have hl := sequence_eq_some _ _ hs
    have hlen : parts.length = m.items.length := by
      have := congrArg List.length hl
      simpa using this.symm
    refine ⟨parts, hlen, h.symm, ?_⟩
    intro i hi
    have := congrArg (fun l => l[i]?) hl
    simp only [List.getElem?_map] at this
    rw [List.getElem?_eq_getElem hi, List.getElem?_eq_getElem (hlen ▸ hi)] at this
    rw [List.getElem?_eq_getElem (hlen ▸ hi)]
    simpa using this

/-! ### every regenerated record has the understood shape -/

private theorem all_methods_ok : allCmds.all (fun c => c.methods.all methodOk) = true := by
  decide +kernel

private theorem method_ok (c : Cmd) (hc : c ∈ allCmds) (m : Method) (hm : m ∈ c.methods) :
    methodOk m = true :=
  List.all_eq_true.mp (List.all_eq_true.mp all_methods_ok c hc) m hm

/-- no append item of any generated method uses a formatting expression the translator has
    no name for: every item is a literal, or a parameter (or spread / loop over one)
    through one of the nine named kinds -/
theorem all_items_named : ∀ c ∈ allCmds, ∀ m ∈ c.methods, ∀ it ∈ m.items, it.named = true := by
  intro c hc m hm it hit
  have := method_ok c hc m hm
  simp only [methodOk, Bool.and_eq_true, List.all_eq_true] at this
  exact this.1.1.1.1 it hit

/-- every parameter of every generated method is appended exactly once, and in parameter
    order — the caller's arguments in call order, none dropped, none duplicated -/
theorem all_params_in_call_order : ∀ c ∈ allCmds, ∀ m ∈ c.methods,
    m.items.filterMap Item.paramIdx = List.range m.params.length := by
  intro c hc m hm
  have := method_ok c hc m hm
  simp only [methodOk, Bool.and_eq_true, paramsInOrder, beq_iff_eq] at this
  exact this.1.1.1.2

/-- formatting kinds fit the Go parameter types (e.g. `.durSec` only on a time.Duration) -/
theorem all_items_well_typed : ∀ c ∈ allCmds, ∀ m ∈ c.methods, ∀ it ∈ m.items, it.typed m.params = true := by
  intro c hc m hm it hit
  have := method_ok c hc m hm
  simp only [methodOk, Bool.and_eq_true, List.all_eq_true] at this
  exact this.1.1.2 it hit

/-- every key-slot update statement is over a `string` (single shape) or `...string`
    (variadic shape) parameter of its method -/
theorem all_keys_well_typed : ∀ c ∈ allCmds, ∀ m ∈ c.methods, ∀ u ∈ m.keys, u.typed m.params = true := by
  intro c hc m hm u hu
  have := method_ok c hc m hm
  simp only [methodOk, Bool.and_eq_true, List.all_eq_true] at this
  exact this.1.2 u hu

/-- durations and times are converted in the unit the option names: in every generated
    method a `/time.Second` conversion directly follows the literal "EX", `/time.Millisecond`
    "PX", `.Unix()` "EXAT", `.UnixMilli()` "PXAT" -/
theorem all_units_by_option : ∀ c ∈ allCmds, ∀ m ∈ c.methods, unitsOk none m.items = true := by
  intro c hc m hm
  have := method_ok c hc m hm
  simp only [methodOk, Bool.and_eq_true] at this
  exact this.2

/-- all four conversions do occur (the previous theorem is not vacuous), e.g. in SET -/
theorem units_present : ∀ f ∈ [Fmt.durSec, Fmt.durMs, Fmt.unixSec, Fmt.unixMs],
    ∃ c ∈ allCmds, c.nm = nm! "SET" ∧ ∃ m ∈ c.methods, Item.par 0 f ∈ m.items := by
  decide +kernel

/-- every Go parameter type the translator knows occurs, and so does every item shape -/
theorem shapes_present :
    (∀ k ∈ [PKind.str, .strs, .strSlice, .i64, .u64, .f64, .f32, .i64s, .f64s, .f32s, .dur, .time],
      allCmds.any (fun c => c.methods.any (fun m => m.params.contains k)) = true) ∧
    allCmds.any (fun c => c.methods.any (fun m => m.items.any (fun it => match it with | .spread _ => true | _ => false))) = true ∧
    allCmds.any (fun c => c.methods.any (fun m => m.items.any (fun it => match it with | .loop _ _ => true | _ => false))) = true ∧
    allCmds.any (fun c => c.methods.any (fun m => m.keys.any (fun u => match u with | .many _ => true | _ => false))) = true ∧
    allCmds.any (fun c => c.methods.any (fun m => m.keys.any (fun u => match u with | .one _ => true | _ => false))) = true := by
  decide +kernel

/-! ### integers are written in base 10 -/

/-- decimal parsing: digits only, most significant first -/
def parseDigits (acc : Nat) : Bytes → Option Nat
  | [] => some acc
  | b :: rest =>
    if 48 ≤ b.toNat ∧ b.toNat ≤ 57 then parseDigits (acc * 10 + (b.toNat - 48)) rest else none

def parseNat (bs : Bytes) : Option Nat := if bs = [] then none else parseDigits 0 bs

def parseInt : Bytes → Option Int
  | 45 :: rest => (parseNat rest).map fun n => -(n : Int)
  | bs => (parseNat bs).map fun n => (n : Int)

private theorem parseDigits_append (acc : Nat) (xs ys : Bytes) :
    parseDigits acc (xs ++ ys) = (parseDigits acc xs).bind fun a => parseDigits a ys := by
  induction xs generalizing acc with
  | nil => rfl
  | cons b rest ih =>
    simp only [List.cons_append, parseDigits]
    split
    · exact ih _
    · rfl

private theorem digit_toNat (d : Nat) (h : d < 10) : (UInt8.ofNat (48 + d)).toNat = 48 + d := by
  simp only [UInt8.toNat_ofNat']
  omega

private theorem parseDigits_fmtNat (n : Nat) : ∀ acc, ∃ k, parseDigits acc (fmtNat n) = some (acc * 10 ^ k + n) := by
  induction n using Nat.strongRecOn with
  | _ n ih =>
    intro acc
    unfold fmtNat
    split
    · rename_i h
      refine ⟨1, ?_⟩
      simp only [parseDigits, digit_toNat n h]
      have : 48 ≤ 48 + n ∧ 48 + n ≤ 57 := by omega
      simp only [this, and_self, if_true]
      congr 1
      omega
    · rename_i h
      obtain ⟨k, hk⟩ := ih (n / 10) (by omega) acc
      refine ⟨k + 1, ?_⟩
      rw [parseDigits_append, hk]
      simp only [Option.bind_some, parseDigits, digit_toNat (n % 10) (by omega)]
      have : 48 ≤ 48 + n % 10 ∧ 48 + n % 10 ≤ 57 := by omega
      simp only [this, and_self, if_true]
      congr 1
      rw [Nat.pow_succ]
      have h10 := Nat.div_add_mod n 10
      have : (acc * 10 ^ k + n / 10) * 10 = acc * (10 ^ k * 10) + 10 * (n / 10) := by
        rw [Nat.add_mul, Nat.mul_assoc, Nat.mul_comm (n / 10) 10]
      omega

private theorem fmtNat_ne_nil (n : Nat) : fmtNat n ≠ [] := by
  unfold fmtNat
  split <;> simp

/-- `strconv.FormatUint(n, 10)` inverts decimal parsing -/
theorem parseNat_fmtNat (n : Nat) : parseNat (fmtNat n) = some n := by
  unfold parseNat
  rw [if_neg (fmtNat_ne_nil n)]
  obtain ⟨k, hk⟩ := parseDigits_fmtNat n 0
  simpa using hk

/-- different numbers have different decimal strings -/
theorem fmtNat_injective (a b : Nat) (h : fmtNat a = fmtNat b) : a = b := by
  have := parseNat_fmtNat a
  rw [h, parseNat_fmtNat] at this
  exact (Option.some.inj this).symm

private theorem fmtNat_head (n : Nat) : ∃ b rest, fmtNat n = b :: rest ∧ b ≠ 45 := by
  induction n using Nat.strongRecOn with
  | _ n ih =>
    unfold fmtNat
    split
    · rename_i h
      refine ⟨_, [], rfl, ?_⟩
      intro hb
      have := congrArg UInt8.toNat hb
      rw [digit_toNat n h] at this
      have h45 : (45 : UInt8).toNat = 45 := rfl
      omega
    · rename_i h
      obtain ⟨b, rest, hb, hne⟩ := ih (n / 10) (by omega)
      exact ⟨b, rest ++ _, by rw [hb]; rfl, hne⟩

/-- `strconv.FormatInt(v, 10)` inverts decimal parsing (sign included) -/
theorem parseInt_fmtInt (v : Int) : parseInt (fmtInt v) = some v := by
  unfold fmtInt
  split
  · rename_i h
    show (parseNat (fmtNat v.natAbs)).map (fun n => -(n : Int)) = some v
    rw [parseNat_fmtNat]
    show some (-(v.natAbs : Int)) = some v
    congr 1
    omega
  · rename_i h
    obtain ⟨b, rest, hb, hne⟩ := fmtNat_head v.natAbs
    have : parseInt (fmtNat v.natAbs) = (parseNat (fmtNat v.natAbs)).map fun n => (n : Int) := by
      rw [hb]
      unfold parseInt
      split
      · rename_i heq
        simp only [List.cons.injEq] at heq
        exact absurd heq.1 hne
      · rfl
    rw [this, parseNat_fmtNat]
    show some (v.natAbs : Int) = some v
    congr 1
    omega

theorem fmtInt_injective (a b : Int) (h : fmtInt a = fmtInt b) : a = b := by
  have := parseInt_fmtInt a
  rw [h, parseInt_fmtInt] at this
  exact (Option.some.inj this).symm

/-! ### durations and times in the unit the option names -/

/-- EX: whole seconds of the duration, truncated toward zero (Go's `d / time.Second`) -/
theorem durSeconds_spec (ns : Int) :
    (0 ≤ ns → durSeconds ns = ns / 1000000000) ∧ (ns ≤ 0 → durSeconds ns = -((-ns) / 1000000000)) := by
  unfold durSeconds
  constructor
  · intro h
    exact Int.tdiv_eq_ediv_of_nonneg h
  · intro h
    have : ns = -(-ns) := by omega
    rw [this, Int.neg_tdiv, Int.tdiv_eq_ediv_of_nonneg (by omega)]
    simp

/-- PX: whole milliseconds of the duration, truncated toward zero -/
theorem durMillis_spec (ns : Int) :
    (0 ≤ ns → durMillis ns = ns / 1000000) ∧ (ns ≤ 0 → durMillis ns = -((-ns) / 1000000)) := by
  unfold durMillis
  constructor
  · intro h
    exact Int.tdiv_eq_ediv_of_nonneg h
  · intro h
    have : ns = -(-ns) := by omega
    rw [this, Int.neg_tdiv, Int.tdiv_eq_ediv_of_nonneg (by omega)]
    simp

/-- a 1500 ms duration is sent as EX 1 / PX 1500; −1500 ms as EX −1 (truncation, not floor) -/
example : fmtInt (durSeconds 1500000000) = bytes "1" ∧ fmtInt (durMillis 1500000000) = bytes "1500" ∧
    fmtInt (durSeconds (-1500000000)) = bytes "-1" := by decide +kernel

/-- EXAT: the Unix time in seconds; PXAT: in milliseconds (no int64 overflow for any time
    whose seconds fit in 53 bits) -/
theorem unix_spec (sec : Int) (nsec : Nat) (hs : -(2^53) ≤ sec ∧ sec < 2^53) (hn : nsec < 1000000000) :
    unixSeconds sec nsec = sec ∧ unixMillis sec nsec = sec * 1000 + (nsec / 1000000 : Nat) := by
  refine ⟨rfl, ?_⟩
  unfold unixMillis wrap64
  have : (nsec / 1000000 : Nat) < 1000 := by omega
  simp only [Int.ofNat_eq_natCast]
  omega

/-! ### key-slot update shapes (discharges the note in C18) -/

/-- the single-key shape is `Rv.Slot.keyStep` -/
theorem keyOne_is_keyStep (ks : Nat) (k : Bytes) : keyOne ks k = Slot.keyStep ks k := rfl

private theorem checkFold_eq_keyFold (ks : Nat) (keys : List Bytes) (h : ¬ ks / Slot.noSlot % 2 = 1) :
    checkFold ks keys = Slot.keyFold ks keys := by
  induction keys generalizing ks with
  | nil => rfl
  | cons k rest ih =>
    simp only [checkFold, Slot.keyFold, Slot.keyStep, h, if_false]
    cases hc : Slot.check ks (Slot.slot k) with
    | none => rfl
    | some v =>
      simp only
      apply ih
      have hv : v = Slot.slot k := by
        unfold Slot.check at hc
        split at hc
        · exact (Option.some.inj hc).symm
        · cases hc
      have := Rv.C18.slot_lt k
      rw [hv]
      simp only [Slot.noSlot]
      omega

/-- on a cluster builder (NoSlot bit clear) the variadic-key shape is `Rv.Slot.keyFold`:
    every key is checked against the slot so far, a cross-slot key panics — so C18's
    `cluster_builder_keys` applies to generated `Key(key ...string)` methods as well -/
theorem keyMany_cluster (ks : Nat) (keys : List Bytes) (h : ¬ ks / Slot.noSlot % 2 = 1) :
    keyMany ks keys = Slot.keyFold ks keys := by
  unfold keyMany
  rw [if_neg h]
  exact checkFold_eq_keyFold ks keys h

/-- on a NoSlot builder the variadic-key shape takes the slot of the FIRST key (the loop
    `break`s) and never panics -/
theorem keyMany_noslot (ks : Nat) (keys : List Bytes) (h : ks / Slot.noSlot % 2 = 1) :
    keyMany ks keys = some (match keys with | [] => ks | k :: _ => Slot.noSlot + Slot.slot k) := by
  unfold keyMany
  rw [if_pos h]
  cases keys <;> rfl

/-- a call only changes `ks` through the key-slot updates of its record, in statement order -/
theorem apply_ks (bt : Nat) (m : Method) (s s' : St) (args : List Val)
    (h : apply bt m s args = .ok s') : keyUpds args s.ks m.keys = .ok s'.ks := by
  unfold apply at h
  split at h
  · cases h
  · split at h
    · cases h
    · rename_i ks hks
      split at h
      · cases h
      · cases h; exact hks

/-- a method without key-slot statements leaves `ks` alone -/
theorem apply_ks_nokeys (bt : Nat) (m : Method) (s s' : St) (args : List Val) (hk : m.keys = [])
    (h : apply bt m s args = .ok s') : s'.ks = s.ks := by
  have := apply_ks bt m s s' args h
  rw [hk] at this
  simp only [keyUpds] at this
  exact (Except.ok.inj this).symm

/-! ### non-vacuity: a concrete path through the regenerated tables -/

/-- `b.Set().Key("k").Value("v").Ex(90*time.Second).Build()` on a cluster builder -/
example :
    (allCmds.find? (·.nm == nm! "SET")).map (fun c =>
      (build Flags.blockTag c Slot.initSlot
        [⟨"Key", [.str (bytes "k")]⟩, ⟨"Value", [.str (bytes "v")]⟩, ⟨"Ex", [.dur 90000000000]⟩] false).toOption.map
        (fun s => (s.argv, s.ks, s.cf)))
    = some (some ([bytes "SET", bytes "k", bytes "v", bytes "EX", bytes "90"], 7629, 0)) := by
  decide +kernel

end Rv.C33
