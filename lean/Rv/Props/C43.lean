/-
C43 — hooks intercept every request path.
Theorems over the table regenerated from rueidishook/hook.go (Rv.Gen.Hook.rows) and the
interpreter Rv.Hook.call of that table.
-/
import Rv.Model.Hook
namespace Rv.C43
open Rv.Hook Rv.Gen.Hook

/-! ### The table is inside the modelled fragment -/

/-- the Hook interface has exactly the seven request entry points of the property statement -/
theorem hook_iface_is_entry_points :
    hookMethods.all (entryPoints.contains ·) = true ∧ entryPoints.all (hookMethods.contains ·) = true := by
  decide

/-- `WithHook` builds a `hookclient`; every method of rueidis.Client has an explicit row on
    hookclient and every method of rueidis.DedicatedClient has one on dedicated (so no request
    can bypass the table through a promoted method) -/
theorem iface_covered :
    withHook = "hookclient" ∧
    clientIface.all (fun m => (findRow "hookclient" m).isSome) = true ∧
    dedicatedIface.all (fun m => (findRow "dedicated" m).isSome) = true ∧
    entryPoints.all (clientIface.contains ·) = true := by
  decide

/-- no row is outside the fragment the interpreter understands: every call on a user-visible
    wrapper has a known outcome -/
theorem no_unknown_outcome :
    ∀ w ∈ ["hookclient", "dedicated"], ∀ m ∈ ifaceOf w, ∀ fwd : Bool, (call w m fwd).2 ≠ Ret.unknown := by
  decide

/-! ### Entry points -/

/-- the wrappers a user can hold -/
def userWrappers : List String := ["hookclient", "dedicated"]

/-- Every request entry point of every user-visible wrapper invokes exactly one hook method —
    the one of the same name — exactly once, hands it the inner client, invokes nothing else,
    and returns the hook's result unchanged. -/
theorem every_entry_point_hooked_once :
    ∀ w ∈ userWrappers, ∀ m ∈ entryPoints, m ∈ ifaceOf w →
      call w m false = ([Ev.hook m (clientClass w)], Ret.fromHook) := by
  decide

/-- the hook's result is what the caller gets, also when the hook forwards to the inner client -/
theorem result_unchanged :
    ∀ w ∈ userWrappers, ∀ m ∈ entryPoints, m ∈ ifaceOf w → ∀ fwd, (call w m fwd).2 = Ret.fromHook := by
  decide

/-- the client handed to the hook is usable for the same request and reaches the real inner
    client exactly once without going through the hook again (no recursion, no double send) -/
theorem forwarded_call_reaches_inner_once :
    ∀ w ∈ userWrappers, ∀ m ∈ entryPoints, m ∈ ifaceOf w →
      (call w m true).1 = [Ev.hook m (clientClass w), Ev.inner m] := by
  decide

/-- Dedicated / Dedicate / Nodes call the inner client once and wrap every derived client again,
    keeping the same hook -/
theorem derived_clients_wrapped_again :
    call "hookclient" "Dedicated" false = ([Ev.inner "Dedicated"], Ret.wrapped "dedicated") ∧
    call "hookclient" "Dedicate" false = ([Ev.inner "Dedicate"], Ret.wrapped "dedicated") ∧
    call "hookclient" "Nodes" false = ([Ev.inner "Nodes"], Ret.wrapped "hookclient") := by
  decide

/-- methods that are forwarded without the hook are never request entry points, and they are
    forwarded to the method of the same name -/
theorem passthrough_only_non_request :
    ∀ r ∈ rows, r.recv ∈ userWrappers → r.kind = Kind.pass →
      r.method ∉ entryPoints ∧ r.target = r.method ∧ r.method ∈ ["B", "Mode", "Close", "SetPubSubHooks", "SetOnInvalidations"] := by
  decide

/-- the pass-through methods reach the inner client once and return its result -/
theorem passthrough_reaches_inner :
    ∀ w ∈ userWrappers, ∀ m ∈ ifaceOf w, m ∉ entryPoints → m ∉ derivers →
      call w m false = ([Ev.inner m], Ret.fromInner) := by
  decide

/-- the adapter placed between `dedicated` and the real dedicated client refuses everything a
    dedicated connection cannot do and forwards the rest -/
theorem adapter_refuses_or_forwards :
    ∀ m ∈ clientIface, adapterCall "extended" m = ([], Ret.panics) ∨ adapterCall "extended" m = ([Ev.inner m], Ret.fromInner) := by
  decide

/-! ### All derivation paths -/

/-- wrappers reachable from `WithHook` by any sequence of Dedicated / Dedicate / Nodes -/
inductive Reach : String → Prop
  | root : Reach withHook
  | step {w w' : String} {m : String} {evs : List Ev} :
      Reach w → m ∈ derivers → m ∈ ifaceOf w → call w m false = (evs, Ret.wrapped w') → Reach w'

private def wrappedOk : Ret → Bool
  | Ret.wrapped w' => userWrappers.contains w'
  | _ => true

private theorem closure :
    ∀ w ∈ userWrappers, ∀ m ∈ derivers, m ∈ ifaceOf w → wrappedOk (call w m false).2 = true := by
  decide

/-- every client reachable from `WithHook` is one of the user-visible wrappers -/
theorem reach_user : ∀ w, Reach w → w ∈ userWrappers := by
  intro w h
  induction h with
  | root => decide
  | @step w0 w1 m0 evs0 _ hm hi hc ih =>
    have hk := closure w0 ih m0 hm hi
    rw [hc] at hk
    simpa [wrappedOk] using hk

/-- **Main theorem**: on every client reachable from `WithHook(client, hook)` through any chain of
    Dedicated / Dedicate / Nodes, every request entry point the client offers runs the hook method of
    the same name exactly once (and nothing else) and returns the hook's result unchanged. -/
theorem reachable_entry_points_hooked_once (w : String) (h : Reach w) :
    ∀ m ∈ entryPoints, m ∈ ifaceOf w → call w m false = ([Ev.hook m (clientClass w)], Ret.fromHook) :=
  every_entry_point_hooked_once w (reach_user w h)

/-- the executable path follower used by the correspondence driver only visits reachable wrappers -/
theorem follow_reach : ∀ (path : List String) (w : String) (acc : List Ev) (w' : String) (evs : List Ev),
    Reach w → follow w path acc = some (w', evs) → Reach w' := by
  intro path
  induction path with
  | nil => intro w acc w' evs hw h; simp [follow] at h; exact h.1 ▸ hw
  | cons s rest ih =>
    intro w acc w' evs hw h
    unfold follow at h
    split at h
    · cases h
    · rename_i m hs
      split at h
      · rename_i hi
        split at h
        · rename_i evs1 w1 hc
          have hmd : m ∈ derivers := by
            unfold stepMethod at hs
            split at hs
            · cases hs; decide
            · split at hs
              · cases hs; decide
              · split at hs
                · cases hs; decide
                · cases hs
          have him : m ∈ ifaceOf w := by simpa using hi
          exact ih w1 _ w' evs (Reach.step hw hmd him hc) h
        · cases h
      · cases h

/-- for every derivation path and every entry point, the model's answer to the oracle question
    "how often did the hook run and whose result came back" is the specification's -/
theorem every_path_hooked_once (path : List String) (w : String) (pre : List Ev) (m : String)
    (hf : follow withHook path [] = some (w, pre)) (hm : m ∈ entryPoints) (hi : m ∈ ifaceOf w) :
    hookCount (call w m false).1 m = 1 ∧ otherHooks (call w m false).1 m = 0 ∧ (call w m false).2 = Ret.fromHook := by
  have hr : Reach w := follow_reach path withHook [] w pre Reach.root hf
  have hu := reach_user w hr
  have key : ∀ w ∈ userWrappers, ∀ m ∈ entryPoints, m ∈ ifaceOf w →
      hookCount (call w m false).1 m = 1 ∧ otherHooks (call w m false).1 m = 0 ∧ (call w m false).2 = Ret.fromHook := by
    decide
  exact key w hu m hm hi

/-! ### Stacked hooks -/

private theorem level_hooked :
    ∀ w ∈ userWrappers, ∀ m ∈ entryPoints, m ∈ ifaceOf w → levelKind w m = LK.hooked m := by
  decide

/-- **stacked hooks, any depth**: on a stack WithHook(…WithHook(base, h1)…, h_d) of forwarding hooks every
    request entry point runs the same-named hook of EVERY level exactly once, in outer-to-inner order,
    and then reaches the real client exactly once — no level is skipped or doubled -/
theorem stacked_every_level_once (d : Nat) (w : String) (hw : w ∈ userWrappers) (m : String)
    (hm : m ∈ entryPoints) (hi : m ∈ ifaceOf w) : stackCall d w m = expectLevels d w m := by
  induction d with
  | zero => rfl
  | succ d ih => simp only [stackCall, expectLevels, level_hooked w hw m hm hi, ih]

/-- the same on every client reachable through Dedicated / Dedicate / Nodes -/
theorem stacked_reachable_every_level_once (d : Nat) (w : String) (h : Reach w) (m : String)
    (hm : m ∈ entryPoints) (hi : m ∈ ifaceOf w) : stackCall d w m = expectLevels d w m :=
  stacked_every_level_once d w (reach_user w h) m hm hi

/-! ### Non-vacuity -/

example : stackCall 3 "hookclient" "DoCache" =
    [Ev.hookAt 3 "DoCache" "other", Ev.hookAt 2 "DoCache" "other", Ev.hookAt 1 "DoCache" "inner", Ev.inner "DoCache"] := by decide


example : Reach "dedicated" :=
  Reach.step (w := "hookclient") (m := "Dedicate") (evs := [Ev.inner "Dedicate"])
    (Reach.step (w := "hookclient") (w' := "hookclient") (m := "Nodes") (evs := [Ev.inner "Nodes"])
      Reach.root (by decide) (by decide) (by decide))
    (by decide) (by decide) (by decide)

example : follow withHook ["nodes", "nodes", "dedicated"] [] =
    some ("dedicated", [Ev.inner "Nodes", Ev.inner "Nodes", Ev.inner "Dedicated"]) := by decide

example : answer ["nodes", "dedicate"] "DoMulti" true =
    "log=inner:Nodes,inner:Dedicate,hook:DoMulti(other),inner:DoMulti ret=hook" := by decide

end Rv.C43
