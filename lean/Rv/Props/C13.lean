/-
C13 — RESP decoding rejects malformed input without crashing.
For EVERY byte sequence the model reader returns a value or an error: it never
reaches a Go runtime panic (negative `make`/`Grow`) and never requests an
allocation beyond a fixed reserve plus what has already been received.
-/
import Rv.Model.Resp
namespace Rv.C13
open Rv Rv.Resp

private theorem alloc_min_ok (len : Int) (cap : Nat) (h : ¬ len < 0) : alloc (min len cap) 0 cap = .ok () := by
  unfold alloc
  have h1 : ¬ (min len (cap : Int) < 0) := by omega
  have h2 : ¬ ((min len (cap : Int)).toNat > max cap 0) := by omega
  rw [if_neg h1, if_neg h2]

private theorem alloc_grow_ok (len n : Nat) : alloc ((min (len - n) n : Nat) : Int) n capBytes = .ok () := by
  unfold alloc
  have h1 : ¬ (((min (len - n) n : Nat) : Int) < 0) := by omega
  have h2 : ¬ (((min (len - n) n : Nat) : Int).toNat > max capBytes n) := by simp; omega
  rw [if_neg h1, if_neg h2]

private theorem grow_safe (fuel n len avail : Nat) : (grow fuel n len avail).safe = true := by
  induction fuel generalizing n with
  | zero => rfl
  | succ f ih =>
    unfold grow
    split
    · rw [alloc_grow_ok]
      dsimp only
      split
      · rfl
      · exact ih _
    · rfl

/-- `readB` fails only with an ordinary error -/
private theorem readB_safe (B : Nat) (bs : List UInt8) : ∀ r, readB B bs = .fail r → ∃ e, r = .err e := by
  intro r h
  unfold readB at h
  split at h
  · injection h with h; exact ⟨_, h.symm⟩
  · cases h
  · rename_i len r0 _
    split at h
    · cases h
    · split at h
      · injection h with h; exact ⟨_, h.symm⟩
      · rename_i hneg
        have ha : alloc (min len.toNat capBytes : Nat) 0 capBytes = .ok () := by
          have := alloc_min_ok (len.toNat : Int) capBytes (by omega)
          have hm : min (len.toNat : Int) (capBytes : Int) = ((min len.toNat capBytes : Nat) : Int) := by omega
          rw [hm] at this; exact this
        dsimp only at h
        rw [ha] at h
        dsimp only at h
        split at h
        · injection h with h; exact ⟨_, h.symm⟩
        · have hg := grow_safe len.toNat (min len.toNat capBytes) len.toNat r0.length
          split at h
          · injection h with h; exact ⟨_, h.symm⟩
          · rename_i hp; rw [hp] at hg; cases hg
          · rename_i hp; rw [hp] at hg; cases hg
          · split at h
            · injection h with h; exact ⟨_, h.symm⟩
            · cases h

private theorem readChunks_safe (B : Nat) (fuel : Nat) (acc bs : List UInt8) : (readChunks B fuel acc bs).safe = true := by
  induction fuel generalizing acc bs with
  | zero => rfl
  | succ f ih =>
    unfold readChunks
    split
    · rfl
    · split
      · rfl
      · rfl
      · rename_i len r _
        split
        · rfl
        · split
          · rfl
          · rename_i _ hneg
            rw [alloc_min_ok len capBytes hneg]
            dsimp only
            split
            · rfl
            · split
              · rfl
              · exact ih _ _

private theorem preFixed_safe (len : Int) : (preFixed len).safe = true := by
  unfold preFixed
  split
  · rfl
  · rename_i h; rw [alloc_min_ok len capMsgs h]; rfl

private theorem wrapFixed_safe (t : UInt8) (len : Int) (r) (h : r.safe = true) : (wrapFixed t len r).safe = true := by
  cases r <;> simp_all [wrapFixed, Res.safe]

private theorem wrapStream_safe (t : UInt8) (r) (h : r.safe = true) : (wrapStream t r).safe = true := by
  cases r <;> simp_all [wrapStream, Res.safe]

private theorem fixedBody_safe (t : UInt8) (len : Int) (k : Nat → Res (List Msg × List UInt8))
    (hk : ∀ n, (k n).safe = true) : (fixedBody t len k).safe = true := by
  unfold fixedBody
  have := preFixed_safe len
  split
  · exact wrapFixed_safe _ _ _ (hk _)
  · rfl
  · rename_i h; rw [h] at this; cases this
  · rename_i h; rw [h] at this; cases this

private theorem arrCase_safe (t : UInt8) (ri : IRes) (kA kE)
    (hA : ∀ n r, (kA n r).safe = true) (hE : ∀ r, (kE r).safe = true) : (arrCase t ri kA kE).safe = true := by
  unfold arrCase
  split
  · split
    · rfl
    · exact fixedBody_safe _ _ _ (fun n => hA n _)
  · exact wrapStream_safe _ _ (hE _)
  · rfl

private theorem mapCase_safe (t : UInt8) (ri : IRes) (kA kE)
    (hA : ∀ n r, (kA n r).safe = true) (hE : ∀ r, (kE r).safe = true) : (mapCase t ri kA kE).safe = true := by
  unfold mapCase
  split
  · exact fixedBody_safe _ _ _ (fun n => hA n _)
  · exact wrapStream_safe _ _ (hE _)
  · rfl

private def AllSafe (B f : Nat) : Prop :=
  (∀ ats bs, (readNext B f ats bs).safe = true) ∧
  (∀ t rk bs, (readBody B f t rk bs).safe = true) ∧
  (∀ n bs, (readArr B f n bs).safe = true) ∧
  (∀ acc bs, (readEnd B f acc bs).safe = true)

private theorem readS_safe (bs : List UInt8) : (readS bs).safe = true := by
  unfold readS
  split
  · rfl
  · split <;> rfl

private theorem discard2_safe (bs : List UInt8) : (discard2 bs).safe = true := by
  unfold discard2; split <;> rfl

private theorem leaf_body_safe (B f : Nat) (t : UInt8) (rk : RK) (bs : List UInt8)
    (hrk : rk ≠ .array ∧ rk ≠ .map) : (readBody B f t rk bs).safe = true := by
  cases rk with
  | blob =>
    rw [readBody]
    split
    · rfl
    · rfl
    · rename_i r0 _
      have hc := readChunks_safe B (r0.length + 1) [] r0
      split
      · rfl
      · rfl
      · rename_i h; rw [h] at hc; cases hc
      · rename_i h; rw [h] at hc; cases hc
    · rfl
    · rename_i h; obtain ⟨e, he⟩ := readB_safe B bs _ h; cases he
    · rename_i h; obtain ⟨e, he⟩ := readB_safe B bs _ h; cases he
    · rfl
  | simple =>
    rw [readBody]
    have hs := readS_safe bs
    split
    · rfl
    · rfl
    · rename_i h; rw [h] at hs; cases hs
    · rename_i h; rw [h] at hs; cases hs
  | integer => rw [readBody]; split <;> rfl
  | null =>
    rw [readBody]
    have hs := discard2_safe bs
    split
    · rfl
    · rfl
    · rename_i h; rw [h] at hs; cases hs
    · rename_i h; rw [h] at hs; cases hs
  | bool =>
    cases bs with
    | nil => rw [readBody]; rfl
    | cons b r0 =>
      rw [readBody]
      have hs := discard2_safe r0
      split
      · rfl
      · rfl
      · rename_i h; rw [h] at hs; cases hs
      · rename_i h; rw [h] at hs; cases hs
  | array => exact absurd rfl hrk.1
  | map => exact absurd rfl hrk.2

private theorem all_safe (B : Nat) : ∀ f, AllSafe B f := by
  intro f
  induction f with
  | zero =>
    refine ⟨?_, ?_, ?_, ?_⟩
    · intro ats bs; rw [readNext]; rfl
    · intro t rk bs
      by_cases h : rk ≠ .array ∧ rk ≠ .map
      · exact leaf_body_safe B 0 t rk bs h
      · have : rk = .array ∨ rk = .map := by
          cases rk <;> simp_all
        rcases this with h | h <;> subst h <;> rw [readBody] <;> rfl
    · intro n bs; cases n <;> rw [readArr] <;> rfl
    · intro acc bs; rw [readEnd]; rfl
  | succ f ih =>
    obtain ⟨ihN, ihB, ihA, ihE⟩ := ih
    refine ⟨?_, ?_, ?_, ?_⟩
    · intro ats bs
      cases bs with
      | nil => rw [readNext]; rfl
      | cons t bs =>
        rw [readNext]
        split
        · rfl
        · have hb := ihB t ‹_› bs
          split
          · rfl
          · rename_i h; rw [h] at hb; cases hb
          · rename_i h; rw [h] at hb; cases hb
          · rfl
          · split
            · exact ihN _ _
            · rfl
    · intro t rk bs
      by_cases h : rk ≠ .array ∧ rk ≠ .map
      · exact leaf_body_safe B _ t rk bs h
      · have : rk = .array ∨ rk = .map := by
          cases rk <;> simp_all
        rcases this with h | h <;> subst h <;> rw [readBody]
        · exact arrCase_safe _ _ _ _ (fun n r => ihA n r) (fun r => ihE [] r)
        · exact mapCase_safe _ _ _ _ (fun n r => ihA n r) (fun r => ihE [] r)
    · intro n bs
      cases n with
      | zero => rw [readArr]; rfl
      | succ n =>
        rw [readArr]
        have h1 := ihN [] bs
        split
        · have h2 := ihA n ‹_›
          split
          · rfl
          · rfl
          · rename_i h; rw [h] at h2; cases h2
          · rename_i h; rw [h] at h2; cases h2
        · rfl
        · rename_i h; rw [h] at h1; cases h1
        · rename_i h; rw [h] at h1; cases h1
    · intro acc bs
      rw [readEnd]
      have h1 := ihN [] bs
      split
      · split
        · rfl
        · exact ihE _ _
      · rfl
      · rename_i h; rw [h] at h1; cases h1
      · rename_i h; rw [h] at h1; cases h1

/-- **C13 main theorem.** For every bufio size and every byte sequence a peer can send,
    decoding returns a value or an ordinary error — never a runtime panic and never an
    allocation beyond the fixed reserve plus the bytes already received. -/
theorem decode_never_panics (B : Nat) (bs : List UInt8) :
    (∃ m r, decode B bs = .ok (m, r)) ∨ (∃ e, decode B bs = .err e) := by
  have := (all_safe B (2 * bs.length + 4)).1 [] bs
  unfold decode
  cases h : readNext B (2 * bs.length + 4) [] bs with
  | ok a => exact Or.inl ⟨a.1, a.2, rfl⟩
  | err e => exact Or.inr ⟨e, rfl⟩
  | panic => rw [h] at this; cases this
  | oom => rw [h] at this; cases this

/-- every allocation request of the reader is within `max(reserve, received)`:
    the allocation primitive only succeeds under that bound, and the reader never fails it -/
theorem alloc_bounded (req : Int) (received cap : Nat) (h : alloc req received cap = .ok ()) :
    0 ≤ req ∧ req.toNat ≤ max cap received := by
  unfold alloc at h
  split at h
  · cases h
  · split at h
    · cases h
    · omega

end Rv.C13

namespace Rv.C13
open Rv Rv.Resp
/-! the hostile frames that crashed the unrepaired reader are ordinary errors now -/
private def isErr {α} (r : Res α) (e : String) : Bool := match r with | .err x => x == e | _ => false
example : isErr (decode 4096 [36, 45, 50, 13, 10]) "neglen" = true := by decide +kernel          -- $-2
example : isErr (decode 4096 [42, 45, 50, 13, 10]) "neglen" = true := by decide +kernel          -- *-2
example : isErr (decode 4096 [37, 45, 49, 13, 10]) "neglen" = true := by decide +kernel          -- %-1
example : isErr (decode 4096 [36, 63, 13, 10, 59, 45, 50, 13, 10]) "neglen" = true := by decide +kernel   -- $? ;-2
end Rv.C13
