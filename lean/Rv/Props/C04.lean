/-
C04 — broken connections and Close never leave calls hanging.
Uses the teardown model of C03 (`Rv.C03.drain_assigns`): every pending batch is completed
exactly once with a non-nil error; plus admission after the latch and wire replacement.
-/
import Rv.Props.C03
import Rv.Model.Lifecycle
namespace Rv.C04
open Rv.Teardown Rv.Lifecycle

/-- **drain_completes.** After a connection failure or Close, whatever is pending in the queue —
    written or not, any number of batches — is completed exactly once, in queue order, each with
    a non-nil error, and the drain leaves nothing behind. -/
theorem drain_completes (d : Drain) (ws us : List Entry) (h : Rv.C03.Inv d ws us) (ho : d.out = []) :
    ∃ res : List (Nat × Res),
      res.map Prod.fst = (ws ++ us).map Entry.id ∧ (∀ p ∈ res, p.2 ≠ .reply) := by
  obtain ⟨_, d2, _, _, hout, _⟩ := Rv.C03.drain_assigns d ws us h ho
  refine ⟨Rv.C03.expected d.why ws us, ?_, Rv.C03.drained_get_errors d.why ws us⟩
  simp [Rv.C03.expected, List.map_append, Function.comp_def]

/-- the number of drain iterations that complete a batch equals the number of pending batches:
    the loop's variant (`waits`) strictly decreases on each such iteration -/
theorem drain_variant (why : Why) (ws us : List Entry) :
    (Rv.C03.expected why ws us).length = ws.length + us.length := by
  simp [Rv.C03.expected]

/-- after the error latch (`state ≥ 2`) a new call whose context is live is rejected with the
    latched error without touching the wire; after Close that error is ErrClosing -/
theorem after_latch_rejects (state waits : Nat) (h : 2 ≤ state) :
    admission state waits false = some .reject := by
  unfold admission
  have h1 : ¬ state = 1 := by omega
  have h0 : ¬ state = 0 := by omega
  simp [h1, h0]

/-- a wire that reported an error is replaced: the next call after a broken result never uses it,
    it dials a fresh connection -/
theorem fresh_wire_after_break (m : Mux) (id : Nat) (hs : m.slot = .live id) (hn : id < m.next) :
    let m1 := m.fail id
    let (m2, used) := m1.pick
    let m3 := m2.afterCall used true
    (m3.pick).2 = .live m.next ∧ (m3.pick).2 ≠ .broken id ∧ (m3.pick).2 ≠ .live id := by
  simp only [Mux.fail, hs, if_true, Mux.pick, Mux.afterCall, Bool.true_and, decide_true]
  refine ⟨trivial, by simp, ?_⟩
  intro h; injection h with h; omega

/-- **after_close_errclosing.** Once the mux is closed, no completion of a dial that was in flight
    (any number of them, in any order, mixed with failures and call results — a call on the dead
    wire fails with ErrClosing, which `isBroken` excludes) brings a live wire back:
    every later call gets the dead wire, i.e. ErrClosing. -/
theorem closed_stays_closed (m : Mux) (evs : List (Nat ⊕ (Nat ⊕ Unit))) :
    ((evs.foldl (fun (m : Mux) e => match e with
        | .inl id => (m.install id).1
        | .inr (.inl id) => m.fail id
        | .inr (.inr _) => m.afterCall m.slot (decide (m.slot ≠ .dead))) m.close).pick).2 = .dead := by
  have key : ∀ (m : Mux), m.slot = .dead →
      (evs.foldl (fun (m : Mux) e => match e with
        | .inl id => (m.install id).1
        | .inr (.inl id) => m.fail id
        | .inr (.inr _) => m.afterCall m.slot (decide (m.slot ≠ .dead))) m).slot = .dead := by
    induction evs with
    | nil => intro m h; exact h
    | cons e es ih =>
      intro m h
      apply ih
      cases e with
      | inl id => simp [Mux.install, h]
      | inr e' => cases e' with
        | inl id => simp [Mux.fail, h]
        | inr _ => simp [Mux.afterCall, h]
  have := key m.close rfl
  unfold Mux.pick
  rw [this]

/-- the unrepaired `Store(w)` resurrected a closed mux (witness of the repaired defect) -/
theorem unconditional_store_resurrects :
    ({ ({} : Mux).close with slot := .live 7 } : Mux).slot ≠ .dead := by decide

/-- a healthy wire is kept -/
theorem healthy_wire_kept (m : Mux) (id : Nat) (hs : m.slot = .live id) :
    (m.pick).2 = .live id ∧ ((m.pick).1.afterCall (.live id) false).slot = .live id := by
  simp [Mux.pick, hs, Mux.afterCall]

/-- facts re-extracted from pipe.go / mux.go on every run: the drain loop runs while callers wait and
    closes cache flights and subscriptions; a wire is replaced exactly when `isBroken` -/
theorem teardown_shape_pinned :
    Rv.Gen.PipeShape.drainLoopsOnWaits = true ∧ Rv.Gen.PipeShape.drainClosesCacheAndSubs = true ∧
    Rv.Gen.PipeShape.rejectsByState_Do = true ∧ Rv.Gen.PipeShape.rejectsByState_DoMulti = true ∧
    Rv.Gen.PipeShape.muxInstallsWithCAS = true ∧ Rv.Gen.PipeShape.muxCloseSwapsDead = true ∧
    Rv.Gen.PipeShape.isBroken = "{ return err != nil && err != ErrClosing && w.Error() != nil }" := by
  refine ⟨rfl, rfl, rfl, rfl, rfl, rfl, rfl⟩

private def exD : Drain :=
  { why := Why.broken, rcnt := 0, wcnt := 1, closed := false, pending := [⟨7, true⟩, ⟨8, false⟩], out := [] }
example : Rv.C03.Inv exD [⟨7, true⟩] [⟨8, false⟩] := by
  refine ⟨rfl, by simp, by simp, fun _ => rfl, by simp⟩

end Rv.C04
