/-
C08 at store level (lru.go): distinct cacheable commands never share a cache entry — a lookup of
(key, cmd), alone or at position j of a batch, is answered only with the entry filed under exactly
that (key, cmd), and the store holds at most one entry per (key, cmd). (Whether `CacheKey` maps distinct
commands to distinct (key, cmd) pairs is the other half of C08: Rv/Props/C08.lean.)
-/
import Rv.Lemmas.LruOwn
namespace Rv.C08
open Rv.Lru

/-- a single lookup that is not told to send is answered with the entry of exactly that (key, cmd) -/
theorem store_lookup_is_own_entry (s : State) (k c : Bytes) (ttl now : Int) (h : (flight s k c ttl now).2 ≠ .send) :
    ∃ e ∈ s.list, e.key = k ∧ e.cmd = c ∧ (flight s k c ttl now).2 = resOf e := by
  obtain ⟨e, he, hk, hc, _, hr⟩ := outcome_own_entry (flight_cases s k c ttl now) h
  exact ⟨e, he, hk, hc, hr⟩

/-- **Batch lookups keep commands apart.** Whatever `Flights` (DoMultiCache) puts at position `j` — a hit in
    `results[j]` or a pending entry to wait on in `entries[j]` — is the answer of an entry of the store whose
    (key, cmd) is that of the j-th command, also when earlier commands of the batch were duplicates or already present. -/
theorem store_batch_lookup_is_own_entry (s : State) (now : Int) (multi : List (Bytes × Bytes × Int)) (j : Nat) (r : FRes)
    (hr : r ≠ .send) (h : (flights s now multi).2.1[j]? = some (some r)) :
    ∃ k c ttl, multi[j]? = some (k, c, ttl) ∧
      ∃ e ∈ (flights s now multi).1.list, e.key = k ∧ e.cmd = c ∧ r = resOf e :=
  flights_own s now multi j r hr h

/-- in every state reached from a fresh store there is at most one entry per (key, cmd) -/
theorem store_one_entry_per_command (mx base : Int) (ops : List Op) (x y : Entry)
    (hx : x ∈ (run (Lru.init mx base) ops).list) (hy : y ∈ (run (Lru.init mx base) ops).list)
    (hk : x.key = y.key) (hc : x.cmd = y.cmd) : x = y :=
  (inv_run (inv_init mx base) ops).nodup.eq_of_sameKC hx hy ⟨hk, hc⟩

/-- the batch shape [GET a, GET a, GET b] on a cold store: the duplicate waits on the first command's entry,
    the different command after it gets its OWN fetch and its own entry -/
theorem store_duplicate_then_other_witness :
    let a : Bytes := [97]; let b : Bytes := [98]; let get : Bytes := [71]
    let r := flights (Lru.init 10000 336) 0 [(a, get, 1000000000), (a, get, 1000000000), (b, get, 1000000000)]
    r.2.1 = [some .send, some (.wait 0), some .send] ∧ r.2.2 = [0, 2] ∧
    r.1.list.map (fun e => (e.id, e.key)) = [(0, a), (1, b)] := by decide

end Rv.C08
