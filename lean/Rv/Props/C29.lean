/-
C29 — Streaming reads deliver exact bytes and recycle connections.

Part 1: `streamTo` (resp.go) on the model `Rv.StreamTo` (built on the C12 reader model).
Part 2: the `RedisResultStream` automaton (pipe.go) on the model `Rv.ResultStream`.
The blocking pool behind `store` is C24 (`Rv.Pool`, `Rv.C24.*`), the normal reader is
C12 (`Rv.C12.decode_encode`), its panic freedom C13 (`Rv.C13.decode_never_panics`).
-/
import Rv.Lemmas.StreamBasics
import Rv.Lemmas.StreamInv
import Rv.Lemmas.StreamCut
import Rv.Model.ResultStream
namespace Rv.C29
open Rv Rv.Resp Rv.Spec Rv.RespL Rv.StreamTo Rv.StreamL

/-! ## Part 1: streamTo -/

/-- replies whose payload a streaming read must deliver: `$`/`=` blob strings (also
    chunked), `+` simple strings, `,` floats, `(` big numbers, integers, booleans -/
def streamable : Wire → Bool
  | .blob t _ => t == 36 || t == 61
  | .chunked t _ => t == 36 || t == 61
  | .line t _ => t == 43 || t == 44 || t == 40
  | .int _ => true
  | .bool _ => true
  | _ => false

/-- what a *normal* read of the reply hands to the user: the string, or the decimal
    rendering of the integer / boolean -/
abbrev payload (w : Wire) : List UInt8 := payloadOf (value w [])

private theorem fuel_ok (ps : List Wire) (hps : Pushes ps) (x : List UInt8) (k : Nat) (hk : k ≤ 2 * x.length + 4) :
    ∃ f, 2 * (bytesL ps ++ x).length + 4 = ps.length + f ∧ k ≤ f := by
  have := bytesL_len ps hps
  refine ⟨2 * (bytesL ps ++ x).length + 4 - ps.length, ?_, ?_⟩ <;> simp only [List.length_append] <;> omega

/-- **stream_eq_payload.** For every well-formed streamable reply `w` (incl. chunked `$?`
    strings), preceded by any number of well-formed push frames and followed by any bytes
    `rest`, `streamTo` with a writer that does not fail writes exactly the bytes a normal
    read returns (`payload w`; by `Rv.C12.decode_encode` that is the value the normal reader
    decodes), reports their count, no error, clean = true, and leaves `rest` unread. -/
theorem stream_eq_payload (B : Nat) (hb : 32 ≤ B) (ps : List Wire) (hps : Pushes ps) (w : Wire) (hwf : WF w = true)
    (hs : streamable w = true) (rest : List UInt8) (wr : Wr) (hw : wr.budget = none) :
    run B wr (bytesL ps ++ (bytes w ++ rest)) =
      ⟨(payload w).length, .none, true, rest, { wr with out := wr.out ++ payload w }⟩ := by
  unfold run
  cases w with
  | blob t s =>
    simp only [streamable, Bool.or_eq_true, beq_iff_eq] at hs
    simp only [WF, Bool.and_eq_true, lim] at hwf
    obtain ⟨f, hf, hk⟩ := fuel_ok ps hps (bytes (.blob t s) ++ rest) 1 (by omega)
    obtain ⟨f1, rfl⟩ : ∃ k, f = k + 1 := ⟨f - 1, by omega⟩
    rw [hf, streamTo_skip_pushes B hb ps hps]
    have ht : t = 36 ∨ t = 61 ∨ t = 59 := by rcases hs with h | h <;> simp [h]
    have h59 : t = 59 → s ≠ [] := by intro e; rcases hs with h | h <;> (rw [h] at e; cases e)
    have hpay : payload (.blob t s) = s := by
      rcases hs with h | h <;> subst h <;> simp [payload, payloadOf, value, Msg.typ, Msg.str]
    simp only [bytes, List.cons_append, List.append_assoc]
    have := streamTo_blob B hb f1 t ht s rest (of_decide_eq_true hwf.2) h59 wr hw
    simp only [List.append_assoc] at this
    rw [this, hpay]
  | chunked t cs =>
    simp only [streamable, Bool.or_eq_true, beq_iff_eq] at hs
    simp only [WF, Bool.and_eq_true, lim, List.all_eq_true, Bool.not_eq_true'] at hwf
    obtain ⟨_, hcs⟩ := hwf
    have hcs' : ∀ c ∈ cs, c ≠ [] ∧ c.length < 9223372036854775808 := by
      intro c hc
      have := hcs c hc
      exact ⟨by intro e; subst e; simp at this, of_decide_eq_true this.2⟩
    have hlen := chunks_len cs
    have hshape : bytes (.chunked t cs) ++ rest =
        t :: 63 :: 13 :: 10 :: ((cs.map chunkBytes).flatten ++ (59 :: 48 :: 13 :: 10 :: rest)) := by
      simp [bytes, crlf, List.append_assoc]
    obtain ⟨f, hf, hk⟩ := fuel_ok ps hps (bytes (.chunked t cs) ++ rest) (cs.length + 3) (by
      rw [hshape]; simp only [List.length_cons, List.length_append]; omega)
    obtain ⟨f1, rfl⟩ : ∃ k, f = k + 1 := ⟨f - 1, by omega⟩
    rw [hf, streamTo_skip_pushes B hb ps hps, hshape]
    have ht : t = 36 ∨ t = 61 ∨ t = 59 := by rcases hs with h | h <;> simp [h]
    have hpay : payload (.chunked t cs) = cs.flatten := by
      rcases hs with h | h <;> subst h <;> simp [payload, payloadOf, value, Msg.typ, Msg.str]
    rw [streamTo_chunked B hb t ht cs hcs' f1 (by omega) wr hw rest, hpay]
  | line t s =>
    simp only [streamable, Bool.or_eq_true, beq_iff_eq] at hs
    obtain ⟨f, hf, hk⟩ := fuel_ok ps hps (bytes (.line t s) ++ rest) 1 (by omega)
    obtain ⟨f1, rfl⟩ : ∃ k, f = k + 1 := ⟨f - 1, by omega⟩
    rw [hf, streamTo_skip_pushes B hb ps hps]
    have hnb : isBlobLike t = false := by rcases hs with (h | h) | h <;> subst h <;> decide
    have hpay : payload (.line t s) = s := by
      rcases hs with (h | h) | h <;> subst h <;> simp [payload, payloadOf, value, Msg.typ, Msg.str]
    refine streamTo_default_some B hb f1 _ hwf t (s ++ crlf) (by simp [bytes]) hnb rest wr _ ?_
    have hm : (value (.line t s) []).typ = 43 ∨ (value (.line t s) []).typ = 44 ∨ (value (.line t s) []).typ = 40 := by
      simp only [value, Msg.typ]; rcases hs with (h | h) | h <;> simp [h]
    unfold msgCase
    rw [if_pos hm, hpay]
    simp [writeOut, Wr.write, hw, value, Msg.str]
  | int v =>
    obtain ⟨f, hf, hk⟩ := fuel_ok ps hps (bytes (.int v) ++ rest) 1 (by omega)
    obtain ⟨f1, rfl⟩ : ∃ k, f = k + 1 := ⟨f - 1, by omega⟩
    rw [hf, streamTo_skip_pushes B hb ps hps]
    refine streamTo_default_some B hb f1 _ hwf 58 (decI v ++ crlf) (by simp [bytes]) (by decide) rest wr _ ?_
    simp [msgCase, value, Msg.typ, Msg.int, writeOut, Wr.write, hw, payload, payloadOf, fmtInt]
  | bool b =>
    obtain ⟨f, hf, hk⟩ := fuel_ok ps hps (bytes (.bool b) ++ rest) 1 (by omega)
    obtain ⟨f1, rfl⟩ : ∃ k, f = k + 1 := ⟨f - 1, by omega⟩
    rw [hf, streamTo_skip_pushes B hb ps hps]
    refine streamTo_default_some B hb f1 _ hwf 35 [if b then 116 else 102, 13, 10] (by simp only [bytes] <;> rfl) (by decide) rest wr _ ?_
    simp [msgCase, value, Msg.typ, Msg.int, writeOut, Wr.write, hw, payload, payloadOf, fmtInt]
  | _ => simp [streamable] at hs

/-- the bytes delivered for an integer reply are its decimal rendering, for a string reply
    the string itself (unfolds `payload` for the two main cases) -/
theorem payload_cases (v : Int) (t : UInt8) (s : List UInt8) (ht : t = 36 ∨ t = 61) :
    payload (.int v) = decI v ∧ payload (.blob t s) = s := by
  refine ⟨by simp [payload, payloadOf, value, Msg.typ, Msg.int], ?_⟩
  rcases ht with h | h <;> subst h <;> simp [payload, payloadOf, value, Msg.typ, Msg.str]

/-- null replies: RESP3 `_`, RESP2 `$-1` / `=-1` / `!-1`, `*-1` -/
def isNullReply : Wire → Bool
  | .null => true
  | .nullBlob _ => true
  | .nullArr t => t != 62
  | _ => false

/-- **null_is_Nil.** A null reply (any of its wire forms, pushes in front) is reported as the
    `Nil` error with nothing written, clean = true and `rest` unread — whatever the writer. -/
theorem null_is_Nil (B : Nat) (hb : 32 ≤ B) (ps : List Wire) (hps : Pushes ps) (w : Wire) (hwf : WF w = true)
    (hn : isNullReply w = true) (rest : List UInt8) (wr : Wr) :
    run B wr (bytesL ps ++ (bytes w ++ rest)) = ⟨0, .nilMsg, true, rest, wr⟩ := by
  unfold run
  obtain ⟨f, hf, hk⟩ := fuel_ok ps hps (bytes w ++ rest) 1 (by omega)
  obtain ⟨f1, rfl⟩ : ∃ k, f = k + 1 := ⟨f - 1, by omega⟩
  rw [hf, streamTo_skip_pushes B hb ps hps]
  cases w with
  | null =>
    exact streamTo_default_some B hb f1 _ hwf 95 _ (by simp only [bytes] <;> rfl) (by decide) rest wr _ (by
      simp [msgCase, value, Msg.typ])
  | nullBlob t =>
    simp only [WF, isBlobT, Bool.or_eq_true, beq_iff_eq] at hwf
    rcases hwf with (h | h) | h
    · subst h; exact streamTo_nullblob B hb f1 36 (Or.inl rfl) wr rest
    · subst h
      exact streamTo_default_some B hb f1 (.nullBlob 33) (by decide) 33 _ (by simp only [bytes] <;> rfl) (by decide) rest wr _ (by
        simp [msgCase, value, Msg.null, Msg.typ])
    · subst h; exact streamTo_nullblob B hb f1 61 (Or.inr (Or.inl rfl)) wr rest
  | nullArr t =>
    have hnb : isBlobLike t = false := by
      simp only [WF, isArrT, Bool.or_eq_true, beq_iff_eq] at hwf
      rcases hwf with (h | h) | h <;> subst h <;> decide
    exact streamTo_default_some B hb f1 _ hwf t _ (by simp only [bytes] <;> rfl) hnb rest wr _ (by
      simp [msgCase, value, Msg.null, Msg.typ])
  | _ => simp [isNullReply] at hn

/-- error replies: `-text`, `!n text`, chunked `!?` -/
def isErrorReply : Wire → Bool
  | .line t _ => t == 45
  | .blob t _ => t == 33
  | .chunked t _ => t == 33
  | _ => false

/-- **error_reply_is_error.** A simple or blob error reply surfaces as a RedisError carrying
    exactly the error text, nothing is written, clean = true and `rest` is unread. -/
theorem error_reply_is_error (B : Nat) (hb : 32 ≤ B) (ps : List Wire) (hps : Pushes ps) (w : Wire) (hwf : WF w = true)
    (he : isErrorReply w = true) (rest : List UInt8) (wr : Wr) :
    run B wr (bytesL ps ++ (bytes w ++ rest)) = ⟨0, .redis (value w []).str, true, rest, wr⟩ := by
  unfold run
  obtain ⟨f, hf, hk⟩ := fuel_ok ps hps (bytes w ++ rest) 1 (by omega)
  obtain ⟨f1, rfl⟩ : ∃ k, f = k + 1 := ⟨f - 1, by omega⟩
  rw [hf, streamTo_skip_pushes B hb ps hps]
  cases w with
  | line t s =>
    simp only [isErrorReply, beq_iff_eq] at he; subst he
    exact streamTo_default_some B hb f1 _ hwf 45 (s ++ crlf) (by simp [bytes]) (by decide) rest wr _ (by
      simp [msgCase, value, Msg.typ, Msg.str])
  | blob t s =>
    simp only [isErrorReply, beq_iff_eq] at he; subst he
    exact streamTo_default_some B hb f1 _ hwf 33 _ (by simp only [bytes] <;> rfl) (by decide) rest wr _ (by
      simp [msgCase, value, Msg.typ, Msg.str])
  | chunked t cs =>
    simp only [isErrorReply, beq_iff_eq] at he; subst he
    exact streamTo_default_some B hb f1 _ hwf 33 _ (by simp only [bytes] <;> rfl) (by decide) rest wr _ (by
      simp [msgCase, value, Msg.typ, Msg.str])
  | _ => simp [isErrorReply] at he

/-- aggregate replies: arrays, sets, maps (fixed length or streamed) -/
def aggType : Wire → Option UInt8
  | .arr t _ => if t = 42 ∨ t = 126 then some t else none
  | .map t _ => if t = 37 then some t else none
  | .stream t _ => if t = 42 ∨ t = 126 ∨ t = 37 then some t else none
  | _ => none

/-- **aggregate_unsupported.** An array / set / map reply is *not* streamed: `streamTo`
    returns the "unsupported … response" error. The code reports clean = true, and this is
    right: `readNextMessage` has consumed the whole aggregate — `rest` is exactly what
    follows the aggregate's frame, so the connection can be reused. -/
theorem aggregate_unsupported (B : Nat) (hb : 32 ≤ B) (ps : List Wire) (hps : Pushes ps) (w : Wire) (hwf : WF w = true)
    (t : UInt8) (ha : aggType w = some t) (rest : List UInt8) (wr : Wr) :
    run B wr (bytesL ps ++ (bytes w ++ rest)) = ⟨0, .unsupported t, true, rest, wr⟩ := by
  unfold run
  obtain ⟨f, hf, hk⟩ := fuel_ok ps hps (bytes w ++ rest) 1 (by omega)
  obtain ⟨f1, rfl⟩ : ∃ k, f = k + 1 := ⟨f - 1, by omega⟩
  rw [hf, streamTo_skip_pushes B hb ps hps]
  cases w with
  | arr t' xs =>
    simp only [aggType] at ha
    split at ha
    · rename_i h; cases ha
      have hnb : isBlobLike t = false := by rcases h with h | h <;> subst h <;> decide
      exact streamTo_default_some B hb f1 _ hwf t _ (by simp only [bytes, List.cons_append]; rfl) hnb rest wr _ (by
        rcases h with h | h <;> subst h <;> simp [msgCase, value, Msg.typ])
    · cases ha
  | map t' xs =>
    simp only [aggType] at ha
    split at ha
    · rename_i h; cases ha; subst h
      exact streamTo_default_some B hb f1 _ hwf 37 _ (by simp only [bytes, List.cons_append]; rfl) (by decide) rest wr _ (by
        simp [msgCase, value, Msg.typ])
    · cases ha
  | stream t' xs =>
    simp only [aggType] at ha
    split at ha
    · rename_i h; cases ha
      have hnb : isBlobLike t = false := by rcases h with h | h | h <;> subst h <;> decide
      exact streamTo_default_some B hb f1 _ hwf t _ (by simp only [bytes, List.cons_append]; rfl) hnb rest wr _ (by
        rcases h with h | h | h <;> subst h <;> simp [msgCase, value, Msg.typ])
    · cases ha
  | _ => simp [aggType] at ha

/-- OBSERVATION (code as it is): a string reply that carries a RESP3 attribute frame is
    *not* streamed — the default branch decodes it and reports "unsupported attribute
    response" (clean = true, frame fully consumed). -/
theorem attr_prefixed_string_unsupported (B : Nat) (hb : 32 ≤ B) (a : Wire) (s rest : List UInt8) (wr : Wr)
    (hwf : WF (.attr a (.blob 36 s)) = true) :
    run B wr (bytes (.attr a (.blob 36 s)) ++ rest) = ⟨0, .unsupported 124, true, rest, wr⟩ := by
  unfold run
  have ha : attrOK a = true := by simp only [WF, Bool.and_eq_true] at hwf; exact hwf.1
  obtain ⟨tl, htl⟩ : ∃ tl, bytes a = 124 :: tl := by
    cases a with
    | map t xs =>
      simp only [attrOK, Bool.and_eq_true, beq_iff_eq] at ha
      obtain ⟨⟨⟨ht, _⟩, _⟩, _⟩ := ha; subst ht; exact ⟨_, by simp only [bytes, List.cons_append]; rfl⟩
    | stream t xs =>
      simp only [attrOK, Bool.and_eq_true, beq_iff_eq] at ha
      obtain ⟨ht, _⟩ := ha; subst ht; exact ⟨_, by simp only [bytes, List.cons_append]; rfl⟩
    | _ => simp [attrOK] at ha
  have hfuel : ∃ f, 2 * (bytes (.attr a (.blob 36 s)) ++ rest).length + 4 = f + 1 := ⟨_, rfl⟩
  obtain ⟨f, hf⟩ := hfuel
  rw [hf]
  exact streamTo_default_some B hb f _ hwf 124 (tl ++ bytes (.blob 36 s)) (by simp [bytes, htl]) (by decide) rest wr _ (by
    simp [msgCase, value, Msg.typ])

/-! ### truncated input -/

/-- **short_input_not_clean** (blob strings, the streaming-specific path). If the server
    stops anywhere inside the payload or its trailing CRLF of a `$n` / `=n` / `;n` frame,
    `streamTo` returns clean = false with a non-nil error — for *every* writer, failing or
    not (so `WriteTo` closes the wire before giving it back). -/
theorem short_input_not_clean (B : Nat) (hb : 32 ≤ B) (t : UInt8) (ht : t = 36 ∨ t = 61 ∨ t = 59)
    (n : Nat) (hn : n < 9223372036854775808) (h0 : n = 0 → t ≠ 59) (p : List UInt8) (hp : p.length < n + 2) (wr : Wr) :
    (run B wr (t :: (digits n ++ crlf ++ p))).clean = false ∧ (run B wr (t :: (digits n ++ crlf ++ p))).err ≠ .none := by
  show Unclean (run B wr (t :: (digits n ++ crlf ++ p)))
  unfold run
  have hfuel : ∃ f, 2 * (t :: (digits n ++ crlf ++ p)).length + 4 = f + 1 := ⟨_, rfl⟩
  obtain ⟨f, hf⟩ := hfuel
  rw [hf]
  exact streamTo_payload_cut B hb f t ht n hn h0 p hp wr

/-- a connection that ends before any byte of the reply: error, not clean -/
theorem empty_input_not_clean (B : Nat) (wr : Wr) : run B wr [] = ⟨0, .rd "io", false, [], wr⟩ := by
  unfold run; rw [streamTo]

/-- the first byte of a well-formed frame decides the branch: the default branch, or one of the
    three streamed shapes `$n` / `=n`, `$?` / `=?`, `$-1` / `=-1` -/
private theorem head_cases (w : Wire) (hwf : WF w = true) :
    (∃ t tl, bytes w = t :: tl ∧ isBlobLike t = false) ∨
    (∃ t s, (t = 36 ∨ t = 61) ∧ w = .blob t s) ∨ (∃ t cs, (t = 36 ∨ t = 61) ∧ w = .chunked t cs) ∨
    (∃ t, (t = 36 ∨ t = 61) ∧ w = .nullBlob t) := by
  cases w with
  | blob t s =>
    simp only [WF, Bool.and_eq_true, isBlobT, Bool.or_eq_true, beq_iff_eq] at hwf
    rcases hwf.1 with (h | h) | h
    · exact Or.inr (Or.inl ⟨t, s, Or.inl h, rfl⟩)
    · subst h; exact Or.inl ⟨33, _, by simp only [bytes, List.cons_append] <;> rfl, by decide⟩
    · exact Or.inr (Or.inl ⟨t, s, Or.inr h, rfl⟩)
  | chunked t cs =>
    simp only [WF, Bool.and_eq_true, isBlobT, Bool.or_eq_true, beq_iff_eq] at hwf
    rcases hwf.1 with (h | h) | h
    · exact Or.inr (Or.inr (Or.inl ⟨t, cs, Or.inl h, rfl⟩))
    · subst h; exact Or.inl ⟨33, _, by simp only [bytes, List.cons_append] <;> rfl, by decide⟩
    · exact Or.inr (Or.inr (Or.inl ⟨t, cs, Or.inr h, rfl⟩))
  | nullBlob t =>
    simp only [WF, isBlobT, Bool.or_eq_true, beq_iff_eq] at hwf
    rcases hwf with (h | h) | h
    · exact Or.inr (Or.inr (Or.inr ⟨t, Or.inl h, rfl⟩))
    · subst h; exact Or.inl ⟨33, _, by simp only [bytes] <;> rfl, by decide⟩
    · exact Or.inr (Or.inr (Or.inr ⟨t, Or.inr h, rfl⟩))
  | line t s =>
    simp only [WF, Bool.and_eq_true, isLineT, Bool.or_eq_true, beq_iff_eq] at hwf
    refine Or.inl ⟨t, s ++ crlf, by simp [bytes], ?_⟩
    rcases hwf.1 with ((h | h) | h) | h <;> subst h <;> decide
  | int v => exact Or.inl ⟨58, decI v ++ crlf, by simp [bytes], by decide⟩
  | null => exact Or.inl ⟨95, _, by simp only [bytes] <;> rfl, by decide⟩
  | bool b => exact Or.inl ⟨35, _, by simp only [bytes] <;> rfl, by decide⟩
  | arr t xs =>
    simp only [WF, Bool.and_eq_true, isArrT, Bool.or_eq_true, beq_iff_eq] at hwf
    refine Or.inl ⟨t, _, by simp only [bytes, List.cons_append] <;> rfl, ?_⟩
    rcases hwf.1.1 with (h | h) | h <;> subst h <;> decide
  | map t xs =>
    simp only [WF, Bool.and_eq_true, beq_iff_eq] at hwf
    obtain ⟨⟨⟨ht, _⟩, _⟩, _⟩ := hwf; subst ht
    exact Or.inl ⟨37, _, by simp only [bytes, List.cons_append] <;> rfl, by decide⟩
  | stream t xs =>
    simp only [WF, Bool.and_eq_true, isStreamT, isArrT, Bool.or_eq_true, beq_iff_eq] at hwf
    refine Or.inl ⟨t, _, by simp only [bytes, List.cons_append] <;> rfl, ?_⟩
    rcases hwf.1 with ((h | h) | h) | h <;> subst h <;> decide
  | nullArr t =>
    simp only [WF, isArrT, Bool.or_eq_true, beq_iff_eq] at hwf
    refine Or.inl ⟨t, _, by simp only [bytes] <;> rfl, ?_⟩
    rcases hwf with (h | h) | h <;> subst h <;> decide
  | attr a w =>
    simp only [WF, Bool.and_eq_true] at hwf
    obtain ⟨atl, hatl⟩ := attr_head a hwf.1
    exact Or.inl ⟨124, atl ++ bytes w, by simp [bytes, hatl], by decide⟩

/-- the default branch on a strict prefix: `readNextMessage` fails (`Rv.StreamL.decode_cut`) -/
private theorem default_cut (B : Nat) (hb : 32 ≤ B) (w : Wire) (hwf : WF w = true) (t : UInt8) (tl : List UInt8)
    (hbytes : bytes w = t :: tl) (hnb : isBlobLike t = false) (k : Nat) (hk : k < (bytes w).length) (f : Nat) (wr : Wr) :
    Unclean (streamTo B (f + 1) wr ((bytes w).take k)) := by
  cases k with
  | zero => exact streamTo_nil_unclean B _ wr
  | succ k =>
    obtain ⟨e, he⟩ := decode_cut B hb w hwf (k + 1) hk
    rw [hbytes, List.take_succ_cons] at he ⊢
    rw [streamTo]
    simp only [hnb, Bool.false_eq_true, if_false]
    unfold defaultCase
    rw [he]
    exact ⟨rfl, by simp⟩

/-- **strict_prefix_not_clean.** For every well-formed wire form `w` — every reply type, any
    nesting, attribute frames, streamed strings and aggregates — and every cut position
    `k < |bytes w|` (inside the header line, inside the payload, inside the trailing CRLF,
    between or inside the chunks of a `$?` string, inside the `;0` marker, anywhere inside a
    `+`/`-`/`:`/`#`/`_`/`,`/`(` line or an aggregate handled by the default branch), `streamTo` on
    the first `k` bytes followed by EOF returns clean = false with a non-nil error — for every
    writer, failing or not. So `WriteTo` closes the wire before giving it back to the pool. -/
theorem strict_prefix_not_clean (B : Nat) (hb : 32 ≤ B) (w : Wire) (hwf : WF w = true) (k : Nat)
    (hk : k < (bytes w).length) (wr : Wr) :
    (run B wr ((bytes w).take k)).clean = false ∧ (run B wr ((bytes w).take k)).err ≠ .none := by
  show Unclean (run B wr ((bytes w).take k))
  unfold run
  generalize 2 * ((bytes w).take k).length + 4 = F
  rcases head_cases w hwf with ⟨t, tl, hbytes, hnb⟩ | ⟨t, s, ht, rfl⟩ | ⟨t, cs, ht, rfl⟩ | ⟨t, ht, rfl⟩
  · cases F with
    | zero => exact streamTo_zero_unclean B wr _
    | succ f => exact default_cut B hb w hwf t tl hbytes hnb k hk f wr
  · simp only [WF, Bool.and_eq_true, lim] at hwf
    have ht' : t = 36 ∨ t = 61 ∨ t = 59 := by rcases ht with h | h <;> simp [h]
    have h59 : t = 59 → s ≠ [] := by intro e; rcases ht with h | h <;> (rw [h] at e; cases e)
    have hsh : bytes (.blob t s) = t :: (digits s.length ++ crlf ++ (s ++ crlf)) := by simp [bytes, List.append_assoc]
    rw [hsh] at hk ⊢
    exact streamTo_frame_cut B hb t ht' s (of_decide_eq_true hwf.2) h59 k hk F wr
  · simp only [WF, Bool.and_eq_true, lim, List.all_eq_true, Bool.not_eq_true'] at hwf
    obtain ⟨_, hcs⟩ := hwf
    have hcs' : ∀ c ∈ cs, c ≠ [] ∧ c.length < 9223372036854775808 := by
      intro c hc
      have := hcs c hc
      exact ⟨by intro e; subst e; simp at this, of_decide_eq_true this.2⟩
    have ht' : t = 36 ∨ t = 61 ∨ t = 59 := by rcases ht with h | h <;> simp [h]
    have hsh : bytes (.chunked t cs) = t :: ([63] ++ crlf ++ ((cs.map chunkBytes).flatten ++ [59, 48, 13, 10])) := by
      simp [bytes, crlf]
    rw [hsh] at hk ⊢
    cases k with
    | zero => exact streamTo_nil_unclean B F wr
    | succ k =>
      cases F with
      | zero => exact streamTo_zero_unclean B wr _
      | succ f =>
        rw [List.take_succ_cons]
        rcases take_header_cases [63] _ k (Nat.lt_of_succ_lt_succ hk) with h | ⟨j, hj, he⟩
        · rw [streamTo_header_fail B f t ht' _ wr _ (readI_cut B _ _ (by decide) k h)]
          exact ⟨rfl, by simp⟩
        · rw [he, streamTo]
          have hq : readI B ([63] ++ crlf ++ ((cs.map chunkBytes).flatten ++ [59, 48, 13, 10]).take j) =
              .chunked (((cs.map chunkBytes).flatten ++ [59, 48, 13, 10]).take j) := readI_q B hb _
          simp only [isBlobLike_of ht', if_true, hq]
          exact chunkLoop_cut B hb cs hcs' j hj f 0 wr
  · have ht' : t = 36 ∨ t = 61 ∨ t = 59 := by rcases ht with h | h <;> simp [h]
    cases k with
    | zero => exact streamTo_nil_unclean B F wr
    | succ k =>
      cases F with
      | zero => exact streamTo_zero_unclean B wr _
      | succ f =>
        simp only [bytes] at hk ⊢
        rw [List.take_succ_cons, streamTo_header_fail B f t ht' _ wr _ (readI_m1_cut B k (Nat.lt_of_succ_lt_succ hk))]
        exact ⟨rfl, by simp⟩

/-- the same, stated with the prefix relation: any proper prefix of the frame's bytes -/
theorem strict_prefix_not_clean' (B : Nat) (hb : 32 ≤ B) (w : Wire) (hwf : WF w = true) (p : List UInt8)
    (hp : p <+: bytes w) (hne : p ≠ bytes w) (wr : Wr) :
    (run B wr p).clean = false ∧ (run B wr p).err ≠ .none := by
  have he : p = (bytes w).take p.length := List.prefix_iff_eq_take.mp hp
  have hlt : p.length < (bytes w).length := by
    rcases Nat.lt_or_ge p.length (bytes w).length with h | h
    · exact h
    · exact absurd (by rw [he, List.take_of_length_le h]) hne
  rw [he]
  exact strict_prefix_not_clean B hb w hwf p.length hlt wr

private theorem msgCase_clean (t0 : UInt8) (m : Msg) (hm : m.typ ≠ 62) (r : List UInt8) (wr : Wr) :
    ∃ n e w', msgCase t0 m r wr = some ⟨n, e, true, r, w'⟩ := by
  unfold msgCase
  split
  · exact ⟨_, _, _, rfl⟩
  · split
    · exact ⟨_, _, _, rfl⟩
    · split
      · exact ⟨_, _, _, rfl⟩
      · split
        · exact ⟨_, _, _, rfl⟩
        · exact ⟨_, _, _, rfl⟩

/-- **full_frame_clean.** The complete frame of any well-formed reply that is not a push, followed
    by anything: `streamTo` with a writer that does not fail returns clean = true and leaves
    exactly `rest` — also for null, error, aggregate and attribute-prefixed replies — and for a
    streamable reply `n` is the payload length and the writer received exactly the payload
    (`stream_eq_payload`). Together with `strict_prefix_not_clean`: clean ⇔ the whole frame arrived. -/
theorem full_frame_clean (B : Nat) (hb : 32 ≤ B) (w : Wire) (hwf : WF w = true) (hnp : (value w []).typ ≠ 62)
    (rest : List UInt8) (wr : Wr) (hw : wr.budget = none) :
    (run B wr (bytes w ++ rest)).clean = true ∧ (run B wr (bytes w ++ rest)).rest = rest ∧
    (streamable w = true → (run B wr (bytes w ++ rest)).n = (payload w).length ∧ (run B wr (bytes w ++ rest)).err = .none ∧
      (run B wr (bytes w ++ rest)).w.out = wr.out ++ payload w) := by
  have hp0 : Pushes [] := fun p hp => nomatch hp
  by_cases hs : streamable w = true
  · have := stream_eq_payload B hb [] hp0 w hwf hs rest wr hw
    simp only [bytesL, List.nil_append] at this
    rw [this]
    exact ⟨rfl, rfl, fun _ => ⟨rfl, rfl, rfl⟩⟩
  · refine ⟨?_, ?_, fun h => absurd h hs⟩ <;>
    · rcases head_cases w hwf with ⟨t, tl, hbytes, hnb⟩ | ⟨t, s, ht, rfl⟩ | ⟨t, cs, ht, rfl⟩ | ⟨t, ht, rfl⟩
      · obtain ⟨n, e, w', hm⟩ := msgCase_clean t (value w []) hnp rest wr
        unfold run
        have hfuel : ∃ f, 2 * (bytes w ++ rest).length + 4 = f + 1 := ⟨_, rfl⟩
        obtain ⟨f, hf⟩ := hfuel
        rw [hf, streamTo_default_some B hb f w hwf t tl hbytes hnb rest wr _ hm]
      · exact absurd (by rcases ht with h | h <;> subst h <;> rfl) hs
      · exact absurd (by rcases ht with h | h <;> subst h <;> rfl) hs
      · have := null_is_Nil B hb [] hp0 (.nullBlob t) hwf rfl rest wr
        simp only [bytesL, List.nil_append] at this
        rw [this]

/-! ### invariants over *all* inputs and writers -/

/-- **unclean_has_error** (the comment in `WriteTo`: "err must not be nil in case of !clean"):
    for every input, buffer size and writer, clean = false comes with a non-nil error. -/
theorem unclean_has_error (B : Nat) (wr : Wr) (bs : List UInt8) :
    (run B wr bs).clean = false → (run B wr bs).err ≠ .none :=
  ((all_good B _).1 wr bs).1

/-- **never_panics.** For every input (negative, huge and wrapped lengths, garbage, truncated
    frames), buffer size and writer, `streamTo` returns — it never hits a Go runtime panic and
    never allocates from a declared length (uses `Rv.C13.decode_never_panics` for the default
    branch). Assumes the recursion depth of nested `$?` headers fits the goroutine stack. -/
theorem never_panics (B : Nat) (wr : Wr) (bs : List UInt8) :
    (run B wr bs).err ≠ .panic ∧ (run B wr bs).err ≠ .oom :=
  ⟨((all_good B _).1 wr bs).2.1, ((all_good B _).1 wr bs).2.2.1⟩

/-- **n_counts_written.** The reported `n` is exactly the number of bytes the writer accepted
    during the call, and earlier writer contents are untouched. -/
theorem n_counts_written (B : Nat) (wr : Wr) (bs : List UInt8) :
    ∃ d, (run B wr bs).w.out = wr.out ++ d ∧ (run B wr bs).n = d.length := by
  obtain ⟨d, h1, h2⟩ := ((all_good B _).1 wr bs).2.2.2.1
  exact ⟨d, h1, by unfold run; omega⟩

/-! ### writer failures (the repaired code, /repo a376be4) -/

/-- the bytes of a `$n` blob string reply -/
abbrev blobFrame (s : List UInt8) : List UInt8 := 36 :: (digits s.length ++ crlf ++ (s ++ crlf))

/-- **writer_failure_not_clean_or_drained** (full strength, every writer). For every well-formed
    streamable reply behind any push frames, whatever the writer does (accept everything, fail
    after any `k` bytes with any over-read `over` — inside a blob, inside any chunk of a `$?`
    string, or on the single `Write` of a line / integer reply), `streamTo` either reports
    clean = false (the wire gets closed) or has consumed exactly the reply's frame: the
    connection is never reused with unread bytes of this reply on it, and never with bytes of
    the *next* reply missing. -/
theorem writer_failure_not_clean_or_drained (B : Nat) (hb : 32 ≤ B) (ps : List Wire) (hps : Pushes ps) (w : Wire)
    (hwf : WF w = true) (hs : streamable w = true) (rest : List UInt8) (wr : Wr) :
    (run B wr (bytesL ps ++ (bytes w ++ rest))).clean = false ∨ (run B wr (bytesL ps ++ (bytes w ++ rest))).rest = rest := by
  show Aligned rest (run B wr (bytesL ps ++ (bytes w ++ rest)))
  unfold run
  cases w with
  | blob t s =>
    simp only [streamable, Bool.or_eq_true, beq_iff_eq] at hs
    simp only [WF, Bool.and_eq_true, lim] at hwf
    obtain ⟨f, hf, hk⟩ := fuel_ok ps hps (bytes (.blob t s) ++ rest) 1 (by omega)
    obtain ⟨f1, rfl⟩ : ∃ k, f = k + 1 := ⟨f - 1, by omega⟩
    rw [hf, streamTo_skip_pushes B hb ps hps]
    have ht : t = 36 ∨ t = 61 ∨ t = 59 := by rcases hs with h | h <;> simp [h]
    have h59 : t = 59 → s ≠ [] := by intro e; rcases hs with h | h <;> (rw [h] at e; cases e)
    simp only [bytes, List.cons_append, List.append_assoc]
    have := streamTo_blob_any B hb f1 t ht s rest (of_decide_eq_true hwf.2) h59 wr
    simp only [List.append_assoc] at this
    rcases this with ⟨_, hc, hr, _⟩ | ⟨_, ha⟩
    · exact Or.inr hr
    · exact ha
  | chunked t cs =>
    simp only [streamable, Bool.or_eq_true, beq_iff_eq] at hs
    simp only [WF, Bool.and_eq_true, lim, List.all_eq_true, Bool.not_eq_true'] at hwf
    obtain ⟨_, hcs⟩ := hwf
    have hcs' : ∀ c ∈ cs, c ≠ [] ∧ c.length < 9223372036854775808 := by
      intro c hc
      have := hcs c hc
      exact ⟨by intro e; subst e; simp at this, of_decide_eq_true this.2⟩
    have hlen := chunks_len cs
    have hshape : bytes (.chunked t cs) ++ rest =
        t :: 63 :: 13 :: 10 :: ((cs.map chunkBytes).flatten ++ (59 :: 48 :: 13 :: 10 :: rest)) := by
      simp [bytes, crlf, List.append_assoc]
    obtain ⟨f, hf, hk⟩ := fuel_ok ps hps (bytes (.chunked t cs) ++ rest) (cs.length + 3) (by
      rw [hshape]; simp only [List.length_cons, List.length_append]; omega)
    obtain ⟨f1, rfl⟩ : ∃ k, f = k + 1 := ⟨f - 1, by omega⟩
    rw [hf, streamTo_skip_pushes B hb ps hps, hshape]
    have ht : t = 36 ∨ t = 61 ∨ t = 59 := by rcases hs with h | h <;> simp [h]
    rw [streamTo]
    simp only [isBlobLike_of ht, if_true, readI_q B hb]
    exact chunkLoop_any B hb cs hcs' f1 (by omega) 0 wr rest
  | line t s =>
    simp only [streamable, Bool.or_eq_true, beq_iff_eq] at hs
    obtain ⟨f, hf, hk⟩ := fuel_ok ps hps (bytes (.line t s) ++ rest) 1 (by omega)
    obtain ⟨f1, rfl⟩ : ∃ k, f = k + 1 := ⟨f - 1, by omega⟩
    rw [hf, streamTo_skip_pushes B hb ps hps]
    have hnb : isBlobLike t = false := by rcases hs with (h | h) | h <;> subst h <;> decide
    have hm : (value (.line t s) []).typ = 43 ∨ (value (.line t s) []).typ = 44 ∨ (value (.line t s) []).typ = 40 := by
      simp only [value, Msg.typ]; rcases hs with (h | h) | h <;> simp [h]
    rw [streamTo_default_some B hb f1 _ hwf t (s ++ crlf) (by simp [bytes]) hnb rest wr
      (writeOut wr (value (.line t s) []).str rest) (by unfold msgCase; rw [if_pos hm])]
    exact Or.inr rfl
  | int v =>
    obtain ⟨f, hf, hk⟩ := fuel_ok ps hps (bytes (.int v) ++ rest) 1 (by omega)
    obtain ⟨f1, rfl⟩ : ∃ k, f = k + 1 := ⟨f - 1, by omega⟩
    rw [hf, streamTo_skip_pushes B hb ps hps]
    rw [streamTo_default_some B hb f1 _ hwf 58 (decI v ++ crlf) (by simp [bytes]) (by decide) rest wr
      (writeOut wr (fmtInt v) rest) (by simp [msgCase, value, Msg.typ, Msg.int])]
    exact Or.inr rfl
  | bool b =>
    obtain ⟨f, hf, hk⟩ := fuel_ok ps hps (bytes (.bool b) ++ rest) 1 (by omega)
    obtain ⟨f1, rfl⟩ : ∃ k, f = k + 1 := ⟨f - 1, by omega⟩
    rw [hf, streamTo_skip_pushes B hb ps hps]
    rw [streamTo_default_some B hb f1 _ hwf 35 [if b then 116 else 102, 13, 10] (by simp only [bytes] <;> rfl) (by decide) rest wr
      (writeOut wr (fmtInt (if b then 1 else 0)) rest) (by simp [msgCase, value, Msg.typ, Msg.int])]
    exact Or.inr rfl
  | _ => simp [streamable] at hs

/-- **writer_failure_drained** (exact outcome for a blob string). The writer accepts `k` bytes of
    the payload and fails, `io.Copy` having read any number `over` of further bytes: the writer
    holds the first `k` payload bytes, `n = k`, the writer's error is returned, and the frame is
    drained *exactly* — clean = true with `rest` untouched, so the connection is reused safely
    (this is what TestDoStreamRecycleDestinationFull demands). -/
theorem writer_failure_drained (B : Nat) (hb : 32 ≤ B) (s rest : List UInt8) (hs : s.length + 2 < 9223372036854775808)
    (k over : Nat) (hlt : k < s.length) (out : List UInt8) :
    run B ⟨some k, over, out⟩ (blobFrame s ++ rest) = ⟨k, .writer, true, rest, ⟨some 0, over, out ++ s.take k⟩⟩ := by
  unfold run
  have hfuel : ∃ f, 2 * (blobFrame s ++ rest).length + 4 = f + 1 := ⟨_, rfl⟩
  obtain ⟨f, hf⟩ := hfuel
  have hshape : blobFrame s ++ rest = 36 :: (digits s.length ++ crlf ++ (s ++ (crlf ++ rest))) := by
    simp [blobFrame, List.append_assoc]
  rw [hf, hshape, streamTo]
  have hbl : isBlobLike 36 = true := by decide
  simp only [hbl, if_true, readI_digits B s.length hb (by omega)]
  unfold blobCase
  have h1 : ¬ ((s.length : Int) = -1) := by omega
  have h2 : (s.length : Int) ≠ 0 := by omega
  simp only [h1, if_false, h2, ne_eq, not_false_eq_true, if_true]
  have hc : copyN ⟨some k, over, out⟩ (s.length : Int) (s ++ (crlf ++ rest)) =
      ⟨k, true, ⟨some 0, over, out ++ s.take k⟩, (s ++ (13 :: 10 :: rest)).drop (min s.length (k + over)),
        (s.length : Int) - ((min s.length (k + over) : Nat) : Int)⟩ := by
    unfold copyN
    have h3 : ¬ ((s.length : Int) ≤ 0) := by omega
    have h4 : min (s.length : Int).toNat (s ++ (crlf ++ rest)).length = s.length := by simp
    have h5 : ¬ (s.length ≤ k) := by omega
    simp only [h3, if_false, h4, h5]
    have : (s ++ (crlf ++ rest)).take k = s.take k := by
      rw [List.take_append_of_le_length (by omega)]
    rw [this]
    simp [crlf]
  rw [hc]
  rcases finishBlob_frame s rest (by omega) k true ⟨some 0, over, out ++ s.take k⟩ (min s.length (k + over)) (by omega) with h | ⟨hbad, _⟩
  · rw [h]; simp
  · omega

/-- the property's demand for a failing writer in the middle of a blob string -/
def WriterFailureSafe (B : Nat) : Prop :=
  ∀ (s rest : List UInt8) (k over : Nat), s.length + 2 < 9223372036854775808 → k < s.length →
    (run B ⟨some k, over, []⟩ (blobFrame s ++ rest)).clean = false ∨
    (run B ⟨some k, over, []⟩ (blobFrame s ++ rest)).rest = rest

theorem writer_failure_safe (B : Nat) (hb : 32 ≤ B) : WriterFailureSafe B := by
  intro s rest k over hs hlt
  rw [writer_failure_drained B hb s rest hs k over hlt []]
  exact Or.inr rfl

/-- **writer_failure_consumes_exact_frame** (what a376be4 restored). A `$n` reply (`n > 0`) of
    which the bytes `av` are available after the header (then EOF), and any writer that accepts
    `k` bytes and fails while payload is still available (`k < min n |av|`), `io.Copy` having
    over-read any `over` bytes: the call returns `n = k`, the writer's error, the writer holds the
    first `k` payload bytes; the wire is clean **iff** the rest of the frame was available
    (`n + 2 ≤ |av|`), and then the bytes consumed from the reader are *exactly* the frame — what
    is left is `av.drop (n + 2)`, nothing of the next reply is missing and nothing of this
    reply is left. -/
theorem writer_failure_consumes_exact_frame (B : Nat) (hb : 32 ≤ B) (n : Nat) (hn0 : 0 < n)
    (hn : n + 2 < 9223372036854775808) (av : List UInt8) (k over : Nat) (hk : k < min n av.length) (out : List UInt8) :
    run B ⟨some k, over, out⟩ (36 :: (digits n ++ crlf ++ av)) =
      if n + 2 ≤ av.length then ⟨k, .writer, true, av.drop (n + 2), ⟨some 0, over, out ++ av.take k⟩⟩
      else ⟨k, .writer, false, [], ⟨some 0, over, out ++ av.take k⟩⟩ := by
  unfold run
  have hfuel : ∃ f, 2 * (36 :: (digits n ++ crlf ++ av)).length + 4 = f + 1 := ⟨_, rfl⟩
  obtain ⟨f, hf⟩ := hfuel
  rw [hf, streamTo]
  have hbl : isBlobLike 36 = true := by decide
  simp only [hbl, if_true, readI_digits B n hb (by omega)]
  unfold blobCase
  have h1 : ¬ ((n : Int) = -1) := by omega
  have h2 : (n : Int) ≠ 0 := by omega
  simp only [h1, if_false, h2, ne_eq, not_false_eq_true, if_true]
  rw [copyN_fail k over out n av hk]
  rw [finishBlob_exact n hn k true _ av (min (min n av.length) (k + over)) (by omega) (by omega)]
  simp

/-- clean ⇔ the rest of the frame was available (corollary) -/
theorem writer_failure_clean_iff (B : Nat) (hb : 32 ≤ B) (n : Nat) (hn0 : 0 < n)
    (hn : n + 2 < 9223372036854775808) (av : List UInt8) (k over : Nat) (hk : k < min n av.length) (out : List UInt8) :
    (run B ⟨some k, over, out⟩ (36 :: (digits n ++ crlf ++ av))).clean = true ↔ n + 2 ≤ av.length := by
  rw [writer_failure_consumes_exact_frame B hb n hn0 hn av k over hk out]
  by_cases h : n + 2 ≤ av.length <;> simp [h]

/-! #### the unrepaired shape (before a376be4), kept as regression witnesses -/

/-- `Discard(int(full - n))` with `full` = declared length + 2 and `n` = bytes *written* -/
def finishBlobUnrepaired (len : Int) (c : CopyRes) : Out :=
  finishBlob (wrap64 (wrap64 (len + 2) - c.written)) c

/-- the chunk loop used to return the last inner outcome unchanged -/
def chunkExitUnrepaired (acc : Nat) (o : Out) : Out := { o with n := acc + o.n }

/-- **witness 1 (over-discard).** Payload "0123456789", the writer accepts 3 bytes, io.Copy had
    taken all 10 (over = 7), "+NEXT\r\n" and ":77\r\n" follow. The unrepaired Discard count
    eats the 7 bytes of "+NEXT\r\n" and still says clean; the repaired one leaves them.
    Harness key `stream:writer-fail-overdiscard`. -/
theorem unrepaired_overdiscard_witness :
    let pay : List UInt8 := [48, 49, 50, 51, 52, 53, 54, 55, 56, 57]
    let nxt : List UInt8 := [43, 78, 69, 88, 84, 13, 10, 58, 55, 55, 13, 10]
    let c := copyN ⟨some 3, 7, []⟩ 10 (pay ++ 13 :: 10 :: nxt)
    finishBlobUnrepaired 10 c = ⟨3, .writer, true, [58, 55, 55, 13, 10], ⟨some 0, 7, [48, 49, 50]⟩⟩ ∧
    finishBlob (fullAfter c) c = ⟨3, .writer, true, nxt, ⟨some 0, 7, [48, 49, 50]⟩⟩ := by
  decide +kernel

/-- **witness 2 (chunks left).** `$?` `;3 abc` `;3 def` `;0` `+N`, the writer accepts 1 byte: the
    failing chunk's outcome is clean (its own frame is drained) with the writer's error; the
    unrepaired loop exit passed that on — clean = true with `;3 def ;0` still unread —, the
    repaired `streamTo` reports clean = false. Harness key `stream:writer-fail-chunks-left`. -/
theorem unrepaired_chunks_left_witness :
    let tail : List UInt8 := [59, 51, 13, 10, 100, 101, 102, 13, 10, 59, 48, 13, 10, 43, 78, 13, 10]
    let o := streamTo 4096 3 ⟨some 1, 2, []⟩ ([59, 51, 13, 10, 97, 98, 99, 13, 10] ++ tail)
    (o.err = .writer ∧ (chunkExitUnrepaired 0 o).clean = true ∧ (chunkExitUnrepaired 0 o).rest = tail) ∧
    (run 4096 ⟨some 1, 2, []⟩ ([36, 63, 13, 10, 59, 51, 13, 10, 97, 98, 99, 13, 10] ++ tail)).clean = false := by
  decide +kernel

/-! ## Part 2: RedisResultStream -/
open Rv.ResultStream

/-- the pool gets the wire back at most once, whatever the entry, the outcomes and the
    number of `WriteTo` calls; and it has it back exactly when the stream is finished
    (`s.e` set) -/
def Balanced (s : RS) : Prop :=
  (s.e = none ∧ 0 < s.n ∧ countStore s.log = 0) ∨ (s.e ≠ none ∧ countStore s.log = 1)

private theorem countStore_append (a b : List Ev) : countStore (a ++ b) = countStore a + countStore b := by
  simp [countStore, List.filter_append]

private theorem finish_balanced (s : RS) (h0 : countStore s.log = 0) : Balanced (finish s) := by
  unfold finish
  cases he : s.e with
  | none => right; simp only; refine ⟨by simp, ?_⟩; rw [countStore_append, h0]; rfl
  | some e => right; simp only; refine ⟨by simp [he], ?_⟩; rw [countStore_append, h0]; rfl

private theorem afterStream_balanced (s : RS) (o : SO) (he : s.e = none) (hn : 0 < s.n) (h0 : countStore s.log = 0)
    (herr : o.clean = false → o.err ≠ .none) : Balanced (afterStream s o) := by
  unfold afterStream
  cases hc : o.clean with
  | true =>
    simp only [if_true]
    split
    · exact finish_balanced _ h0
    · rename_i hne; left; exact ⟨he, by simp only at hne ⊢; omega, h0⟩
  | false =>
    simp only [Bool.false_eq_true, if_false, Int.sub_self, if_true]
    exact finish_balanced _ h0

theorem start_balanced (k : Entry) (ncmd : Nat) (h : 0 < ncmd) : Balanced (start k ncmd) := by
  cases k
  · right; exact ⟨by simp [start], rfl⟩
  · right; exact ⟨by simp [start], rfl⟩
  · right; exact ⟨by simp [start], rfl⟩
  · left; exact ⟨rfl, by simp [start]; omega, rfl⟩

theorem writeTo_balanced (s : RS) (o : SO) (hs : Balanced s) (herr : o.clean = false → o.err ≠ .none) :
    Balanced (writeTo s o).1 := by
  unfold writeTo
  rcases hs with ⟨he, hn, h0⟩ | ⟨he, h1⟩
  · simp only [he, hn, if_true]
    exact afterStream_balanced s o he hn h0 herr
  · cases hse : s.e with
    | none => exact absurd hse he
    | some e => simp only; right; exact ⟨by simp [hse], h1⟩

/-- **stored_exactly_once.** From any entry of DoStream / DoMultiStream (n >= 1 commands) and
    after any sequence of `WriteTo` calls with any `streamTo` outcomes (that respect
    `unclean_has_error`), the wire has been stored at most once; it has been stored exactly
    once iff the stream is finished (`Error() != nil`: EOF after the last reply, the first
    unclean reply's error, or the entry error), and not yet stored exactly while
    `HasNext()` is true. -/
theorem stored_exactly_once (k : Entry) (ncmd : Nat) (h : 0 < ncmd) (os : List SO)
    (herr : ∀ o ∈ os, o.clean = false → o.err ≠ .none) :
    let s := runAll (start k ncmd) os
    (s.hasNext = true → countStore s.log = 0) ∧ (s.hasNext = false → countStore s.log = 1) ∧ countStore s.log ≤ 1 := by
  have hb : ∀ (os : List SO) (s : RS), Balanced s → (∀ o ∈ os, o.clean = false → o.err ≠ .none) → Balanced (runAll s os) := by
    intro os
    induction os with
    | nil => intro s hs _; exact hs
    | cons o os ih =>
      intro s hs hall
      exact ih _ (writeTo_balanced s o hs (hall o (by simp))) (fun x hx => hall x (by simp [hx]))
  have := hb os _ (start_balanced k ncmd h) herr
  rcases this with ⟨he, hn, h0⟩ | ⟨he, h1⟩
  · refine ⟨fun _ => h0, ?_, by omega⟩
    intro hf; simp [RS.hasNext, he, hn] at hf
  · refine ⟨?_, fun _ => h1, by omega⟩
    intro hf
    cases hse : (runAll (start k ncmd) os).e with
    | none => exact absurd hse he
    | some e => simp [RS.hasNext, hse] at hf

/-- the recycle step (release, [close,] store) has not run yet / has run exactly once -/
def Recycled (s : RS) : Prop :=
  (s.e = none ∧ 0 < s.n ∧ s.log = []) ∨
  (s.e ≠ none ∧ (s.log = [.release, .store] ∨ s.log = [.release, .close, .store]))

private theorem afterStream_recycled (s : RS) (o : SO) (he : s.e = none) (hn : 0 < s.n) (h0 : s.log = [])
    (herr : o.clean = false → o.err ≠ .none) : Recycled (afterStream s o) := by
  unfold afterStream
  cases hc : o.clean with
  | true =>
    simp only [if_true]
    split
    · right; unfold finish; simp [he, h0]
    · rename_i hne; left; exact ⟨he, by simp only at hne ⊢; omega, h0⟩
  | false =>
    have hts : toS o.err = some (.stream o.err) := by simp [toS, herr hc]
    simp only [Bool.false_eq_true, if_false, Int.sub_self, if_true]
    right; unfold finish; simp [hts, h0]

private theorem writeTo_recycled (s : RS) (o : SO) (hs : Recycled s) (herr : o.clean = false → o.err ≠ .none) :
    Recycled (writeTo s o).1 := by
  unfold writeTo
  rcases hs with ⟨he, hn, h0⟩ | ⟨he, hl⟩
  · simp only [he, hn, if_true]
    exact afterStream_recycled s o he hn h0 herr
  · cases hse : s.e with
    | none => exact absurd hse he
    | some e => simp only; right; exact ⟨by simp [hse], hl⟩

/-- **stream_end_recycles_exactly_once.** For any number of commands, any sequence of `WriteTo`
    calls and any `streamTo` outcomes — in particular an unclean outcome (connection cut,
    deadline, protocol error) at *any* reply position, first, middle or last —: as soon as
    `HasNext()` is false the recycle step has run exactly once, in one of its two shapes
    `release, store` (every reply consumed cleanly) or `release, close, store` (an unclean reply
    ended the stream: the `s.n = 1` assignment forces the step although commands are
    outstanding); and while `HasNext()` is true it has not run at all. -/
theorem stream_end_recycles_exactly_once (ncmd : Nat) (h : 0 < ncmd) (os : List SO)
    (herr : ∀ o ∈ os, o.clean = false → o.err ≠ .none) :
    let s := runAll (start .ok ncmd) os
    (s.hasNext = false → (s.log = [.release, .store] ∨ s.log = [.release, .close, .store]) ∧ countStore s.log = 1) ∧
    (s.hasNext = true → s.log = []) := by
  have hb : ∀ (os : List SO) (s : RS), Recycled s → (∀ o ∈ os, o.clean = false → o.err ≠ .none) → Recycled (runAll s os) := by
    intro os
    induction os with
    | nil => intro s hs _; exact hs
    | cons o os ih =>
      intro s hs hall
      exact ih _ (writeTo_recycled s o hs (hall o (by simp))) (fun x hx => hall x (by simp [hx]))
  have h0 : Recycled (start .ok ncmd) := Or.inl ⟨rfl, by simp [start]; omega, rfl⟩
  have := hb os _ h0 herr
  rcases this with ⟨he, hn, hl⟩ | ⟨he, hl⟩
  · refine ⟨?_, fun _ => hl⟩
    intro hf; simp [RS.hasNext, he, hn] at hf
  · refine ⟨fun _ => ⟨hl, ?_⟩, ?_⟩
    · rcases hl with h | h <;> rw [h] <;> rfl
    · intro hf
      cases hse : (runAll (start .ok ncmd) os).e with
      | none => exact absurd hse he
      | some e => simp [RS.hasNext, hse] at hf

/-- the seeded shape (WriteTo without `s.n = 1`): an unclean outcome on a reply that is not the
    last one ends the stream (`HasNext` false, error sticky) without ever running the recycle step -/
def afterStreamNoForce (s : RS) (o : SO) : RS :=
  let s1 : RS := if o.clean then s else { s with e := toS o.err }
  let s2 : RS := { s1 with n := s1.n - 1, calls := s1.calls + 1 }
  if s2.n = 0 then finish s2 else s2

theorem no_force_leaks_witness :
    let s := afterStreamNoForce (start .ok 2) ⟨0, .rd "io", false⟩
    s.hasNext = false ∧ s.log = [] ∧ (writeTo s ⟨0, .none, true⟩).1.log = [] := by
  decide

/-- all outcomes clean -/
def AllClean (os : List SO) : Prop := ∀ o ∈ os, o.clean = true

private theorem clean_steps (s : RS) (os : List SO) (hc : AllClean os) (he : s.e = none) (hlen : (os.length : Int) < s.n) :
    runAll s os = { s with n := s.n - os.length, calls := s.calls + os.length } := by
  induction os generalizing s with
  | nil => simp [runAll]
  | cons o os ih =>
    have hco : o.clean = true := hc o (by simp)
    have hn : 0 < s.n := by simp at hlen; omega
    have h1 : (writeTo s o).1 = { s with n := s.n - 1, calls := s.calls + 1 } := by
      unfold writeTo
      simp only [he, hn, if_true]
      unfold afterStream
      simp only [hco, if_true]
      have : ¬ (s.n - 1 = 0) := by simp at hlen; omega
      simp only [this, if_false]
      rw [he]
    rw [runAll, h1, ih { s with n := s.n - 1, calls := s.calls + 1 } (fun x hx => hc x (by simp [hx])) he (by simp at hlen ⊢; omega)]
    simp only [List.length_cons]
    congr 1
    · push_cast; omega
    · omega

/-- **one_writeTo_per_cmd.** After a successful DoStream / DoMultiStream of `ncmd` commands whose
    replies are all consumed cleanly: each of the first `ncmd` `WriteTo` calls invokes
    `streamTo` exactly once and returns its (n, err); `HasNext` is true before the `ncmd`-th
    call and false after it; at that moment the sticky error is EOF, the wire has been
    released and stored (not closed); every further `WriteTo` returns (0, EOF) without
    touching the connection. -/
theorem one_writeTo_per_cmd (ncmd : Nat) (os : List SO) (hc : AllClean os) (o : SO) (hco : o.clean = true)
    (hlen : os.length + 1 = ncmd) (extra : List SO) :
    -- before the last call
    (runAll (start .ok ncmd) os).hasNext = true ∧ (runAll (start .ok ncmd) os).calls = os.length ∧
    (runAll (start .ok ncmd) os).log = [] ∧
    -- the last call
    (writeTo (runAll (start .ok ncmd) os) o).2 = (o.n, toS o.err) ∧
    (writeTo (runAll (start .ok ncmd) os) o).1 = ⟨0, some .eof, [.release, .store], ncmd⟩ ∧
    -- afterwards
    runAll (writeTo (runAll (start .ok ncmd) os) o).1 extra = ⟨0, some .eof, [.release, .store], ncmd⟩ ∧
    (∀ x, (writeTo ⟨0, some .eof, [.release, .store], ncmd⟩ x).2 = (0, some .eof)) := by
  have hs : runAll (start .ok ncmd) os = ⟨1, none, [], os.length⟩ := by
    rw [clean_steps (start .ok ncmd) os hc rfl (by simp [start]; omega)]
    simp only [start]
    congr 1
    · omega
    · omega
  have hlast : (writeTo ⟨1, none, [], os.length⟩ o).1 = ⟨0, some .eof, [.release, .store], ncmd⟩ := by
    simp [writeTo, afterStream, hco, finish, hlen]
  have hstay : ∀ (xs : List SO), runAll ⟨0, some .eof, [.release, .store], ncmd⟩ xs = ⟨0, some .eof, [.release, .store], ncmd⟩ := by
    intro xs; induction xs with
    | nil => rfl
    | cons x xs ih => rw [runAll]; simpa [writeTo] using ih
  rw [hs]
  refine ⟨by simp [RS.hasNext], rfl, rfl, by simp [writeTo], hlast, by rw [hlast]; exact hstay extra, ?_⟩
  intro x; simp [writeTo]

/-- **closed_if_unclean.** If the reply of command `j+1` (the first `j` were clean) could not be
    consumed completely (`streamTo` returned clean = false — by `unclean_has_error` with a
    non-nil error `e`), that `WriteTo` returns the error, makes it sticky, *closes* the wire and
    only then stores it — immediately, without waiting for the remaining commands; `HasNext` is
    false and later `WriteTo` calls return (0, e) without touching the connection or the pool. -/
theorem closed_if_unclean (ncmd : Nat) (os : List SO) (hc : AllClean os) (hlen : os.length < ncmd) (o : SO)
    (hu : o.clean = false) (he : o.err ≠ .none) (extra : List SO) :
    let s := (writeTo (runAll (start .ok ncmd) os) o).1
    (writeTo (runAll (start .ok ncmd) os) o).2 = (o.n, some (.stream o.err)) ∧
    s = ⟨0, some (.stream o.err), [.release, .close, .store], os.length + 1⟩ ∧
    s.hasNext = false ∧ runAll s extra = s ∧ (∀ x, (writeTo s x).2 = (0, some (.stream o.err))) := by
  have hs : runAll (start .ok ncmd) os = ⟨(ncmd : Int) - os.length, none, [], os.length⟩ := by
    rw [clean_steps (start .ok ncmd) os hc rfl (by simp [start]; omega)]
    simp [start]
  have hts : toS o.err = some (.stream o.err) := by simp [toS, he]
  have hpos : (0 : Int) < (ncmd : Int) - os.length := by omega
  have hlast : (writeTo ⟨(ncmd : Int) - os.length, none, [], os.length⟩ o).1 =
      ⟨0, some (.stream o.err), [.release, .close, .store], os.length + 1⟩ := by
    simp [writeTo, hpos, hlen, afterStream, hu, finish, hts]
  have hstay : ∀ (xs : List SO), runAll ⟨0, some (.stream o.err), [.release, .close, .store], os.length + 1⟩ xs =
      ⟨0, some (.stream o.err), [.release, .close, .store], os.length + 1⟩ := by
    intro xs; induction xs with
    | nil => rfl
    | cons x xs ih => rw [runAll]; simpa [writeTo] using ih
  simp only
  rw [hs, hlast]
  refine ⟨by simp [writeTo, hpos, hlen, hts], rfl, by simp [RS.hasNext], hstay extra, ?_⟩
  intro x; simp [writeTo]

/-- the entries that never produce a readable stream give the wire back at once, exactly
    once (the repaired code: also when the context is already done), and `WriteTo` returns
    the entry error without touching the connection -/
theorem failed_entry_stores_once (k : Entry) (hk : k ≠ .ok) (ncmd : Nat) (os : List SO) :
    countStore (runAll (start k ncmd) os).log = 1 ∧ (runAll (start k ncmd) os) = start k ncmd ∧ (start k ncmd).hasNext = false := by
  have hstay : ∀ (s : RS) (e : SErr), s.e = some e → ∀ xs : List SO, runAll s xs = s := by
    intro s e hse xs
    induction xs with
    | nil => rfl
    | cons x xs ih => rw [runAll]; simp only [writeTo, hse]; exact ih
  cases k with
  | ok => exact absurd rfl hk
  | ctxDone => rw [hstay _ .ctx rfl]; exact ⟨rfl, rfl, by simp [start, RS.hasNext]⟩
  | closing => rw [hstay _ .pipe rfl]; exact ⟨rfl, rfl, by simp [start, RS.hasNext]⟩
  | flushErr => rw [hstay _ .pipe rfl]; exact ⟨rfl, rfl, by simp [start, RS.hasNext]⟩

/-- OBSERVATION (pipe level, unreachable through the public clients which return
    `NewErrorResultStream(io.EOF)` for an empty command list): a `DoMultiStream` with zero
    commands yields a stream that never has a next reply and never stores its wire. -/
theorem zero_cmds_never_stored (os : List SO) :
    (runAll (start .ok 0) os).log = [] ∧ (runAll (start .ok 0) os).hasNext = false := by
  have : ∀ xs : List SO, runAll (start .ok 0) xs = start .ok 0 := by
    intro xs; induction xs with
    | nil => rfl
    | cons x xs ih => rw [runAll]; simpa [writeTo, start] using ih
  rw [this]; exact ⟨rfl, by simp [start, RS.hasNext]⟩

/-! ### non-vacuity -/
example : Pushes [.arr 62 [.blob 36 [109], .int 1], .attr (.map 124 [.line 43 [107], .int 1]) (.stream 62 [.null])] := by
  intro p hp
  simp only [List.mem_cons, List.mem_nil_iff, or_false] at hp
  rcases hp with h | h <;> subst h <;> exact ⟨by decide, by decide⟩
example : WF (.chunked 36 [[97], [98, 13, 10]]) = true ∧ streamable (.chunked 36 [[97], [98, 13, 10]]) = true := by decide
example : aggType (.stream 37 [.line 43 [97], .int 1]) = some 37 := by decide

end Rv.C29
