/-
C46 — Scanner iterates every page element in order.
Model: Rv/Model/Scanner.lean (helper.go Scanner.scan/Iter/Iter2), specification: Rv/Spec/Scanner.lean.
-/
import Rv.Model.Scanner
import Rv.Spec.Scanner
namespace Rv.C46
open Rv.Scanner Rv.Spec.Scanner

/-! ### the loop equals the loop-free specification, for every script, start cursor and stop point -/

/-- master theorem: `scan` driving a per-page callback shows exactly what the specification says:
    pages in order from the start cursor until cursor 0, truncated at the consumer's stop item,
    ended by the first failing request whose error is exposed -/
theorem scan_eq_spec {β : Type} (pg : List String → List β) (script : List Resp) (cur : Nat) (stop : Option Nat) :
    scanFrom pg script cur stop = specFrom pg script cur stop := by
  induction script generalizing cur stop with
  | nil => cases stop <;> simp [scanFrom, specFrom, consumed]
  | cons r rest ih =>
    cases r with
    | err e => cases stop <;> simp [scanFrom, specFrom, consumed]
    | page c vs =>
      by_cases hc : c = 0
      · subst hc
        cases stop with
        | none => simp [scanFrom, specFrom, consumed, feed]
        | some k =>
          by_cases hk : k < (pg vs).length
          · simp [scanFrom, specFrom, consumed, feed, hk, needed]
          · simp [scanFrom, specFrom, consumed, feed, hk]
      · cases stop with
        | none =>
          simp [scanFrom, feed, hc, ih]
          simp [specFrom, consumed, hc]
        | some k =>
          by_cases hk : k < (pg vs).length
          · have h1 : k < (pg vs).length + (List.flatMap (fun p => pg p.2) (consumed rest).1).length := by omega
            have h2 : k + 1 - (pg vs).length = 0 := by omega
            simp [-List.length_flatMap, scanFrom, specFrom, consumed, feed, hk, needed, hc, h1, List.take_append, h2]
          · simp [-List.length_flatMap, scanFrom, feed, hk, hc, ih]
            simp [-List.length_flatMap, specFrom, consumed, hc, needed, hk]
            by_cases hk2 : k - (pg vs).length < (List.flatMap (fun p => pg p.2) (consumed rest).1).length
            · have h1 : k < (pg vs).length + (List.flatMap (fun p => pg p.2) (consumed rest).1).length := by omega
              have h2 : k + 1 - (pg vs).length = k - (pg vs).length + 1 := by omega
              have h3 : (pg vs).length ≤ k + 1 := by omega
              simp [-List.length_flatMap, hk2, h1, List.take_append, h2, List.take_of_length_le h3, Nat.add_comm 1]
            · have h1 : ¬ k < (pg vs).length + (List.flatMap (fun p => pg p.2) (consumed rest).1).length := by omega
              simp [-List.length_flatMap, hk2, h1]

/-! ### Iter2's inner loop -/

private theorem pairs_getElem? (vs : List String) (i : Nat) :
    (pairs vs)[i]? = if i < vs.length / 2 then some (vs[2 * i]?.getD "", vs[2 * i + 1]?.getD "") else none := by
  fun_induction pairs vs generalizing i with
  | case1 a b rest ih =>
    cases i with
    | zero => simp
    | succ j =>
      have h1 : (rest.length + 1 + 1) / 2 = rest.length / 2 + 1 := by omega
      have h2 : 2 * (j + 1) = 2 * j + 1 + 1 := by omega
      simp only [List.getElem?_cons_succ, ih, List.length_cons, h1, h2]
      by_cases h : j < rest.length / 2
      · have : j + 1 < rest.length / 2 + 1 := by omega
        simp [h, this]
      · have : ¬ j + 1 < rest.length / 2 + 1 := by omega
        simp [h, this]
  | case2 vs hne =>
    have : vs.length / 2 = 0 := by
      match vs, hne with
      | [], _ => rfl
      | [_], _ => simp
      | a :: b :: r, hne => exact absurd rfl (hne a b r)
    simp [this]

/-- `Iter2` yields, per page, the consecutive pairs `(vs[0],vs[1]), (vs[2],vs[3]), …`;
    a trailing unpaired element of a page is dropped and pairs never span two pages -/
theorem pairs_eq_spec (vs : List String) : pairs vs = pairsSpec vs := by
  apply List.ext_getElem?
  intro i
  rw [pairs_getElem?]
  unfold pairsSpec
  by_cases h : i < vs.length / 2
  · simp [h]
  · simp [h]

theorem pairs_length (vs : List String) : (pairs vs).length = vs.length / 2 := by
  rw [pairs_eq_spec]; simp [pairsSpec]

/-- on a page of even length nothing is lost: the pairs flatten back to the page -/
theorem pairs_flatten_even (vs : List String) (h : vs.length % 2 = 0) :
    (pairs vs).flatMap (fun p => [p.1, p.2]) = vs := by
  fun_induction pairs vs with
  | case1 a b rest ih => simp at h ⊢; exact ih (by omega)
  | case2 vs hne =>
    match vs, hne, h with
    | [], _, _ => rfl
    | [_], _, h => simp at h
    | a :: b :: r, hne, _ => exact absurd rfl (hne a b r)

/-- on a page of odd length exactly the last element is dropped -/
theorem pairs_flatten_odd (vs : List String) (h : vs.length % 2 = 1) :
    (pairs vs).flatMap (fun p => [p.1, p.2]) = vs.dropLast := by
  fun_induction pairs vs with
  | case1 a b rest ih =>
    simp at h
    have hr : rest ≠ [] := by intro h0; subst h0; simp at h
    simp [ih (by omega), List.dropLast_cons_of_ne_nil hr]
  | case2 vs hne =>
    match vs, hne, h with
    | [], _, h => simp at h
    | [_], _, _ => rfl
    | a :: b :: r, hne, _ => exact absurd rfl (hne a b r)

/-! ### Property theorems -/

theorem iter_eq_spec (script : List Resp) (stop : Option Nat) : iter script stop = specIter script stop :=
  scan_eq_spec id script 0 stop

theorem iter2_eq_spec (script : List Resp) (stop : Option Nat) : iter2 script stop = specIter2 script stop := by
  unfold iter2 specIter2
  rw [scan_eq_spec]
  have : pairs = pairsSpec := funext pairs_eq_spec
  rw [this]

private theorem consumed_pages_then_zero (ps : List (Nat × List String)) (vs : List String) (rest : List Resp)
    (h : ∀ p ∈ ps, p.1 ≠ 0) :
    consumed (ps.map (fun p => Resp.page p.1 p.2) ++ Resp.page 0 vs :: rest) = (ps ++ [(0, vs)], none) := by
  induction ps with
  | nil => simp [consumed]
  | cons p ps ih =>
    have hp : p.1 ≠ 0 := h p (List.mem_cons_self ..)
    simp [consumed, hp, ih (fun q hq => h q (List.mem_cons_of_mem _ hq))]

private theorem consumed_pages_then_err (ps : List (Nat × List String)) (e : String) (rest : List Resp)
    (h : ∀ p ∈ ps, p.1 ≠ 0) :
    consumed (ps.map (fun p => Resp.page p.1 p.2) ++ Resp.err e :: rest) = (ps, some e) := by
  induction ps with
  | nil => simp [consumed]
  | cons p ps ih =>
    have hp : p.1 ≠ 0 := h p (List.mem_cons_self ..)
    simp [consumed, hp, ih (fun q hq => h q (List.mem_cons_of_mem _ hq))]

/-- a consumer that never stops receives every element of every page in order, the cursors
    requested are 0 followed by the returned cursors, nothing is requested after the page with
    cursor 0, and `Err()` is nil -/
theorem yields_concat_pages_until_cursor0 (ps : List (Nat × List String)) (vs : List String) (rest : List Resp)
    (h : ∀ p ∈ ps, p.1 ≠ 0) :
    iter (ps.map (fun p => Resp.page p.1 p.2) ++ Resp.page 0 vs :: rest) none =
      ⟨ps.flatMap (·.2) ++ vs, 0 :: ps.map (·.1), none⟩ := by
  rw [iter_eq_spec]
  simp only [specIter, specFrom, consumed_pages_then_zero ps vs rest h]
  simp
  exact fun a x hax => h (a, x) hax

/-- a failing request ends the iteration: everything before it was delivered, nothing is
    requested afterwards, and `Err()` returns that error -/
theorem stops_at_error_and_exposes_it (ps : List (Nat × List String)) (e : String) (rest : List Resp)
    (h : ∀ p ∈ ps, p.1 ≠ 0) :
    iter (ps.map (fun p => Resp.page p.1 p.2) ++ Resp.err e :: rest) none =
      ⟨ps.flatMap (·.2), 0 :: ps.map (·.1), some e⟩ := by
  rw [iter_eq_spec]
  simp only [specIter, specFrom, consumed_pages_then_err ps e rest h]
  simp
  exact fun a x hax => h (a, x) hax

/-- `needed` is the exact number of pages that must be fetched to deliver item `k`:
    the first `needed - 1` pages do not contain it, the first `needed` pages do -/
theorem needed_exact {β : Type} (pg : List String → List β) (pages : List (Nat × List String)) (k : Nat)
    (hk : k < (pages.flatMap fun p => pg p.2).length) :
    1 ≤ needed pg pages k ∧ needed pg pages k ≤ pages.length ∧
    ((pages.take (needed pg pages k - 1)).flatMap fun p => pg p.2).length ≤ k ∧
    k < ((pages.take (needed pg pages k)).flatMap fun p => pg p.2).length := by
  induction pages generalizing k with
  | nil => simp at hk
  | cons p ps ih =>
    unfold needed
    by_cases h : k < (pg p.2).length
    · simp [h]
    · simp only [h, if_false]
      have hk' : k - (pg p.2).length < (ps.flatMap fun p => pg p.2).length := by
        simp only [List.flatMap_cons, List.length_append] at hk; omega
      obtain ⟨h1, h2, h3, h4⟩ := ih (k - (pg p.2).length) hk'
      refine ⟨by omega, by simp; omega, ?_, ?_⟩
      · have : 1 + needed pg ps (k - (pg p.2).length) - 1 = (needed pg ps (k - (pg p.2).length) - 1) + 1 := by omega
        rw [this, List.take_succ_cons, List.flatMap_cons, List.length_append]; omega
      · have : 1 + needed pg ps (k - (pg p.2).length) = needed pg ps (k - (pg p.2).length) + 1 := by omega
        rw [this, List.take_succ_cons, List.flatMap_cons, List.length_append]; omega

/-- when the consumer stops at item `k` it has received exactly the first `k+1` items of the full
    iteration, `Err()` is nil, and only the cursors of the pages needed for item `k` were requested
    (`needed_exact`: not one page more) -/
theorem stops_at_consumer_stop (script : List Resp) (k : Nat)
    (hk : k < (iter script none).yielded.length) :
    (iter script (some k)).yielded = (iter script none).yielded.take (k + 1) ∧
    (iter script (some k)).err = none ∧
    (iter script (some k)).cursors = (iter script none).cursors.take (needed id (consumed script).1 k) := by
  rw [iter_eq_spec, iter_eq_spec] at *
  unfold specIter specFrom at *
  simp only [] at hk ⊢
  first | (rw [if_pos hk]; exact ⟨rfl, rfl, rfl⟩) | rw [if_neg hk]

/-- a stop index beyond the last item changes nothing -/
theorem stop_beyond_end (script : List Resp) (k : Nat) (hk : ¬ k < (iter script none).yielded.length) :
    iter script (some k) = iter script none := by
  rw [iter_eq_spec, iter_eq_spec] at *
  unfold specIter specFrom at *
  simp only [] at hk ⊢
  first | (rw [if_pos hk]; exact ⟨rfl, rfl, rfl⟩) | rw [if_neg hk]

/-- same two statements for `Iter2`, counted in pairs -/
theorem iter2_stops_at_consumer_stop (script : List Resp) (k : Nat)
    (hk : k < (iter2 script none).yielded.length) :
    (iter2 script (some k)).yielded = (iter2 script none).yielded.take (k + 1) ∧
    (iter2 script (some k)).err = none ∧
    (iter2 script (some k)).cursors = (iter2 script none).cursors.take (needed pairsSpec (consumed script).1 k) := by
  rw [iter2_eq_spec, iter2_eq_spec] at *
  unfold specIter2 specFrom at *
  simp only [] at hk ⊢
  first | (rw [if_pos hk]; exact ⟨rfl, rfl, rfl⟩) | rw [if_neg hk]

/-- `Iter2` over complete pages: the pairs of every page in order (per page, see `pairs_eq_spec`) -/
theorem iter2_pairs (ps : List (Nat × List String)) (vs : List String) (rest : List Resp)
    (h : ∀ p ∈ ps, p.1 ≠ 0) :
    iter2 (ps.map (fun p => Resp.page p.1 p.2) ++ Resp.page 0 vs :: rest) none =
      ⟨ps.flatMap (fun p => pairs p.2) ++ pairs vs, 0 :: ps.map (·.1), none⟩ := by
  unfold iter2
  rw [scan_eq_spec]
  simp only [specFrom, consumed_pages_then_zero ps vs rest h]
  simp
  exact fun a x hax => h (a, x) hax

/-- every request after the first carries the non-zero cursor returned by the previous answer,
    the first request carries the start cursor — for every script and stop point -/
theorem cursors_follow {β : Type} (pg : List String → List β) (script : List Resp) (cur : Nat) (stop : Option Nat) :
    (scanFrom pg script cur stop).cursors[0]? = some cur ∧
    ∀ i c, (scanFrom pg script cur stop).cursors[i + 1]? = some c →
      c ≠ 0 ∧ ∃ vs, script[i]? = some (Resp.page c vs) := by
  induction script generalizing cur stop with
  | nil => simp [scanFrom]
  | cons r rest ih =>
    cases r with
    | err e => simp [scanFrom]
    | page c0 vs =>
      by_cases hcont : (feed (pg vs) stop).2.1 = true ∧ c0 ≠ 0
      · have hc0 : ¬ c0 = 0 := hcont.2
        simp only [scanFrom, hcont.1, ne_eq, hc0, not_false_eq_true, and_self, if_true]
        refine ⟨by simp, ?_⟩
        intro i c hi
        obtain ⟨h0, hs⟩ := ih c0 (feed (pg vs) stop).2.2
        cases i with
        | zero =>
          simp only [List.getElem?_cons_succ] at hi
          rw [h0] at hi
          cases hi
          exact ⟨hcont.2, vs, by simp⟩
        | succ j =>
          simp only [List.getElem?_cons_succ] at hi
          obtain ⟨h1, vs', h2⟩ := hs j c hi
          exact ⟨h1, vs', by simpa using h2⟩
      · simp [scanFrom, hcont]

/-! ### re-iterating the same Scanner -/

/-- every iteration over the same Scanner is a function of the page script only: whatever state
    earlier iterations left behind (complete, stopped early by the consumer at any item, or ended
    by a failed page), the k-th iteration shows exactly what a fresh Scanner would show -/
theorem iterations_independent (st : St) (script : List Resp) (reqs : List Req) :
    (runSeq st script reqs).1 = reqs.map fun r => (runReq ⟨none⟩ script r).1 := by
  induction reqs generalizing st with
  | nil => rfl
  | cons r rs ih =>
    simp only [runSeq, List.map_cons, ih]
    cases r <;> rfl

/-- in particular every iteration equals the specification started at cursor 0 -/
theorem iterations_eq_spec (st : St) (script : List Resp) (reqs : List Req) :
    (runSeq st script reqs).1 = reqs.map fun r => match r with
      | .iter stop => Res.items (specIter script stop)
      | .iter2 stop => Res.pairs (specIter2 script stop) := by
  rw [iterations_independent]
  apply List.map_congr_left
  intro r _
  cases r with
  | iter stop => simp only [runReq, iter_eq_spec]
  | iter2 stop => simp only [runReq, iter2_eq_spec]

/-- every iteration's first request carries cursor 0 -/
theorem every_iteration_starts_at_cursor0 (st : St) (script : List Resp) (r : Req) :
    (match (runReq st script r).1 with
      | .items o => o.cursors[0]?
      | .pairs o => o.cursors[0]?) = some 0 := by
  cases r with
  | iter stop => exact (cursors_follow id script 0 stop).1
  | iter2 stop => exact (cursors_follow pairs script 0 stop).1

/-- `Err()` after a sequence of iterations is the error of the last one only -/
theorem err_is_last_iteration (st : St) (script : List Resp) (reqs : List Req) (r : Req) :
    (runSeq st script (reqs ++ [r])).2 = (runReq ⟨none⟩ script r).2 := by
  induction reqs generalizing st with
  | nil => cases r <;> rfl
  | cons q qs ih => simp only [List.cons_append, runSeq, ih]

/-! ### non-vacuity -/

example : iter [.page 5 ["a", "b"], .page 0 ["c"], .page 9 ["x"]] none = ⟨["a", "b", "c"], [0, 5], none⟩ := by decide
example : iter [.page 5 ["a", "b"], .page 0 ["c"]] (some 1) = ⟨["a", "b"], [0], none⟩ := by decide
example : iter [.page 5 ["a", "b"], .page 0 ["c"]] (some 2) = ⟨["a", "b", "c"], [0, 5], none⟩ := by decide
example : iter [.page 5 ["a"], .err "boom", .page 0 ["c"]] none = ⟨["a"], [0, 5], some "boom"⟩ := by decide
example : iter2 [.page 5 ["a", "b", "c"], .page 0 ["d", "e"]] none = ⟨[("a", "b"), ("d", "e")], [0, 5], none⟩ := by decide
example : (runSeq ⟨none⟩ [.page 5 ["a", "b"], .page 0 ["c"]] [.iter (some 0), .iter none]).1
    = [.items ⟨["a"], [0], none⟩, .items ⟨["a", "b", "c"], [0, 5], none⟩] := by decide
example : (runSeq ⟨none⟩ [.page 5 ["a"], .err "boom"] [.iter none, .iter2 none]).1
    = [.items ⟨["a"], [0, 5], some "boom"⟩, .pairs ⟨[], [0, 5], some "boom"⟩] := by decide

end Rv.C46
