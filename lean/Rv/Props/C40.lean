/-
C40 — object-mapping saves are optimistic and round-trip.

Chain: `Rv.Gen.LuaScripts` is regenerated from /repo on every run; the `*_pinned` theorems fix
the script texts `Rv.Om.hashSave` / `Rv.Om.jsonSave` were transcribed from (trusted
transcription, differentially tested: Go fake script handlers vs these models on the `s.hs` /
`s.js` lines; the real repositories run end-to-end against the fake and are compared with
`Rv.Om.save` / `fetch` / `jsave` / `jfetch`). A script runs atomically on the server, so an
interleaving of concurrent Saves is a list of script executions: the theorems quantify over
all lists.
-/
import Std.Data.String.ToInt
import Rv.Gen.LuaScripts
import Rv.Model.Om

namespace Rv.C40
open Rv.Om

/-! ### 1. pins -/
theorem hash_save_script_pinned : Rv.Gen.om_hashSaveScript =
  "\nif (ARGV[1] == '')\nthen\n  local e = (#ARGV % 2 == 1) and table.remove(ARGV) or nil\n  if redis.call('HSET',KEYS[1],unpack(ARGV))\n  then\n    if e then redis.call('PEXPIREAT',KEYS[1],e) end\n  end\n  return ARGV[2]\nend\nlocal v = redis.call('HGET',KEYS[1],ARGV[1])\nif (not v or v == ARGV[2])\nthen\n  ARGV[2] = tostring(tonumber(ARGV[2])+1)\n  local e = (#ARGV % 2 == 1) and table.remove(ARGV) or nil\n  if redis.call('HSET',KEYS[1],unpack(ARGV))\n  then\n    if e then redis.call('PEXPIREAT',KEYS[1],e) end\n    return ARGV[2]\n  end\nend\nreturn nil\n" := rfl

theorem json_save_script_pinned : Rv.Gen.om_jsonSaveScript =
  "\nif (ARGV[1] == '')\nthen\n  redis.call('JSON.SET',KEYS[1],'$',ARGV[3])\n  if #ARGV == 4 then redis.call('PEXPIREAT',KEYS[1],ARGV[4]) end\n  return ARGV[2]\nend\nlocal v = redis.call('JSON.GET',KEYS[1],ARGV[1])\nif (not v or v == ARGV[2])\nthen\n  redis.call('JSON.SET',KEYS[1],'$',ARGV[3])\n  local v = redis.call('JSON.NUMINCRBY',KEYS[1],ARGV[1],1)\n  if #ARGV == 4 then redis.call('PEXPIREAT',KEYS[1],ARGV[4]) end\n  return v\nend\nreturn nil\n" := rfl

/-! ### 2. numerals -/
private theorem toInt_toString (n : Int) : (toString n).toInt? = some n := Int.toInt?_repr n
private theorem toString_inj {a b : Int} (h : toString a = toString b) : a = b := Int.repr_injective h
private theorem canonDec_toString (n : Int) : canonDec (toString n) = some n := by
  simp [canonDec]

/-! ### 3. hashes -/
private theorem hget_hset (h : Hash) (k v k' : String) :
    hget (hset h k v) k' = if k = k' then some v else hget h k' := by
  simp [hget, hset]

def findField : List (String × FV) → String → Option FV
  | [], _ => none
  | (m, v) :: r, n => if m = n then some v else findField r n

private theorem findField_none_of_not_mem (fs : List (String × FV)) (n : String)
    (h : n ∉ fs.map (·.1)) : findField fs n = none := by
  induction fs with
  | nil => rfl
  | cons p r ih =>
    obtain ⟨m, v⟩ := p
    simp only [List.map_cons, List.mem_cons, not_or] at h
    simp only [findField]
    rw [if_neg (fun e => h.1 e.symm)]
    exact ih h.2

private theorem findField_of_mem (fs : List (String × FV)) (n : String) (v : FV)
    (hnd : (fs.map (·.1)).Nodup) (hm : (n, v) ∈ fs) : findField fs n = some v := by
  induction fs with
  | nil => cases hm
  | cons p r ih =>
    obtain ⟨m, w⟩ := p
    simp only [List.map_cons, List.nodup_cons] at hnd
    simp only [findField]
    rcases List.mem_cons.1 hm with heq | hmem
    · cases heq; simp
    · have : m ≠ n := fun hmn => hnd.1 (hmn ▸ List.mem_map.2 ⟨(n, v), hmem, rfl⟩)
      rw [if_neg this]
      exact ih hnd.2 hmem

/-- what HSET of the encoded fields leaves under field name `n`: the encoded value of the
entity's field `n` if it has one, otherwise whatever was stored before (nil pointers!) -/
theorem hget_after_fields (fs : List (String × FV)) (h : Hash) (n : String)
    (hd : (fs.map (·.1)).Nodup) :
    hget (hsetPairs h (pairs (encodeFields fs))) n =
      match findField fs n with
      | some v => (match encodeField v with | some s => some s | none => hget h n)
      | none => hget h n := by
  induction fs generalizing h with
  | nil => simp [encodeFields, pairs, hsetPairs, findField]
  | cons p r ih =>
    obtain ⟨m, v⟩ := p
    simp only [List.map_cons, List.nodup_cons] at hd
    cases hv : encodeField v with
    | none =>
      simp only [encodeFields, hv, findField]
      rw [ih h hd.2]
      by_cases hmn : m = n
      · subst hmn
        simp [findField_none_of_not_mem r m hd.1, hv]
      · simp [hmn]
    | some s =>
      simp only [encodeFields, hv, findField, pairs, hsetPairs]
      rw [ih (hset h m s) hd.2, hget_hset]
      by_cases hmn : m = n
      · subst hmn
        simp [findField_none_of_not_mem r m hd.1, hv]
      · simp [hmn]

private theorem encodeFields_even (fs : List (String × FV)) : (encodeFields fs).length % 2 = 0 := by
  induction fs with
  | nil => rfl
  | cons p r ih =>
    obtain ⟨m, v⟩ := p
    cases hv : encodeField v <;> simp [encodeFields, hv] <;> omega

private theorem hsetPairs_length (h : Hash) (ps : List (String × String)) :
    (hsetPairs h ps).length = h.length + ps.length := by
  induction ps generalizing h with
  | nil => simp [hsetPairs]
  | cons p r ih => obtain ⟨k, v⟩ := p; simp [hsetPairs, ih, hset]; omega

private theorem live_idem (now : Int) (st : Option Key) : live now (live now st) = live now st := by
  unfold live
  cases st with
  | none => rfl
  | some k =>
    cases he : k.exp with
    | none => simp [he]
    | some e => by_cases hc : now > e <;> simp [he, hc]

/-! ### 4. the save script on the arguments `toExec` builds -/

/-- well-formedness of a versioned schema/entity pair and the modelled domain -/
structure WF (now : Int) (sch : Schema) (e : Entity) : Prop where
  versioned : sch.vname ≠ ""
  kv : sch.kname ≠ sch.vname
  nodup : (e.fields.map (·.1)).Nodup
  notk : sch.kname ∉ e.fields.map (·.1)
  notv : sch.vname ∉ e.fields.map (·.1)
  dom : e.ver + 1 < verLimit ∧ -verLimit < e.ver + 1
  exat : ∀ t, e.exat = some t → now < t

/-- the hash a successful save leaves behind, over the previous content `h0` -/
def savedHash (sch : Schema) (e : Entity) (h0 : Hash) : Hash :=
  hsetPairs (hset (hset h0 sch.vname (toString (e.ver + 1))) sch.kname e.key) (pairs (encodeFields e.fields))

private theorem splitE_none (a b c d : String) (l : List String) (h : l.length % 2 = 0) :
    splitE (a :: b :: c :: d :: (l ++ [])) = (a :: b :: c :: d :: l, none) := by
  simp [splitE]; omega

private theorem splitE_some (a b c d x : String) (l : List String) (h : l.length % 2 = 0) :
    splitE (a :: b :: c :: d :: (l ++ [x])) = (a :: b :: c :: d :: l, some x) := by
  have h1 : (a :: b :: c :: d :: (l ++ [x])).length % 2 = 1 := by simp; omega
  have h2 : a :: b :: c :: d :: (l ++ [x]) = (a :: b :: c :: d :: l) ++ [x] := by simp
  unfold splitE
  rw [if_pos h1, h2, List.dropLast_concat, List.getLast?_concat]

private def hOf (st : Option Key) : Hash := match st with | some k => k.h | none => []

/-- `store` on the argument list of a versioned save -/
private theorem store_toArgs (now : Int) (sch : Schema) (e : Entity) (st : Option Key)
    (hx : ∀ t, e.exat = some t → now < t) :
    ∃ k', store now (sch.vname :: toString (e.ver + 1) :: sch.kname :: e.key ::
        (encodeFields e.fields ++ extArg e)) st = some (some k')
      ∧ k'.h = savedHash sch e (hOf st)
      ∧ (∀ t, k'.exp = some t → now < t ∨ (∃ k, st = some k ∧ k.exp = some t)) := by
  have hev := encodeFields_even e.fields
  cases hex : e.exat with
  | none =>
    simp only [extArg, hex, store, splitE_none _ _ _ _ _ hev]
    cases st with
    | none => exact ⟨_, rfl, by simp [savedHash, hOf, pairs, hsetPairs], by simp⟩
    | some k => exact ⟨_, rfl, by simp [savedHash, hOf, pairs, hsetPairs], fun t ht => Or.inr ⟨k, rfl, ht⟩⟩
  | some t =>
    have ht := hx t hex
    simp only [extArg, hex, store, splitE_some _ _ _ _ _ _ hev, canonDec_toString]
    rw [if_neg (by omega)]
    cases st with
    | none => exact ⟨_, rfl, by simp [savedHash, hOf, pairs, hsetPairs], fun t' h' => Or.inl (by simp at h'; omega)⟩
    | some k => exact ⟨_, rfl, by simp [savedHash, hOf, pairs, hsetPairs], fun t' h' => Or.inl (by simp at h'; omega)⟩

/-- the version the server holds for the entity (None: no key / no version field yet) -/
def storedVer (now : Int) (sch : Schema) (st : Option Key) : Option String :=
  hfield (live now st) sch.vname

/-- a Save whose version matches the stored one (or creates the key) succeeds, the entity's
version becomes `ver + 1`, and the hash is `savedHash` over the previous content -/
theorem save_fresh (now : Int) (sch : Schema) (e : Entity) (st : Option Key) (wf : WF now sch e)
    (hv : storedVer now sch st = none ∨ storedVer now sch st = some (toString e.ver)) :
    ∃ k', save now sch e st = (some k', .ok (e.ver + 1))
      ∧ k'.h = savedHash sch e (hOf (live now st))
      ∧ live now (some k') = some k' := by
  obtain ⟨k', hs, hh, hexp⟩ := store_toArgs now sch e (live now st) wf.exat
  refine ⟨k', ?_, hh, ?_⟩
  · have hv' : hfield (live now st) sch.vname = none ∨
        hfield (live now st) sch.vname = some (toString e.ver) := hv
    simp only [save, toArgs, hashSave, if_neg wf.versioned, canonDec_toString, wf.dom, and_self, if_true]
    rw [if_pos hv', hs]
    simp [toInt_toString, wf.versioned]
    done
  · unfold live
    cases he : k'.exp with
    | none => simp [he]
    | some t =>
      rcases hexp t he with h | ⟨k, hk, hkt⟩
      · simp only [he]; rw [if_neg (by omega)]
      · -- the expiry was inherited from a key that is live at `now`
        have : live now (live now st) = live now st := live_idem now st
        rw [hk] at this
        unfold live at this
        simp only [hkt] at this
        by_cases hc : now > t
        · simp [hc] at this
        · simp only [he]; rw [if_neg hc]

/-- a Save based on a version other than the stored one fails with ErrVersionMismatch and
changes nothing -/
theorem save_stale (now : Int) (sch : Schema) (e : Entity) (st : Option Key)
    (hver : sch.vname ≠ "") (s : String) (hs : storedVer now sch st = some s) (hne : s ≠ toString e.ver) :
    save now sch e st = (live now st, .mismatch) := by
  have hs' : hfield (live now st) sch.vname = some s := hs
  have h1 : ¬ (some s = none ∨ some s = some (toString e.ver)) := by
    intro h; rcases h with h | h
    · cases h
    · exact hne (Option.some.inj h)
  simp only [save, toArgs, hashSave, if_neg hver, hs', if_neg h1]

/-! ### 5. the property's clauses -/

/-- a successful versioned Save advances the version by exactly one — on the entity and in the
stored hash -/
theorem version_plus_one (now : Int) (sch : Schema) (e : Entity) (st st' : Option Key) (v' : Int)
    (wf : WF now sch e) (h : save now sch e st = (st', .ok v')) :
    v' = e.ver + 1 ∧ storedVer now sch st' = some (toString (e.ver + 1)) := by
  by_cases hv : storedVer now sch st = none ∨ storedVer now sch st = some (toString e.ver)
  · obtain ⟨k', hs, hh, hl⟩ := save_fresh now sch e st wf hv
    rw [hs] at h
    have h1 : st' = some k' := (Prod.mk.inj h).1.symm
    have h2 : v' = e.ver + 1 := by have := (Prod.mk.inj h).2; injection this with this; exact this.symm
    refine ⟨h2, ?_⟩
    subst h1
    simp only [storedVer, hl, hfield, hh, savedHash]
    rw [hget_after_fields _ _ _ wf.nodup, findField_none_of_not_mem _ _ wf.notv, hget_hset, if_neg wf.kv, hget_hset]
    simp
  · cases hsv : storedVer now sch st with
    | none => exact absurd (Or.inl hsv) hv
    | some s =>
      have hne : s ≠ toString e.ver := fun he => hv (Or.inr (by rw [hsv, he]))
      rw [save_stale now sch e st wf.versioned s hsv hne] at h
      cases (Prod.mk.inj h).2

/-- a successful Save stores every field that has an encoding, the key field and the version -/
theorem save_stores_every_field (now : Int) (sch : Schema) (e : Entity) (st st' : Option Key) (v' : Int)
    (wf : WF now sch e) (h : save now sch e st = (st', .ok v')) :
    ∃ k', st' = some k' ∧ live now st' = some k' ∧ hget k'.h sch.kname = some e.key ∧
      ∀ n v s, (n, v) ∈ e.fields → encodeField v = some s → hget k'.h n = some s := by
  by_cases hv : storedVer now sch st = none ∨ storedVer now sch st = some (toString e.ver)
  · obtain ⟨k', hs, hh, hl⟩ := save_fresh now sch e st wf hv
    rw [hs] at h
    refine ⟨k', (Prod.mk.inj h).1.symm, by rw [← (Prod.mk.inj h).1]; exact hl, ?_, ?_⟩
    · rw [hh, savedHash, hget_after_fields _ _ _ wf.nodup, findField_none_of_not_mem _ _ wf.notk, hget_hset]
      simp
    · intro n v s hm hes
      rw [hh, savedHash, hget_after_fields _ _ _ wf.nodup]
      have hf : findField e.fields n = some v := findField_of_mem _ _ _ wf.nodup hm
      simp [hf, hes]
  · cases hsv : storedVer now sch st with
    | none => exact absurd (Or.inl hsv) hv
    | some s =>
      have hne : s ≠ toString e.ver := fun he => hv (Or.inr (by rw [hsv, he]))
      rw [save_stale now sch e st wf.versioned s hsv hne] at h
      cases (Prod.mk.inj h).2

/-- concurrent Saves = any list of script executions -/
def runSaves (now : Int) (sch : Schema) : List Entity → Option Key → List SaveRes
  | [], _ => []
  | e :: r, st => (save now sch e st).2 :: runSaves now sch r (save now sch e st).1

private theorem all_stale (now : Int) (sch : Schema) (v : Int) (es : List Entity) (st : Option Key)
    (hver : sch.vname ≠ "") (hes : ∀ e ∈ es, e.ver = v)
    (s : String) (hs : storedVer now sch st = some s) (hne : s ≠ toString v) :
    ∀ r ∈ runSaves now sch es st, r = .mismatch := by
  induction es generalizing st with
  | nil => intro r hr; cases hr
  | cons e r ih =>
    intro x hx
    have hev : e.ver = v := hes e (List.mem_cons_self ..)
    have hst := save_stale now sch e st hver s hs (hev ▸ hne)
    simp only [runSaves, hst] at hx
    rcases List.mem_cons.1 hx with h | h
    · exact h
    · refine ih (live now st) (fun e' he' => hes e' (List.mem_cons_of_mem _ he')) ?_ x h
      simp only [storedVer, live_idem]; exact hs

/-- among Saves of entities that are all based on the same version `v` (the stored one, or the
key does not exist), executed in any order, exactly the first script execution succeeds and
yields version `v + 1`; every other one returns ErrVersionMismatch -/
theorem at_most_one_save_wins (now : Int) (sch : Schema) (v : Int) (es : List Entity) (st : Option Key)
    (hwf : ∀ e ∈ es, WF now sch e) (hes : ∀ e ∈ es, e.ver = v)
    (hv : storedVer now sch st = none ∨ storedVer now sch st = some (toString v)) :
    ((runSaves now sch es st).filter (fun r => r matches .ok _)).length ≤ 1 ∧
    (∀ r ∈ runSaves now sch es st, r = .ok (v + 1) ∨ r = .mismatch) ∧
    (es ≠ [] → (runSaves now sch es st).head? = some (.ok (v + 1))) := by
  cases es with
  | nil => simp [runSaves]
  | cons e r =>
    have wf := hwf e (List.mem_cons_self ..)
    have hev : e.ver = v := hes e (List.mem_cons_self ..)
    obtain ⟨k', hs, hh, hl⟩ := save_fresh now sch e st wf (hev ▸ hv)
    have hsv : storedVer now sch (some k') = some (toString (v + 1)) := by
      have := (version_plus_one now sch e st (some k') (e.ver + 1) wf hs).2
      rw [hev] at this; exact this
    have hne : toString (v + 1) ≠ toString v := fun h => by have := toString_inj h; omega
    have hrest := all_stale now sch v r (some k') wf.versioned
      (fun e' he' => hes e' (List.mem_cons_of_mem _ he')) _ hsv hne
    simp only [runSaves, hs, hev]
    refine ⟨?_, ?_, fun _ => rfl⟩
    · have : (runSaves now sch r (some k')).filter (fun r => r matches .ok _) = [] := by
        apply List.filter_eq_nil_iff.2
        intro x hx; rw [hrest x hx]; simp
      simp [List.filter_cons, this]
    · intro x hx
      rcases List.mem_cons.1 hx with h | h
      · exact Or.inl h
      · exact Or.inr (hrest x h)

/-! ### 5b. SaveMulti is pointwise -/

/-- SaveMulti reports one result per entity -/
theorem save_multi_length (now : Int) (sch : Schema) (es : List Entity) (st : String → Option Key) :
    (saveMulti now sch es st).2.length = es.length := by
  induction es generalizing st with
  | nil => rfl
  | cons e r ih => simp [saveMulti, ih]

/-- a batch does not touch the keys of entities that are not in it -/
theorem save_multi_other_key (now : Int) (sch : Schema) (es : List Entity) (st : String → Option Key) (k : String)
    (hk : ∀ e ∈ es, e.key ≠ k) : (saveMulti now sch es st).1 k = st k := by
  induction es generalizing st with
  | nil => rfl
  | cons e r ih =>
    simp only [saveMulti]
    rw [ih _ (fun e' he' => hk e' (List.mem_cons_of_mem _ he'))]
    have := hk e (List.mem_cons_self ..)
    simp [Ne.symm this]

/-- SAVEMULTI: the i-th result is exactly the result of Saving the i-th entity on the store as the
earlier members left it — whatever happened to the members before it (refused or saved); with
distinct keys: on what was stored for its key before the batch. So errs[i] is ErrVersionMismatch
iff member i is stale, and a saved member's version is advanced, independently of the others. -/
theorem save_multi_pointwise (now : Int) (sch : Schema) (pre post : List Entity) (e : Entity)
    (st : String → Option Key) :
    (saveMulti now sch (pre ++ e :: post) st).2[pre.length]? =
      some (save now sch e ((saveMulti now sch pre st).1 e.key)).2 := by
  induction pre generalizing st with
  | nil => simp [saveMulti]
  | cons p r ih =>
    simp only [List.cons_append, saveMulti, List.length_cons, List.getElem?_cons_succ]
    exact ih _

theorem save_multi_pointwise_distinct (now : Int) (sch : Schema) (pre post : List Entity) (e : Entity)
    (st : String → Option Key) (hd : ∀ p ∈ pre, p.key ≠ e.key) :
    (saveMulti now sch (pre ++ e :: post) st).2[pre.length]? = some (save now sch e (st e.key)).2 := by
  rw [save_multi_pointwise, save_multi_other_key now sch pre st e.key hd]

/-! ### 6. round trip per converter kind -/

def kindEq : FV → FV → Bool
  | .int _, .int _ | .str _, .str _ | .bool _, .bool _ | .pint _, .pint _
  | .pstr _, .pstr _ | .pbool _, .pbool _ | .raw _, .raw _ | .json _, .json _ => true
  | _, _ => false

/-- integer fields hold int64 values -/
def inRange : FV → Prop
  | .int i => int64Min ≤ i ∧ i ≤ int64Max
  | .pint (some i) => int64Min ≤ i ∧ i ≤ int64Max
  | _ => True

/-- every converter pair of om/conv.go round-trips: int64, string, bool, non-nil *int64,
*string, *bool, byte images ([]byte, []float32, []float64) and JSON images -/
theorem decode_encode (z v : FV) (s : String) (hk : kindEq z v = true) (hr : inRange v)
    (he : encodeField v = some s) : decodeField z s = some v := by
  cases z <;> cases v <;> simp [kindEq] at hk <;> simp only [encodeField] at he
  case int.int a i =>
    cases he; simp only [inRange] at hr
    simp [decodeField, parseInt64, toInt_toString, hr]
  case str.str a x => cases he; rfl
  case bool.bool a b => cases he; cases b <;> simp [decodeField]
  case pint.pint a o =>
    cases o with
    | none => cases he
    | some i =>
      cases he; simp only [inRange] at hr
      simp [decodeField, parseInt64, toInt_toString, hr]
  case pstr.pstr a o => cases o with | none => cases he | some x => cases he; rfl
  case pbool.pbool a o =>
    cases o with
    | none => cases he
    | some b => cases he; cases b <;> simp [decodeField]
  case raw.raw a x => cases he; rfl
  case json.json a x => cases he; rfl

/-- the entity has the schema's field names and kinds, in order -/
def shapeOk : List (String × FV) → List (String × FV) → Prop
  | [], [] => True
  | z :: zs, f :: fs => z.1 = f.1 ∧ kindEq z.2 f.2 = true ∧ shapeOk zs fs
  | _, _ => False

private theorem decodeFields_eq (H : Hash) (zs fs : List (String × FV))
    (hshape : shapeOk zs fs)
    (hst : ∀ f ∈ fs, ∃ s, encodeField f.2 = some s ∧ hget H f.1 = some s)
    (hr : ∀ f ∈ fs, inRange f.2) : decodeFields H zs = some fs := by
  induction zs generalizing fs with
  | nil => cases fs with
    | nil => rfl
    | cons f fs' => simp [shapeOk] at hshape
  | cons z zs' ih =>
   cases fs with
   | nil => simp [shapeOk] at hshape
   | cons f fs' =>
    obtain ⟨zn, zv⟩ := z
    obtain ⟨fn, fv⟩ := f
    obtain ⟨hn, hk, hrest⟩ := hshape
    simp only at hn hk
    subst hn
    obtain ⟨s, hes, hgs⟩ := hst (zn, fv) (List.mem_cons_self ..)
    have ih' := ih fs' hrest (fun f hf => hst f (List.mem_cons_of_mem _ hf)) (fun f hf => hr f (List.mem_cons_of_mem _ hf))
    simp only [decodeFields, ih', hgs, decode_encode zv fv s hk (hr _ (List.mem_cons_self ..)) hes]

/-- MISSING: the full statement (`Fetch` after a successful `Save` returns the saved entity for
ALL field values) is false for the hash repository — see `fetch_after_save_nil_pointer_stale`.
Proved here: for entities all of whose pointer fields are non-nil (every field has an
encoding), with int64 integers, Fetch / FetchCache after a successful Save returns exactly the
saved entity with the version advanced by one. -/
theorem fetch_after_save_eq_partial (now : Int) (sch : Schema) (e : Entity) (st st' : Option Key) (v' : Int)
    (wf : WF now sch e) (h : save now sch e st = (st', .ok v'))
    (hshape : shapeOk sch.fields e.fields)
    (hnonnil : ∀ f ∈ e.fields, (encodeField f.2).isSome)
    (hr : ∀ f ∈ e.fields, inRange f.2) :
    fetch now sch st' = .ok { key := e.key, ver := e.ver + 1, fields := e.fields } := by
  obtain ⟨k', hst', hl, hkey, hfs⟩ := save_stores_every_field now sch e st st' v' wf h
  have hver := (version_plus_one now sch e st st' v' wf h).2
  have hdec : decodeFields k'.h sch.fields = some e.fields := by
    apply decodeFields_eq _ _ _ hshape _ hr
    intro f hf
    obtain ⟨n, v⟩ := f
    obtain ⟨s, hs⟩ := Option.isSome_iff_exists.1 (hnonnil _ hf)
    exact ⟨s, hs, hfs n v s hf hs⟩
  have hvk : hget k'.h sch.vname = some (toString (e.ver + 1)) := by
    simpa [storedVer, hl, hfield] using hver
  have hne : k'.h ≠ [] := by
    intro h0; rw [h0] at hkey; simp [hget] at hkey
  have hd := wf.dom
  have hin : int64Min ≤ e.ver + 1 ∧ e.ver + 1 ≤ int64Max := by
    simp only [verLimit] at hd
    simp only [int64Min, int64Max]
    constructor <;> omega
  have hp : parseInt64 (toString (e.ver + 1)) = some (e.ver + 1) := by
    simp [parseInt64, toInt_toString, hin]
  simp only [fetch, hl, if_neg hne, if_neg wf.versioned, hvk, hp, hdec, hkey, Option.getD_some]

/-- the stored value of a field whose pointer is nil in the saved entity is whatever was stored
before: the hash repository never clears it -/
theorem nil_pointer_keeps_old_value (now : Int) (sch : Schema) (e : Entity) (st : Option Key)
    (wf : WF now sch e) (hv : storedVer now sch st = none ∨ storedVer now sch st = some (toString e.ver))
    (n : String) (v : FV) (hm : (n, v) ∈ e.fields) (hnil : encodeField v = none) :
    ∃ k', save now sch e st = (some k', .ok (e.ver + 1)) ∧ hget k'.h n = hget (hOf (live now st)) n := by
  obtain ⟨k', hs, hh, _⟩ := save_fresh now sch e st wf hv
  refine ⟨k', hs, ?_⟩
  have hnv : sch.vname ≠ n := fun hc => wf.notv (hc ▸ List.mem_map.2 ⟨(n, v), hm, rfl⟩)
  have hnk : sch.kname ≠ n := fun hc => wf.notk (hc ▸ List.mem_map.2 ⟨(n, v), hm, rfl⟩)
  rw [hh, savedHash, hget_after_fields _ _ _ wf.nodup, findField_of_mem _ _ _ wf.nodup hm]
  simp [hnil, hget_hset, hnv, hnk]

/-! The witness the harness replays (`om:hash:nil-pointer-field-not-cleared`): save `pi = &7`
at version 0, then `pi = nil` at version 1, fetch. -/
def wSch : Schema := ⟨"id", "ver", [("pi", .pint none)]⟩
def wE1 : Entity := { key := "w", ver := 0, fields := [("pi", .pint (some 7))] }
def wE2 : Entity := { key := "w", ver := 1, fields := [("pi", .pint none)] }

private theorem wWF (e : Entity) (h1 : e.fields.map (·.1) = ["pi"]) (h2 : e.ver = 0 ∨ e.ver = 1) (h3 : e.exat = none) :
    WF 0 wSch e := by
  refine ⟨by decide, by decide, by rw [h1]; simp, by rw [h1]; decide, by rw [h1]; decide, ?_, by simp [h3]⟩
  simp only [verLimit]; rcases h2 with h | h <;> rw [h] <;> omega

/-- negation of the full round-trip clause: both Saves succeed (versions 1 and 2) and the
Fetch afterwards returns `pi = 7`, not the saved `nil` -/
theorem fetch_after_save_nil_pointer_stale :
    ∃ st1 st2, save 0 wSch wE1 none = (st1, .ok 1) ∧ save 0 wSch wE2 st1 = (st2, .ok 2) ∧
      fetch 0 wSch st2 = .ok { key := "w", ver := 2, fields := [("pi", .pint (some 7))] } ∧
      fetch 0 wSch st2 ≠ .ok { key := wE2.key, ver := wE2.ver + 1, fields := wE2.fields } := by
  have wf1 : WF 0 wSch wE1 := wWF wE1 rfl (Or.inl rfl) rfl
  have wf2 : WF 0 wSch wE2 := wWF wE2 rfl (Or.inr rfl) rfl
  obtain ⟨k1, hs1, hh1, hl1⟩ := save_fresh 0 wSch wE1 none wf1 (Or.inl rfl)
  have hv1 := (version_plus_one 0 wSch wE1 none (some k1) _ wf1 hs1).2
  obtain ⟨k2, hs2, hh2, hl2⟩ := save_fresh 0 wSch wE2 (some k1) wf2 (Or.inr hv1)
  have hpi1 : hget k1.h "pi" = some (toString (7 : Int)) := by
    obtain ⟨k', hk', _, _, hf⟩ := save_stores_every_field 0 wSch wE1 none (some k1) _ wf1 hs1
    cases hk'
    exact hf "pi" (.pint (some 7)) _ (by simp [wE1]) rfl
  have hpi2 : hget k2.h "pi" = some (toString (7 : Int)) := by
    obtain ⟨k', hk', hg⟩ := nil_pointer_keeps_old_value 0 wSch wE2 (some k1) wf2 (Or.inr hv1) "pi" (.pint none)
      (by simp [wE2]) rfl
    rw [hs2] at hk'
    cases (Prod.mk.inj hk').1
    rw [hg, hl1]; exact hpi1
  have hv2 := (version_plus_one 0 wSch wE2 (some k1) (some k2) _ wf2 hs2).2
  have hvk : hget k2.h "ver" = some (toString ((1 : Int) + 1)) := by simpa [storedVer, hl2, hfield, wSch, wE2] using hv2
  have hkey : hget k2.h "id" = some "w" := by
    obtain ⟨k', hk', _, hk, _⟩ := save_stores_every_field 0 wSch wE2 (some k1) (some k2) _ wf2 hs2
    cases hk'; exact hk
  have hne : k2.h ≠ [] := by intro h0; rw [h0] at hkey; simp [hget] at hkey
  have hf : fetch 0 wSch (some k2) = .ok { key := "w", ver := 2, fields := [("pi", .pint (some 7))] } := by
    simp only [fetch, hl2, if_neg hne, wSch, hvk, hkey, decodeFields, hpi2, decodeField, parseInt64,
      toInt_toString, int64Min, int64Max]
    simp
  refine ⟨some k1, some k2, hs1, hs2, hf, ?_⟩
  rw [hf]; simp [wE2]

/-! ### 7. JSON repository (document abstract: version field + body; encoding/json trusted) -/

def jstoredVer (now : Int) (st : Option JKey) : Option Int := (jlive now st).map (·.doc.ver)

/-- a JSON Save based on the stored version (or creating the key) succeeds with version + 1 and
stores the document; based on any other version it fails with ErrVersionMismatch and changes nothing -/
theorem json_save (now : Int) (ver : Int) (body : String) (st : Option JKey) (hd : ver + 1 < jsonLimit) :
    (jstoredVer now st = none ∨ jstoredVer now st = some ver →
      jsave now false ver body st = (some { doc := ⟨ver + 1, body⟩ }, .ok (ver + 1))) ∧
    (∀ w, jstoredVer now st = some w → w ≠ ver → jsave now false ver body st = (jlive now st, .mismatch)) := by
  constructor
  · intro hv
    have hc : jlive now st = none ∨ ∃ a, jlive now st = some a ∧ a.doc.ver = ver := by
      simp only [jstoredVer] at hv
      cases hj : jlive now st with
      | none => exact Or.inl rfl
      | some k => right; rcases hv with h | h <;> simp [hj] at h; exact ⟨k, rfl, h⟩
    simp [jsave, jsonSave, hd, jstore]
    rw [if_pos hc]
    simp
  · intro w hw hne
    simp only [jstoredVer] at hw
    cases hj : jlive now st with
    | none => simp [hj] at hw
    | some k =>
      simp only [hj, Option.map_some, Option.some.injEq] at hw
      have h1 : ¬ k.doc.ver = ver := hw ▸ hne
      simp [jsave, jsonSave, hj]
      rw [if_neg h1]

/-- Fetch after a successful JSON Save returns the saved document with the version advanced -/
theorem json_fetch_after_save (now : Int) (ver : Int) (body : String) (st : Option JKey) (hd : ver + 1 < jsonLimit)
    (hv : jstoredVer now st = none ∨ jstoredVer now st = some ver) :
    jfetch now (jsave now false ver body st).1 = some ⟨ver + 1, body⟩ := by
  rw [((json_save now ver body st hd).1 hv)]
  simp [jfetch, jlive]

/-! ### 8. non-vacuity -/
example : WF 0 wSch wE1 := wWF wE1 rfl (Or.inl rfl) rfl
example : storedVer 0 wSch none = none := rfl
example : kindEq (.pint none) (.pint (some 7)) = true ∧ inRange (.pint (some 7)) := by
  simp [kindEq, inRange, int64Min, int64Max]

end Rv.C40
